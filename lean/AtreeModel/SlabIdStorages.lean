import AtreeModel.SlabIdBytes
/-
  The three simple storages as state machines over BYTE-level identifiers
  (`AtreeModel/SlabIdBytes.lean`):

  * `LedgerBaseStorage` (storage.go) over an abstract `Ledger` (an interface: three functions on a
    ledger state; `ValueExists` is part of the Go interface but is never called by atree);
  * `InMemBaseStorage` (test_utils/storage_utils.go);
  * `BasicSlabStorage` (storage.go), including `SlabIterator`.

  plus the ledger the harness stream `slabid` uses (`MapLedger`, harness/cmd/trace/slabid.go).
  Go maps are association lists (`AList`, Go's `m[k] = v` is `AList.insert`); where the Go code
  ranges over a map the model uses the list order and the statements / the replayer compare up to
  permutation.  A Go `nil` slab (interface value) is `none`.  Core Lean only.
-/
namespace Atree.SlabIdB
open Atree

/-! ### The `Ledger` interface (storage.go) -/

/-- `Ledger`: each call returns the new ledger state, the result, and whether it returned an
    error.  A Go `nil` value and an empty value are both `[]` (a ledger that distinguishes them is
    outside the model).  `ValueExists` is omitted: no atree function calls it. -/
structure Ledger (Λ : Type) where
  /-- `GetValue(owner, key) (value, err)` -/
  getValue : Λ → Bytes → Bytes → Λ × Bytes × Bool
  /-- `SetValue(owner, key, value) err` -/
  setValue : Λ → Bytes → Bytes → Bytes → Λ × Bool
  /-- `AllocateSlabIndex(owner) (SlabIndex, err)` -/
  allocateSlabIndex : Λ → Bytes → Λ × SlabIndex × Bool

/-! ### `LedgerBaseStorage` -/

/-- `LedgerBaseStorage{ledger, bytesRetrieved, bytesStored}` -/
structure LBS (Λ : Type) where
  ledger : Λ
  bytesRetrieved : Nat := 0
  bytesStored : Nat := 0

/-- every error of `LedgerBaseStorage` is the ledger's error wrapped by
    `wrapErrorfAsExternalErrorIfNeeded` -/
inductive BaseErr where
  | external
deriving DecidableEq, Repr

namespace LBS
variable {Λ : Type} (L : Ledger Λ)

/-- `NewLedgerBaseStorage` -/
def new (l : Λ) : LBS Λ := { ledger := l, bytesRetrieved := 0, bytesStored := 0 }

/-- `LedgerBaseStorage.Retrieve`: `bytesRetrieved += len(v)` happens BEFORE the error check;
    `found` is `len(v) > 0`. -/
def retrieve (s : LBS Λ) (id : SlabIDB) : LBS Λ × Except BaseErr (Bytes × Bool) :=
  let r := L.getValue s.ledger id.address.val (slabIndexToLedgerKey id.index)
  let s' := { s with ledger := r.1, bytesRetrieved := s.bytesRetrieved + r.2.1.length }
  if r.2.2 then (s', .error .external)
  else (s', .ok (r.2.1, decide (r.2.1.length > 0)))

/-- `LedgerBaseStorage.Store`: `bytesStored += len(data)` happens BEFORE the ledger call. -/
def store (s : LBS Λ) (id : SlabIDB) (data : Bytes) : LBS Λ × Except BaseErr Unit :=
  let r := L.setValue s.ledger id.address.val (slabIndexToLedgerKey id.index) data
  let s' := { s with ledger := r.1, bytesStored := s.bytesStored + data.length }
  if r.2 then (s', .error .external) else (s', .ok ())

/-- `LedgerBaseStorage.Remove`: `SetValue(owner, key, nil)`. -/
def remove (s : LBS Λ) (id : SlabIDB) : LBS Λ × Except BaseErr Unit :=
  let r := L.setValue s.ledger id.address.val (slabIndexToLedgerKey id.index) []
  let s' := { s with ledger := r.1 }
  if r.2 then (s', .error .external) else (s', .ok ())

/-- `LedgerBaseStorage.GenerateSlabID` -/
def generateSlabID (s : LBS Λ) (address : Address) : LBS Λ × Except BaseErr SlabIDB :=
  let r := L.allocateSlabIndex s.ledger address.val
  let s' := { s with ledger := r.1 }
  if r.2.2 then (s', .error .external) else (s', .ok (newSlabID address r.2.1))

/-- `ResetReporter` -/
def resetReporter (s : LBS Λ) : LBS Λ := { s with bytesStored := 0, bytesRetrieved := 0 }

/-- `SegmentCounts`, `Size`, `SegmentsReturned`, `SegmentsUpdated`, `SegmentsTouched`: `// TODO return 0` -/
def zeroReporter (_ : LBS Λ) : Nat := 0

end LBS

/-! ### The per-address allocator shared by `BasicSlabStorage` and `InMemBaseStorage` -/

/-- `index := s.slabIndex[address]; nextIndex := index.Next(); s.slabIndex[address] = nextIndex;
     return NewSlabID(address, nextIndex)` (a missing key reads as the zero `SlabIndex`). -/
def genNext (slabIndex : AList Address SlabIndex) (address : Address) :
    SlabIDB × AList Address SlabIndex :=
  let index := (AList.find? slabIndex address).getD SlabIndexUndefined
  let nextIndex := index.next
  (newSlabID address nextIndex, AList.insert slabIndex address nextIndex)

/-! ### `InMemBaseStorage` (test_utils/storage_utils.go) -/

structure InMem where
  segments : AList SlabIDB Bytes := []
  slabIndex : AList Address SlabIndex := []
  bytesRetrieved : Nat := 0
  bytesStored : Nat := 0
  segmentsReturned : AList SlabIDB Unit := []
  segmentsUpdated : AList SlabIDB Unit := []
  segmentsTouched : AList SlabIDB Unit := []

namespace InMem

/-- `NewInMemBaseStorage` -/
def new : InMem := {}

/-- `InMemBaseStorage.Retrieve`: `found` is map membership (an EMPTY segment is found). -/
def retrieve (s : InMem) (id : SlabIDB) : InMem × (Bytes × Bool) :=
  let seg := AList.find? s.segments id
  let s' := { s with bytesRetrieved := s.bytesRetrieved + (seg.getD []).length,
                     segmentsReturned := AList.insert s.segmentsReturned id (),
                     segmentsTouched := AList.insert s.segmentsTouched id () }
  (s', (seg.getD [], seg.isSome))

/-- `InMemBaseStorage.Store` -/
def store (s : InMem) (id : SlabIDB) (data : Bytes) : InMem :=
  { s with segments := AList.insert s.segments id data,
           bytesStored := s.bytesStored + data.length,
           segmentsUpdated := AList.insert s.segmentsUpdated id (),
           segmentsTouched := AList.insert s.segmentsTouched id () }

/-- `InMemBaseStorage.Remove` -/
def remove (s : InMem) (id : SlabIDB) : InMem :=
  { s with segmentsUpdated := AList.insert s.segmentsUpdated id (),
           segmentsTouched := AList.insert s.segmentsTouched id (),
           segments := AList.erase s.segments id }

/-- `InMemBaseStorage.GenerateSlabID` -/
def generateSlabID (s : InMem) (address : Address) : InMem × SlabIDB :=
  let r := genNext s.slabIndex address
  ({ s with slabIndex := r.2 }, r.1)

/-- `SegmentCounts` -/
def segmentCounts (s : InMem) : Nat := s.segments.length
/-- `Size` -/
def size (s : InMem) : Nat := s.segments.foldl (fun total p => total + p.2.length) 0
/-- `SegmentsReturned` / `SegmentsUpdated` / `SegmentsTouched` -/
def segmentsReturnedCount (s : InMem) : Nat := s.segmentsReturned.length
def segmentsUpdatedCount (s : InMem) : Nat := s.segmentsUpdated.length
def segmentsTouchedCount (s : InMem) : Nat := s.segmentsTouched.length

/-- `ResetReporter` -/
def resetReporter (s : InMem) : InMem :=
  { s with bytesStored := 0, bytesRetrieved := 0, segmentsReturned := [], segmentsUpdated := [],
           segmentsTouched := [] }

end InMem

/-! ### `BasicSlabStorage` (storage.go) -/

/-- `BasicSlabStorage{Slabs, slabIndex, …}`; `σ` is the slab type, `none` a `nil` slab. -/
structure Basic (σ : Type) where
  slabs : AList SlabIDB (Option σ) := []
  slabIndex : AList Address SlabIndex := []

/-- `SlabIterator` of `BasicSlabStorage`: the snapshot `slabs` taken when the iterator was made and
    the position `i`. -/
structure BasicIter (σ : Type) where
  entries : List (SlabIDB × Option σ)
  i : Nat := 0

namespace Basic
variable {σ : Type}

/-- `NewBasicSlabStorage` -/
def new : Basic σ := {}

/-- `BasicSlabStorage.GenerateSlabID` (never fails; no special case for the zero address) -/
def generateSlabID (s : Basic σ) (address : Address) : Basic σ × SlabIDB :=
  let r := genNext s.slabIndex address
  ({ s with slabIndex := r.2 }, r.1)

/-- `BasicSlabStorage.RetrieveIfLoaded`: `s.Slabs[id]` (`nil` when absent) -/
def retrieveIfLoaded (s : Basic σ) (id : SlabIDB) : Option σ :=
  (AList.find? s.slabs id).getD none

/-- `BasicSlabStorage.Retrieve`: `slab, ok := s.Slabs[id]` -/
def retrieve (s : Basic σ) (id : SlabIDB) : Option σ × Bool :=
  ((AList.find? s.slabs id).getD none, (AList.find? s.slabs id).isSome)

/-- `BasicSlabStorage.Store`: `s.Slabs[id] = slab` — NO check of the identifier (unlike
    `PersistentSlabStorage.Store`, which rejects `SlabIDUndefined`). -/
def store (s : Basic σ) (id : SlabIDB) (slab : Option σ) : Basic σ :=
  { s with slabs := AList.insert s.slabs id slab }

/-- `BasicSlabStorage.Remove`: `delete(s.Slabs, id)` -/
def remove (s : Basic σ) (id : SlabIDB) : Basic σ :=
  { s with slabs := AList.erase s.slabs id }

/-- `BasicSlabStorage.Count`: `len(s.Slabs)` -/
def count (s : Basic σ) : Nat := s.slabs.length

/-- `BasicSlabStorage.SlabIDs` (in Go map order; here list order) -/
def slabIDs (s : Basic σ) : List SlabIDB := AList.keys s.slabs

/-- Outcome of `BasicSlabStorage.Encode` (parameter: `EncodeSlab`). -/
inductive EncodeRes (β : Type) where
  | ok (m : AList SlabIDB β)
  | error             -- some `EncodeSlab` returned an error (WHICH one depends on map order)
  | nilDeref          -- a `nil` slab is stored: `EncodeSlab(nil)` dereferences it

/-- `BasicSlabStorage.Encode` -/
def encode {β : Type} (enc : σ → Option β) (s : Basic σ) : EncodeRes β :=
  if s.slabs.any (fun p => p.2.isNone) then .nilDeref
  else
    let rs := s.slabs.map (fun p => (p.1, p.2.bind enc))
    if rs.any (fun p => p.2.isNone) then .error
    else .ok (rs.filterMap (fun p => p.2.map (fun b => (p.1, b))))

/-- `BasicSlabStorage.SlabIterator`: copies all entries, returns a closure over them. -/
def slabIterator (s : Basic σ) : BasicIter σ := { entries := s.slabs, i := 0 }

end Basic

/-- One call of the iterator closure: `if i >= len(slabs) { return SlabIDUndefined, nil }`,
    otherwise the entry at `i`, `i++`. -/
def BasicIter.next {σ : Type} (it : BasicIter σ) : BasicIter σ × (SlabIDB × Option σ) :=
  match it.entries[it.i]? with
  | none => (it, (SlabIDUndefined, none))
  | some e => ({ it with i := it.i + 1 }, e)

/-- `n` calls of the iterator closure. -/
def BasicIter.nexts {σ : Type} : Nat → BasicIter σ → List (SlabIDB × Option σ)
  | 0, _ => []
  | n + 1, it => let r := it.next; r.2 :: BasicIter.nexts n r.1

/-- The way `CheckStorageHealth` (storage_health_check.go) consumes a `SlabIterator`:
    `for { id, slab := iterator(); if id == SlabIDUndefined { break }; … }` — fuel `n` bounds the
    loop in the model. -/
def BasicIter.drain {σ : Type} : Nat → BasicIter σ → List (SlabIDB × Option σ)
  | 0, _ => []
  | n + 1, it =>
    let r := it.next
    if r.2.1 = SlabIDUndefined then [] else r.2 :: BasicIter.drain n r.1

/-! ### The ledger of the `slabid` stream (harness/cmd/trace/slabid.go `mapLedger`) -/

/-- `mapLedger{regs map[string][]byte, ctr map[string]uint64, keepEmpty bool, fail …}`.
    `keepEmpty = false`: `SetValue` with an empty value deletes the register (what production
    ledgers do); `keepEmpty = true`: the empty value is kept as a register of length 0.
    `fail` = the plan of failing calls (positions in the sequence of all ledger calls),
    `junk` = what a failing `GetValue` returns as value together with its error. -/
structure MapLedger where
  regs : AList (Bytes × Bytes) Bytes := []
  ctr : AList Bytes Nat := []
  keepEmpty : Bool := false
  calls : Nat := 0
  fail : List Nat := []
  junk : Bytes := []

namespace MapLedger

def failing (l : MapLedger) : Bool := l.fail.contains l.calls

/-- `mapLedger.GetValue` -/
def getValue (l : MapLedger) (owner key : Bytes) : MapLedger × Bytes × Bool :=
  if l.failing then ({ l with calls := l.calls + 1 }, l.junk, true)
  else ({ l with calls := l.calls + 1 }, (AList.find? l.regs (owner, key)).getD [], false)

/-- `mapLedger.SetValue` -/
def setValue (l : MapLedger) (owner key value : Bytes) : MapLedger × Bool :=
  if l.failing then ({ l with calls := l.calls + 1 }, true)
  else
    let regs' :=
      if value.length = 0 ∧ l.keepEmpty = false then AList.erase l.regs (owner, key)
      else AList.insert l.regs (owner, key) value
    ({ l with calls := l.calls + 1, regs := regs' }, false)

/-- `mapLedger.AllocateSlabIndex`: per-owner uint64 counter, `ctr[owner]++`, big-endian. -/
def allocateSlabIndex (l : MapLedger) (owner : Bytes) : MapLedger × SlabIndex × Bool :=
  if l.failing then ({ l with calls := l.calls + 1 }, SlabIndexUndefined, true)
  else
    let n := ((AList.find? l.ctr owner).getD 0 + 1) % 2 ^ 64
    ({ l with calls := l.calls + 1, ctr := AList.insert l.ctr owner n }, indexOfNat n, false)

/-- `mapLedger.ValueExists` (not called by atree; it is what WOULD tell an empty register from an
    absent one) -/
def valueExists (l : MapLedger) (owner key : Bytes) : Bool :=
  (AList.find? l.regs (owner, key)).isSome

/-- the `Ledger` interface value -/
def iface : Ledger MapLedger :=
  { getValue := getValue, setValue := setValue, allocateSlabIndex := allocateSlabIndex }

end MapLedger

/-- `PersistentSlabStorage.GenerateSlabID` (storage.go) over a `LedgerBaseStorage`: the temporary
    (all-zero) address is served from the storage's own `tempSlabIndex`, every other address by the
    base storage.  State: `(tempSlabIndex, base storage)`. -/
def persistGenerate {Λ : Type} (L : Ledger Λ) (temp : Nat) (s : LBS Λ) (address : Address) :
    (Nat × LBS Λ) × Except BaseErr SlabIDB :=
  if address = AddressUndefined then
    let r := tempGenerate temp
    ((r.2, s), .ok r.1)
  else
    let r := s.generateSlabID L address
    ((temp, r.1), r.2)

/-! ### Operation sequences (used by the statements and by the trace replayer) -/

/-- requests to a `LedgerBaseStorage` -/
inductive LOp where
  | retrieve (id : SlabIDB)
  | store (id : SlabIDB) (data : Bytes)
  | remove (id : SlabIDB)
  | gen (address : Address)
  | reset

/-- what a request returns -/
inductive LObs where
  | data (b : Bytes) (found : Bool)
  | unit
  | id (i : SlabIDB)
  | err                         -- an External error
deriving DecidableEq

def LBS.step {Λ : Type} (L : Ledger Λ) (s : LBS Λ) : LOp → LBS Λ × LObs
  | .retrieve id =>
    match s.retrieve L id with
    | (s', .ok (b, f)) => (s', .data b f)
    | (s', .error _) => (s', .err)
  | .store id d =>
    match s.store L id d with
    | (s', .ok ()) => (s', .unit)
    | (s', .error _) => (s', .err)
  | .remove id =>
    match s.remove L id with
    | (s', .ok ()) => (s', .unit)
    | (s', .error _) => (s', .err)
  | .gen a =>
    match s.generateSlabID L a with
    | (s', .ok i) => (s', .id i)
    | (s', .error _) => (s', .err)
  | .reset => (s.resetReporter, .unit)

/-- run a request sequence, collecting the observations -/
def LBS.run {Λ : Type} (L : Ledger Λ) : LBS Λ → List LOp → LBS Λ × List LObs
  | s, [] => (s, [])
  | s, op :: ops =>
    let r := s.step L op
    let rest := LBS.run L r.1 ops
    (rest.1, r.2 :: rest.2)

/-- requests to a `BasicSlabStorage` -/
inductive BOp (σ : Type) where
  | gen (address : Address)
  | store (id : SlabIDB) (slab : Option σ)
  | remove (id : SlabIDB)
  | retrieve (id : SlabIDB)
  | retrieveIfLoaded (id : SlabIDB)
  | count

inductive BObs (σ : Type) where
  | id (i : SlabIDB)
  | unit
  | slab (s : Option σ) (found : Bool)
  | loaded (s : Option σ)
  | n (k : Nat)

def Basic.step {σ : Type} (s : Basic σ) : BOp σ → Basic σ × BObs σ
  | .gen a => let r := s.generateSlabID a; (r.1, .id r.2)
  | .store id v => (s.store id v, .unit)
  | .remove id => (s.remove id, .unit)
  | .retrieve id => (s, .slab (s.retrieve id).1 (s.retrieve id).2)
  | .retrieveIfLoaded id => (s, .loaded (s.retrieveIfLoaded id))
  | .count => (s, .n s.count)

def Basic.run {σ : Type} : Basic σ → List (BOp σ) → Basic σ × List (BObs σ)
  | s, [] => (s, [])
  | s, op :: ops =>
    let r := s.step op
    let rest := Basic.run r.1 ops
    (rest.1, r.2 :: rest.2)

/-- the identifiers handed out during a run -/
def BObs.genID {σ : Type} : BObs σ → Option SlabIDB
  | .id i => some i
  | _ => none

end Atree.SlabIdB
