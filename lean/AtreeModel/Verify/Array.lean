import AtreeModel.Array.Ops
/-
  The library's OWN structural checker for arrays: a functional transcription of the structural
  part of `VerifyArray` (array_verify.go) on the model's array trees.

  `VerifyArray` is the checker the users of atree (and every stream of our harness, as a model-free
  oracle) run to decide "this container is structurally valid".  It is transcribed here check by
  check, in the order of the Go code, so that on a defective tree the model reports the FIRST check
  the Go code would report.  Every error constructor is named after the Go message it stands for.

  What is transcribed: every check on headers, counts, sizes (computed versus stored), the
  min/max thresholds of non-root slabs, the `next` links of the data slabs, the headers a
  metadata slab keeps of its children versus the children, `childrenCountSum`, the root checks
  (address, slab ID, extra data, type information), slab-ID uniqueness, slab addresses, the
  inlined / not-inlined conditions a model tree can express.

  What is left out, because the model tree cannot express it:
    * `verifyArrayValueID`: `Array.ValueID()` is COMPUTED from the root slab ID
      (`slabIDToValueID(a.root.SlabID())`), so the comparison cannot fail for any `*Array`;
      the model has no separate value-ID field.
    * the two remaining branches of `verifyArraySlabID` ("expect empty slab ID for inlined array",
      "expect array slab ID same as root slab's slab ID"): `Array.SlabID()` is computed from the
      root as well, both are dead for every `*Array`.
    * `e.StoredValue(storage)` and the recursive `verifyValue` of the elements (nested containers
      are values of the World model, not of the array core; for the plain values of the array core
      `verifyValue` does nothing), `verifyNotInlinedValueStatusAndSize` (ditto), the
      `!e.Inlined()` checks on inlined child slabs.
    * `IsData()` / the type switch of `verifySlab` / `ArrayMetaDataSlab.Inlined()` (constant
      `false`): decided by the Lean types.
    * comparison with the caller's expected VALUES, hash verification and serialization
      verification (`VerifyArraySerialization`) are separate Go functions.

  Children of a metadata slab are embedded in the model tree: `children[i]` stands for the slab
  `getArraySlab(storage, childrenHeaders[i].slabID)` returns; a missing child is
  `SlabNotFoundError`.  "Is a slab stored under this ID" (`storage.Retrieve(id)` of the
  inlined-slab check) is the field `inStorage` of the verifier.
-/
namespace Atree
open Gen ATree

namespace Verify

/-- The first pair whose condition holds decides the error (an `if c1 {return e1}; if c2 {…}`
    chain). -/
def firstErr {ε : Type} : List (Bool × ε) → Option ε
  | [] => none
  | (c, e) :: rest => if c then some e else firstErr rest

/-- Error classes of `VerifyArray`, one per `return … NewFatalError(fmt.Errorf(…))` site of
    array_verify.go, in order of appearance, named after the message. -/
inductive AVErr where
  /-- "array address %v, got %v" -/
  | arrayAddress
  /-- "expect non-empty slab ID for not-inlined array, got %v" (`verifyArraySlabID`) -/
  | slabIDUndefined
  /-- "root slab %d doesn't have extra data" -/
  | rootNoExtraData
  /-- "root slab %d type information %v is wrong, want %v" -/
  | typeInfoWrong
  /-- "found duplicate slab ID %s" -/
  | duplicateSlabID
  /-- "array slab address %v, got %v" -/
  | slabAddress
  /-- "inlined slab %s is in storage" -/
  | inlinedSlabInStorage
  /-- "non-root slab %s has extra data" -/
  | nonRootHasExtraData
  /-- "slab %s underflows by %d bytes" -/
  | underflow
  /-- "slab %s overflows" -/
  | overflow
  /-- "slab %s header %+v is different from header %+v from parent slab" -/
  | headerMismatch
  /-- "data slab %s header count %d is wrong, want %d" -/
  | dataHeaderCountWrong
  /-- "non-root slab %s is inlined" -/
  | nonRootInlined
  /-- "inlined slab %s doesn't have extra data" -/
  | inlinedNoExtraData
  /-- "inlined slab %s has next slab ID" -/
  | inlinedHasNext
  /-- "data slab %s header size %d is wrong, want %d" -/
  | dataHeaderSizeWrong
  /-- "data slab %s element %s size %d is too large, want < %d" -/
  | elementTooLarge
  /-- "root metadata slab %d has %d children, want at least 2 children " -/
  | rootMetaTooFewChildren
  /-- "metadata slab %d has %d childrenCountSum, want %d" -/
  | countSumLength
  /-- `getArraySlab`: `SlabNotFoundError` ("array slab not found") -/
  | slabNotFound
  /-- "metadata slab %d childrenCountSum[%d] is %d, want %d" -/
  | countSumWrong
  /-- "metadata slab %d header count %d is wrong, want %d" -/
  | metaHeaderCountWrong
  /-- "metadata slab %d header size %d is wrong, want %d" -/
  | metaHeaderSizeWrong
  /-- "root slab %d count %d is wrong, want %d" -/
  | rootCountWrong
  /-- "chained next data slab ids %v are wrong, want %v" -/
  | nextChainWrong
  /-- a Go runtime panic: `dataSlabIDs[1:]` of an empty slice, `childrenCountSum[i]` out of range -/
  | goPanic
deriving DecidableEq, Repr, Inhabited

/-- stable key of an error class (shared with the harness, which classifies the Go message) -/
def AVErr.key : AVErr → String
  | .arrayAddress => "address"
  | .slabIDUndefined => "slabIDUndefined"
  | .rootNoExtraData => "rootNoExtraData"
  | .typeInfoWrong => "typeInfoWrong"
  | .duplicateSlabID => "duplicateSlabID"
  | .slabAddress => "slabAddress"
  | .inlinedSlabInStorage => "inlinedSlabInStorage"
  | .nonRootHasExtraData => "nonRootHasExtraData"
  | .underflow => "underflow"
  | .overflow => "overflow"
  | .headerMismatch => "headerMismatch"
  | .dataHeaderCountWrong => "dataHeaderCountWrong"
  | .nonRootInlined => "nonRootInlined"
  | .inlinedNoExtraData => "inlinedNoExtraData"
  | .inlinedHasNext => "inlinedHasNext"
  | .dataHeaderSizeWrong => "dataHeaderSizeWrong"
  | .elementTooLarge => "elementTooLarge"
  | .rootMetaTooFewChildren => "rootMetaTooFewChildren"
  | .countSumLength => "countSumLength"
  | .slabNotFound => "slabNotFound"
  | .countSumWrong => "countSumWrong"
  | .metaHeaderCountWrong => "metaHeaderCountWrong"
  | .metaHeaderSizeWrong => "metaHeaderSizeWrong"
  | .rootCountWrong => "rootCountWrong"
  | .nextChainWrong => "nextChainWrong"
  | .goPanic => "PANIC"

/-- `arrayVerifier` (array_verify.go) together with the package-level threshold in force.
    `tic`, `hip` and `inlineEnabled` only reach code that is left out (see the header). -/
structure AVerifier where
  /-- `targetThreshold` (settings.go), from which `minThreshold`, `maxThreshold`,
      `maxInlineArrayElementSize` derive -/
  T : Nat
  /-- `_, exist, _ := v.storage.Retrieve(id)` -/
  inStorage : SlabID → Bool
  /-- `v.address` (as a number, like `SlabID.addr`) -/
  address : Nat

/-- The three accumulators `verifySlab` threads through the traversal: `dataSlabIDs`,
    `nextDataSlabIDs` (slices, appended to) and `slabIDs` (a Go map used as a set; here the list
    of the IDs in the order they were added). -/
structure AVAcc where
  dataSlabIDs : List SlabID
  nextDataSlabIDs : List SlabID
  slabIDs : List SlabID
deriving Repr, DecidableEq

/-- result of `verifySlab` / `verifyDataSlab` / `verifyMetaDataSlab`: `elementCount` and the
    accumulators -/
abbrev AVRes := Except AVErr (Nat × AVAcc)

/-- `ArraySlab.Inlined()`: the field for a data slab, constant `false` for a metadata slab. -/
def inlinedOf : (d : Nat) → ATree d → Bool
  | 0, (s : DataSlab) => s.inlined
  | _ + 1, _ => false

/-- The part of `arrayVerifier.verifySlab` before the type switch: the checks every slab gets.
    `hdr`, `inlined`, `extra` (= `ExtraData() != nil`), `underflow`, `full` are the slab's answers
    to `Header()`, `Inlined()`, `ExtraData()`, `IsUnderflow()`, `IsFull()`. -/
def slabChecks (v : AVerifier) (hdr : Hdr) (inlined extra : Bool) (underflow : Option Nat) (full : Bool)
    (level : Nat) (headerFromParentSlab : Option Hdr) (slabIDs : List SlabID) : List (Bool × AVErr) :=
  [ -- Verify SlabID is unique
    (slabIDs.any (fun x => decide (x = hdr.id)), .duplicateSlabID),
    -- Verify slab address (independent of array inlined status)
    (decide (v.address ≠ hdr.id.addr), .slabAddress),
    -- Verify that inlined slab is not in storage
    (inlined && v.inStorage hdr.id, .inlinedSlabInStorage),
    -- Verify that non-root slab doesn't have extra data
    (decide (level > 0) && extra, .nonRootHasExtraData),
    -- Verify that non-root slab doesn't underflow
    (decide (level > 0) && underflow.isSome, .underflow),
    -- Verify that slab doesn't overflow
    (full, .overflow),
    -- Verify that header is in sync with header from parent slab
    (match headerFromParentSlab with
      | some h => decide (h ≠ hdr)
      | none => false, .headerMismatch) ]

/-- the prefix `verifyDataSlab` adds to the element sizes: by LEVEL and inlined status (not by the
    slab's own extra data, which is what `getPrefixSize` looks at) -/
def dataPrefixAt (level : Nat) (inlined : Bool) : Nat :=
  if level = 0 then (if inlined then inlinedArrayDataSlabPrefixSize else arrayRootDataSlabPrefixSize)
  else arrayDataSlabPrefixSize

/-- the checks of `arrayVerifier.verifyDataSlab`, in order -/
def dataChecks (v : AVerifier) (s : DataSlab) (level : Nat) : List (Bool × AVErr) :=
  [ -- Verify that element count is the same as header.count
    (decide (s.elems.length ≠ s.hdr.count), .dataHeaderCountWrong),
    -- Verify that only root data slab can be inlined
    (s.inlined && decide (level > 0), .nonRootInlined),
    (s.inlined && !s.root, .inlinedNoExtraData),
    (s.inlined && decide (s.next ≠ SlabID.undef), .inlinedHasNext),
    -- Verify that aggregated element size + slab prefix is the same as header.size
    (decide (dataPrefixAt level s.inlined + sumSizes s.elems ≠ s.hdr.size), .dataHeaderSizeWrong),
    -- Verify element size <= inline size  (first statement of the per-element loop that the
    -- model can express)
    (s.elems.any (fun e => decide (e.size > maxInlineArr v.T)), .elementTooLarge) ]

/-- `arrayVerifier.verifyDataSlab` -/
def verifyDataSlab (v : AVerifier) (s : DataSlab) (level : Nat) (acc : AVAcc) : AVRes :=
  match firstErr (dataChecks v s level) with
  | some e => .error e
  | none =>
    .ok (s.hdr.count,
      { acc with
        dataSlabIDs := acc.dataSlabIDs ++ [s.hdr.id],
        nextDataSlabIDs := if s.next ≠ SlabID.undef then acc.nextDataSlabIDs ++ [s.next]
                           else acc.nextDataSlabIDs })

/-- The loop `for i := range metaSlab.childrenHeaders` of `verifyMetaDataSlab`.
    `children` are the slabs `getArraySlab` returns for the headers, position by position;
    `verifyChild c h` is `v.verifySlab(childSlab, level+1, &h, …)`. -/
def verifyChildren {α : Type} (verifyChild : α → Hdr → AVAcc → AVRes) :
    List Hdr → List α → List Nat → Nat → AVAcc → AVRes
  | [], _, _, computedCount, acc => .ok (computedCount, acc)
  | _ :: _, [], _, _, _ => .error .slabNotFound
  | h :: hs, c :: cs, sums, computedCount, acc =>
    match verifyChild c h acc with
    | .error e => .error e
    | .ok (count, acc) =>
      let computedCount := computedCount + count
      -- Verify childrenCountSum
      match sums with
      | [] => .error .goPanic     -- excluded by the length check before the loop
      | s :: ss =>
        if s ≠ computedCount then .error .countSumWrong
        else verifyChildren verifyChild hs cs ss computedCount acc

/-- `arrayVerifier.verifyMetaDataSlab`; `verifyChild` is `v.verifySlab` one level down. -/
def verifyMetaDataSlab {α : Type} (verifyChild : α → Nat → Option Hdr → AVAcc → AVRes)
    (m : MetaSlab α) (level : Nat) (acc : AVAcc) : AVRes :=
  -- Verify that root slab has more than one child slabs
  if level = 0 ∧ m.childHdrs.length < 2 then .error .rootMetaTooFewChildren
  -- Verify childrenCountSum
  else if m.countSum.length ≠ m.childHdrs.length then .error .countSumLength
  else
    match verifyChildren (fun c h acc => verifyChild c (level + 1) (some h) acc)
            m.childHdrs m.children m.countSum 0 acc with
    | .error e => .error e
    | .ok (computedCount, acc) =>
      -- Verify that aggregated element count is the same as header.count
      if computedCount ≠ m.hdr.count then .error .metaHeaderCountWrong
      -- Verify that aggregated header size + slab prefix is the same as header.size
      else if m.childHdrs.length * arraySlabHeaderSize + arrayMetaDataSlabPrefixSize ≠ m.hdr.size then
        .error .metaHeaderSizeWrong
      else .ok (m.hdr.count, acc)

/-- `arrayVerifier.verifySlab` -/
def verifySlab (v : AVerifier) : (d : Nat) → ATree d → Nat → Option Hdr → AVAcc → AVRes
  | 0, (s : DataSlab), level, headerFromParentSlab, acc =>
    match firstErr (slabChecks v s.hdr s.inlined s.root (s.isUnderflow v.T) (s.isFull v.T)
            level headerFromParentSlab acc.slabIDs) with
    | some e => .error e
    | none => verifyDataSlab v s level { acc with slabIDs := acc.slabIDs ++ [s.hdr.id] }
  | d + 1, (m : MetaSlab (ATree d)), level, headerFromParentSlab, acc =>
    match firstErr (slabChecks v m.hdr false m.root (m.isUnderflow v.T) (m.isFull v.T)
            level headerFromParentSlab acc.slabIDs) with
    | some e => .error e
    | none => verifyMetaDataSlab (verifySlab v d) m level { acc with slabIDs := acc.slabIDs ++ [m.hdr.id] }

/-- the root checks of `verifyArray` before the traversal, in order
    (`typeInfo` = the caller's expectation, `none` = Go's `typeInfo == nil`) -/
def rootChecks (v : AVerifier) (typeInfo : Option Nat) (a : Arr) : List (Bool × AVErr) :=
  [ -- Verify array address (independent of array inlined status)
    (decide (v.address ≠ a.addr), .arrayAddress),
    -- Verify array slab ID (dependent of array inlined status)
    (!a.isInlined && decide (a.rootID = SlabID.undef), .slabIDUndefined),
    -- Verify array extra data
    (!isRoot a.d a.root, .rootNoExtraData),
    -- Verify that extra data has correct type information
    (match typeInfo with
      | some ty => decide (a.ty ≠ ty)
      | none => false, .typeInfoWrong) ]

/-- The tail of `verifyArray`: "Verify next data slab ids",
    `reflect.DeepEqual(dataSlabIDs[1:], nextDataSlabIDs)` (both slices are non-nil). -/
def chainCheck (dataSlabIDs nextDataSlabIDs : List SlabID) : Except AVErr Unit :=
  match dataSlabIDs with
  | [] => .error .goPanic                      -- `dataSlabIDs[1:]`
  | _ :: rest => if rest = nextDataSlabIDs then .ok () else .error .nextChainWrong

/-- `verifyArray` (array_verify.go), hence `VerifyArray` (which starts it with an empty `slabIDs`). -/
def verifyArray (v : AVerifier) (typeInfo : Option Nat) (a : Arr) : Except AVErr Unit :=
  match firstErr (rootChecks v typeInfo a) with
  | some e => .error e
  | none =>
    -- Verify array slabs
    match verifySlab v a.d a.root 0 none ⟨[], [], []⟩ with
    | .error e => .error e
    | .ok (computedCount, acc) =>
      -- Verify array count
      if computedCount ≠ a.count then .error .rootCountWrong
      -- Verify next data slab ids
      else chainCheck acc.dataSlabIDs acc.nextDataSlabIDs

/-- The verifier as the harness calls it on a standalone array: the expected address is the
    array's, and every slab of the tree is in storage (non-root slabs were retrieved from it, the
    root of a standalone array is stored). -/
def standaloneVerifier (T : Nat) (a : Arr) : AVerifier :=
  { T := T, address := a.addr, inStorage := fun id => (slabIds a.d a.root).any (fun x => decide (x = id)) }

/-- rendering shared with the harness: `ok` or `err:<key>` -/
def renderResult : Except AVErr Unit → String
  | .ok _ => "ok"
  | .error e => "err:" ++ e.key

end Verify
end Atree
