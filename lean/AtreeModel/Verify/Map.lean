import AtreeModel.Map.Ops
import AtreeModel.Verify.Array
/-
  The library's OWN structural checker for maps: a functional transcription of the structural part
  of `VerifyMap` (map_verify.go) on the model's map trees, check by check in the order of the Go
  code (so that on a defective tree the model names the FIRST check the Go code would name).

  Transcribed: the root checks (address, slab ID, extra data, type information, seed), for every
  slab the common checks of `verifySlab` (unique ID, address, inlined-not-in-storage, no extra
  data / no underflow below the root, no overflow, header = the parent's copy), data slabs (first
  key, inlined conditions, size = prefix + elements), metadata slabs (≥ 2 children at the root,
  children, first key = first child's, child first keys sorted and unique, size), the element
  layer (`verifyHkeyElements`, `verifySingleElements`, `verifySingleElement`: levels, number of
  hkeys, hkeys sorted and unique, per-element inline limit at level 0, group sizes, key and value
  size limits, element size, digests = the digester's for the key, digest-level bookkeeping,
  elements size), the count, the `next` links, the first keys of the data slabs sorted and unique.

  Left out, because the model cannot express it:
    * `verifyMapValueID` and the two dead branches of `verifyMapSlabID` (see Verify/Array.lean);
    * `StoredValue` / `verifyValue` of keys and values, `verifyNotInlinedValueStatusAndSize`, the
      `!e.Inlined()` checks on inlined child slabs (nested containers belong to the World model);
    * `anySize` / `collisionGroup` of the tree's data slabs (the model's `MDataSlab` has no such
      fields: they are constant `false` there, constant `true` in a `GroupSlab`);
    * `IsData()`, the type switches (decided by the Lean types: the elements of a data slab are a
      digest table, `MElems 0` is a `singleElements`), `MapMetaDataSlab.Inlined()` (constant false);
    * hashing: `v.digesterBuilder.Digest(hip, kv)` / `DigestPrefix(Levels())` is the field `dg` of
      the verifier (a function of the key under the caller's equality) and `L = Levels()`.

  NOTE (a finding, see C05VerifyMap): for an external collision group the Go code calls
  `e.Elements(storage)` and verifies the ELEMENTS of the group slab; the group slab itself (its
  header size / first key / ID / address / flags / band) is never looked at.  The transcription
  does the same: `GroupSlab.hdr` is not read.
-/
namespace Atree
open Gen

namespace Verify

/-- Error classes of `VerifyMap`, one per `NewFatalError(fmt.Errorf(…))` site of map_verify.go. -/
inductive MVErr where
  /-- "map address %v, got %v" -/
  | mapAddress
  /-- "expect non-empty slab ID for not-inlined array, got %v" (`verifyMapSlabID`) -/
  | slabIDUndefined
  /-- "root slab %d doesn't have extra data" -/
  | rootNoExtraData
  /-- "root slab %d type information %v, want %v" -/
  | typeInfoWrong
  /-- "root slab %d seed is uninitialized" -/
  | seedUninitialized
  /-- "found duplicate slab ID %s" -/
  | duplicateSlabID
  /-- "map slab address %v, got %v" -/
  | slabAddress
  /-- "inlined slab %s is in storage" -/
  | inlinedSlabInStorage
  /-- "non-root slab %d has extra data" -/
  | nonRootHasExtraData
  /-- "slab %d underflows by %d bytes" -/
  | underflow
  /-- "slab %d overflows" -/
  | overflow
  /-- "slab %d header %+v is different from header %+v from parent slab" -/
  | headerMismatch
  /-- "data slab %d header first key %d is wrong, want %d" -/
  | dataFirstKeyWrong
  /-- "non-root slab %s is inlined" -/
  | nonRootInlined
  /-- "inlined slab %s doesn't have extra data" -/
  | inlinedNoExtraData
  /-- "inlined slab %s has next slab ID" -/
  | inlinedHasNext
  /-- "data slab %d header size %d is wrong, want %d" -/
  | dataHeaderSizeWrong
  /-- "root metadata slab %d has %d children, want at least 2 children " -/
  | rootMetaTooFewChildren
  /-- `getMapSlab`: `SlabNotFoundError` -/
  | slabNotFound
  /-- "metadata slab %d header first key %d is wrong, want %d" -/
  | metaFirstKeyWrong
  /-- "metadata slab %d child slab's first key isn't sorted %+v" -/
  | childFirstKeysNotSorted
  /-- "metadata slab %d child header first key isn't unique %v" -/
  | childFirstKeysNotUnique
  /-- "metadata slab %d header size %d is wrong, want %d" -/
  | metaHeaderSizeWrong
  /-- "data slab %d elements digest level %d is wrong, want %d" (`verifyHkeyElements`) -/
  | hkeyLevelWrong
  /-- "data slab %d hkeys count %d is wrong, want %d" -/
  | hkeysCountWrong
  /-- "data slab %d hkeys is not sorted %v" -/
  | hkeysNotSorted
  /-- "data slab %d hkeys is not unique %v" -/
  | hkeysNotUnique
  /-- "data slab %d element %s size %d is too large, want < %d" (both element loops) -/
  | elementTooLarge
  /-- "data slab %d element %s size %d is wrong, want %d" (collision group) -/
  | groupSizeWrong
  /-- "data slab %d, hkey elements %s: digest level %d is wrong, want < %d" -/
  | hkeyDigestLevelWrong
  /-- "data slab %d elements size %d is wrong, want %d" (`verifyHkeyElements`) -/
  | hkeyElementsSizeWrong
  /-- "data slab %d elements level %d is wrong, want %d" (`verifySingleElements`) -/
  | singleLevelWrong
  /-- "data slab %d single elements %s digest level %d is wrong, want %d" -/
  | singleDigestLevelWrong
  /-- "slab %d elements size %d is wrong, want %d" (`verifySingleElements`) -/
  | singleElementsSizeWrong
  /-- "map element key %s size %d exceeds size limit %d" -/
  | keyTooLarge
  /-- "map element value %s size %d exceeds size limit %d" -/
  | valueTooLarge
  /-- "element %s size %d is wrong, want %d" (`verifySingleElement`) -/
  | singleElementSizeWrong
  /-- "element %s digest %v is wrong, want %v" -/
  | digestWrong
  /-- "root slab %d count %d is wrong, want %d" -/
  | rootCountWrong
  /-- "chained next data slab ids %v are wrong, want %v" -/
  | nextChainWrong
  /-- "chained first keys %v are not sorted" -/
  | firstKeysNotSorted
  /-- "chained first keys %v are not unique" -/
  | firstKeysNotUnique
  /-- a Go runtime panic: `dataSlabIDs[1:]` of an empty slice, `childrenHeaders[0]` of an index
      slab without children, `computedDigests[:len(digests)]` beyond the digester's levels -/
  | goPanic
deriving DecidableEq, Repr, Inhabited

/-- stable key of an error class (shared with the harness, which classifies the Go message) -/
def MVErr.key : MVErr → String
  | .mapAddress => "address"
  | .slabIDUndefined => "slabIDUndefined"
  | .rootNoExtraData => "rootNoExtraData"
  | .typeInfoWrong => "typeInfoWrong"
  | .seedUninitialized => "seedUninitialized"
  | .duplicateSlabID => "duplicateSlabID"
  | .slabAddress => "slabAddress"
  | .inlinedSlabInStorage => "inlinedSlabInStorage"
  | .nonRootHasExtraData => "nonRootHasExtraData"
  | .underflow => "underflow"
  | .overflow => "overflow"
  | .headerMismatch => "headerMismatch"
  | .dataFirstKeyWrong => "dataFirstKeyWrong"
  | .nonRootInlined => "nonRootInlined"
  | .inlinedNoExtraData => "inlinedNoExtraData"
  | .inlinedHasNext => "inlinedHasNext"
  | .dataHeaderSizeWrong => "dataHeaderSizeWrong"
  | .rootMetaTooFewChildren => "rootMetaTooFewChildren"
  | .slabNotFound => "slabNotFound"
  | .metaFirstKeyWrong => "metaFirstKeyWrong"
  | .childFirstKeysNotSorted => "childFirstKeysNotSorted"
  | .childFirstKeysNotUnique => "childFirstKeysNotUnique"
  | .metaHeaderSizeWrong => "metaHeaderSizeWrong"
  | .hkeyLevelWrong => "hkeyLevelWrong"
  | .hkeysCountWrong => "hkeysCountWrong"
  | .hkeysNotSorted => "hkeysNotSorted"
  | .hkeysNotUnique => "hkeysNotUnique"
  | .elementTooLarge => "elementTooLarge"
  | .groupSizeWrong => "groupSizeWrong"
  | .hkeyDigestLevelWrong => "hkeyDigestLevelWrong"
  | .hkeyElementsSizeWrong => "hkeyElementsSizeWrong"
  | .singleLevelWrong => "singleLevelWrong"
  | .singleDigestLevelWrong => "singleDigestLevelWrong"
  | .singleElementsSizeWrong => "singleElementsSizeWrong"
  | .keyTooLarge => "keyTooLarge"
  | .valueTooLarge => "valueTooLarge"
  | .singleElementSizeWrong => "singleElementSizeWrong"
  | .digestWrong => "digestWrong"
  | .rootCountWrong => "rootCountWrong"
  | .nextChainWrong => "nextChainWrong"
  | .firstKeysNotSorted => "firstKeysNotSorted"
  | .firstKeysNotUnique => "firstKeysNotUnique"
  | .goPanic => "PANIC"

/-- `mapVerifier` (map_verify.go) together with the package-level threshold in force. -/
structure MVerifier where
  /-- `targetThreshold` -/
  T : Nat
  /-- `digest.Levels()` of the map's digester -/
  L : Nat
  /-- `_, exist, _ := v.storage.Retrieve(id)` -/
  inStorage : SlabID → Bool
  /-- `v.address` -/
  address : Nat
  /-- `v.digesterBuilder.Digest(v.hip, key).DigestPrefix(Levels())` as a function of the key
      `(size, payload)` -/
  dg : Nat × Nat → List Nat

/-- `sort.SliceIsSorted(x, func(i, j) { x[i] < x[j] })`: no element is smaller than its left
    neighbour -/
def sliceIsSorted : List Nat → Bool
  | a :: b :: rest => !(decide (b < a)) && sliceIsSorted (b :: rest)
  | _ => true

/-- the `prev == d` loop that follows every `SliceIsSorted`: two neighbours are equal -/
def hasAdjacentDup : List Nat → Bool
  | a :: b :: rest => decide (a = b) || hasAdjacentDup (b :: rest)
  | _ => false

/-- result of the element verifiers: `(elementCount, elementSize)` -/
abbrev EVRes := Except MVErr (Nat × Nat)

/-- `mapVerifier.verifySingleElement`: `(computedSize, digestMaxLevel)` -/
def verifySingleElement (v : MVerifier) (e : SElem) (digests : List Nat) : EVRes :=
  let valueSizeLimit := maxInlineMapValue v.T e.key.size
  let computedSize := singleElementPrefixSize + e.key.size + e.val.size
  let computedDigests := v.dg (e.key.size, e.key.pay)
  match firstErr
    [ -- Verify key storable's size is less than size limit
      (decide (e.key.size > maxInlineMapKey v.T), MVErr.keyTooLarge),
      -- Verify value storable's size is less than size limit
      (decide (e.val.size > valueSizeLimit), .valueTooLarge),
      -- Verify size
      (decide (computedSize ≠ e.size), .singleElementSizeWrong),
      -- Verify digest: `computedDigests[:len(digests)]` panics beyond the digester's levels
      (decide (digests.length > computedDigests.length), .goPanic),
      (decide (digests ≠ computedDigests.take digests.length), .digestWrong) ] with
  | some err => .error err
  | none => .ok (computedSize, v.L)

/-- the loop of `mapVerifier.verifySingleElements`: accumulated `elementSize` -/
def verifySingleLoop (v : MVerifier) (digestLevel : Nat) (hkeyPrefixes : List Nat) :
    List SElem → Nat → Except MVErr Nat
  | [], elementSize => .ok elementSize
  | e :: es, elementSize =>
    -- Verify element
    match verifySingleElement v e hkeyPrefixes with
    | .error err => .error err
    | .ok (computedSize, maxDigestLevel) =>
      -- Verify element size is <= inline size
      if e.size > maxInlineMapElem v.T then .error .elementTooLarge
      -- Verify digest level
      else if digestLevel ≠ maxDigestLevel then .error .singleDigestLevelWrong
      else verifySingleLoop v digestLevel hkeyPrefixes es (elementSize + computedSize)

/-- `mapVerifier.verifySingleElements` -/
def verifySingleElements (v : MVerifier) (elements : SingleElems) (digestLevel : Nat)
    (hkeyPrefixes : List Nat) : EVRes :=
  -- Verify elements' level
  if digestLevel ≠ elements.level then .error .singleLevelWrong
  else
    match verifySingleLoop v digestLevel hkeyPrefixes elements.elems singleElementsPrefixSize with
    | .error err => .error err
    | .ok elementSize =>
      -- Verify elements size
      if elementSize ≠ elements.size then .error .singleElementsSizeWrong
      else .ok (elements.elems.length, elementSize)

/-- The loop `for i, e := range elements.elems` of `mapVerifier.verifyHkeyElements`:
    `(elementCount, elementSize)`.  `verifyGroup g level hkeys` is `v.verifyElements` on the
    elements of a collision group (`e.Elements(storage)`; an external group's slab is embedded);
    `gsize` is `elements.Size()` of a group's elements. -/
def verifyHkeyLoop {α : Type} (v : MVerifier) (verifyGroup : α → Nat → List Nat → EVRes) (gsize : α → Nat)
    (digestLevel : Nat) (hkeyPrefixes : List Nat) :
    List Nat → List (MElemF α) → Nat → Nat → EVRes
  | _, [], elementCount, elementSize => .ok (elementCount, elementSize)
  | [], _ :: _, _, _ => .error .goPanic          -- `elements.hkeys[i]`: excluded by the length check
  | hk :: hks, e :: es, elementCount, elementSize =>
    let hkeys := hkeyPrefixes ++ [hk]
    let elementSize := elementSize + digestSize
    let esize : Nat :=
      match e with
      | .single x => x.size
      | .inl g => inlineCollisionGroupPrefixSize + gsize g
      | .ext _ sz _ => sz
    -- Verify element size is <= inline size
    if digestLevel = 0 ∧ esize > maxInlineMapElem v.T then .error .elementTooLarge
    else
      match e with
      | .inl g =>
        match verifyGroup g (digestLevel + 1) hkeys with
        | .error err => .error err
        | .ok (count, size) =>
          -- Verify element group size
          if size + inlineCollisionGroupPrefixSize ≠ esize then .error .groupSizeWrong
          else verifyHkeyLoop v verifyGroup gsize digestLevel hkeyPrefixes hks es
                 (elementCount + count) (elementSize + esize)
      | .ext _ _ slab =>
        match verifyGroup slab.elems (digestLevel + 1) hkeys with
        | .error err => .error err
        | .ok (count, _) =>
          -- Verify element group size
          if externalCollisionGroupPrefixSize + 2 + 1 + 16 ≠ esize then .error .groupSizeWrong
          else verifyHkeyLoop v verifyGroup gsize digestLevel hkeyPrefixes hks es
                 (elementCount + count) (elementSize + esize)
      | .single x =>
        -- Verify element
        match verifySingleElement v x hkeys with
        | .error err => .error err
        | .ok (computedSize, maxDigestLevel) =>
          -- Verify digest level
          if digestLevel ≥ maxDigestLevel then .error .hkeyDigestLevelWrong
          else verifyHkeyLoop v verifyGroup gsize digestLevel hkeyPrefixes hks es
                 (elementCount + 1) (elementSize + computedSize)

/-- `mapVerifier.verifyHkeyElements` -/
def verifyHkeyElements {α : Type} (v : MVerifier) (verifyGroup : α → Nat → List Nat → EVRes)
    (gsize : α → Nat) (elements : HkeyElems α) (digestLevel : Nat) (hkeyPrefixes : List Nat) : EVRes :=
  match firstErr
    [ -- Verify element's level
      (decide (digestLevel ≠ elements.level), MVErr.hkeyLevelWrong),
      -- Verify number of hkeys is the same as number of elements
      (decide (elements.hkeys.length ≠ elements.elems.length), .hkeysCountWrong),
      -- Verify hkeys are sorted
      (!sliceIsSorted elements.hkeys, .hkeysNotSorted),
      -- Verify hkeys are unique
      (hasAdjacentDup elements.hkeys, .hkeysNotUnique) ] with
  | some err => .error err
  | none =>
    match verifyHkeyLoop v verifyGroup gsize digestLevel hkeyPrefixes elements.hkeys elements.elems
            0 hkeyElementsPrefixSize with
    | .error err => .error err
    | .ok (elementCount, elementSize) =>
      -- Verify elements size
      if elementSize ≠ elements.size then .error .hkeyElementsSizeWrong
      else .ok (elementCount, elementSize)

/-- `mapVerifier.verifyElements`: the type switch is the recursion on the number of digest levels
    left (`MElems 0` = `singleElements`, `MElems (r+1)` = `hkeyElements`). -/
def verifyElements (v : MVerifier) : (r : Nat) → MElems r → Nat → List Nat → EVRes
  | 0, (se : SingleElems), digestLevel, hkeyPrefixes => verifySingleElements v se digestLevel hkeyPrefixes
  | r + 1, (he : HkeyElems (MElems r)), digestLevel, hkeyPrefixes =>
    verifyHkeyElements v (verifyElements v r) (MElems.ops r).size he digestLevel hkeyPrefixes

/-- the accumulators `verifySlab` threads through the traversal -/
structure MVAcc where
  dataSlabIDs : List SlabID
  nextDataSlabIDs : List SlabID
  firstKeys : List Nat
  slabIDs : List SlabID
deriving Repr, DecidableEq

abbrev MVRes := Except MVErr (Nat × MVAcc)

/-- the part of `mapVerifier.verifySlab` before the type switch -/
def mslabChecks (v : MVerifier) (hdr : MHdr) (inlined extra : Bool) (underflow : Option Nat) (full : Bool)
    (level : Nat) (headerFromParentSlab : Option MHdr) (slabIDs : List SlabID) : List (Bool × MVErr) :=
  [ -- Verify SlabID is unique
    (slabIDs.any (fun x => decide (x = hdr.id)), .duplicateSlabID),
    -- Verify slab address (independent of map inlined status)
    (decide (v.address ≠ hdr.id.addr), .slabAddress),
    -- Verify that inlined slab is not in storage
    (inlined && v.inStorage hdr.id, .inlinedSlabInStorage),
    -- Verify that non-root slab doesn't have extra data.
    (decide (level > 0) && extra, .nonRootHasExtraData),
    -- Verify that non-root slab doesn't underflow
    (decide (level > 0) && underflow.isSome, .underflow),
    -- Verify that slab doesn't overflow
    (full, .overflow),
    -- Verify that header is in sync with header from parent slab
    (match headerFromParentSlab with
      | some h => decide (h ≠ hdr)
      | none => false, .headerMismatch) ]

/-- the prefix `verifyDataSlab` adds to the elements size: by LEVEL and inlined status -/
def mapDataPrefixAt (level : Nat) (inlined : Bool) : Nat :=
  if level = 0 then (if inlined then inlinedMapDataSlabPrefixSize else mapRootDataSlabPrefixSize)
  else mapDataSlabPrefixSize

/-- `mapVerifier.verifyDataSlab` -/
def verifyMapDataSlab {r : Nat} (v : MVerifier) (s : MDataSlab r) (level : Nat) (acc : MVAcc) : MVRes :=
  -- Verify data slab's elements
  match verifyElements v (r + 1) s.elems 0 [] with
  | .error err => .error err
  | .ok (elementCount, elementSize) =>
    match firstErr
      [ -- Verify slab's first key
        (decide (s.elems.firstKey ≠ s.hdr.firstKey), MVErr.dataFirstKeyWrong),
        -- Verify that only root slab can be inlined
        (s.inlined && decide (level > 0), .nonRootInlined),
        (s.inlined && !s.root, .inlinedNoExtraData),
        (s.inlined && decide (s.next ≠ SlabID.undef), .inlinedHasNext),
        -- Verify that aggregated element size + slab prefix is the same as header.size
        (decide (mapDataPrefixAt level s.inlined + elementSize ≠ s.hdr.size), .dataHeaderSizeWrong) ] with
    | some err => .error err
    | none =>
      .ok (elementCount,
        { acc with
          dataSlabIDs := acc.dataSlabIDs ++ [s.hdr.id],
          nextDataSlabIDs := if s.next ≠ SlabID.undef then acc.nextDataSlabIDs ++ [s.next]
                             else acc.nextDataSlabIDs,
          firstKeys := acc.firstKeys ++ [s.hdr.firstKey] })

/-- the loop `for i := range metaSlab.childrenHeaders` of `verifyMetaDataSlab` -/
def verifyMapChildren {α : Type} (verifyChild : α → MHdr → MVAcc → MVRes) :
    List MHdr → List α → Nat → MVAcc → MVRes
  | [], _, elementCount, acc => .ok (elementCount, acc)
  | _ :: _, [], _, _ => .error .slabNotFound
  | h :: hs, c :: cs, elementCount, acc =>
    match verifyChild c h acc with
    | .error err => .error err
    | .ok (count, acc) => verifyMapChildren verifyChild hs cs (elementCount + count) acc

/-- `mapVerifier.verifyMetaDataSlab` -/
def verifyMapMetaDataSlab {α : Type} (verifyChild : α → Nat → Option MHdr → MVAcc → MVRes)
    (m : MMetaSlab α) (level : Nat) (acc : MVAcc) : MVRes :=
  -- Verify that root slab has more than one child slabs
  if level = 0 ∧ m.childHdrs.length < 2 then .error .rootMetaTooFewChildren
  else
    match verifyMapChildren (fun c h acc => verifyChild c (level + 1) (some h) acc)
            m.childHdrs m.children 0 acc with
    | .error err => .error err
    | .ok (elementCount, acc) =>
      match m.childHdrs with
      | [] => .error .goPanic                    -- `metaSlab.childrenHeaders[0]`
      | h0 :: _ =>
        match firstErr
          [ -- Verify slab header first key
            (decide (h0.firstKey ≠ m.hdr.firstKey), MVErr.metaFirstKeyWrong),
            -- Verify that child slab's first keys are sorted.
            (!sliceIsSorted (m.childHdrs.map (·.firstKey)), .childFirstKeysNotSorted),
            -- Verify that child slab's first keys are unique.
            (hasAdjacentDup (m.childHdrs.map (·.firstKey)), .childFirstKeysNotUnique),
            -- Verify slab header's size
            (decide (m.childHdrs.length * mapSlabHeaderSize + mapMetaDataSlabPrefixSize ≠ m.hdr.size),
              .metaHeaderSizeWrong) ] with
        | some err => .error err
        | none => .ok (elementCount, acc)

/-- `mapVerifier.verifySlab` -/
def verifyMapSlab {r : Nat} (v : MVerifier) : (d : Nat) → MTree r d → Nat → Option MHdr → MVAcc → MVRes
  | 0, (s : MDataSlab r), level, headerFromParentSlab, acc =>
    match firstErr (mslabChecks v s.hdr s.inlined s.root (s.isUnderflow v.T) (s.isFull v.T)
            level headerFromParentSlab acc.slabIDs) with
    | some err => .error err
    | none => verifyMapDataSlab v s level { acc with slabIDs := acc.slabIDs ++ [s.hdr.id] }
  | d + 1, (m : MMetaSlab (MTree r d)), level, headerFromParentSlab, acc =>
    match firstErr (mslabChecks v m.hdr false m.root (m.isUnderflow v.T) (m.isFull v.T)
            level headerFromParentSlab acc.slabIDs) with
    | some err => .error err
    | none => verifyMapMetaDataSlab (verifyMapSlab v d) m level
                { acc with slabIDs := acc.slabIDs ++ [m.hdr.id] }

/-- `ExtraData() != nil` of the root slab -/
def mapIsRoot {r : Nat} : (d : Nat) → MTree r d → Bool
  | 0, (s : MDataSlab r) => s.root
  | _ + 1, (m : MMetaSlab _) => m.root

/-- the root checks of `verifyMap` before the traversal -/
def mapRootChecks {r : Nat} (v : MVerifier) (typeInfo : Option Nat) (m : OMap r) : List (Bool × MVErr) :=
  [ -- Verify map address (independent of array inlined status)
    (decide (v.address ≠ m.addr), .mapAddress),
    -- Verify map slab ID (dependent of array inlined status)
    (!m.isInlined && decide (m.rootID = SlabID.undef), .slabIDUndefined),
    -- Verify map extra data
    (!mapIsRoot m.d m.root, .rootNoExtraData),
    -- Verify that extra data has correct type information
    (match typeInfo with
      | some ty => decide (m.ty ≠ ty)
      | none => false, .typeInfoWrong),
    -- Verify that extra data has seed
    (decide (m.seed = 0), .seedUninitialized) ]

/-- The tail of `verifyMap`: the `next` links ("Verify next data slab ids",
    `reflect.DeepEqual(dataSlabIDs[1:], nextDataSlabIDs)`), then the first keys of the data slabs
    sorted, then unique. -/
def mapTailChecks (dataSlabIDs nextDataSlabIDs : List SlabID) (firstKeys : List Nat) : Except MVErr Unit :=
  match dataSlabIDs with
  | [] => .error .goPanic                  -- `dataSlabIDs[1:]`
  | _ :: rest =>
    -- Verify next data slab ids
    if rest = nextDataSlabIDs then
      -- Verify data slabs' first keys are sorted
      if sliceIsSorted firstKeys then
        -- Verify data slabs' first keys are unique
        if hasAdjacentDup firstKeys then .error .firstKeysNotUnique else .ok ()
      else .error .firstKeysNotSorted
    else .error .nextChainWrong

/-- `verifyMap` (map_verify.go), hence `VerifyMap` -/
def verifyMap {r : Nat} (v : MVerifier) (typeInfo : Option Nat) (m : OMap r) : Except MVErr Unit :=
  match firstErr (mapRootChecks v typeInfo m) with
  | some err => .error err
  | none =>
    match verifyMapSlab v m.d m.root 0 none ⟨[], [], [], []⟩ with
    | .error err => .error err
    | .ok (computedCount, acc) =>
      -- Verify that extra data has correct count
      if computedCount ≠ m.count then .error .rootCountWrong
      else mapTailChecks acc.dataSlabIDs acc.nextDataSlabIDs acc.firstKeys

/-- IDs of the slabs of the tree (index and data slabs; NOT the slabs of external collision
    groups, which `VerifyMap` does not register), pre-order -/
def mapTreeIds {r : Nat} : (d : Nat) → MTree r d → List SlabID
  | 0, (s : MDataSlab r) => [s.hdr.id]
  | d + 1, (m : MMetaSlab (MTree r d)) => m.hdr.id :: m.children.flatMap (mapTreeIds d)

def renderMapResult : Except MVErr Unit → String
  | .ok _ => "ok"
  | .error e => "err:" ++ e.key

end Verify
end Atree
