import AtreeModel.Verify.Map
import AtreeModel.Verify.Corrupt
/-
  Field-level corruptions of map trees for the `verifybadmap` correspondence stream (see
  Verify/Corrupt.lean).  Test tooling, not a transcription of Go code.

  An `elements` value inside a data slab is addressed by a PATH: `[]` is the slab's own digest
  table, `i :: rest` descends into the collision group (inline or external) at index `i`.
-/
namespace Atree
open Gen

namespace Verify

def swapAt {α : Type} (l : List α) (i j : Nat) : List α :=
  match l[i]?, l[j]? with
  | some a, some b => (l.set i b).set j a
  | _, _ => l

/-- overwrite inside the `singleElement` `x` -/
def corruptSElem (field : String) (v : Nat) (x : SElem) : SElem :=
  match field with
  | "selsize" => { x with size := v }
  | "keysize" => { x with key := { x.key with size := v } }
  | "valsize" => { x with val := { x.val with size := v } }
  | _ => x

/-- overwrite one field of the `elements` value at `path` -/
def corruptElems (field : String) (i j v : Nat) : (r : Nat) → List Nat → MElems r → MElems r
  | 0, _, (se : SingleElems) =>
    (match field with
     | "esize" => { se with size := v }
     | "elevel" => { se with level := v }
     | "selsize" | "keysize" | "valsize" => { se with elems := setAt se.elems i (corruptSElem field v) }
     | _ => se : SingleElems)
  | r + 1, [], (he : HkeyElems (MElems r)) =>
    (match field with
     | "esize" => { he with size := v }
     | "elevel" => { he with level := v }
     | "hkey" => { he with hkeys := setAt he.hkeys i (fun _ => v) }
     | "drophkey" => { he with hkeys := he.hkeys.dropLast }
     | "swaphkey" => { he with hkeys := swapAt he.hkeys i j }
     | "selsize" | "keysize" | "valsize" =>
       { he with elems := setAt he.elems i (fun el =>
           match el with
           | .single x => .single (corruptSElem field v x)
           | other => other) }
     | "extsize" =>
       { he with elems := setAt he.elems i (fun el =>
           match el with
           | .ext id _ slab => .ext id v slab
           | other => other) }
     | "gslabsize" =>
       { he with elems := setAt he.elems i (fun el =>
           match el with
           | .ext id sz slab => .ext id sz { slab with hdr := { slab.hdr with size := v } }
           | other => other) }
     | "gslabfirst" =>
       { he with elems := setAt he.elems i (fun el =>
           match el with
           | .ext id sz slab => .ext id sz { slab with hdr := { slab.hdr with firstKey := v } }
           | other => other) }
     | _ => he : HkeyElems (MElems r))
  | r + 1, k :: rest, (he : HkeyElems (MElems r)) =>
    ({ he with elems := setAt he.elems k (fun el =>
        match el with
        | .inl g => .inl (corruptElems field i j v r rest g)
        | .ext id sz slab => .ext id sz { slab with elems := corruptElems field i j v r rest slab.elems }
        | .single x => .single x) } : HkeyElems (MElems r))

/-- apply `fd` / `fm` to every tree slab registered under `id` -/
def modMapSlab {r : Nat} (id : SlabID) (fd : MDataSlab r → MDataSlab r)
    (fm : {α : Type} → MMetaSlab α → MMetaSlab α) : (d : Nat) → MTree r d → MTree r d
  | 0, (s : MDataSlab r) => if s.hdr.id = id then fd s else s
  | d + 1, (m : MMetaSlab (MTree r d)) =>
    if m.hdr.id = id then (fm m : MMetaSlab (MTree r d))
    else ({ m with children := m.children.map (modMapSlab id fd fm d) } : MMetaSlab (MTree r d))

def findMapAt {r : Nat} (want : Nat) (id : SlabID) : (d : Nat) → MTree r d → Option (MTree r want)
  | 0, (s : MDataSlab r) =>
    if h : 0 = want then (if s.hdr.id = id then some (h ▸ (s : MTree r 0)) else none) else none
  | d + 1, (m : MMetaSlab (MTree r d)) =>
    if h : d + 1 = want then
      (if m.hdr.id = id then some (h ▸ (m : MTree r (d + 1))) else m.children.findSome? (findMapAt want id d))
    else m.children.findSome? (findMapAt want id d)

def setMapChild {r : Nat} (id : SlabID) (i : Nat) (repl : (d : Nat) → Option (MTree r d)) :
    (d : Nat) → MTree r d → MTree r d
  | 0, s => s
  | d + 1, (m : MMetaSlab (MTree r d)) =>
    if m.hdr.id = id then
      match repl d with
      | some c => ({ m with children := m.children.set i c } : MMetaSlab (MTree r d))
      | none => ({ m with children := m.children.take i } : MMetaSlab (MTree r d))
    else ({ m with children := m.children.map (setMapChild id i repl d) } : MMetaSlab (MTree r d))

/-- One `BAD` line of the verifybadmap stream. -/
def corruptMap {r : Nat} (m : OMap r) (id : SlabID) (field : String) (path : List Nat) (i j v : Nat)
    (nid : SlabID) : Option (OMap r) :=
  let md (fd : MDataSlab r → MDataSlab r) : Option (OMap r) :=
    some { m with root := modMapSlab id fd (fun x => x) m.d m.root }
  let mm (fm : {α : Type} → MMetaSlab α → MMetaSlab α) : Option (OMap r) :=
    some { m with root := modMapSlab id (fun s => s) fm m.d m.root }
  let both (fd : MDataSlab r → MDataSlab r) (fm : {α : Type} → MMetaSlab α → MMetaSlab α) : Option (OMap r) :=
    some { m with root := modMapSlab id fd fm m.d m.root }
  match field with
  -- the extra data of the root
  | "mapcount" => some { m with count := v }
  | "mapseed" => some { m with seed := v }
  -- slab headers and flags
  | "size" => both (fun s => { s with hdr := { s.hdr with size := v } }) (fun x => { x with hdr := { x.hdr with size := v } })
  | "first" => both (fun s => { s with hdr := { s.hdr with firstKey := v } }) (fun x => { x with hdr := { x.hdr with firstKey := v } })
  | "id" => both (fun s => { s with hdr := { s.hdr with id := nid } }) (fun x => { x with hdr := { x.hdr with id := nid } })
  | "extra" => both (fun s => { s with root := decide (v ≠ 0) }) (fun x => { x with root := decide (v ≠ 0) })
  | "next" => md (fun s => { s with next := nid })
  | "inlined" => md (fun s => { s with inlined := decide (v ≠ 0) })
  -- index slabs
  | "childsize" => mm (fun x => { x with childHdrs := setAt x.childHdrs i (fun h => { h with size := v }) })
  | "childfirst" => mm (fun x => { x with childHdrs := setAt x.childHdrs i (fun h => { h with firstKey := v }) })
  | "swapchild" => mm (fun x => { x with childHdrs := swapAt x.childHdrs i j, children := swapAt x.children i j })
  | "dropchildhdr" => mm (fun x => { x with childHdrs := x.childHdrs.dropLast, children := x.children.dropLast })
  | "dropchild" => some { m with root := setMapChild id i (fun _ => none) m.d m.root }
  | "childid" =>
    let r1 := modMapSlab id (fun s => s)
      (fun x => { x with childHdrs := setAt x.childHdrs i (fun h => { h with id := nid }) }) m.d m.root
    some { m with root := setMapChild id i (fun d => findMapAt d nid m.d m.root) m.d r1 }
  -- the element layer of the data slab `id`
  | _ => md (fun s => { s with elems := corruptElems field i j v (r + 1) path s.elems })

end Verify
end Atree
