import AtreeModel.Verify.Array
/-
  Field-level corruptions of array trees, used ONLY by the `verifybad` correspondence stream: the
  harness overwrites one unexported field of one live slab object of a valid container (through
  reflection; nothing is added to /repo), writes a `BAD` line naming the field, and runs the Go
  verifier; the replayer applies the same overwrite to the model tree with the functions below and
  runs the model verifier.  Both must accept / reject alike and name the same check.

  This file is test tooling, not a transcription of Go code.
-/
namespace Atree
open Gen ATree

namespace Verify

/-- apply `fd` / `fm` to every slab registered under `id` (two positions with the same ID stand
    for ONE Go object reached twice) -/
def modSlab (id : SlabID) (fd : DataSlab → DataSlab)
    (fm : {α : Type} → MetaSlab α → MetaSlab α) : (d : Nat) → ATree d → ATree d
  | 0, (s : DataSlab) => if s.hdr.id = id then fd s else s
  | d + 1, (m : MetaSlab (ATree d)) =>
    if m.hdr.id = id then (fm m : MetaSlab (ATree d))
    else ({ m with children := m.children.map (modSlab id fd fm d) } : MetaSlab (ATree d))

/-- the subtree of depth `want` registered under `id`, if any (pre-order) -/
def findAt (want : Nat) (id : SlabID) : (d : Nat) → ATree d → Option (ATree want)
  | 0, (s : DataSlab) =>
    if h : 0 = want then (if s.hdr.id = id then some (h ▸ (s : ATree 0)) else none) else none
  | d + 1, (m : MetaSlab (ATree d)) =>
    if h : d + 1 = want then
      (if m.hdr.id = id then some (h ▸ (m : ATree (d + 1))) else m.children.findSome? (findAt want id d))
    else m.children.findSome? (findAt want id d)

/-- child `i` of the index slab `id` becomes `repl` (what storage returns for the overwritten
    child ID), or disappears together with everything after it when storage has nothing -/
def setChild (id : SlabID) (i : Nat) (repl : (d : Nat) → Option (ATree d)) : (d : Nat) → ATree d → ATree d
  | 0, s => s
  | d + 1, (m : MetaSlab (ATree d)) =>
    if m.hdr.id = id then
      match repl d with
      | some c => ({ m with children := m.children.set i c } : MetaSlab (ATree d))
      | none => ({ m with children := m.children.take i } : MetaSlab (ATree d))
    else ({ m with children := m.children.map (setChild id i repl d) } : MetaSlab (ATree d))

def setAt {α : Type} (l : List α) (i : Nat) (f : α → α) : List α :=
  l.mapIdx (fun j x => if j = i then f x else x)

/-- One `BAD` line: field name, slab ID, and the optional arguments `i`, `v`, `nid`. -/
def corrupt (a : Arr) (id : SlabID) (field : String) (i v : Nat) (nid : SlabID) : Option Arr :=
  let md (fd : DataSlab → DataSlab) : Option Arr := some { a with root := modSlab id fd (fun m => m) a.d a.root }
  let mm (fm : {α : Type} → MetaSlab α → MetaSlab α) : Option Arr :=
    some { a with root := modSlab id (fun s => s) fm a.d a.root }
  let both (fd : DataSlab → DataSlab) (fm : {α : Type} → MetaSlab α → MetaSlab α) : Option Arr :=
    some { a with root := modSlab id fd fm a.d a.root }
  match field with
  | "size" => both (fun s => { s with hdr := { s.hdr with size := v } }) (fun m => { m with hdr := { m.hdr with size := v } })
  | "count" => both (fun s => { s with hdr := { s.hdr with count := v } }) (fun m => { m with hdr := { m.hdr with count := v } })
  | "id" => both (fun s => { s with hdr := { s.hdr with id := nid } }) (fun m => { m with hdr := { m.hdr with id := nid } })
  | "extra" => both (fun s => { s with root := decide (v ≠ 0) }) (fun m => { m with root := decide (v ≠ 0) })
  | "next" => md (fun s => { s with next := nid })
  | "inlined" => md (fun s => { s with inlined := decide (v ≠ 0) })
  | "elemsize" => md (fun s => { s with elems := setAt s.elems i (fun e => { e with size := v }) })
  | "dropelem" => md (fun s => { s with elems := s.elems.dropLast })
  | "childsize" => mm (fun m => { m with childHdrs := setAt m.childHdrs i (fun h => { h with size := v }) })
  | "childcount" => mm (fun m => { m with childHdrs := setAt m.childHdrs i (fun h => { h with count := v }) })
  | "childid" =>
    let r1 := modSlab id (fun s => s)
      (fun m => { m with childHdrs := setAt m.childHdrs i (fun h => { h with id := nid }) }) a.d a.root
    some { a with root := setChild id i (fun d => findAt d nid a.d a.root) a.d r1 }
  | "countsum" => mm (fun m => { m with countSum := setAt m.countSum i (fun _ => v) })
  | "dropcountsum" => mm (fun m => { m with countSum := m.countSum.dropLast })
  -- the slab the dropped header referred to stays in storage, unreferenced: it is no longer part
  -- of the tree, so the embedded child goes as well
  | "dropchildhdr" => mm (fun m => { m with childHdrs := m.childHdrs.dropLast, children := m.children.dropLast })
  | "dropchild" => some { a with root := setChild id i (fun _ => none) a.d a.root }
  | _ => none

end Verify
end Atree
