import AtreeModel.Storage
/-
  Operations of the storage state machine as data (`Op`), one step function (`step`) and the
  abstract specification it refines (`Spec.Overlay`): a write-back overlay of pending changes over
  a committed map.  Used by the driver (correspondence with the real `PersistentSlabStorage`) and
  by the theorems of C15 / C14 / C03 / C08.
-/
namespace Atree

/-- Which commit function. -/
inductive CommitKind where
  | det      -- FastCommit
  | nondet   -- NondeterministicFastCommit
deriving DecidableEq, Repr

inductive Op (σ : Type) where
  | store (id : SlabID) (v : σ)
  | remove (id : SlabID)
  | retrieve (id : SlabID)
  | retrieveIfLoaded (id : SlabID)
  | retrieveIgnoringDeltas (id : SlabID) (cache : Bool)
  /-- commit with a fault plan; for `nondet`, `modOrder`/`delOrder` are the orders in which the
      modified / deleted owned keys are met (ignored by `det`).  The orders are re-validated by
      `step`: entries that are not pending owned keys of the right kind are dropped and missing
      ones appended, so every `Op` value is meaningful. -/
  | commit (kind : CommitKind) (faults : List Nat) (modOrder delOrder : List SlabID)
  | dropDeltas
  | dropCache
  | preload (ids : List SlabID)
  | recreate            -- abandon the in-memory storage, open a new one over the same ledger
  | genID (addr : Nat)

/-- What an operation returns. -/
inductive Obs (σ : Type) where
  | unit
  | slab (v : Option σ)
  | id (i : SlabID)
  | err (e : StErr)
deriving Repr

namespace St
variable {σ β : Type}

def faultPlan (faults : List Nat) : Nat → Bool := fun n => faults.contains n

/-- Normalise a caller-supplied order against the set of keys it must enumerate. -/
def normOrder (want given : List SlabID) : List SlabID :=
  let g := (given.filter (fun k => want.contains k)).eraseDups
  g ++ want.filter (fun k => !g.contains k)

def step (c : Codec σ β) (s : St σ β) : Op σ → St σ β × Obs σ
  | .store id v =>
    match s.store id v with
    | .ok s' => (s', .unit)
    | .error e => (s, .err e)
  | .remove id =>
    match s.remove id with
    | .ok s' => (s', .unit)
    | .error e => (s, .err e)
  | .retrieve id =>
    match s.retrieve c id with
    | .ok (v, s') => (s', .slab v)
    | .error e => (s, .err e)
  | .retrieveIfLoaded id => (s, .slab (s.retrieveIfLoaded id))
  | .retrieveIgnoringDeltas id ch =>
    match s.retrieveIgnoringDeltas c id ch with
    | .ok (v, s') => (s', .slab v)
    | .error e => (s, .err e)
  | .commit .det faults _ _ =>
    let r := s.fastCommit c (faultPlan faults)
    (r.st, match r.err with | none => .unit | some e => .err e)
  | .commit .nondet faults mo dlo =>
    let r := s.nondetCommit c (faultPlan faults) (normOrder s.modifiedOwned mo) (normOrder s.deletedOwned dlo)
    (r.st, match r.err with | none => .unit | some e => .err e)
  | .dropDeltas => (s.dropDeltas, .unit)
  | .dropCache => (s.dropCache, .unit)
  | .preload ids =>
    match s.batchPreload c ids with
    | (s', none) => (s', .unit)
    | (s', some e) => (s', .err e)
  | .recreate => (St.fresh s.base s.alloc, .unit)
  | .genID a => let (i, s') := s.generateSlabID a; (s', .id i)

def run (c : Codec σ β) (s : St σ β) (ops : List (Op σ)) : St σ β :=
  ops.foldl (fun s op => (step c s op).1) s

end St

/-- The abstract specification: pending changes over a committed map. -/
structure Overlay (σ : Type) where
  pend : SlabID → Option (Option σ)   -- some none = pending deletion
  comm : SlabID → Option σ

namespace Overlay
variable {σ : Type}

def view (o : Overlay σ) (id : SlabID) : Option σ :=
  match o.pend id with
  | some v => v
  | none => o.comm id

def store (o : Overlay σ) (id : SlabID) (v : σ) : Overlay σ :=
  { o with pend := fun j => if j = id then some (some v) else o.pend j }

def remove (o : Overlay σ) (id : SlabID) : Overlay σ :=
  { o with pend := fun j => if j = id then some none else o.pend j }

/-- A successful commit: the committed map takes the pending value of every owned identifier and
    the owned pending set becomes empty; temporary identifiers stay pending. -/
def commitAll (o : Overlay σ) : Overlay σ :=
  { pend := fun j => if j.isTemp then o.pend j else none,
    comm := fun j => if j.isTemp then o.comm j else o.view j }

def dropPending (o : Overlay σ) : Overlay σ := { o with pend := fun _ => none }

end Overlay

namespace St
variable {σ β : Type}

/-- Abstraction function. -/
def abs (c : Codec σ β) (s : St σ β) : Overlay σ :=
  { pend := fun id => AList.find? s.deltas id, comm := committed c s }

end St
end Atree
