import AtreeModel.Array.Batch
/-
  Byte slice <-> byte array conversion (C17): functional transcription of array_conversion.go
  (`ByteSliceToByteArray`, `newArrayWithElements`, `ByteArrayToByteSlice`).

  The element type `T` (a `ByteStorableValue`) is caller code: `bsize b` is `T(b).ByteSize()`, and
  `T(b).Storable(...)` returns the value itself (a byte is never externalised).  An element
  `T(b)` is the plain value `{ size := bsize b, pay := .val b }`.
-/
namespace Atree
open Gen ATree

namespace Bytes

/-- `T(b)` as a storable -/
def byteElem (bsize : Nat → Nat) (b : Nat) : Elem := { size := bsize b, pay := .val b }

/-- `newArrayWithElements(storage, address, typeInfo, elements, elementSize)`:
    `NewArray`, then the root is filled in place and stored once more. -/
def newArrayWithElements (addr ty : Nat) (elements : List Elem) (elementSize : Nat) (c : Ctx) : Arr × Ctx :=
  let (a, c) := Arr.new addr ty c
  match a with
  | ⟨0, (root : DataSlab), ty⟩ =>
    let root' : DataSlab :=
      { root with elems := elements,
                  hdr := { root.hdr with count := elements.length, size := root.hdr.size + elementSize } }
    (⟨0, root', ty⟩, c.emit (.store root'.hdr.id))
  | a => (a, c)      -- `array.root.(*ArrayDataSlab)` cannot fail: `NewArray` returns a data slab

/-- `ByteSliceToByteArray[T](storage, address, typeInfo, data, estimatedByteStorableSize)` -/
def byteSliceToByteArray (T addr ty : Nat) (bsize : Nat → Nat) (data : List Nat) (est : Nat) (c : Ctx) :
    BRes (Arr × Ctx) :=
  if data.isEmpty then .ok (Arr.new addr ty c)
  else
    let est := if est = 0 then byteStorableCBORTagSize + byteStorableCBORDataSize else est
    let estimatedEncodedDataSize := est * data.length
    let elements := data.map (byteElem bsize)
    let elementSize := sumSizes elements
    -- "If data can fit into a single data slab, create a new array with root data slab directly."
    if estimatedEncodedDataSize + arrayRootDataSlabPrefixSize < T
        && elementSize + arrayRootDataSlabPrefixSize < T then
      .ok (newArrayWithElements addr ty elements elementSize c)
    else
      -- fall back to `NewArrayFromBatchData`; `T(v).Storable` is the identity
      ABatch.newWith T addr ty (fun v c => (v, c)) elements c

/-- `b, ok := e.(T)` then `byte(b)`.  The type assertion looks at the DYNAMIC GO TYPE of the
    stored element, which a model element (size and payload) does not carry: `isT e` says whether
    the plain value `e` is of the caller's byte type `T`.  A reference (`SlabIDStorable`) never is;
    neither is a plain value of any other type (audit a1, F9: the first version of this function
    accepted every plain value). -/
def elemByte (isT : Elem → Bool) (e : Elem) : Except BErr Nat :=
  match e.pay with
  | .val b => if isT e then .ok b else .error .unexpectedElemType
  | .ref _ => .error .unexpectedElemType

/-- The traversal loop of `ByteArrayToByteSlice`: the elements of `cur`, then follow `next`
    (`getArraySlab(storage, slab.next)` is a lookup among the leaves by slab ID). -/
def collectFrom (isT : Elem → Bool) (all : List DataSlab) : (fuel : Nat) → DataSlab → Except BErr (List Nat)
  | 0, _ => .error .outOfFuel
  | fuel + 1, cur => do
    let bs ← cur.elems.mapM (elemByte isT)
    if cur.next = SlabID.undef then return bs
    else match all.find? (fun s => s.hdr.id == cur.next) with
      | none => .error (.arr .slabNotFound)
      | some nxt => do
        let rest ← collectFrom isT all fuel nxt
        return bs ++ rest

/-- `ByteArrayToByteSlice[T](array)` (`nil` is the empty list); `isT`: see `elemByte` -/
def byteArrayToByteSlice (isT : Elem → Bool) (a : Arr) : Except BErr (List Nat) :=
  if a.count = 0 then .ok []
  else
    let ls := Arr.leaves a.d a.root
    match ls with          -- `firstArrayDataSlab`
    | [] => .error (.arr .slabNotFound)
    | first :: _ => collectFrom isT ls (ls.length + 1) first

end Bytes
end Atree
