import AtreeModel.Gen.Consts
/-
  Transcription of `setThreshold` (settings.go).  All literals come from the generated
  `Gen/Consts.lean`; the five outputs are compared exhaustively with the real `setThreshold`
  for every legal threshold on every check run.
-/
namespace Atree

open Gen

/-- `minSlabSize ≤ T ≤ maxSlabSize` : the thresholds `setThreshold` accepts without panicking. -/
def legalThreshold (T : Nat) : Bool := minSlabSize ≤ T && T ≤ maxSlabSize

/-- `minThreshold = targetThreshold / 2` -/
def minThr (T : Nat) : Nat := T / 2

/-- `maxThreshold = uint32(float64(targetThreshold) * 1.5)`; for `T < 2^32/1.5` this is `⌊3T/2⌋`
    (the float product is exact for integers below 2^52). -/
def maxThr (T : Nat) : Nat := (3 * T) / 2

/-- `maxInlineArrayElementSize = (T - arrayDataSlabPrefixSize) / minElementCountInSlab` -/
def maxInlineArr (T : Nat) : Nat := (T - arrayDataSlabPrefixSize) / minElementCountInSlab

/-- `maxInlineMapElementSize` -/
def maxInlineMapElem (T : Nat) : Nat :=
  (T - mapDataSlabPrefixSize - hkeyElementsPrefixSize) / minElementCountInSlab - digestSize

/-- `maxInlineMapKeySize` -/
def maxInlineMapKey (T : Nat) : Nat := (maxInlineMapElem T - singleElementPrefixSize) / 2

/-- `maxInlineMapValueSize(keySize)` -/
def maxInlineMapValue (T : Nat) (keySize : Nat) : Nat :=
  maxInlineMapElem T - keySize - singleElementPrefixSize

end Atree
