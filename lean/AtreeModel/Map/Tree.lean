import AtreeModel.Map.Elems
/-
  Map slabs and slab trees: functional transcription of map_data_slab.go, map_metadata_slab.go and
  the tree-level part of map.go.  `r + 1` is the digester's number of levels; the elements of a data
  slab are `HkeyElems (MElems r)` (a sorted digest table at level 0).
-/
namespace Atree
open Gen

/-- `MapDataSlab` of the slab tree (not a collision-group slab) -/
structure MDataSlab (r : Nat) where
  hdr     : MHdr
  next    : SlabID
  elems   : HkeyElems (MElems r)
  root    : Bool
  inlined : Bool

/-- `MapMetaDataSlab` with its children embedded -/
structure MMetaSlab (α : Type) where
  hdr       : MHdr
  childHdrs : List MHdr
  children  : List α
  root      : Bool

def MTree (r : Nat) : Nat → Type
  | 0 => MDataSlab r
  | d + 1 => MMetaSlab (MTree r d)

namespace MDataSlab
variable {r : Nat}

def eops (r : Nat) : ElemsOps (MElems r) := MElems.ops r

/-- `getPrefixSize` -/
def prefixSize (s : MDataSlab r) : Nat :=
  if s.inlined then inlinedMapDataSlabPrefixSize
  else if s.root then mapRootDataSlabPrefixSize
  else mapDataSlabPrefixSize

def storeIfNotInlined (s : MDataSlab r) (c : Ctx) : Ctx :=
  if s.inlined then c else c.emit (.store s.hdr.id)

def get (cfg : MCfg) (s : MDataSlab r) (k : MKey) : Except MErr (MKey × Elem) :=
  HkeyElems.get (eops r) cfg s.elems 0 k

/-- `MapDataSlab.Set` -/
def set (cfg : MCfg) (s : MDataSlab r) (k : MKey) (v : Elem) (c : Ctx) :
    Except MErr (MKey × Option Elem × MDataSlab r × Ctx) := do
  let (ks, old, elems, c) ← HkeyElems.set (eops r) cfg s.elems 0 k v c
  let s' : MDataSlab r :=
    { s with elems := elems, hdr := { s.hdr with firstKey := elems.firstKey, size := s.prefixSize + elems.size } }
  return (ks, old, s', s'.storeIfNotInlined c)

/-- `MapDataSlab.Remove` -/
def remove (cfg : MCfg) (s : MDataSlab r) (k : MKey) (c : Ctx) :
    Except MErr (MKey × Elem × MDataSlab r × Ctx) := do
  let (rk, rv, elems, c) ← HkeyElems.remove (eops r) cfg s.elems 0 k c
  let s' : MDataSlab r :=
    { s with elems := elems, hdr := { s.hdr with firstKey := elems.firstKey, size := s.prefixSize + elems.size } }
  return (rk, rv, s', s'.storeIfNotInlined c)

/-- `MapDataSlab.PopIterate` -/
def popIterate (s : MDataSlab r) (c : Ctx) : List (MKey × Elem) × MDataSlab r × Ctx :=
  let (l, c) := HkeyElems.popIter (eops r) s.elems c
  (l, { s with elems := { s.elems with hkeys := [], elems := [], size := hkeyElementsPrefixSize },
               hdr := { s.hdr with size := s.prefixSize + hkeyElementsPrefixSize, firstKey := 0 } }, c)

/-- `MapDataSlab.Split` -/
def split (s : MDataSlab r) (c : Ctx) : Except MErr (MDataSlab r × MDataSlab r × Ctx) :=
  if s.elems.elems.length < 2 then .error .slabSplit
  else
    let (le, re) := HkeyElems.split (eops r) s.elems
    let (sid, c) := c.alloc s.hdr.id.addr
    let right : MDataSlab r :=
      { hdr := { id := sid, size := mapDataSlabPrefixSize + re.size, firstKey := re.firstKey },
        next := s.next, elems := re, root := false, inlined := false }
    let left : MDataSlab r :=
      { s with hdr := { s.hdr with size := mapDataSlabPrefixSize + le.size }, next := sid, elems := le }
    .ok (left, right, c)

/-- `MapDataSlab.Merge` -/
def merge (l rr : MDataSlab r) : MDataSlab r :=
  let e := HkeyElems.merge l.elems rr.elems
  { l with elems := e, hdr := { l.hdr with size := mapDataSlabPrefixSize + e.size, firstKey := e.firstKey },
           next := rr.next }

/-- `MapDataSlab.LendToRight` -/
def lendToRight (T : Nat) (l rr : MDataSlab r) : Except MErr (MDataSlab r × MDataSlab r) := do
  let (le, re) ← HkeyElems.lendToRight (eops r) T l.elems rr.elems
  return ({ l with elems := le, hdr := { l.hdr with size := mapDataSlabPrefixSize + le.size } },
          { rr with elems := re, hdr := { rr.hdr with size := mapDataSlabPrefixSize + re.size, firstKey := re.firstKey } })

/-- `MapDataSlab.BorrowFromRight` -/
def borrowFromRight (T : Nat) (l rr : MDataSlab r) : Except MErr (MDataSlab r × MDataSlab r) := do
  let (le, re) ← HkeyElems.borrowFromRight (eops r) T l.elems rr.elems
  return ({ l with elems := le, hdr := { l.hdr with size := mapDataSlabPrefixSize + le.size, firstKey := le.firstKey } },
          { rr with elems := re, hdr := { rr.hdr with size := mapDataSlabPrefixSize + re.size, firstKey := re.firstKey } })

def isFull (T : Nat) (s : MDataSlab r) : Bool := s.hdr.size > maxThr T
def isUnderflow (T : Nat) (s : MDataSlab r) : Option Nat :=
  if minThr T > s.hdr.size then some (minThr T - s.hdr.size) else none
def canLendToLeft (T : Nat) (s : MDataSlab r) (want : Nat) : Bool := HkeyElems.canLend (eops r) T s.elems want false
def canLendToRight (T : Nat) (s : MDataSlab r) (want : Nat) : Bool := HkeyElems.canLend (eops r) T s.elems want true

end MDataSlab

namespace MMetaSlab
variable {α : Type}

/-- the binary search shared by `getChildSlabByDigest`, `Set` and `Remove`: last index whose
    `firstKey ≤ hkey` (`none` = Go's `ans == -1`) -/
def findChild (hdrs : List MHdr) (hkey : Nat) (i j : Nat) (ans : Option Nat) (fuel : Nat) : Option Nat :=
  match fuel with
  | 0 => ans
  | fuel + 1 =>
    if i < j then
      let h := (i + j) / 2
      if (hdrs.getD h default).firstKey > hkey then findChild hdrs hkey i h ans fuel
      else findChild hdrs hkey (h + 1) j (some h) fuel
    else ans

def isFull (T : Nat) (m : MMetaSlab α) : Bool := m.hdr.size > maxThr T
def isUnderflow (T : Nat) (m : MMetaSlab α) : Option Nat :=
  if minThr T > m.hdr.size then some (minThr T - m.hdr.size) else none

def canLend (T : Nat) (m : MMetaSlab α) (want : Nat) : Bool :=
  let n := (want + mapSlabHeaderSize - 1) / mapSlabHeaderSize
  if m.hdr.size ≥ mapSlabHeaderSize * n then m.hdr.size - mapSlabHeaderSize * n > minThr T else false

/-- `MapMetaDataSlab.Split` -/
def split (m : MMetaSlab α) (c : Ctx) : Except MErr (MMetaSlab α × MMetaSlab α × Ctx) :=
  if m.childHdrs.length < 2 then .error .slabSplit
  else
    let leftN := (m.childHdrs.length + 1) / 2
    let leftSize := leftN * mapSlabHeaderSize
    let (sid, c) := c.alloc m.hdr.id.addr
    let rightHdrs := m.childHdrs.drop leftN
    let right : MMetaSlab α :=
      { hdr := { id := sid, size := m.hdr.size - leftSize, firstKey := (rightHdrs.headD default).firstKey },
        childHdrs := rightHdrs, children := m.children.drop leftN, root := false }
    let left : MMetaSlab α :=
      { m with childHdrs := m.childHdrs.take leftN, children := m.children.take leftN,
               hdr := { m.hdr with size := mapMetaDataSlabPrefixSize + leftSize } }
    .ok (left, right, c)

/-- `MapMetaDataSlab.Merge` -/
def merge (l r : MMetaSlab α) : MMetaSlab α :=
  { l with childHdrs := l.childHdrs ++ r.childHdrs, children := l.children ++ r.children,
           hdr := { l.hdr with size := l.hdr.size + (r.hdr.size - mapMetaDataSlabPrefixSize) } }

/-- `MapMetaDataSlab.LendToRight` -/
def lendToRight (l r : MMetaSlab α) : MMetaSlab α × MMetaSlab α :=
  let total := l.childHdrs.length + r.childHdrs.length
  let leftN := total / 2
  let rightN := total - leftN
  let rightHdrs := l.childHdrs.drop leftN ++ r.childHdrs
  ({ l with childHdrs := l.childHdrs.take leftN, children := l.children.take leftN,
            hdr := { l.hdr with size := mapMetaDataSlabPrefixSize + leftN * mapSlabHeaderSize } },
   { r with childHdrs := rightHdrs, children := l.children.drop leftN ++ r.children,
            hdr := { r.hdr with size := mapMetaDataSlabPrefixSize + rightN * mapSlabHeaderSize,
                                firstKey := (rightHdrs.headD default).firstKey } })

/-- `MapMetaDataSlab.BorrowFromRight` -/
def borrowFromRight (l r : MMetaSlab α) : MMetaSlab α × MMetaSlab α :=
  let total := l.childHdrs.length + r.childHdrs.length
  let leftN := total / 2
  let rightN := total - leftN
  let move := leftN - l.childHdrs.length
  let rightHdrs := r.childHdrs.drop move
  ({ l with childHdrs := l.childHdrs ++ r.childHdrs.take move, children := l.children ++ r.children.take move,
            hdr := { l.hdr with size := mapMetaDataSlabPrefixSize + leftN * mapSlabHeaderSize } },
   { r with childHdrs := rightHdrs, children := r.children.drop move,
            hdr := { r.hdr with size := mapMetaDataSlabPrefixSize + rightN * mapSlabHeaderSize,
                                firstKey := (rightHdrs.headD default).firstKey } })

end MMetaSlab

namespace MTree
variable {r : Nat}

def hdr : (d : Nat) → MTree r d → MHdr
  | 0, (s : MDataSlab r) => s.hdr
  | _ + 1, (m : MMetaSlab _) => m.hdr

def setId : (d : Nat) → MTree r d → SlabID → MTree r d
  | 0, (s : MDataSlab r), id => ({ s with hdr := { s.hdr with id := id } } : MDataSlab r)
  | _ + 1, (m : MMetaSlab _), id => ({ m with hdr := { m.hdr with id := id } } : MMetaSlab _)

def setRoot : (d : Nat) → MTree r d → Bool → MTree r d
  | 0, (s : MDataSlab r), b => ({ s with root := b } : MDataSlab r)
  | _ + 1, (m : MMetaSlab _), b => ({ m with root := b } : MMetaSlab _)

def isFull (T : Nat) : (d : Nat) → MTree r d → Bool
  | 0, (s : MDataSlab r) => s.isFull T
  | _ + 1, (m : MMetaSlab _) => m.isFull T

def isUnderflow (T : Nat) : (d : Nat) → MTree r d → Option Nat
  | 0, (s : MDataSlab r) => s.isUnderflow T
  | _ + 1, (m : MMetaSlab _) => m.isUnderflow T

def canLendToLeft (T : Nat) : (d : Nat) → MTree r d → Nat → Bool
  | 0, (s : MDataSlab r), n => s.canLendToLeft T n
  | _ + 1, (m : MMetaSlab _), n => m.canLend T n

def canLendToRight (T : Nat) : (d : Nat) → MTree r d → Nat → Bool
  | 0, (s : MDataSlab r), n => s.canLendToRight T n
  | _ + 1, (m : MMetaSlab _), n => m.canLend T n

def split : (d : Nat) → MTree r d → Ctx → Except MErr (MTree r d × MTree r d × Ctx)
  | 0, (s : MDataSlab r), c => s.split c
  | _ + 1, (m : MMetaSlab _), c => m.split c

def merge : (d : Nat) → MTree r d → MTree r d → MTree r d
  | 0, (l : MDataSlab r), (rr : MDataSlab r) => MDataSlab.merge l rr
  | _ + 1, (l : MMetaSlab _), (rr : MMetaSlab _) => MMetaSlab.merge l rr

def lendToRight (T : Nat) : (d : Nat) → MTree r d → MTree r d → Except MErr (MTree r d × MTree r d)
  | 0, (l : MDataSlab r), (rr : MDataSlab r) => MDataSlab.lendToRight T l rr
  | _ + 1, (l : MMetaSlab _), (rr : MMetaSlab _) => .ok (MMetaSlab.lendToRight l rr)

def borrowFromRight (T : Nat) : (d : Nat) → MTree r d → MTree r d → Except MErr (MTree r d × MTree r d)
  | 0, (l : MDataSlab r), (rr : MDataSlab r) => MDataSlab.borrowFromRight T l rr
  | _ + 1, (l : MMetaSlab _), (rr : MMetaSlab _) => .ok (MMetaSlab.borrowFromRight l rr)

/-- all key/value pairs in iteration order -/
def toList : (d : Nat) → MTree r d → List (MKey × Elem)
  | 0, (s : MDataSlab r) => HkeyElems.toList (MElems.ops r) s.elems
  | d + 1, (m : MMetaSlab (MTree r d)) => m.children.flatMap (toList d)

end MTree

namespace MMetaSlab
variable {r d : Nat}

/-- `SplitChildSlab` -/
def splitChildSlab (m : MMetaSlab (MTree r d)) (child : MTree r d) (k : Nat) (c : Ctx) :
    Except MErr (MMetaSlab (MTree r d) × Ctx) := do
  let (left, right, c) ← MTree.split d child c
  let lh := MTree.hdr d left
  let rh := MTree.hdr d right
  let m' : MMetaSlab (MTree r d) :=
    { m with childHdrs := (m.childHdrs.set k lh).insertIdx (k + 1) rh,
             children := (m.children.set k left).insertIdx (k + 1) right,
             hdr := { m.hdr with size := m.hdr.size + mapSlabHeaderSize } }
  return (m', ((c.emit (.store lh.id)).emit (.store rh.id)).emit (.store m.hdr.id))

/-- `rebalanceChildren` -/
def rebalanceChildren (T : Nat) (m : MMetaSlab (MTree r d)) (left right : MTree r d) (li ri : Nat)
    (leftBorrowFromRight : Bool) (c : Ctx) : Except MErr (MMetaSlab (MTree r d) × Ctx) := do
  let (l', r') ← if leftBorrowFromRight then MTree.borrowFromRight T d left right else MTree.lendToRight T d left right
  let lh := MTree.hdr d l'
  let rh := MTree.hdr d r'
  let m' : MMetaSlab (MTree r d) :=
    { m with childHdrs := (m.childHdrs.set li lh).set ri rh,
             children := (m.children.set li l').set ri r',
             hdr := { m.hdr with firstKey := if li == 0 then lh.firstKey else m.hdr.firstKey } }
  return (m', ((c.emit (.store lh.id)).emit (.store rh.id)).emit (.store m.hdr.id))

/-- `mergeChildren` -/
def mergeChildren (m : MMetaSlab (MTree r d)) (left right : MTree r d) (li ri : Nat) (c : Ctx) :
    MMetaSlab (MTree r d) × Ctx :=
  let merged := MTree.merge d left right
  let mh := MTree.hdr d merged
  let m' : MMetaSlab (MTree r d) :=
    { m with childHdrs := (m.childHdrs.set li mh).eraseIdx ri,
             children := (m.children.set li merged).eraseIdx ri,
             hdr := { m.hdr with size := m.hdr.size - mapSlabHeaderSize,
                                 firstKey := if li == 0 then mh.firstKey else m.hdr.firstKey } }
  (m', ((c.emit (.store mh.id)).emit (.store m.hdr.id)).emit (.remove (MTree.hdr d right).id))

/-- `MergeOrRebalanceChildSlab` -/
def mergeOrRebalanceChildSlab (T : Nat) (m : MMetaSlab (MTree r d)) (child : MTree r d) (k : Nat)
    (underflow : Nat) (c : Ctx) : Except MErr (MMetaSlab (MTree r d) × Ctx) :=
  let leftSib : Option (MTree r d) := if k > 0 then m.children[k - 1]? else none
  let rightSib : Option (MTree r d) := if k + 1 < m.childHdrs.length then m.children[k + 1]? else none
  let leftCanLend := match leftSib with | some l => MTree.canLendToRight T d l underflow | none => false
  let rightCanLend := match rightSib with | some x => MTree.canLendToLeft T d x underflow | none => false
  if leftCanLend || rightCanLend then
    match leftSib, rightSib with
    | some l, some x =>
      if !leftCanLend then rebalanceChildren T m child x k (k + 1) true c
      else if !rightCanLend then rebalanceChildren T m l child (k - 1) k false c
      else if (MTree.hdr d l).size > (MTree.hdr d x).size then rebalanceChildren T m l child (k - 1) k false c
      else rebalanceChildren T m child x k (k + 1) true c
    | some l, none => rebalanceChildren T m l child (k - 1) k false c
    | none, some x => rebalanceChildren T m child x k (k + 1) true c
    | none, none => .error .goPanic
  else
    match leftSib, rightSib with
    | none, some x => .ok (mergeChildren m child x k (k + 1) c)
    | some l, none => .ok (mergeChildren m l child (k - 1) k c)
    | some l, some x =>
      if (MTree.hdr d l).size < (MTree.hdr d x).size then .ok (mergeChildren m l child (k - 1) k c)
      else .ok (mergeChildren m child x k (k + 1) c)
    | none, none => .error .goPanic

/-- shared tail of `MapMetaDataSlab.Set` / `Remove` after the child has been updated -/
def afterChild (T : Nat) (m : MMetaSlab (MTree r d)) (child : MTree r d) (k : Nat) (c : Ctx) :
    Except MErr (MMetaSlab (MTree r d) × Ctx) :=
  let ch := MTree.hdr d child
  let m1 : MMetaSlab (MTree r d) :=
    { m with childHdrs := m.childHdrs.set k ch, children := m.children.set k child,
             hdr := { m.hdr with firstKey := if k == 0 then ch.firstKey else m.hdr.firstKey } }
  if MTree.isFull T d child then m1.splitChildSlab child k c
  else match MTree.isUnderflow T d child with
    | some u => m1.mergeOrRebalanceChildSlab T child k u c
    | none => .ok (m1, c.emit (.store m1.hdr.id))

end MMetaSlab

namespace MTree
variable {r : Nat}

/-- `MapSlab.Get` -/
def get (cfg : MCfg) : (d : Nat) → MTree r d → MKey → Except MErr (MKey × Elem)
  | 0, (s : MDataSlab r), k => s.get cfg k
  | d + 1, (m : MMetaSlab (MTree r d)), k =>
    match MMetaSlab.findChild m.childHdrs (k.dig 0) 0 m.childHdrs.length none (m.childHdrs.length + 1) with
    | none => .error .keyNotFound
    | some i =>
      match m.children[i]? with
      | none => .error .slabNotFound
      | some child => get cfg d child k

/-- `MapSlab.Set` -/
def set (cfg : MCfg) : (d : Nat) → MTree r d → MKey → Elem → Ctx → Except MErr (MKey × Option Elem × MTree r d × Ctx)
  | 0, (s : MDataSlab r), k, v, c => s.set cfg k v c
  | d + 1, (m : MMetaSlab (MTree r d)), k, v, c => do
    let i := (MMetaSlab.findChild m.childHdrs (k.dig 0) 0 m.childHdrs.length (some 0) (m.childHdrs.length + 1)).getD 0
    match m.children[i]? with
    | none => throw .goPanic
    | some child =>
      let (ks, old, child', c) ← set cfg d child k v c
      let (m', c) ← m.afterChild cfg.T child' i c
      return (ks, old, m', c)

/-- `MapSlab.Remove` -/
def remove (cfg : MCfg) : (d : Nat) → MTree r d → MKey → Ctx → Except MErr (MKey × Elem × MTree r d × Ctx)
  | 0, (s : MDataSlab r), k, c => s.remove cfg k c
  | d + 1, (m : MMetaSlab (MTree r d)), k, c => do
    match MMetaSlab.findChild m.childHdrs (k.dig 0) 0 m.childHdrs.length none (m.childHdrs.length + 1) with
    | none => throw .keyNotFound
    | some i =>
      match m.children[i]? with
      | none => throw .slabNotFound
      | some child =>
        let (rk, rv, child', c) ← remove cfg d child k c
        let (m', c) ← m.afterChild cfg.T child' i c
        return (rk, rv, m', c)

/-- `MapSlab.PopIterate` -/
def popIterate : (d : Nat) → MTree r d → Ctx → List (MKey × Elem) × MTree r d × Ctx
  | 0, (s : MDataSlab r), c => s.popIterate c
  | d + 1, (m : MMetaSlab (MTree r d)), c =>
    let (l, c) := m.children.reverse.foldl
      (fun (acc : List (MKey × Elem) × Ctx) child =>
        let (es, _, c) := popIterate d child acc.2
        (acc.1 ++ es, c.emit (.remove (hdr d child).id)))
      ([], c)
    let m' : MMetaSlab (MTree r d) :=
      { m with childHdrs := [], children := [], hdr := { m.hdr with firstKey := 0, size := mapMetaDataSlabPrefixSize } }
    (l, m', c)

end MTree
end Atree
