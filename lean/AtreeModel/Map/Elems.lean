import AtreeModel.Array.Slab
/-
  Map elements: functional transcription of map_element.go (singleElement, inlineCollisionGroup,
  externalCollisionGroup), map_elements_hashkey.go (hkeyElements) and map_elements_nokey.go
  (singleElements).

  * A key carries its digest at every level (`digs`); hashing itself is not modelled — the
    theorems quantify over all digest assignments.  Key equality (the caller's comparator) is
    equality of `(size, pay)`.
  * `L` is the digester's number of levels.  Elements are indexed by the number `r` of digest
    levels still available below them: `MElems 0` is the insertion-ordered list used when digests
    are exhausted (singleElements), `MElems (r+1)` a sorted digest table (hkeyElements) whose
    collision groups hold `MElems r`.
  * The slab of an external collision group is embedded in the element that refers to it; the
    storage calls made on it are in the effect log.
-/
namespace Atree
open Gen

/-- a map key storable with its digests -/
structure MKey where
  size : Nat
  pay  : Nat
  digs : List Nat
deriving DecidableEq, Repr, Inhabited

/-- the caller-supplied comparator -/
def MKey.same (a b : MKey) : Bool := a.size == b.size && a.pay == b.pay

def MKey.dig (k : MKey) (level : Nat) : Nat := k.digs.getD level 0

inductive MErr where
  | keyNotFound        -- KeyNotFoundError (User)
  | collisionLimit     -- CollisionLimitError (Fatal)
  | hashLevel          -- HashLevelError (Fatal)
  | slabSplit          -- SlabSplitError (Fatal)
  | notApplicable      -- NotApplicableError (Fatal)
  | slabRebalance      -- SlabRebalanceError (Fatal)
  | slabMerge          -- SlabMergeError (Fatal)
  | mapElementCount    -- MapElementCountError (Fatal)
  | goPanic            -- a Go runtime panic
  | slabNotFound       -- SlabNotFoundError
  | modelMismatch      -- the level structure of the model cannot represent what the code would build
deriving DecidableEq, Repr

/-- `singleElement` -/
structure SElem where
  key  : MKey
  val  : Elem
  size : Nat
deriving DecidableEq, Repr, Inhabited

/-- `MapSlabHeader` -/
structure MHdr where
  id       : SlabID
  size     : Nat
  firstKey : Nat
deriving DecidableEq, Repr, Inhabited

/-- the `MapDataSlab` of an external collision group (anySize, collisionGroup, never a root) -/
structure GroupSlab (α : Type) where
  hdr   : MHdr
  elems : α

/-- `element` : single element, inline collision group, external collision group -/
inductive MElemF (α : Type) where
  | single (e : SElem)
  | inl (g : α)
  | ext (id : SlabID) (size : Nat) (slab : GroupSlab α)

/-- `hkeyElements` -/
structure HkeyElems (α : Type) where
  hkeys : List Nat
  elems : List (MElemF α)
  size  : Nat
  level : Nat

/-- `singleElements` -/
structure SingleElems where
  elems : List SElem
  size  : Nat
  level : Nat
deriving Repr

def MElems : Nat → Type
  | 0 => SingleElems
  | r + 1 => HkeyElems (MElems r)

/-- `Value.Storable(storage, address, limit)` of the harness's plain values (see `toStorable`) -/
def toStorableLim (lim : Nat) (addr : Nat) (v : Elem) (c : Ctx) : Elem × Ctx :=
  match v.pay with
  | .ref _ => (v, c)
  | .val _ =>
    if v.size > lim then
      let (id, c) := c.alloc addr
      ({ size := slabIDStorableSize, pay := .ref id },
       { (c.emit (.store id)) with created := c.created ++ [(id, v)] })
    else (v, c)

/-- `newSingleElement` (keys are assumed to fit `maxInlineMapKeySize`; the harness only uses such keys) -/
def newSingleElement (T addr : Nat) (k : MKey) (v : Elem) (c : Ctx) : SElem × Ctx :=
  let (vs, c) := toStorableLim (maxInlineMapValue T k.size) addr v c
  ({ key := k, val := vs, size := singleElementPrefixSize + k.size + vs.size }, c)

/-- Parameters of a map operation that do not change while it runs. -/
structure MCfg where
  T      : Nat   -- slab size threshold
  L      : Nat   -- digester.Levels()
  climit : Nat   -- maxCollisionLimitPerDigest
  addr   : Nat   -- owner address

/-- The operations an `elements` value offers (the Go interface `elements`), as a record so that
    the collision-group code can be written once for every nesting level. -/
structure ElemsOps (α : Type) where
  size     : α → Nat
  count    : α → Nat
  firstKey : α → Nat
  get      : MCfg → α → Nat → MKey → Except MErr (MKey × Elem)
  set      : MCfg → α → Nat → MKey → Elem → Ctx → Except MErr (MKey × Option Elem × α × Ctx)
  remove   : MCfg → α → Nat → MKey → Ctx → Except MErr (MKey × Elem × α × Ctx)
  /-- a fresh `elements` at `level` holding the single element `e` (when a collision group is born) -/
  newWith  : MCfg → Nat → SElem → Except MErr α
  /-- `Count() == 1` and `Element(0)` is not a group: that single element -/
  soleSingle : α → Option SElem
  popIter  : α → Ctx → List (MKey × Elem) × Ctx
  toList   : α → List (MKey × Elem)

namespace SingleElems

def get (cfg : MCfg) (e : SingleElems) (level : Nat) (k : MKey) : Except MErr (MKey × Elem) :=
  if level ≠ cfg.L then .error .hashLevel
  else match e.elems.find? (fun x => x.key.same k) with
    | some x => .ok (x.key, x.val)
    | none => .error .keyNotFound

def set (cfg : MCfg) (e : SingleElems) (level : Nat) (k : MKey) (v : Elem) (c : Ctx) :
    Except MErr (MKey × Option Elem × SingleElems × Ctx) :=
  if level ≠ cfg.L then .error .hashLevel
  else match e.elems.findIdx? (fun x => x.key.same k) with
    | some i =>
      match e.elems[i]? with
      | none => .error .goPanic
      | some x =>
        let (vs, c) := toStorableLim (maxInlineMapValue cfg.T x.key.size) cfg.addr v c
        let x' : SElem := { x with val := vs, size := singleElementPrefixSize + x.key.size + vs.size }
        let elems := e.elems.set i x'
        .ok (x.key, some x.val,
             { e with elems := elems, size := singleElementsPrefixSize + (elems.map (·.size)).sum }, c)
    | none =>
      let (ne, c) := newSingleElement cfg.T cfg.addr k v c
      .ok (ne.key, none, { e with elems := e.elems ++ [ne], size := e.size + ne.size }, c)

def remove (cfg : MCfg) (e : SingleElems) (level : Nat) (k : MKey) (c : Ctx) :
    Except MErr (MKey × Elem × SingleElems × Ctx) :=
  if level ≠ cfg.L then .error .hashLevel
  else match e.elems.findIdx? (fun x => x.key.same k) with
    | some i =>
      match e.elems[i]? with
      | none => .error .goPanic
      | some x => .ok (x.key, x.val, { e with elems := e.elems.eraseIdx i, size := e.size - x.size }, c)
    | none => .error .keyNotFound

def ops : ElemsOps SingleElems :=
  { size := (·.size), count := (·.elems.length), firstKey := fun _ => 0,
    get := get, set := set, remove := remove,
    newWith := fun cfg level x =>
      if level ≠ cfg.L then .error .modelMismatch
      else .ok { level := level, size := singleElementsPrefixSize + x.size, elems := [x] },
    soleSingle := fun e => match e.elems with | [x] => some x | _ => none,
    popIter := fun e c => ((e.elems.reverse.map (fun x => (x.key, x.val))), c),
    toList := fun e => e.elems.map (fun x => (x.key, x.val)) }

end SingleElems

namespace MElemF
variable {α : Type}

/-- `element.Size()` -/
def size (o : ElemsOps α) : MElemF α → Nat
  | .single e => e.size
  | .inl g => inlineCollisionGroupPrefixSize + o.size g
  | .ext _ sz _ => sz

/-- `element.Count(storage)` -/
def count (o : ElemsOps α) : MElemF α → Nat
  | .single _ => 1
  | .inl g => o.count g
  | .ext _ _ s => o.count s.elems

def isGroup : MElemF α → Bool
  | .single _ => false
  | _ => true

/-- `element.Get` at the level of the enclosing hkeyElements -/
def get (o : ElemsOps α) (cfg : MCfg) (e : MElemF α) (level : Nat) (k : MKey) : Except MErr (MKey × Elem) :=
  match e with
  | .single x => if x.key.same k then .ok (x.key, x.val) else .error .keyNotFound
  | .inl g => if level + 1 > cfg.L then .error .hashLevel else o.get cfg g (level + 1) k
  | .ext _ _ s => if level + 1 > cfg.L then .error .hashLevel else o.get cfg s.elems (level + 1) k

/-- `MapDataSlab.Set` / `Remove` bookkeeping on the slab of an external collision group -/
def groupSlabUpdate (o : ElemsOps α) (s : GroupSlab α) (elems : α) (c : Ctx) : GroupSlab α × Ctx :=
  ({ hdr := { s.hdr with firstKey := o.firstKey elems, size := mapDataSlabPrefixSize + o.size elems },
     elems := elems }, c.emit (.store s.hdr.id))

/-- `inlineCollisionGroup.Set`: set inside the group, then export an oversized first-level group
    to its own slab. -/
def inlSet (o : ElemsOps α) (cfg : MCfg) (g : α) (level : Nat) (k : MKey) (v : Elem) (c : Ctx) :
    Except MErr (MElemF α × MKey × Option Elem × Ctx) := do
  if level + 1 > cfg.L then throw .hashLevel
  let (ks, old, g', c) ← o.set cfg g (level + 1) k v c
  if level + 1 == 1 && inlineCollisionGroupPrefixSize + o.size g' > maxInlineMapElem cfg.T then
    let (id, c) := c.alloc cfg.addr
    let slab : GroupSlab α :=
      { hdr := { id := id, size := mapDataSlabPrefixSize + o.size g', firstKey := o.firstKey g' }, elems := g' }
    return (.ext id (externalCollisionGroupPrefixSize + slabIDStorableSize) slab, ks, old, c.emit (.store id))
  else
    return (.inl g', ks, old, c)

/-- `element.Set` -/
def set (o : ElemsOps α) (cfg : MCfg) (e : MElemF α) (level : Nat) (k : MKey) (v : Elem) (c : Ctx) :
    Except MErr (MElemF α × MKey × Option Elem × Ctx) :=
  match e with
  | .single x =>
    if x.key.same k then
      let (vs, c) := toStorableLim (maxInlineMapValue cfg.T x.key.size) cfg.addr v c
      .ok (.single { x with val := vs, size := singleElementPrefixSize + x.key.size + vs.size }, x.key, some x.val, c)
    else do
      -- hash collision: a group holding the resident element, one level deeper
      let g ← o.newWith cfg (level + 1) x
      inlSet o cfg g level k v c
  | .inl g => inlSet o cfg g level k v c
  | .ext id sz s => do
    if level + 1 > cfg.L then throw .hashLevel
    let (ks, old, elems', c) ← o.set cfg s.elems (level + 1) k v c
    let (s', c) := groupSlabUpdate o s elems' c
    return (.ext id sz s', ks, old, c)

/-- `element.Remove`: returns the updated element (`none` = the element is gone) -/
def remove (o : ElemsOps α) (cfg : MCfg) (e : MElemF α) (level : Nat) (k : MKey) (c : Ctx) :
    Except MErr (MKey × Elem × Option (MElemF α) × Ctx) :=
  match e with
  | .single x => if x.key.same k then .ok (x.key, x.val, none, c) else .error .keyNotFound
  | .inl g => do
    if level + 1 > cfg.L then throw .hashLevel
    let (rk, rv, g', c) ← o.remove cfg g (level + 1) k c
    match o.soleSingle g' with
    | some x => return (rk, rv, some (.single x), c)
    | none => return (rk, rv, some (.inl g'), c)
  | .ext id sz s => do
    if level + 1 > cfg.L then throw .hashLevel
    let (rk, rv, elems', c) ← o.remove cfg s.elems (level + 1) k c
    let (s', c) := groupSlabUpdate o s elems' c
    match o.soleSingle elems' with
    | some x => return (rk, rv, some (.single x), c.emit (.remove id))
    | none => return (rk, rv, some (.ext id sz s'), c)

/-- `element.PopIterate` -/
def popIter (o : ElemsOps α) (e : MElemF α) (c : Ctx) : List (MKey × Elem) × Ctx :=
  match e with
  | .single x => ([(x.key, x.val)], c)
  | .inl g => o.popIter g c
  | .ext id _ s => let (l, c) := o.popIter s.elems c; (l, c.emit (.remove id))

/-- `element.Iterate` -/
def toList (o : ElemsOps α) : MElemF α → List (MKey × Elem)
  | .single x => [(x.key, x.val)]
  | .inl g => o.toList g
  | .ext _ _ s => o.toList s.elems

end MElemF

namespace HkeyElems
variable {α : Type}

/-- binary search of `getElement` / `Remove`: index `h` with `hkeys[h] == hkey` -/
def findEq (hkeys : List Nat) (hkey : Nat) (i j fuel : Nat) : Option Nat :=
  match fuel with
  | 0 => none
  | fuel + 1 =>
    if i < j then
      let h := (i + j) / 2
      let x := hkeys.getD h 0
      if x > hkey then findEq hkeys hkey i h fuel
      else if x < hkey then findEq hkeys hkey (h + 1) j fuel
      else some h
    else none

/-- binary search of `Set`: `(equalIndex, lessThanIndex)` -/
def findEqLt (hkeys : List Nat) (hkey : Nat) (i j lt fuel : Nat) : Option Nat × Nat :=
  match fuel with
  | 0 => (none, lt)
  | fuel + 1 =>
    if i < j then
      let h := (i + j) / 2
      let x := hkeys.getD h 0
      if x > hkey then findEqLt hkeys hkey i h h fuel
      else if x < hkey then findEqLt hkeys hkey (h + 1) j lt fuel
      else (some h, lt)
    else (none, lt)

def elemSizes (o : ElemsOps α) (l : List (MElemF α)) : Nat := (l.map (fun e => e.size o + digestSize)).sum

/-- `hkeyElements.Get` -/
def get (o : ElemsOps α) (cfg : MCfg) (e : HkeyElems α) (level : Nat) (k : MKey) : Except MErr (MKey × Elem) :=
  if level ≥ cfg.L then .error .hashLevel
  else match findEq e.hkeys (k.dig level) 0 e.hkeys.length (e.hkeys.length + 1) with
    | none => .error .keyNotFound
    | some i =>
      match e.elems[i]? with
      | none => .error .goPanic
      | some el => el.get o cfg level k

/-- append / prepend / insert a brand-new single element -/
def insertNew (cfg : MCfg) (e : HkeyElems α) (idx : Nat) (hkey : Nat) (k : MKey) (v : Elem) (c : Ctx) :
    MKey × Option Elem × HkeyElems α × Ctx :=
  let (ne, c) := newSingleElement cfg.T cfg.addr k v c
  (ne.key, none,
   { e with hkeys := e.hkeys.insertIdx idx hkey, elems := e.elems.insertIdx idx (.single ne),
            size := e.size + digestSize + ne.size }, c)

/-- `hkeyElements.Set` -/
def set (o : ElemsOps α) (cfg : MCfg) (e : HkeyElems α) (level : Nat) (k : MKey) (v : Elem) (c : Ctx) :
    Except MErr (MKey × Option Elem × HkeyElems α × Ctx) :=
  if level ≥ cfg.L then .error .hashLevel
  else
    let hkey := k.dig level
    match e.hkeys.head?, e.hkeys.getLast? with
    | none, _ | _, none => .ok (insertNew cfg e 0 hkey k v c)             -- first element
    | some first, some last =>
      if hkey < first then .ok (insertNew cfg e 0 hkey k v c)            -- prepend
      else if hkey > last then .ok (insertNew cfg e e.hkeys.length hkey k v c)  -- append
      else
        match findEqLt e.hkeys hkey 0 e.hkeys.length 0 (e.hkeys.length + 1) with
        | (none, lt) => .ok (insertNew cfg e lt hkey k v c)
        | (some i, _) =>
          match e.elems[i]? with
          | none => .error .goPanic
          | some el => do
            -- collision limit, enforced at the first level only, on inserts only
            if e.level == 0 then
              let n := el.count o
              if n == 0 then throw .mapElementCount
              if n - 1 ≥ cfg.climit then
                match el.get o cfg level k with
                | .error .keyNotFound => throw .collisionLimit
                | _ => pure ()
            let (el', ks, old, c) ← el.set o cfg level k v c
            let elems := e.elems.set i el'
            return (ks, old, { e with elems := elems, size := hkeyElementsPrefixSize + elemSizes o elems }, c)

/-- `hkeyElements.Remove` -/
def remove (o : ElemsOps α) (cfg : MCfg) (e : HkeyElems α) (level : Nat) (k : MKey) (c : Ctx) :
    Except MErr (MKey × Elem × HkeyElems α × Ctx) :=
  if level ≥ cfg.L then .error .hashLevel
  else
    let hkey := k.dig level
    match e.hkeys.head?, e.hkeys.getLast? with
    | none, _ | _, none => .error .keyNotFound
    | some first, some last =>
      if hkey < first || hkey > last then .error .keyNotFound
      else match findEq e.hkeys hkey 0 e.hkeys.length (e.hkeys.length + 1) with
        | none => .error .keyNotFound
        | some i =>
          match e.elems[i]? with
          | none => .error .goPanic
          | some el => do
            let oldSize := el.size o
            let (rk, rv, el', c) ← el.remove o cfg level k c
            match el' with
            | none =>
              return (rk, rv, { e with elems := e.elems.eraseIdx i, hkeys := e.hkeys.eraseIdx i,
                                       size := e.size - (digestSize + oldSize) }, c)
            | some el' =>
              return (rk, rv, { e with elems := e.elems.set i el', size := e.size + el'.size o - oldSize }, c)

/-- `hkeyElements.PopIterate`: elements last to first -/
def popIter (o : ElemsOps α) (e : HkeyElems α) (c : Ctx) : List (MKey × Elem) × Ctx :=
  e.elems.reverse.foldl (fun (acc : List (MKey × Elem) × Ctx) el =>
    let (l, c) := el.popIter o acc.2
    (acc.1 ++ l, c)) ([], c)

def toList (o : ElemsOps α) (e : HkeyElems α) : List (MKey × Elem) := e.elems.flatMap (fun el => el.toList o)

def firstKey (e : HkeyElems α) : Nat := e.hkeys.headD 0

def ops (o : ElemsOps α) : ElemsOps (HkeyElems α) :=
  { size := (·.size), count := (·.elems.length), firstKey := firstKey,
    get := get o, set := set o, remove := remove o,
    newWith := fun cfg level x =>
      if level ≥ cfg.L then .error .modelMismatch
      else .ok { level := level, hkeys := [x.key.dig level], elems := [.single x],
                 size := hkeyElementsPrefixSize + digestSize + x.size },
    soleSingle := fun e => match e.elems with | [.single x] => some x | _ => none,
    popIter := popIter o, toList := toList o }

/-- the loop of `hkeyElements.Split` over `(element size + digest size)` values -/
def splitLoop (mid data : Nat) : List Nat → Nat → Nat → Nat × Nat
  | [], _, ls => (0, ls)
  | es :: rest, i, ls =>
    if ls + es ≥ mid then
      if ls ≤ data - ls - es then (i + 1, ls + es) else (i, ls)
    else splitLoop mid data rest (i + 1) (ls + es)

/-- `hkeyElements.Split` -/
def split (o : ElemsOps α) (e : HkeyElems α) : HkeyElems α × HkeyElems α :=
  let dataSize := e.size - hkeyElementsPrefixSize
  let mid := (dataSize + 1) / 2
  let (leftCount, leftSize) := splitLoop mid dataSize (e.elems.map (fun el => el.size o + digestSize)) 0 0
  ({ e with hkeys := e.hkeys.take leftCount, elems := e.elems.take leftCount, size := hkeyElementsPrefixSize + leftSize },
   { level := e.level, hkeys := e.hkeys.drop leftCount, elems := e.elems.drop leftCount,
     size := dataSize - leftSize + hkeyElementsPrefixSize })

/-- `hkeyElements.Merge` -/
def merge (l r : HkeyElems α) : HkeyElems α :=
  { l with hkeys := l.hkeys ++ r.hkeys, elems := l.elems ++ r.elems,
           size := l.size + (r.size - hkeyElementsPrefixSize) }

def lendLoop (minSize size mid : Nat) : List Nat → Nat → Nat → Nat × Nat
  | [], lc, ls => (lc, ls)
  | es :: rest, lc, ls =>
    if ls - es < mid && size - ls ≥ minSize then (lc, ls)
    else lendLoop minSize size mid rest (lc - 1) (ls - es)

/-- `hkeyElements.LendToRight` -/
def lendToRight (o : ElemsOps α) (T : Nat) (l r : HkeyElems α) : Except MErr (HkeyElems α × HkeyElems α) :=
  if l.level ≠ r.level then .error .slabRebalance
  else
    let minSize := minThr T - mapDataSlabPrefixSize - hkeyElementsPrefixSize
    let size := l.size + r.size - hkeyElementsPrefixSize * 2
    let mid := (size + 1) / 2
    let sizes := l.elems.map (fun el => el.size o + digestSize)
    let (leftCount, leftSize) := lendLoop minSize size mid sizes.reverse l.elems.length (l.size - hkeyElementsPrefixSize)
    .ok ({ l with hkeys := l.hkeys.take leftCount, elems := l.elems.take leftCount, size := hkeyElementsPrefixSize + leftSize },
         { r with hkeys := l.hkeys.drop leftCount ++ r.hkeys, elems := l.elems.drop leftCount ++ r.elems,
                  size := size - leftSize + hkeyElementsPrefixSize })

def borrowLoop (minSize size mid : Nat) : List Nat → Nat → Nat → Nat × Nat
  | [], lc, ls => (lc, ls)
  | es :: rest, lc, ls =>
    if ls + es > mid then
      if size - ls - es ≥ minSize then (lc + 1, ls + es) else (lc, ls)
    else borrowLoop minSize size mid rest (lc + 1) (ls + es)

/-- `hkeyElements.BorrowFromRight` -/
def borrowFromRight (o : ElemsOps α) (T : Nat) (l r : HkeyElems α) : Except MErr (HkeyElems α × HkeyElems α) :=
  if l.level ≠ r.level then .error .slabRebalance
  else
    let minSize := minThr T - mapDataSlabPrefixSize - hkeyElementsPrefixSize
    let size := l.size + r.size - hkeyElementsPrefixSize * 2
    let mid := (size + 1) / 2
    let sizes := r.elems.map (fun el => el.size o + digestSize)
    let (leftCount, leftSize) := borrowLoop minSize size mid sizes l.elems.length (l.size - hkeyElementsPrefixSize)
    let move := leftCount - l.elems.length
    .ok ({ l with hkeys := l.hkeys ++ r.hkeys.take move, elems := l.elems ++ r.elems.take move, size := leftSize + hkeyElementsPrefixSize },
         { r with hkeys := r.hkeys.drop move, elems := r.elems.drop move, size := size - leftSize + hkeyElementsPrefixSize })

def canLendLoop (minSize esize want : Nat) : List Nat → Nat → Bool
  | [], _ => false
  | es :: rest, lend =>
    let lend := lend + es
    if esize - lend < minSize then false
    else if lend ≥ want then true
    else canLendLoop minSize esize want rest lend

/-- `hkeyElements.CanLendToLeft` (`fromBack = false`) / `CanLendToRight` (`fromBack = true`) -/
def canLend (o : ElemsOps α) (T : Nat) (e : HkeyElems α) (want : Nat) (fromBack : Bool) : Bool :=
  if e.elems.length < 2 then false
  else
    let minSize := minThr T - mapDataSlabPrefixSize
    if e.size - want < minSize then false
    else
      let sizes := e.elems.map (fun el => el.size o + digestSize)
      canLendLoop minSize e.size want (if fromBack then sizes.reverse else sizes) 0

end HkeyElems

/-- the operations of `MElems r`, by recursion on the number of remaining digest levels -/
def MElems.ops : (r : Nat) → ElemsOps (MElems r)
  | 0 => SingleElems.ops
  | r + 1 => HkeyElems.ops (MElems.ops r)

end Atree
