import AtreeModel.Map.Ops
/-
  The iterators of `OrderedMap` (map_iterator.go, map.go, map_elements.go, map_element.go,
  map_elements_hashkey.go, map_elements_nokey.go, map_metadata_slab.go, storable.go):

  (a) `getElementAndNextKey` at every level (single element, inline / external collision group,
      hkeyElements, singleElements, data slab, index slab), `firstKeyInMapSlab / firstKeyInElements /
      firstKeyInElement`, and the MUTABLE iterator built on them (`mutableMapIterator`: it remembers
      only the next key and looks it up again from the root at every step);
  (b) the READ-ONLY iterator (`readOnlyMapIterator`): `mapElementIterator` over the elements of one
      data slab, nested through collision groups, then the `next` link to the following data slab;
  (c) the LOADED-VALUE iterator (`MapLoadedValueIterator`) for a predicate
      `loaded : SlabID → Bool` (= `storage.RetrieveIfLoaded(id) != nil`);
  (d) the keys-only and values-only flavours of (a) and (b).

  As in Elems.lean the code of one `elements` level is written once, over a record of the
  operations of the level below (`IterOps`), and tied by recursion on the number of remaining
  digest levels (`MElems.iops`).
-/
namespace Atree
open Gen

/-- errors an iterator can report besides those of the lookup path -/
inductive MIterErr where
  | op (e : MErr)
  | slabData            -- SlabDataError (Fatal): "failed to find first key in map while map count > 0"
deriving DecidableEq, Repr

/-- What the iterators need from an `elements` value. -/
structure IterOps (α : Type) where
  /-- `elements.getElementAndNextKey(storage, digester, level, hkey, comparator, key)`:
      `(stored key, stored value, next key or nil)` -/
  getNext  : MCfg → α → Nat → MKey → Except MErr (MKey × Elem × Option MKey)
  /-- `firstKeyInElements` -/
  firstKey : α → Option MKey
  /-- `mapElementIterator` over these elements, run until it returns a nil key -/
  elemIter : α → List (MKey × Elem)
  /-- `mapLoadedElementIterator` over these elements, run until it returns a nil key -/
  loaded   : (SlabID → Bool) → α → List (MKey × Elem)

/-- `getLoadedValue` on key and value of a `singleElement`: keys of the model are never references;
    a value that refers to an unloaded slab makes the iterator skip the element. -/
def SElem.loadedPair (loaded : SlabID → Bool) (x : SElem) : Option (MKey × Elem) :=
  match x.val.pay with
  | .ref id => if loaded id then some (x.key, x.val) else none
  | .val _ => some (x.key, x.val)

namespace SingleElems

/-- `singleElements.getElementAndNextKey` (with `singleElements.get`: linear search) -/
def getNext (cfg : MCfg) (e : SingleElems) (level : Nat) (k : MKey) : Except MErr (MKey × Elem × Option MKey) :=
  if level ≠ cfg.L then .error .hashLevel
  else match e.elems.findIdx? (fun x => x.key.same k) with
    | none => .error .keyNotFound
    | some i =>
      match e.elems[i]? with
      | none => .error .goPanic
      | some x =>
        -- nextIndex < len: key of the next element; nextIndex == len: nil
        .ok (x.key, x.val, (e.elems[i + 1]?).map (·.key))

def iops : IterOps SingleElems :=
  { getNext := getNext,
    firstKey := fun e => e.elems.head?.map (·.key),
    elemIter := fun e => e.elems.map (fun x => (x.key, x.val)),
    loaded := fun ld e => e.elems.filterMap (SElem.loadedPair ld) }

end SingleElems

namespace MElemF
variable {α : Type}

/-- `element.getElementAndNextKey` at the level of the enclosing hkeyElements -/
def getNext (io : IterOps α) (cfg : MCfg) (e : MElemF α) (level : Nat) (k : MKey) :
    Except MErr (MKey × Elem × Option MKey) :=
  match e with
  | .single x => if x.key.same k then .ok (x.key, x.val, none) else .error .keyNotFound
  | .inl g => if level + 1 > cfg.L then .error .hashLevel else io.getNext cfg g (level + 1) k
  | .ext _ _ s => if level + 1 > cfg.L then .error .hashLevel else io.getNext cfg s.elems (level + 1) k

/-- `firstKeyInElement` -/
def firstKey (io : IterOps α) : MElemF α → Option MKey
  | .single x => some x.key
  | .inl g => io.firstKey g
  | .ext _ _ s => io.firstKey s.elems

end MElemF

namespace HkeyElems
variable {α : Type}

/-- `hkeyElements.getElementAndNextKey` (with `hkeyElements.getElement`: binary search) -/
def getNext (io : IterOps α) (cfg : MCfg) (e : HkeyElems α) (level : Nat) (k : MKey) :
    Except MErr (MKey × Elem × Option MKey) :=
  if level ≥ cfg.L then .error .hashLevel
  else match findEq e.hkeys (k.dig level) 0 e.hkeys.length (e.hkeys.length + 1) with
    | none => .error .keyNotFound
    | some i =>
      match e.elems[i]? with
      | none => .error .goPanic
      | some el => do
        let (ks, v, nk) ← el.getNext io cfg level k
        match nk with
        | some nk => return (ks, v, some nk)          -- found next key in element group
        | none =>
          match e.elems[i + 1]? with
          | some nel => return (ks, v, nel.firstKey io)  -- next element of the same hkeyElements
          | none => return (ks, v, none)                 -- next element is outside this group

/-- `firstKeyInElements` for hkeyElements -/
def firstKeyIn (io : IterOps α) (e : HkeyElems α) : Option MKey :=
  match e.elems with
  | [] => none
  | el :: _ => el.firstKey io

/-- `mapElementIterator.next` run to the end over a list of elements.  When a collision group
    is entered the iterator returns what the nested iterator returns FIRST: a group that yields
    nothing therefore ends the iteration of the enclosing elements (its caller sees a nil key). -/
def elemIterList (io : IterOps α) : List (MElemF α) → List (MKey × Elem)
  | [] => []
  | .single x :: rest => (x.key, x.val) :: elemIterList io rest
  | .inl g :: rest =>
    match io.elemIter g with
    | [] => []
    | p :: ps => p :: ps ++ elemIterList io rest
  | .ext _ _ s :: rest =>
    match io.elemIter s.elems with
    | [] => []
    | p :: ps => p :: ps ++ elemIterList io rest

def elemIter (io : IterOps α) (e : HkeyElems α) : List (MKey × Elem) := elemIterList io e.elems

/-- `mapLoadedElementIterator.next` run to the end: an external collision group whose slab is
    not loaded is skipped with everything in it; single elements go through `getLoadedValue`. -/
def loadedIter (io : IterOps α) (ld : SlabID → Bool) (e : HkeyElems α) : List (MKey × Elem) :=
  e.elems.flatMap (fun el =>
    match el with
    | .single x => (x.loadedPair ld).toList
    | .inl g => io.loaded ld g
    | .ext id _ s => if ld id then io.loaded ld s.elems else [])

def iops (io : IterOps α) : IterOps (HkeyElems α) :=
  { getNext := getNext io, firstKey := firstKeyIn io, elemIter := elemIter io, loaded := loadedIter io }

end HkeyElems

/-- the iterator operations of `MElems r`, by recursion on the number of remaining digest levels -/
def MElems.iops : (r : Nat) → IterOps (MElems r)
  | 0 => SingleElems.iops
  | r + 1 => HkeyElems.iops (MElems.iops r)

namespace MTree
variable {r : Nat}

/-- `firstMapDataSlab` -/
def firstDataSlab : (d : Nat) → MTree r d → Except MErr (MDataSlab r)
  | 0, (s : MDataSlab r) => .ok s
  | d + 1, (m : MMetaSlab (MTree r d)) =>
    match m.childHdrs, m.children with
    | [], _ => .error .goPanic            -- childrenHeaders[0]: index out of range
    | _ :: _, [] => .error .slabNotFound
    | _ :: _, c :: _ => firstDataSlab d c

/-- `firstKeyInMapSlab` -/
def firstKey (d : Nat) (t : MTree r d) : Except MErr (Option MKey) := do
  let s ← firstDataSlab d t
  return HkeyElems.firstKeyIn (MElems.iops r) s.elems

/-- `MapSlab.getElementAndNextKey`: a data slab delegates to its elements (level 0); an index slab
    routes by the first-level digest, and when the child has no further key takes the first key
    of the following child. -/
def getNext (cfg : MCfg) : (d : Nat) → MTree r d → MKey → Except MErr (MKey × Elem × Option MKey)
  | 0, (s : MDataSlab r), k => HkeyElems.getNext (MElems.iops r) cfg s.elems 0 k
  | d + 1, (m : MMetaSlab (MTree r d)), k =>
    match MMetaSlab.findChild m.childHdrs (k.dig 0) 0 m.childHdrs.length none (m.childHdrs.length + 1) with
    | none => .error .keyNotFound
    | some i =>
      match m.children[i]? with
      | none => .error .slabNotFound
      | some child => do
        let (ks, v, nk) ← getNext cfg d child k
        match nk with
        | some nk => return (ks, v, some nk)     -- next element is still in the same child slab
        | none =>
          if i + 1 < m.childHdrs.length then
            match m.children[i + 1]? with
            | none => .error .slabNotFound
            | some nc => do
              let fk ← firstKey d nc
              return (ks, v, fk)
          else return (ks, v, none)

/-- the data slabs in order (what the `next` links chain together) -/
def dataSlabs : (d : Nat) → MTree r d → List (MDataSlab r)
  | 0, (s : MDataSlab r) => [s]
  | d + 1, (m : MMetaSlab (MTree r d)) => m.children.flatMap (dataSlabs d)

/-- `MapLoadedValueIterator` run to the end (`mapLoadedSlabIterator.next` skips children whose
    slab is not loaded). -/
def iterLoaded (ld : SlabID → Bool) : (d : Nat) → MTree r d → List (MKey × Elem)
  | 0, (s : MDataSlab r) => HkeyElems.loadedIter (MElems.iops r) ld s.elems
  | d + 1, (m : MMetaSlab (MTree r d)) =>
    (m.childHdrs.zip m.children).flatMap (fun hc => if ld hc.1.id then iterLoaded ld d hc.2 else [])

end MTree

namespace OMap
variable {r : Nat}

/-- `OrderedMap.getElementAndNextKey` (also the body of `getNextKey`) -/
def getElementAndNextKey (cfg : MCfg) (m : OMap r) (k : MKey) : Except MErr (MKey × Elem × Option MKey) :=
  MTree.getNext cfg m.d m.root k

/-- `OrderedMap.Iterator`: the first key (`none` = the empty iterator) -/
def iteratorStart (m : OMap r) : Except MIterErr (Option MKey) :=
  if m.count = 0 then .ok none
  else match MTree.firstKey m.d m.root with
    | .error e => .error (.op e)
    | .ok none => .error .slabData
    | .ok (some k) => .ok (some k)

/-- `mutableMapIterator.Next` repeated: look up the current key and its successor.
    Fuel: number of pairs + 1. -/
def mutLoop (cfg : MCfg) (m : OMap r) : Nat → MKey → Except MIterErr (List (MKey × Elem))
  | 0, _ => .ok []
  | fuel + 1, cur =>
    match m.getElementAndNextKey cfg cur with
    | .error e => .error (.op e)
    | .ok (k, v, none) => .ok [(k, v)]
    | .ok (k, v, some nk) =>
      match mutLoop cfg m fuel nk with
      | .error e => .error e
      | .ok rest => .ok ((k, v) :: rest)

/-- `OrderedMap.Iterate` -/
def iterMutable (cfg : MCfg) (m : OMap r) : Except MIterErr (List (MKey × Elem)) :=
  match m.iteratorStart with
  | .error e => .error e
  | .ok none => .ok []
  | .ok (some k) => mutLoop cfg m (m.count + 1) k

/-- `mutableMapIterator.NextKey` repeated: the key handed out is the remembered key itself;
    only the successor is looked up (`getNextKey`). -/
def mutKeyLoop (cfg : MCfg) (m : OMap r) : Nat → MKey → Except MIterErr (List MKey)
  | 0, _ => .ok []
  | fuel + 1, cur =>
    match m.getElementAndNextKey cfg cur with
    | .error e => .error (.op e)
    | .ok (_, _, none) => .ok [cur]
    | .ok (_, _, some nk) =>
      match mutKeyLoop cfg m fuel nk with
      | .error e => .error e
      | .ok rest => .ok (cur :: rest)

/-- `OrderedMap.IterateKeys` -/
def iterMutableKeys (cfg : MCfg) (m : OMap r) : Except MIterErr (List MKey) :=
  match m.iteratorStart with
  | .error e => .error e
  | .ok none => .ok []
  | .ok (some k) => mutKeyLoop cfg m (m.count + 1) k

/-- `OrderedMap.IterateValues` (`NextValue` = `Next` without the key) -/
def iterMutableValues (cfg : MCfg) (m : OMap r) : Except MIterErr (List Elem) :=
  match m.iterMutable cfg with
  | .error e => .error e
  | .ok l => .ok (l.map (·.2))

/-- `readOnlyMapIterator`: the elements of the current data slab (`mapElementIterator`), then
    `advance()` to the slab the `next` link names, looked up among the data slabs by ID
    (`storage.Retrieve`); an unknown ID is `SlabNotFoundError`. -/
def roIterFrom (all : List (MDataSlab r)) : Nat → MDataSlab r → Except MErr (List (MKey × Elem))
  | 0, _ => .ok []
  | fuel + 1, cur =>
    let here := HkeyElems.elemIter (MElems.iops r) cur.elems
    if cur.next = SlabID.undef then .ok here
    else match all.find? (fun s => s.hdr.id == cur.next) with
      | none => .error .slabNotFound
      | some nxt =>
        match roIterFrom all fuel nxt with
        | .error e => .error e
        | .ok rest => .ok (here ++ rest)

/-- The IDs of the data slabs are pairwise different and defined.  (The read-only iterator finds
    the next data slab by ID and stops at an undefined `next`; `MapInv` does not speak about slab
    IDs, so the theorem about that iterator takes this as a separate hypothesis.  The replayer
    evaluates it on every model tree it iterates.) -/
def leafIdsOk (m : OMap r) : Bool :=
  let ids := (MTree.dataSlabs m.d m.root).map (·.hdr.id)
  decide (ids.Nodup ∧ ∀ id ∈ ids, id ≠ SlabID.undef)

/-- `OrderedMap.IterateReadOnly` -/
def iterReadOnly (m : OMap r) : Except MErr (List (MKey × Elem)) :=
  if m.count = 0 then .ok []
  else do
    let first ← MTree.firstDataSlab m.d m.root
    let all := MTree.dataSlabs m.d m.root
    roIterFrom all (all.length + 1) first

/-- `IterateReadOnlyKeys` / `IterateReadOnlyValues`: `NextKey` / `NextValue` of the read-only
    iterator call the same `mapElementIterator.next` and drop one component. -/
def iterReadOnlyKeys (m : OMap r) : Except MErr (List MKey) := do
  let l ← m.iterReadOnly
  return l.map (·.1)

def iterReadOnlyValues (m : OMap r) : Except MErr (List Elem) := do
  let l ← m.iterReadOnly
  return l.map (·.2)

/-- `OrderedMap.IterateReadOnlyLoadedValues` (the root slab is held by the handle) -/
def iterLoaded (ld : SlabID → Bool) (m : OMap r) : List (MKey × Elem) :=
  MTree.iterLoaded ld m.d m.root

/-- `Iterate(fn)` where `fn`, called with the pair `(k, v)`, may overwrite the value of `k`
    (`m.Set(k, v')`, `upd k v = some v'`).  The iterator has already fetched the next key when
    `fn` runs; every step looks its key up in the CURRENT tree. -/
def iterMutableWith (cfg : MCfg) (upd : MKey → Elem → Option Elem) :
    Nat → MKey → OMap r → Ctx → Except MIterErr (List (MKey × Elem) × OMap r × Ctx)
  | 0, _, m, c => .ok ([], m, c)
  | fuel + 1, cur, m, c =>
    match m.getElementAndNextKey cfg cur with
    | .error e => .error (.op e)
    | .ok (k, v, nk) =>
      let step : Except MIterErr (OMap r × Ctx) :=
        match upd k v with
        | none => .ok (m, c)
        | some v' =>
          match m.set cfg k v' c with
          | .error e => .error (.op e)
          | .ok (_, m', c') => .ok (m', c')
      match step with
      | .error e => .error e
      | .ok (m', c') =>
        match nk with
        | none => .ok ([(k, v)], m', c')
        | some nk =>
          match iterMutableWith cfg upd fuel nk m' c' with
          | .error e => .error e
          | .ok (rest, m'', c'') => .ok ((k, v) :: rest, m'', c'')

def iterateWith (cfg : MCfg) (upd : MKey → Elem → Option Elem) (m : OMap r) (c : Ctx) :
    Except MIterErr (List (MKey × Elem) × OMap r × Ctx) :=
  match m.iteratorStart with
  | .error e => .error e
  | .ok none => .ok ([], m, c)
  | .ok (some k) => iterMutableWith cfg upd (m.count + 1) k m c

end OMap
end Atree
