import AtreeModel.Map.Ops
import AtreeModel.Dump
/- Canonical dumps of map slabs (same grammar as the Go hook `VerifDumpSlab`). -/
namespace Atree
namespace Dump

def mkey (k : MKey) : String := s!"{k.size}:v{k.pay}"

def selemR (re : Elem → String) (e : SElem) : String := s!"S({e.size},{mkey e.key},{re e.val})"

/-- `(dump of the elements, dumps of the external collision-group slabs inside, in order)` -/
def melemsR (re : Elem → String) : (r : Nat) → MElems r → String × List (SlabID × String)
  | 0, (se : SingleElems) =>
    (s!"L({se.level},{se.size})[" ++ joinWith " " (se.elems.map (selemR re)) ++ "]", [])
  | r + 1, (he : HkeyElems (MElems r)) =>
    let parts := he.elems.map (fun el =>
      match el with
      | .single x => (selemR re x, ([] : List (SlabID × String)))
      | .inl g =>
        let (s, ext) := melemsR re r g
        (s!"I({Gen.inlineCollisionGroupPrefixSize + (MElems.ops r).size g},{s})", ext)
      | .ext id sz slab =>
        let (s, ext) := melemsR re r slab.elems
        (s!"X({sz},{id.render})",
         (id, s!"d({slab.hdr.id.render},0.0,{slab.hdr.size},{slab.hdr.firstKey},0,1,1)" ++ s) :: ext))
    (s!"H({he.level},{he.size})" ++ "{" ++ joinWith "," (he.hkeys.map toString) ++ "}[" ++
      joinWith " " (parts.map (·.1)) ++ "]", parts.flatMap (·.2))

def mextra {r : Nat} (m : OMap r) : String := s!"T({m.ty},{m.count},{m.seed})"

def mdataSlabR {r : Nat} (re : Elem → String) (m : OMap r) (s : MDataSlab r) : String × List (SlabID × String) :=
  let (es, ext) := melemsR re (r + 1) s.elems
  (s!"d({s.hdr.id.render},{s.next.render},{s.hdr.size},{s.hdr.firstKey},{bool01 s.inlined},0,0)" ++
    (if s.root then mextra m else "") ++ es, ext)

def mhdr3 (h : MHdr) : String := s!"{h.id.render}/{h.size}/{h.firstKey}"

def mmetaSlab {r : Nat} {α : Type} (m : OMap r) (x : MMetaSlab α) : String :=
  s!"m({x.hdr.id.render},{x.hdr.size},{x.hdr.firstKey})" ++ (if x.root then mextra m else "") ++
  "{" ++ joinWith ";" (x.childHdrs.map mhdr3) ++ "}"

/-- every slab with its ID, in pre-order (external collision-group slabs right after their data slab) -/
def mtreeR {r : Nat} (re : Elem → String) (m : OMap r) : (d : Nat) → MTree r d → List (SlabID × String)
  | 0, (s : MDataSlab r) => let (str, ext) := mdataSlabR re m s; (s.hdr.id, str) :: ext
  | d + 1, (x : MMetaSlab (MTree r d)) => (x.hdr.id, mmetaSlab m x) :: x.children.flatMap (mtreeR re m d)

def mtree {r : Nat} (m : OMap r) (d : Nat) (t : MTree r d) : List (SlabID × String) := mtreeR elem m d t

def merr : MErr → String
  | .keyNotFound => "KeyNotFound:User"
  | .collisionLimit => "CollisionLimit:Fatal"
  | .hashLevel => "HashLevel:Fatal"
  | .slabSplit => "SlabSplit:Fatal"
  | .notApplicable => "NotApplicable:Fatal"
  | .slabRebalance => "SlabRebalance:Fatal"
  | .slabMerge => "SlabMerge:Fatal"
  | .mapElementCount => "MapElementCount:Fatal"
  | .goPanic => "PANIC"
  | .slabNotFound => "SlabNotFound:Fatal"
  | .modelMismatch => "MODEL-MISMATCH"

end Dump
end Atree
