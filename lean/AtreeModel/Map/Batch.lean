import AtreeModel.Map.Ops
import AtreeModel.Array.Batch
/-
  Bulk operations on maps (C17): functional transcription of
    map.go                  NewMapFromBatchData, nextLevelMapSlabs, CanCopyNonRefSimple, CopyNonRefSimple
    map_data_slab.go        canCopyWithoutSlabID, copyWithNewSlabID
    map_element.go          singleElement / inlineCollisionGroup / externalCollisionGroup
                            .canCopyNonRefSimple / .copyNonRefSimple
    map_elements_hashkey.go hkeyElements.canCopyNonRefSimple / copyNonRefSimple
    map_elements_nokey.go   singleElements.canCopyNonRefSimple / copyNonRefSimple
  A key comes with its digests (`MKey.digs`); `digesterBuilder.Digest(hip, key)` / `Digest(0)` is
  `k.dig 0`.
-/
namespace Atree
open Gen MTree

namespace MBatch
variable {r : Nat}

/-- `&hkeyElements{level: 0, size: hkeyElementsPrefixSize, hkeys: …, elems: …}` -/
def emptyElems (r : Nat) : HkeyElems (MElems r) :=
  { hkeys := [], elems := [], size := hkeyElementsPrefixSize, level := 0 }

/-- `&MapDataSlab{header: MapSlabHeader{slabID: id, size: mapDataSlabPrefixSize + elements.Size(),
    firstKey: elements.firstKey()}, elements: elements, next: next}` -/
def mkData (id next : SlabID) (elements : HkeyElems (MElems r)) : MDataSlab r :=
  { hdr := { id := id, size := mapDataSlabPrefixSize + elements.size, firstKey := elements.firstKey },
    next := next, elems := elements, root := false, inlined := false }

/-- State of the element loop of `NewMapFromBatchData`. -/
structure FillState (r : Nat) where
  id       : SlabID                     -- `id`: slab ID of the data slab being filled
  elements : HkeyElems (MElems r)       -- `elements`
  slabs    : List (MDataSlab r)         -- `slabs`
  count    : Nat                        -- `count`
  prevHkey : Nat                        -- `prevHkey`

/-- "found collision": the new pair goes through the previous element's `Set`
    (`prevElem.Set(storage, address, digesterBuilder, digester, 0, hkey, comparator, hip, key, value)`);
    an existing value means the key is a duplicate. -/
def collide (cfg : MCfg) (st : FillState r) (k : MKey) (v : Elem) (c : Ctx) : BRes (FillState r × Ctx) :=
  let o := MElems.ops r
  match st.elements.elems.getLast? with
  | none => .error (.map .goPanic, c)            -- `elements.elems[-1]`: unreachable since count > 0
  | some prevElem =>
    let prevElemSize := prevElem.size o
    match prevElem.set o cfg 0 k v c with
    | .error e => .error (.map e, c)
    | .ok (elem, _, existing, c) =>
      if existing.isSome then .error (.duplicateKey, c)
      else
        .ok ({ st with
                elements := { st.elements with
                                elems := st.elements.elems.set (st.elements.elems.length - 1) elem,
                                size := st.elements.size + elem.size o - prevElemSize },
                count := st.count + 1 }, c)

/-- "no collision": `newSingleElement`, "Finalize data slab" when the current one reached the
    target size (or the new element would push it over the maximum), then append. -/
def appendNew (cfg : MCfg) (st : FillState r) (hkey : Nat) (k : MKey) (v : Elem) (c : Ctx) : FillState r × Ctx :=
  let ne := newSingleElement cfg.T cfg.addr k v c
  let elem := ne.1
  let c := ne.2
  let currentSlabSize := mapDataSlabPrefixSize + st.elements.size
  let newElementSize := digestSize + elem.size
  let p : FillState r × Ctx :=
    if currentSlabSize ≥ cfg.T || currentSlabSize + newElementSize > maxThr cfg.T then
      -- "Generate storage id for next data slab", "Create data slab", "Append data slab to
      -- dataSlabs", "Save id", "Create new elements for next data slab"
      let a := c.alloc cfg.addr
      ({ st with id := a.1, elements := emptyElems r,
                 slabs := st.slabs ++ [mkData st.id a.1 st.elements] }, a.2)
    else (st, c)
  let st := p.1
  ({ st with elements := { st.elements with hkeys := st.elements.hkeys ++ [hkey],
                                            elems := st.elements.elems ++ [.single elem],
                                            size := st.elements.size + (digestSize + elem.size) },
             count := st.count + 1, prevHkey := hkey }, p.2)

/-- "Appends all elements": the loop of `NewMapFromBatchData`. -/
def fillLoop (cfg : MCfg) : List (MKey × Elem) → FillState r → Ctx → BRes (FillState r × Ctx)
  | [], st, c => .ok (st, c)
  | (k, v) :: rest, st, c =>
    let hkey := k.dig 0
    if hkey < st.prevHkey then .error (.hashNotSorted, c)     -- "digest isn't sorted"
    else if hkey = st.prevHkey ∧ st.count > 0 then
      match collide cfg st k v c with
      | .error e => .error e
      | .ok (st', c') => fillLoop cfg rest st' c'
    else
      let p := appendNew cfg st hkey k v c
      fillLoop cfg rest p.1 p.2

/-- "Rebalance last slab if needed" on the last two slabs of a level. -/
def rebalanceTail (T : Nat) (d : Nat) : List (MTree r d) → Except MErr (List (MTree r d))
  | [] => .ok []
  | [x] => .ok [x]
  | [l, x] =>
    match isUnderflow T d x with
    | some u =>
      if canLendToRight T d l u then
        match lendToRight T d l x with
        | .ok (l', x') => .ok [l', x']
        | .error e => .error e
      else .ok [merge d l x]
    | none => .ok [l, x]
  | x :: y :: z :: rest =>
    match rebalanceTail T d (y :: z :: rest) with
    | .ok l => .ok (x :: l)
    | .error e => .error e

/-- "Store all slabs" -/
def storeAll (d : Nat) (slabs : List (MTree r d)) (c : Ctx) : Ctx :=
  slabs.foldl (fun c s => c.emit (.store (hdr d s).id)) c

/-- `&MapMetaDataSlab{header: MapSlabHeader{slabID: id, size: mapMetaDataSlabPrefixSize, firstKey: …}}` -/
def emptyMeta (d : Nat) (id : SlabID) (firstKey : Nat) : MMetaSlab (MTree r d) :=
  { hdr := { id := id, size := mapMetaDataSlabPrefixSize, firstKey := firstKey },
    childHdrs := [], children := [], root := false }

def addChild (d : Nat) (m : MMetaSlab (MTree r d)) (s : MTree r d) : MMetaSlab (MTree r d) :=
  { m with hdr := { m.hdr with size := m.hdr.size + mapSlabHeaderSize },
           childHdrs := m.childHdrs ++ [hdr d s], children := m.children ++ [s] }

/-- the loop of `nextLevelMapSlabs` plus "Append last meta slab to slabs" -/
def nextLevelLoop (maxN addr d : Nat) :
    List (MTree r d) → MMetaSlab (MTree r d) → List (MMetaSlab (MTree r d)) → Ctx →
    List (MMetaSlab (MTree r d)) × Ctx
  | [], cur, done, c => (done ++ [cur], c)
  | s :: ss, cur, done, c =>
    if cur.childHdrs.length = maxN then
      let a := c.alloc addr
      nextLevelLoop maxN addr d ss (addChild d (emptyMeta d a.1 (hdr d s).firstKey) s) (done ++ [cur]) a.2
    else nextLevelLoop maxN addr d ss (addChild d cur s) done c

/-- `nextLevelMapSlabs(storage, address, slabs)` (`slabs` has at least two elements) -/
def nextLevelMapSlabs (T addr d : Nat) (slabs : List (MTree r d)) (c : Ctx) :
    List (MTree r (d + 1)) × Ctx :=
  let maxN := (maxThr T - mapMetaDataSlabPrefixSize) / mapSlabHeaderSize
  let a := c.alloc addr
  let firstKey := match slabs with | s :: _ => (hdr d s).firstKey | [] => 0
  nextLevelLoop maxN addr d slabs (emptyMeta d a.1 firstKey) [] a.2

/-- "found root slab": size adjustment of a root data slab, `SetExtraData`, "Store root" -/
def finishRoot (ty count seed : Nat) (d : Nat) (root : MTree r d) (c : Ctx) : OMap r × Ctx :=
  let root1 : MTree r d :=
    match d, root with
    | 0, (s : MDataSlab r) =>
      ({ s with hdr := { s.hdr with size := s.hdr.size - mapDataSlabPrefixSize + mapRootDataSlabPrefixSize } } : MDataSlab r)
    | _ + 1, m => m
  let root2 := setRoot d root1 true
  (⟨d, root2, ty, count, seed⟩, c.emit (.store (hdr d root2).id))

/-- `for len(slabs) > 1 { … }` of `NewMapFromBatchData` and the root finalisation. -/
def levels (T addr ty count seed : Nat) :
    (fuel : Nat) → (d : Nat) → List (MTree r d) → Ctx → BRes (OMap r × Ctx)
  | 0, _, _, c => .error (.outOfFuel, c)
  | fuel + 1, d, slabs, c =>
    match slabs with
    | [] => .error (.map .goPanic, c)
    | [root] => .ok (finishRoot ty count seed d root c)
    | _ =>
      match rebalanceTail T d slabs with
      | .error e => .error (.map e, c)
      | .ok [] => .error (.map .goPanic, c)
      | .ok [root] => .ok (finishRoot ty count seed d root c)
      | .ok slabs' =>
        let c := storeAll d slabs' c
        let n := nextLevelMapSlabs T addr d slabs' c
        levels T addr ty count seed fuel (d + 1) n.1 n.2

end MBatch

/-- `NewMapFromBatchData(storage, address, digesterBuilder, typeInfo, comparator, hip, seed, fn)`
    where `fn` yields `kvs`. -/
def OMap.fromBatchData {r : Nat} (cfg : MCfg) (ty seed : Nat) (kvs : List (MKey × Elem)) (c : Ctx) :
    BRes (OMap r × Ctx) :=
  if seed = 0 then .error (.seedUninitialized, c)
  else
    let a := c.alloc cfg.addr
    match MBatch.fillLoop cfg kvs
        { id := a.1, elements := MBatch.emptyElems r, slabs := [], count := 0, prevHkey := 0 } a.2 with
    | .error e => .error e
    | .ok (st, c) =>
      -- "Create last data slab" / "Append last data slab to slabs"
      let slabs : List (MTree r 0) := st.slabs ++ [MBatch.mkData st.id SlabID.undef st.elements]
      MBatch.levels cfg.T cfg.addr ty st.count seed slabs.length 0 slabs c

/-! ### Copy -/

/-- `singleElement.canCopyNonRefSimple`: `key.CanCopyNonRefSimple() && value.CanCopyNonRefSimple()`
    (a model key is always a plain value) -/
def SElem.canCopy (x : SElem) : Bool := x.val.canCopy

/-- `singleElement.copyNonRefSimple` -/
def SElem.copyNonRefSimple (x : SElem) : Except BErr SElem :=
  match x.val.copyNonRefSimple with
  | .ok v => .ok { key := x.key, val := v, size := x.size }
  | .error e => .error e

/-- `elements.canCopyNonRefSimple` (hkeyElements / singleElements) with
    `element.canCopyNonRefSimple`: an inline group asks its elements, an external group says no. -/
def MElems.canCopy : (r : Nat) → MElems r → Bool
  | 0, (se : SingleElems) => se.elems.all SElem.canCopy
  | r + 1, (he : HkeyElems (MElems r)) =>
    he.elems.all (fun el =>
      match el with
      | .single x => x.canCopy
      | .inl g => MElems.canCopy r g
      | .ext _ _ _ => false)

/-- `elements.copyNonRefSimple` with `element.copyNonRefSimple` -/
def MElems.copyNonRefSimple : (r : Nat) → MElems r → Except BErr (MElems r)
  | 0, (se : SingleElems) =>
    match se.elems.mapM SElem.copyNonRefSimple with
    | .ok l => .ok ({ elems := l, size := se.size, level := se.level } : SingleElems)
    | .error e => .error e
  | r + 1, (he : HkeyElems (MElems r)) =>
    match he.elems.mapM (fun el =>
      match el with
      | .single x => (SElem.copyNonRefSimple x).map MElemF.single
      | .inl g => (MElems.copyNonRefSimple r g).map MElemF.inl
      | .ext _ _ _ => .error .copyFailed) with
    | .ok l => .ok ({ hkeys := he.hkeys, elems := l, size := he.size, level := he.level } : HkeyElems (MElems r))
    | .error e => .error e

namespace MDataSlab
variable {r : Nat}

/-- `MapDataSlab.canCopyWithoutSlabID` -/
def canCopyWithoutSlabID (s : MDataSlab r) : Bool :=
  s.next == SlabID.undef && MElems.canCopy (r + 1) s.elems

/-- `MapDataSlab.copyWithNewSlabID(newID)` -/
def copyWithNewSlabID (s : MDataSlab r) (newID : SlabID) : Except BErr (MDataSlab r) :=
  if s.next ≠ SlabID.undef then .error .copyFailed
  else
    match MElems.copyNonRefSimple (r + 1) s.elems with
    | .error e => .error e
    | .ok elems =>
      .ok { hdr := { id := newID, firstKey := s.hdr.firstKey,
                     size := if s.inlined then
                               s.hdr.size - inlinedMapDataSlabPrefixSize + mapRootDataSlabPrefixSize
                             else s.hdr.size },
            next := SlabID.undef, elems := elems, root := s.root, inlined := false }

end MDataSlab

namespace OMap
variable {r : Nat}

/-- `OrderedMap.CanCopyNonRefSimple()` (`MapMetaDataSlab.canCopyWithoutSlabID` is `false`) -/
def canCopyNonRefSimple (m : OMap r) : Bool :=
  match m with
  | ⟨0, (s : MDataSlab r), _, _, _⟩ => s.canCopyWithoutSlabID
  | ⟨_ + 1, _, _, _, _⟩ => false

/-- `OrderedMap.CopyNonRefSimple(address, digestBuilder)`: type, count and seed are copied. -/
def copyNonRefSimple (m : OMap r) (addr : Nat) (c : Ctx) : BRes (OMap r × Ctx) :=
  match m with
  | ⟨_ + 1, _, _, _, _⟩ => .error (.copyFailed, c)      -- "can't copy multi-slab map"
  | ⟨0, (s : MDataSlab r), ty, count, seed⟩ =>
    let a := c.alloc addr
    match s.copyWithNewSlabID a.1 with
    | .error e => .error (e, a.2)
    | .ok s' => .ok (⟨0, s', ty, count, seed⟩, a.2.emit (.store a.1))

/-- `MapDataSlab.Inline`: `header.size = inlinedMapDataSlabPrefixSize + m.Size()` (the `Remove` of
    the slab belongs to the parent operation and is not part of this model). -/
def inlineRoot (m : OMap r) : OMap r :=
  match m with
  | ⟨0, (s : MDataSlab r), ty, count, seed⟩ =>
    ⟨0, ({ s with inlined := true,
                  hdr := { s.hdr with size := inlinedMapDataSlabPrefixSize + s.elems.size } } : MDataSlab r),
     ty, count, seed⟩
  | m => m

end OMap
end Atree
