import AtreeModel.Map.Tree
/-
  `OrderedMap` (map.go) without the nesting machinery: NewMap, Get, Has, Set, Remove, PopIterate,
  SetType, Count, splitRoot, promoteChildAsNewRoot, iteration order.
-/
namespace Atree
open Gen MTree

/-- A map handle: current root slab tree and the extra data (type, count, seed). -/
structure OMap (r : Nat) where
  d     : Nat
  root  : MTree r d
  ty    : Nat
  count : Nat
  seed  : Nat

namespace OMap
variable {r : Nat}

def rootHdr (m : OMap r) : MHdr := hdr m.d m.root
def rootID (m : OMap r) : SlabID := m.rootHdr.id
def addr (m : OMap r) : Nat := m.rootID.addr
def isInlined (m : OMap r) : Bool :=
  match m with
  | ⟨0, (s : MDataSlab r), _, _, _⟩ => s.inlined
  | ⟨_ + 1, _, _, _, _⟩ => false

/-- the dictionary the map represents, in iteration order -/
def toList (m : OMap r) : List (MKey × Elem) := MTree.toList m.d m.root

/-- `NewMap(storage, address, digesterBuilder, typeInfo)`; the seed is an uninterpreted function
    of the root slab ID (the harness recomputes it independently). -/
def new (addr ty : Nat) (seedOf : SlabID → Nat) (c : Ctx) : OMap r × Ctx :=
  let (id, c) := c.alloc addr
  let root : MDataSlab r :=
    { hdr := { id := id, size := mapRootDataSlabPrefixSize + hkeyElementsPrefixSize, firstKey := 0 },
      next := SlabID.undef, elems := { hkeys := [], elems := [], size := hkeyElementsPrefixSize, level := 0 },
      root := true, inlined := false }
  (⟨0, root, ty, 0, seedOf id⟩, c.emit (.store id))

/-- `OrderedMap.splitRoot()` -/
def splitRoot (m : OMap r) (c : Ctx) : Except MErr (OMap r × Ctx) := do
  let root0 : MTree r m.d :=
    match m with
    | ⟨0, (s : MDataSlab r), _, _, _⟩ =>
      ({ s with hdr := { s.hdr with size := s.hdr.size - mapRootDataSlabPrefixSize + mapDataSlabPrefixSize } } : MDataSlab r)
    | ⟨_ + 1, x, _, _, _⟩ => x
  let rootID := (hdr m.d root0).id
  let root1 := setRoot m.d root0 false
  let (sid, c) := c.alloc rootID.addr
  let oldRoot := setId m.d root1 sid
  let (left, right, c) ← split m.d oldRoot c
  let lh := hdr m.d left
  let rh := hdr m.d right
  let newRoot : MMetaSlab (MTree r m.d) :=
    { hdr := { id := rootID, size := mapMetaDataSlabPrefixSize + mapSlabHeaderSize * 2, firstKey := lh.firstKey },
      childHdrs := [lh, rh], children := [left, right], root := true }
  return ({ m with d := m.d + 1, root := newRoot }, ((c.emit (.store lh.id)).emit (.store rh.id)).emit (.store rootID))

/-- `promoteChildAsNewRoot` when the root index slab has exactly one child -/
def promoteIfSingleChild (m : OMap r) (c : Ctx) : OMap r × Ctx :=
  match m with
  | ⟨0, _, _, _, _⟩ => (m, c)
  | ⟨d + 1, (x : MMetaSlab (MTree r d)), ty, cnt, seed⟩ =>
    match x.childHdrs, x.children with
    | [h], [child] =>
      let child1 : MTree r d :=
        match d, child with
        | 0, (s : MDataSlab r) =>
          ({ s with hdr := { s.hdr with size := s.hdr.size - mapDataSlabPrefixSize + mapRootDataSlabPrefixSize } } : MDataSlab r)
        | _ + 1, y => y
      let newRoot := setRoot d (setId d child1 x.hdr.id) true
      (⟨d, newRoot, ty, cnt, seed⟩, (c.emit (.store x.hdr.id)).emit (.remove h.id))
    | _, _ => (m, c)

def splitRootIfFull (T : Nat) (m : OMap r) (c : Ctx) : Except MErr (OMap r × Ctx) :=
  if isFull T m.d m.root then m.splitRoot c else .ok (m, c)

/-- `OrderedMap.get` -/
def get (cfg : MCfg) (m : OMap r) (k : MKey) : Except MErr (MKey × Elem) := MTree.get cfg m.d m.root k

/-- `OrderedMap.Has` -/
def has (cfg : MCfg) (m : OMap r) (k : MKey) : Except MErr Bool :=
  match m.get cfg k with
  | .ok _ => .ok true
  | .error .keyNotFound => .ok false
  | .error e => .error e

/-- `OrderedMap.set` : returns the previous value, if any -/
def set (cfg : MCfg) (m : OMap r) (k : MKey) (v : Elem) (c : Ctx) : Except MErr (Option Elem × OMap r × Ctx) := do
  let (_, old, root', c) ← MTree.set cfg m.d m.root k v c
  let m1 : OMap r := { m with root := root', count := if old.isNone then m.count + 1 else m.count }
  let (m2, c) := m1.promoteIfSingleChild c
  let (m3, c) ← m2.splitRootIfFull cfg.T c
  return (old, m3, c)

/-- `OrderedMap.remove` -/
def remove (cfg : MCfg) (m : OMap r) (k : MKey) (c : Ctx) : Except MErr (MKey × Elem × OMap r × Ctx) := do
  let (rk, rv, root', c) ← MTree.remove cfg m.d m.root k c
  let m1 : OMap r := { m with root := root', count := m.count - 1 }
  let (m2, c) := m1.promoteIfSingleChild c
  let (m3, c) ← m2.splitRootIfFull cfg.T c
  return (rk, rv, m3, c)

/-- `OrderedMap.PopIterate` -/
def popIterate (m : OMap r) (c : Ctx) : List (MKey × Elem) × OMap r × Ctx :=
  let (l, _, c) := MTree.popIterate m.d m.root c
  let inl := m.isInlined
  let root : MDataSlab r :=
    { hdr := { id := m.rootID, firstKey := 0,
               size := (if inl then inlinedMapDataSlabPrefixSize else mapRootDataSlabPrefixSize) + hkeyElementsPrefixSize },
      next := SlabID.undef, elems := { hkeys := [], elems := [], size := hkeyElementsPrefixSize, level := 0 },
      root := true, inlined := inl }
  (l, { m with d := 0, root := root, count := 0 }, if inl then c else c.emit (.store m.rootID))

/-- `OrderedMap.SetType` for a standalone map -/
def setType (m : OMap r) (ty : Nat) (c : Ctx) : OMap r × Ctx :=
  ({ m with ty := ty }, if m.isInlined then c else c.emit (.store m.rootID))

end OMap
end Atree
