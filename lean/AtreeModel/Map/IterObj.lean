import AtreeModel.Map.Iter
import AtreeModel.Array.IterObj
/-
  The iterator OBJECTS of `OrderedMap` with their three step methods `Next / NextKey / NextValue`
  (map_iterator.go: `emptyMapIterator`, `mutableMapIterator`, `readOnlyMapIterator`,
  `MapLoadedValueIterator`; map.go: `Iterator`, `ReadOnlyIterator…`, `ReadOnlyLoadedValueIterator`)
  and the callback loops `iterateMap / iterateMapKeys / iterateMapValues` with their `resume` flag
  (the generic `iterateLoop` of Array/IterObj.lean instantiated with one of the three step methods).

  `Map/Iter.lean` gives the result of running one method to the end.  Here a caller may interleave
  the three methods on ONE iterator object, stop anywhere and call again after the end.

  Granularity: the element iterators of ONE data slab (`mapElementIterator`, `mapLoadedElementIterator`)
  are kept as the list of pairs they still have to hand out (`HkeyElems.elemIter`, `HkeyElems.loadedIter`
  of Map/Iter.lean are those iterators run to their end); the slab-level control flow (`advance`, the
  `next` link, the LIFO stack of index-slab cursors, the `dataIterator = nil` resets, the recursion
  `return i.Next()`) is transcribed step by step.
-/
namespace Atree

/-- `mapLoadedSlabIterator`: an index slab (of any depth) and the position of the next child header -/
structure MLoadedSlabCursor (r : Nat) where
  d    : Nat
  slab : MMetaSlab (MTree r d)
  idx  : Nat

/-- `MapLoadedValueIterator`: `parents` has the innermost index slab FIRST; `data` is `dataIterator`
    (`none` = nil) as the pairs it has not handed out yet. -/
structure MLoadedIter (r : Nat) where
  parents : List (MLoadedSlabCursor r)
  data    : Option (List (MKey × Elem))

namespace MLoadedIter
variable {r : Nat}

inductive ChildRes (r : Nat) where
  | leaf (s : MDataSlab r) (cur : MLoadedSlabCursor r)
  | inner (c : MLoadedSlabCursor r) (cur : MLoadedSlabCursor r)
  | done

/-- the `switch slab := nextChildSlab.(type)` of `nextDataIterator` -/
def childRes : (d : Nat) → MTree r d → MLoadedSlabCursor r → ChildRes r
  | 0, (s : MDataSlab r), cur => .leaf s cur
  | d + 1, (cm : MMetaSlab (MTree r d)), cur => .inner ⟨d, cm, 0⟩ cur

/-- `mapLoadedSlabIterator.next`: the next child whose slab is loaded -/
def slabNext (ld : SlabID → Bool) : Nat → MLoadedSlabCursor r → ChildRes r
  | 0, _ => .done
  | fuel + 1, p =>
    match p.slab.childHdrs[p.idx]? with
    | none => .done
    | some h =>
      if ld h.id then
        match p.slab.children[p.idx]? with
        | none => .done       -- cannot happen: headers and children have the same length
        | some child => childRes p.d child ⟨p.d, p.slab, p.idx + 1⟩
      else slabNext ld fuel ⟨p.d, p.slab, p.idx + 1⟩

/-- `MapLoadedValueIterator.nextDataIterator`: walk the stack until a loaded data slab turns up -/
def nextData (ld : SlabID → Bool) : Nat → List (MLoadedSlabCursor r) → Option (MDataSlab r) × List (MLoadedSlabCursor r)
  | 0, ps => (none, ps)
  | _ + 1, [] => (none, [])
  | fuel + 1, p :: ps =>
    match slabNext ld (p.slab.childHdrs.length + 1) p with
    | .leaf s p' => (some s, p' :: ps)
    | .inner c p' => nextData ld fuel (c :: p' :: ps)
    | .done => nextData ld fuel ps

/-- `MapLoadedValueIterator.Next()`.  `N` bounds the loop of `nextDataIterator`, the fuel bounds the
    direct recursion `return i.Next()` (taken once per data slab without loaded elements). -/
def next (ld : SlabID → Bool) (N : Nat) : Nat → MLoadedIter r → Option ((MKey × Elem) × MLoadedIter r)
  | 0, _ => none
  | fuel + 1, it =>
    let viaParents (ps : List (MLoadedSlabCursor r)) : Option ((MKey × Elem) × MLoadedIter r) :=
      match nextData ld N ps with
      | (some s, ps') => next ld N fuel ⟨ps', some (HkeyElems.loadedIter (MElems.iops r) ld s.elems)⟩
      | (none, _) => none
    match it.data with
    | some (p :: rest) => some (p, ⟨it.parents, some rest⟩)
    | some [] => viaParents it.parents       -- reach end of elements in the current data slab
    | none => viaParents it.parents

end MLoadedIter

/-- `readOnlyMapIterator`: `elemIterator` (`none` = nil) as the pairs it has not handed out yet -/
structure ROMapIter where
  nextDataSlabID : SlabID
  elemIterator   : Option (List (MKey × Elem))

/-- A `MapIterator` value. -/
inductive MapIter (r : Nat) where
  | empty (readOnly : Bool)               -- `emptyMapIterator`
  | mut (nextKey : Option MKey)           -- `mutableMapIterator`
  | ro (it : ROMapIter)                   -- `readOnlyMapIterator`
  | loaded (it : MLoadedIter r)           -- `MapLoadedValueIterator`

/-- which of the three step methods is called -/
inductive MapCall where
  | next | nextKey | nextValue
deriving DecidableEq, Repr

/-- what a step method returned (`nil` = the nil key / value) -/
inductive MapRet where
  | nil
  | pair (k : MKey) (v : Elem)
  | key (k : MKey)
  | value (v : Elem)
deriving DecidableEq

namespace MTree
variable {r : Nat}

/-- number of slabs of a tree (a bound for the work of one `Next()` of the loaded-value iterator) -/
def slabCount : (d : Nat) → MTree r d → Nat
  | 0, _ => 1
  | d + 1, (m : MMetaSlab (MTree r d)) => 1 + (m.children.map (slabCount d)).sum

end MTree

namespace MapIter
variable {r : Nat}

def canMutate : MapIter r → Bool
  | .empty rdonly => !rdonly
  | .mut _ => true
  | .ro _ => false
  | .loaded _ => false

/-- `readOnlyMapIterator.advance()` -/
def roAdvance (all : List (MDataSlab r)) (it : ROMapIter) : Except MErr ROMapIter :=
  match all.find? (fun s => s.hdr.id == it.nextDataSlabID) with
  | none => .error .slabNotFound
  | some s => .ok { nextDataSlabID := s.next,
                    elemIterator := some (HkeyElems.elemIter (MElems.iops r) s.elems) }

/-- `readOnlyMapIterator.Next()` / `NextKey()` / `NextValue()`: the three Go methods have the same
    body up to the component they keep (`ks != nil` / `vs != nil` decides "found"; keys and values of
    the model are never nil).  The fuel bounds the direct recursion `return i.Next()` taken when the
    element iterator of a data slab is exhausted. -/
def roNext (all : List (MDataSlab r)) : Nat → ROMapIter → Except MErr (Option (MKey × Elem) × ROMapIter)
  | 0, it => .ok (none, it)
  | fuel + 1, it =>
    let ready : Except MErr (Option ROMapIter) :=
      match it.elemIterator with
      | some _ => .ok (some it)
      | none =>
        if it.nextDataSlabID = SlabID.undef then .ok none
        else match roAdvance all it with
          | .error e => .error e
          | .ok it' => .ok (some it')
    match ready with
    | .error e => .error e
    | .ok none => .ok (none, it)
    | .ok (some it) =>
      match it.elemIterator with
      | some (p :: rest) => .ok (some p, { it with elemIterator := some rest })
      | _ => roNext all fuel { it with elemIterator := none }

/-- One call of `Next` / `NextKey` / `NextValue` on map `m`. -/
def step (cfg : MCfg) (m : OMap r) (ld : SlabID → Bool) (call : MapCall) (it : MapIter r) :
    Except MIterErr (MapRet × MapIter r) :=
  let ret (p : MKey × Elem) : MapRet :=
    match call with
    | .next => .pair p.1 p.2
    | .nextKey => .key p.1
    | .nextValue => .value p.2
  match it with
  | .empty rdonly => .ok (.nil, .empty rdonly)
  | .mut none => .ok (.nil, .mut none)
  | .mut (some cur) =>
    match m.getElementAndNextKey cfg cur with
    | .error e => .error (.op e)
    | .ok (k, v, nk) =>
      match call with
      | .next => .ok (.pair k v, .mut nk)
      | .nextKey => .ok (.key cur, .mut nk)       -- `NextKey` hands out the remembered key itself
      | .nextValue => .ok (.value v, .mut nk)
  | .ro it =>
    let all := MTree.dataSlabs m.d m.root
    match roNext all (all.length + 2) it with
    | .error e => .error (.op e)
    | .ok (none, it') => .ok (.nil, .ro it')
    | .ok (some p, it') => .ok (ret p, .ro it')
  | .loaded l =>
    -- `NextKey` and `NextValue` of the loaded-value iterator call `Next` and drop one component
    let N := 2 * MTree.slabCount m.d m.root + 2
    match MLoadedIter.next ld N N l with
    | none => .ok (.nil, .loaded l)
    | some (p, l') => .ok (ret p, .loaded l')

end MapIter

namespace OMap
variable {r : Nat}

/-- `OrderedMap.Iterator(comparator, hip)` -/
def iterator (m : OMap r) : Except MIterErr (MapIter r) :=
  if m.count = 0 then .ok (.empty false)
  else match m.iteratorStart with
    | .error e => .error e
    | .ok k => .ok (.mut k)

/-- `OrderedMap.ReadOnlyIteratorWithMutationCallback(kcb, vcb)` -/
def readOnlyIterator (m : OMap r) : Except MIterErr (MapIter r) :=
  if m.count = 0 then .ok (.empty true)
  else match MTree.firstDataSlab m.d m.root with
    | .error e => .error (.op e)
    | .ok s => .ok (.ro { nextDataSlabID := s.next,
                          elemIterator := some (HkeyElems.elemIter (MElems.iops r) s.elems) })

/-- `OrderedMap.ReadOnlyLoadedValueIterator()` -/
def loadedIterator (ld : SlabID → Bool) (m : OMap r) : MapIter r :=
  match m with
  | ⟨0, (s : MDataSlab r), _, _, _⟩ =>
    .loaded ⟨[], some (HkeyElems.loadedIter (MElems.iops r) ld s.elems)⟩
  | ⟨d + 1, ms, _, _, _⟩ => .loaded ⟨[⟨d, ms, 0⟩], none⟩

inductive IterFlavour where
  | mut | ro | loaded
deriving DecidableEq, Repr

def makeIterator (m : OMap r) (ld : SlabID → Bool) : IterFlavour → Except MIterErr (MapIter r)
  | .mut => m.iterator
  | .ro => m.readOnlyIterator
  | .loaded => .ok (m.loadedIterator ld)

/-- an iterator object driven by the given calls: `CanMutate()` and what each call returned -/
def stepCalls (cfg : MCfg) (m : OMap r) (ld : SlabID → Bool) (f : IterFlavour) (calls : List MapCall) :
    Except MIterErr (Bool × List MapRet) :=
  match m.makeIterator ld f with
  | .error e => .error e
  | .ok it0 =>
    let rec go : List MapCall → MapIter r → Except MIterErr (List MapRet)
      | [], _ => .ok []
      | c :: cs, it =>
        match MapIter.step cfg m ld c it with
        | .error e => .error e
        | .ok (x, it') =>
          match go cs it' with
          | .error e => .error e
          | .ok rest => .ok (x :: rest)
    match go calls it0 with
    | .error e => .error e
    | .ok l => .ok (it0.canMutate, l)

/-- the step function `iterateMap` (call = next), `iterateMapKeys` (nextKey), `iterateMapValues`
    (nextValue) hand to the callback loop: `MapRet.nil` ends the loop -/
def loopStep (cfg : MCfg) (m : OMap r) (ld : SlabID → Bool) (call : MapCall) (it : MapIter r) :
    Except MIterErr (Option MapRet × MapIter r) :=
  match MapIter.step cfg m ld call it with
  | .error e => .error e
  | .ok (.nil, it') => .ok (none, it')
  | .ok (x, it') => .ok (some x, it')

/-- `Iterate / IterateReadOnly / IterateReadOnlyLoadedValues` (call = next), `IterateKeys /
    IterateReadOnlyKeys` (nextKey), `IterateValues / IterateReadOnlyValues` (nextValue) with a callback
    described by `resume`: what was handed to the callback. -/
def iterateFlavour (cfg : MCfg) (m : OMap r) (ld : SlabID → Bool) (f : IterFlavour) (call : MapCall)
    (resume : Nat → MapRet → Bool) : Except MIterErr (List MapRet) :=
  match m.makeIterator ld f with
  | .error e => .error e
  | .ok it => iterateLoop (loopStep cfg m ld call) resume (m.count + 1) 0 it

end OMap
end Atree
