import AtreeModel.Map.Batch
/-
  Key side of the map copyability predicate (audit a1, F9).  DEFINITIONS ONLY.

  Go: `singleElement.canCopyNonRefSimple` is `e.key.CanCopyNonRefSimple() && e.value.CanCopyNonRefSimple()`
  (map_element.go:134-136).  `e.key` is the STORED key: `newSingleElement` calls
  `key.Storable(storage, address, maxInlineMapKeySize)`, and a plain value larger than that limit is
  stored in its own slab — the element then holds a `SlabIDStorable`, which is not copyable.
  The map model keeps every key inline (`KeyOk`: size ≤ `maxInlineMapKey T`, an assumption of all
  map theorems), and `SElem.canCopy` in `Map/Batch.lean` therefore asks the value only.  The
  functions below transcribe the Go conjunction for keys of ANY size; inside the key limit they
  agree with the value-only ones (`C17.can_copy_key_conjunct`), outside it the value-only model
  is wrong and the `K` versions are the transcription (T = 1024, key size 255 > 245: not copyable).
-/
namespace Atree
open Gen

/-- the stored key is the key itself (not a `SlabIDStorable`): `MapKey.CanCopyNonRefSimple()` -/
def MKey.storedInline (T : Nat) (k : MKey) : Bool := decide (k.size ≤ maxInlineMapKey T)

/-- `singleElement.canCopyNonRefSimple` (map_element.go:134-136) -/
def SElem.canCopyK (T : Nat) (x : SElem) : Bool := x.key.storedInline T && x.val.canCopy

/-- `elements.canCopyNonRefSimple` with the key conjunct -/
def MElems.canCopyK (T : Nat) : (r : Nat) → MElems r → Bool
  | 0, (se : SingleElems) => se.elems.all (SElem.canCopyK T)
  | r + 1, (he : HkeyElems (MElems r)) =>
    he.elems.all (fun el =>
      match el with
      | .single x => x.canCopyK T
      | .inl g => MElems.canCopyK T r g
      | .ext _ _ _ => false)

/-- `OrderedMap.CanCopyNonRefSimple()` with the key conjunct -/
def OMap.canCopyNonRefSimpleK {r : Nat} (T : Nat) (m : OMap r) : Bool :=
  match m with
  | ⟨0, (s : MDataSlab r), _, _, _⟩ => s.next == SlabID.undef && MElems.canCopyK T (r + 1) s.elems
  | ⟨_ + 1, _, _, _, _⟩ => false

end Atree
