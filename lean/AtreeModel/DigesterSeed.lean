import AtreeModel.Digester
import AtreeModel.Basic
import AtreeModel.Gen.Consts
/-
  Seed plumbing of maps: where the seed `k0` of a map comes from, where it is stored, and which
  `DigesterBuilder` OBJECT ends up carrying it.  Functional transcription of the seed-related lines
  of /repo/map.go (`NewMap` 74-125, `NewMapWithRootID` 127-150, `NewMapFromBatchData` 159-181 and
  398-413, `CopyNonRefSimple` 1545-1576) and /repo/map_data_slab.go (`MapDataSlab.StoredValue`
  428-442).  CORE LEAN ONLY.  The hash (`circlehash.Hash64Uint64x2`) stays the parameter
  `Hashes.circle2`.

  A `DigesterBuilder` is supplied BY THE CALLER as an interface value holding a pointer, and every
  constructor calls `SetSeed` on it: builders are therefore modelled as mutable objects in a heap
  (`BuilderRef` = address), and a map handle records WHICH builder object it uses.  Everything else
  about a map (its slabs) is irrelevant here and left out.
-/
namespace Atree.Dig
open Atree

/-- the number whose little-endian base-256 digits are `b` -/
def leNat : Bytes → Nat
  | [] => 0
  | x :: xs => x.toNat + 256 * leNat xs

/-- the `k` little-endian base-256 digits of `n` -/
def leDigits : Nat → Nat → Bytes
  | 0, _ => []
  | k + 1, n => (n % 256).toUInt8 :: leDigits k (n / 256)

/-- `binary.LittleEndian.Uint64(b)` — the first eight bytes, least significant first. -/
def leUint64 (b : Bytes) : UInt64 := UInt64.ofNat (leNat (b.take 8))

/-- the 8-byte BIG-endian form of `n < 2^64` (`binary.BigEndian.PutUint64`) — how `Address` and
    `SlabIndex` hold the numbers the model's `SlabID` carries (`AddressAsUint64`, `IndexAsUint64`,
    `SlabIndex.Next` all read them big-endian). -/
def beBytes8 (n : Nat) : Bytes := (leDigits 8 n).reverse

/-- the two `uint64` arguments `a`, `b` of map.go:93-94 for a slab ID: the big-endian address and
    index bytes read LITTLE-endian (a byte swap) -/
def seedArgs (id : SlabID) : UInt64 × UInt64 :=
  (leUint64 (beBytes8 id.addr), leUint64 (beBytes8 id.idx))

/-- `k0 := circlehash.Hash64Uint64x2(a, b, uint64(0))` (map.go:95) -/
def seedOfID (H : Hashes) (id : SlabID) : UInt64 :=
  H.circle2 (seedArgs id).1 (seedArgs id).2 0

/-- `typicalRandomConstant` (map.go:39), from the extracted constants -/
def k1Const : UInt64 := UInt64.ofNat Gen.typicalRandomConstant

abbrev BuilderRef := Nat

/-- what of an `*OrderedMap` matters here: the seed in the root slab's extra data and the builder
    object the handle points to -/
structure MapH where
  seed    : UInt64        -- `root.ExtraData().Seed`
  builder : BuilderRef    -- `m.digesterBuilder`
deriving DecidableEq, Repr

/-- the caller's builder objects -/
structure SeedWorld where
  builders : List Builder := []
deriving Repr

def SeedWorld.builder (w : SeedWorld) (r : BuilderRef) : Builder := w.builders.getD r Builder.new

/-- `NewDefaultDigesterBuilder()` — a new object -/
def SeedWorld.newBuilder (w : SeedWorld) : BuilderRef × SeedWorld :=
  (w.builders.length, { builders := w.builders ++ [Builder.new] })

/-- `digestBuilder.SetSeed(k0, k1)` through the pointer -/
def SeedWorld.setSeed (w : SeedWorld) (r : BuilderRef) (k0 k1 : UInt64) : SeedWorld :=
  { builders := w.builders.set r ((w.builder r).setSeed k0 k1) }

/-- `NewMap(storage, address, digestBuilder, typeInfo)` once `GenerateSlabID` returned `sID`:
    the seed is derived from the slab ID, given to the caller's builder and stored in the extra
    data.  (If the following `storeSlab` fails no map is returned, but the builder stays seeded:
    `ok = false`.) -/
def newMap (H : Hashes) (w : SeedWorld) (sID : SlabID) (b : BuilderRef) (ok : Bool := true) :
    Option MapH × SeedWorld :=
  let k0 := seedOfID H sID
  let k1 := k1Const
  let w := w.setSeed b k0 k1
  if ok then (some { seed := k0, builder := b }, w) else (none, w)

/-- `NewMapWithRootID(storage, rootID, digestBuilder)` once the root slab was retrieved; `seed` is
    `root.ExtraData().Seed` -/
def newMapWithRootID (w : SeedWorld) (seed : UInt64) (b : BuilderRef) : MapH × SeedWorld :=
  ({ seed := seed, builder := b }, w.setSeed b seed k1Const)

/-- `NewMapFromBatchData(storage, address, digesterBuilder, typeInfo, comparator, hip, seed, fn)`:
    rejects the zero seed BEFORE touching the builder; otherwise seeds it first; `ok = false`: a
    later step failed (the builder stays seeded). -/
def newMapFromBatchData (w : SeedWorld) (seed : UInt64) (b : BuilderRef) (ok : Bool := true) :
    Except DErr (Option MapH) × SeedWorld :=
  if seed = 0 then (.error .seedUninitialized, w)
  else
    let w := w.setSeed b seed k1Const
    if ok then (.ok (some { seed := seed, builder := b }), w) else (.ok none, w)

/-- `(m *OrderedMap) CopyNonRefSimple(address, digestBuilder)` for a single-slab source: the
    builder is seeded with the source's stored seed BEFORE the steps that may fail. -/
def copyNonRefSimple (w : SeedWorld) (m : MapH) (b : BuilderRef) (ok : Bool := true) :
    Option MapH × SeedWorld :=
  let seed := m.seed
  let w := w.setSeed b seed k1Const
  if ok then (some { seed := seed, builder := b }, w) else (none, w)

/-- `(m *MapDataSlab) StoredValue(storage)` — the handle of an inlined / referenced child map gets a
    NEW default builder seeded from the slab's extra data -/
def storedValue (w : SeedWorld) (seed : UInt64) : MapH × SeedWorld :=
  let (b, w) := w.newBuilder
  ({ seed := seed, builder := b }, w.setSeed b seed k1Const)

/-- the digest a map operation obtains for message `msg` at `level`: `m.digesterBuilder.Digest(hip,
    key)` then `Digest(level)`, by the cache-free definition (justified by `Props/Digester.lean`) -/
def MapH.digestOf (H : Hashes) (w : SeedWorld) (m : MapH) (msg : Bytes) (level : Nat) : Except DErr UInt64 :=
  if (w.builder m.builder).k0 = 0 then .error .seedUninitialized
  else spec H (w.builder m.builder).k0 msg level

end Atree.Dig
