import AtreeModel.Array.Slab
import AtreeModel.Map.Elems
/-
  Error kinds and result type of the bulk operations (C17).  A NEW enum that wraps the array and
  map error kinds; the existing enums are untouched.
-/
namespace Atree

/-- Errors of the bulk operations. -/
inductive BErr where
  | arr (e : AErr)
  | map (e : MErr)
  | hashNotSorted       -- HashError "digest isn't sorted" (Fatal)
  | duplicateKey        -- DuplicateKeyError (Fatal)
  | seedUninitialized   -- HashSeedUninitializedError (Fatal)
  | copyFailed          -- CopyError (Fatal)
  | unexpectedElemType  -- UnexpectedElementTypeError (User)
  | outOfFuel           -- the level loop exceeded its bound (never happens: see the theorems)
deriving DecidableEq, Repr

/-- Result of a bulk operation.  A failure carries the `Ctx` reached when the Go code returns the
    error, so that the storage calls made before the rejection can be compared as well. -/
abbrev BRes (α : Type) := Except (BErr × Ctx) α

end Atree
