import AtreeModel.Basic
/-
  `CheckStorageHealth` (storage_health_check.go) and `getAllChildReferences` (storage.go) over an
  abstract heap: the slabs the slab iterator yields when all slabs are loaded, i.e. the non-nil
  entries of the storage view.  A slab is reduced to its own ID (`slab.SlabID()`, whose address is
  the owner) and the slab references found by the breadth-first `ChildStorables` traversal
  (references inside inlined slabs and wrappers included, in traversal order).

  Go map iteration order is a free parameter: the heap is an association list and the model
  iterates in list order; the theorems hold for every order (they quantify over all heaps).
-/
namespace Atree

structure HSlab where
  self : SlabID
  refs : List SlabID
deriving Repr, DecidableEq

abbrev Heap := AList SlabID HSlab

inductive HErr where
  | twoParents       -- "two parents are captured for the slab"
  | twoRefsToLeaf    -- "at least two references found to the leaf slab"
  | slabNotFound     -- SlabNotFoundError
  | owner            -- "parent and child are not owned by the same account"
  | unreachable      -- "slab was not reachable from leaves"
  | rootCount        -- "number of root slabs doesn't match"
  | diverges         -- the Go loop would not terminate (a reference cycle below a leaf's ancestor)
deriving Repr, DecidableEq

namespace Health

/-- set-insert into a list used as a Go `map[SlabID]struct{}` -/
def setInsert (l : List SlabID) (id : SlabID) : List SlabID := if l.contains id then l else id :: l

/-- inner loop over one slab's references: `parentOf[sid] = id`, error on a second parent -/
def scanRefs (id : SlabID) : List SlabID → AList SlabID SlabID → Except HErr (AList SlabID SlabID)
  | [], po => .ok po
  | r :: rs, po =>
    if AList.contains po r then .error .twoParents
    else scanRefs id rs (AList.insert po r id)

/-- first loop of `CheckStorageHealth`: returns `parentOf` and `leaves` (in iteration order) -/
def scan : Heap → AList SlabID SlabID → List SlabID → Except HErr (AList SlabID SlabID × List SlabID)
  | [], po, lv => .ok (po, lv)
  | (id, s) :: rest, po, lv =>
    match scanRefs id s.refs po with
    | .error e => .error e
    | .ok po' => scan rest po' (if s.refs.isEmpty then lv ++ [id] else lv)

/-- the check added by the fix: every referenced ID must be one of the iterated slabs -/
def allResolve (h : Heap) (po : AList SlabID SlabID) : Bool :=
  po.all (fun p => AList.contains h p.1)

/-- walk from `id` up the `parentOf` chain (the inner `for` of the second loop) -/
def climb (h : Heap) (po : AList SlabID SlabID) : Nat → SlabID → List SlabID → List SlabID →
    Except HErr (List SlabID × List SlabID)
  | 0, _, _, _ => .error .diverges
  | fuel + 1, id, visited, roots =>
    match AList.find? po id with
    | none => .ok (visited, setInsert roots id)
    | some parent =>
      let visited := setInsert visited parent
      match AList.find? h id, AList.find? h parent with
      | some c, some p =>
        if c.self.addr ≠ p.self.addr then .error .owner
        else climb h po fuel parent visited roots
      | _, _ => .error .slabNotFound

/-- second loop: from every leaf -/
def climbAll (h : Heap) (po : AList SlabID SlabID) : List SlabID → List SlabID → List SlabID →
    Except HErr (List SlabID × List SlabID)
  | [], visited, roots => .ok (visited, roots)
  | leaf :: rest, visited, roots =>
    if visited.contains leaf then .error .twoRefsToLeaf
    else
      match climb h po (h.length + 1) leaf (leaf :: visited) roots with
      | .error e => .error e
      | .ok (v, r) => climbAll h po rest v r

/-- `CheckStorageHealth(storage, expectedNumberOfRootSlabs)`; `expected = none` is Go's `-1`. -/
def check (h : Heap) (expected : Option Nat) : Except HErr (List SlabID) :=
  match scan h [] [] with
  | .error e => .error e
  | .ok (po, leaves) =>
    if !allResolve h po then .error .slabNotFound
    else
      match climbAll h po leaves [] [] with
      | .error e => .error e
      | .ok (visited, roots) =>
        if visited.length ≠ h.length then .error .unreachable
        else
          match expected with
          | some n => if roots.length ≠ n then .error .rootCount else .ok roots
          | none => .ok roots

/-- `getAllChildReferences`: breadth-first over the references, level by level; returns
    `(references, brokenReferences)` in discovery order.  `fuel` bounds the number of levels
    (the Go loop does not terminate on a reference cycle). -/
def childRefs (h : Heap) : Nat → List SlabID → List SlabID → List SlabID → List SlabID × List SlabID
  | 0, _, refs, broken => (refs, broken)
  | _, [], refs, broken => (refs, broken)
  | fuel + 1, level, refs, broken =>
    let step := level.foldl (fun (acc : List SlabID × List SlabID × List SlabID) r =>
      match AList.find? h r with
      | none => (acc.1, acc.2.1 ++ [r], acc.2.2)
      | some s => (acc.1 ++ [r], acc.2.1, acc.2.2 ++ s.refs)) (refs, broken, [])
    childRefs h fuel step.2.2 step.1 step.2.1

def allChildReferences (h : Heap) (root : SlabID) : Option (List SlabID × List SlabID) :=
  match AList.find? h root with
  | none => none
  | some s => some (childRefs h (h.length + 1) s.refs [] [])

end Health
end Atree
