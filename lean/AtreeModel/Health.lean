import AtreeModel.Basic
import AtreeModel.Storage
/-
  `CheckStorageHealth` (storage_health_check.go) and `getAllChildReferences` (storage.go) over an
  abstract heap: the slabs the slab iterator yields when all slabs are loaded, i.e. the non-nil
  entries of the storage view.  A slab is reduced to its own ID (`slab.SlabID()`, whose address is
  the owner) and the slab references found by the breadth-first `ChildStorables` traversal
  (references inside inlined slabs and wrappers included, in traversal order).

  Go map iteration order is a free parameter: the heap is an association list and the model
  iterates in list order; the theorems hold for every order (they quantify over all heaps).

  Second part: `PersistentSlabStorage.SlabIterator` (storage.go) on the storage state machine
  `St` (`slabIterator`), and `CheckStorageHealth` run on what it yields (`checkStorage`), including
  the `duplicate slab` test.  `AtreeProofs/Health/Iter.lean` connects the two parts.
-/
namespace Atree

structure HSlab where
  self : SlabID
  refs : List SlabID
deriving Repr, DecidableEq

abbrev Heap := AList SlabID HSlab

inductive HErr where
  | twoParents       -- "two parents are captured for the slab"
  | twoRefsToLeaf    -- "at least two references found to the leaf slab"
  | slabNotFound     -- SlabNotFoundError
  | owner            -- "parent and child are not owned by the same account"
  | unreachable      -- "slab was not reachable from leaves"
  | rootCount        -- "number of root slabs doesn't match"
  | diverges         -- the Go loop would not terminate (a reference cycle)
  | duplicate        -- "duplicate slab" (the iterator yielded one ID twice)
  | decoding         -- slab iteration could not decode a register it had to load
deriving Repr, DecidableEq

namespace Health

/-- set-insert into a list used as a Go `map[SlabID]struct{}` -/
def setInsert (l : List SlabID) (id : SlabID) : List SlabID := if l.contains id then l else id :: l

/-- inner loop over one slab's references: `parentOf[sid] = id`, error on a second parent -/
def scanRefs (id : SlabID) : List SlabID → AList SlabID SlabID → Except HErr (AList SlabID SlabID)
  | [], po => .ok po
  | r :: rs, po =>
    if AList.contains po r then .error .twoParents
    else scanRefs id rs (AList.insert po r id)

/-- first loop of `CheckStorageHealth`: returns `parentOf` and `leaves` (in iteration order) -/
def scan : Heap → AList SlabID SlabID → List SlabID → Except HErr (AList SlabID SlabID × List SlabID)
  | [], po, lv => .ok (po, lv)
  | (id, s) :: rest, po, lv =>
    match scanRefs id s.refs po with
    | .error e => .error e
    | .ok po' => scan rest po' (if s.refs.isEmpty then lv ++ [id] else lv)

/-- the check added by the fix: every referenced ID must be one of the iterated slabs -/
def allResolve (h : Heap) (po : AList SlabID SlabID) : Bool :=
  po.all (fun p => AList.contains h p.1)

/-- walk from `id` up the `parentOf` chain (the inner `for` of the second loop) -/
def climb (h : Heap) (po : AList SlabID SlabID) : Nat → SlabID → List SlabID → List SlabID →
    Except HErr (List SlabID × List SlabID)
  | 0, _, _, _ => .error .diverges
  | fuel + 1, id, visited, roots =>
    match AList.find? po id with
    | none => .ok (visited, setInsert roots id)
    | some parent =>
      let visited := setInsert visited parent
      match AList.find? h id, AList.find? h parent with
      | some c, some p =>
        if c.self.addr ≠ p.self.addr then .error .owner
        else climb h po fuel parent visited roots
      | _, _ => .error .slabNotFound

/-- second loop: from every leaf -/
def climbAll (h : Heap) (po : AList SlabID SlabID) : List SlabID → List SlabID → List SlabID →
    Except HErr (List SlabID × List SlabID)
  | [], visited, roots => .ok (visited, roots)
  | leaf :: rest, visited, roots =>
    if visited.contains leaf then .error .twoRefsToLeaf
    else
      match climb h po (h.length + 1) leaf (leaf :: visited) roots with
      | .error e => .error e
      | .ok (v, r) => climbAll h po rest v r

/-- `CheckStorageHealth(storage, expectedNumberOfRootSlabs)`; `expected = none` is Go's `-1`. -/
def check (h : Heap) (expected : Option Nat) : Except HErr (List SlabID) :=
  match scan h [] [] with
  | .error e => .error e
  | .ok (po, leaves) =>
    if !allResolve h po then .error .slabNotFound
    else
      match climbAll h po leaves [] [] with
      | .error e => .error e
      | .ok (visited, roots) =>
        if visited.length ≠ h.length then .error .unreachable
        else
          match expected with
          | some n => if roots.length ≠ n then .error .rootCount else .ok roots
          | none => .ok roots

/-- one level of `getAllChildReferences`: every reference of the level is retrieved; a missing
    slab is a broken reference, a found one is a reference whose own references join the next level.
    The accumulator is `(references, brokenReferences, nextChildStorables)`. -/
def levelStep (h : Heap) (acc : List SlabID × List SlabID × List SlabID) (r : SlabID) :
    List SlabID × List SlabID × List SlabID :=
  match AList.find? h r with
  | none => (acc.1, acc.2.1 ++ [r], acc.2.2)
  | some s => (acc.1 ++ [r], acc.2.1, acc.2.2 ++ s.refs)

/-- `getAllChildReferences`: breadth-first over the references, level by level; returns
    `(references, brokenReferences)` in discovery order (a slab reachable along two paths is listed
    twice, as in Go).  `fuel` bounds the number of levels: the Go loop does not terminate on a
    reference cycle; running out of fuel with references still to visit is reported as `diverges`
    (with `fuel > h.length` that happens exactly when there is a cycle, see
    `Health.childRefs_diverges_iff`). -/
def childRefs (h : Heap) : Nat → List SlabID → List SlabID → List SlabID →
    Except HErr (List SlabID × List SlabID)
  | _, [], refs, broken => .ok (refs, broken)
  | 0, _ :: _, _, _ => .error .diverges
  | fuel + 1, r :: rs, refs, broken =>
    let step := (r :: rs).foldl (levelStep h) (refs, broken, [])
    childRefs h fuel step.2.2 step.1 step.2.1

/-- `GetAllChildReferences(id)`: `SlabNotFoundError` when `id` itself is not found. -/
def allChildReferences (h : Heap) (root : SlabID) : Except HErr (List SlabID × List SlabID) :=
  match AList.find? h root with
  | none => .error .slabNotFound
  | some s => childRefs h (h.length + 1) s.refs [] []

/-! ### `PersistentSlabStorage.SlabIterator` and `CheckStorageHealth` on what it yields

`σ` is the in-memory slab, `β` the register; `abs id v` reduces the slab `v` held under the key `id`
to its own ID (`v.SlabID()`; the key is passed along for slab types of the model that do not carry
their ID) and the references its `ChildStorables` traversal finds.  The model flattens that traversal (`(abs id v).refs`)
where Go interleaves it with the loads, so the ORDER in which lazily loaded slabs are appended may
differ from Go's; the multiset of yielded entries is the same, and the order of the slice is a free
parameter of the check anyway (Go map iteration order of `deltas` / `cache`). -/

section Iterator
variable {σ β : Type}

/-- one level of `appendChildStorables`: a reference that is a KEY of `deltas` or `cache` (even with
    a nil value) is skipped; any other is fetched with `RetrieveIgnoringDeltas(id, false)` (not
    cached), appended to the slice, and its references join the next level. -/
def iterLevel (c : Codec σ β) (abs : SlabID → σ → HSlab) (s : St σ β) :
    List SlabID → List (SlabID × σ) → List SlabID → Except HErr (List (SlabID × σ) × List SlabID)
  | [], acc, next => .ok (acc, next)
  | id :: rest, acc, next =>
    if AList.contains s.deltas id then iterLevel c abs s rest acc next
    else if AList.contains s.cache id then iterLevel c abs s rest acc next
    else
      match s.retrieveIgnoringDeltas c id false with
      | .error _ => .error .decoding
      | .ok (none, _) => .error .slabNotFound       -- "slab not found during slab iteration"
      | .ok (some v, _) => iterLevel c abs s rest (acc ++ [(id, v)]) (next ++ (abs id v).refs)

/-- `appendChildStorables`: level by level until no reference is left.  `fuel` bounds the number
    of levels (a reference cycle among registers that are not loaded makes the Go loop run
    forever). -/
def iterChildren (c : Codec σ β) (abs : SlabID → σ → HSlab) (s : St σ β) :
    Nat → List SlabID → List (SlabID × σ) → Except HErr (List (SlabID × σ))
  | _, [], acc => .ok acc
  | 0, _ :: _, _ => .error .diverges
  | fuel + 1, r :: rs, acc =>
    match iterLevel c abs s (r :: rs) acc [] with
    | .error e => .error e
    | .ok (acc', next) => iterChildren c abs s fuel next acc'

/-- `appendSlab` -/
def iterAppend (c : Codec σ β) (abs : SlabID → σ → HSlab) (s : St σ β) (acc : List (SlabID × σ))
    (id : SlabID) (v : σ) : Except HErr (List (SlabID × σ)) :=
  iterChildren c abs s (s.base.length + 1) (abs id v).refs (acc ++ [(id, v)])

/-- first loop of `SlabIterator`: the write set; nil entries are skipped -/
def iterDeltas (c : Codec σ β) (abs : SlabID → σ → HSlab) (s : St σ β) :
    List (SlabID × Option σ) → List (SlabID × σ) → Except HErr (List (SlabID × σ))
  | [], acc => .ok acc
  | (_, none) :: rest, acc => iterDeltas c abs s rest acc
  | (id, some v) :: rest, acc =>
    match iterAppend c abs s acc id v with
    | .error e => .error e
    | .ok acc' => iterDeltas c abs s rest acc'

/-- second loop: the copied cache keys; nil entries and IDs that are keys of the write set are
    skipped -/
def iterCache (c : Codec σ β) (abs : SlabID → σ → HSlab) (s : St σ β) :
    List SlabID → List (SlabID × σ) → Except HErr (List (SlabID × σ))
  | [], acc => .ok acc
  | id :: rest, acc =>
    match AList.find? s.cache id with
    | none | some none => iterCache c abs s rest acc
    | some (some v) =>
      if AList.contains s.deltas id then iterCache c abs s rest acc
      else
        match iterAppend c abs s acc id v with
        | .error e => .error e
        | .ok acc' => iterCache c abs s rest acc'

/-- `PersistentSlabStorage.SlabIterator()`: the slice the returned closure walks through. -/
def slabIterator (c : Codec σ β) (abs : SlabID → σ → HSlab) (s : St σ β) :
    Except HErr (List (SlabID × σ)) :=
  match iterDeltas c abs s s.deltas [] with
  | .error e => .error e
  | .ok acc => iterCache c abs s (AList.keys s.cache) acc

end Iterator

/-- first loop of `CheckStorageHealth` with its `duplicate slab` test (`seen` = keys of `slabs`) -/
def scanD : List (SlabID × HSlab) → List SlabID → AList SlabID SlabID → List SlabID →
    Except HErr (AList SlabID SlabID × List SlabID)
  | [], _, po, lv => .ok (po, lv)
  | (id, s) :: rest, seen, po, lv =>
    if seen.contains id then .error .duplicate
    else
      match scanRefs id s.refs po with
      | .error e => .error e
      | .ok po' => scanD rest (id :: seen) po' (if s.refs.isEmpty then lv ++ [id] else lv)

/-- `CheckStorageHealth` on the slice an iterator yields (an ID may occur twice in it); the slabs
    retrieved while climbing are the yielded ones. -/
def checkYield (ys : Heap) (expected : Option Nat) : Except HErr (List SlabID) :=
  match scanD ys [] [] [] with
  | .error e => .error e
  | .ok (po, leaves) =>
    if !allResolve ys po then .error .slabNotFound
    else
      match climbAll ys po leaves [] [] with
      | .error e => .error e
      | .ok (visited, roots) =>
        if visited.length ≠ ys.length then .error .unreachable
        else
          match expected with
          | some n => if roots.length ≠ n then .error .rootCount else .ok roots
          | none => .ok roots

/-- `CheckStorageHealth(storage, expected)` for a `PersistentSlabStorage`. -/
def checkStorage {σ β : Type} (c : Codec σ β) (abs : SlabID → σ → HSlab) (s : St σ β)
    (expected : Option Nat) : Except HErr (List SlabID) :=
  match slabIterator c abs s with
  | .error e => .error e
  | .ok ys => checkYield (ys.map (fun p => (p.1, abs p.1 p.2))) expected

end Health
end Atree
