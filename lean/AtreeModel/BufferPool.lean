/-
  The two process-wide buffer pools: functional transcription of /repo/buffer.go (`bufferPool`,
  `getBuffer`, `putBuffer`) and /repo/extradata.go:400-418 (`typeIDBufferPool`, `getTypeIDBuffer`,
  `putTypeIDBuffer`) — the two have the same shape and differ only in the size handed to `Grow` —
  and of what their three holders do with a buffer (`ArrayDataSlab.Encode`,
  array_data_slab_encode.go:121-204; `MapDataSlab.Encode`, map_data_slab_encode.go:48-141;
  `getEncodedTypeInfo`, extradata.go:386-399).  CORE LEAN ONLY.

  What is NOT modelled: `bytes.Buffer` and `sync.Pool` themselves (standard library).  Of
  `bytes.Buffer` the model keeps what the library can observe through the methods it calls — the
  extractor fact `Gen.bufferPoolUses` lists them: the buffer is the `io.Writer` of an encoder (bytes
  are appended), `Bytes()` / `String()` (the unread contents; the library never reads FROM the
  buffer, so the read offset stays 0), `Reset()` — plus the capacity, which is what `Reset` leaves
  behind.  How a full buffer grows is Go's business: the uninterpreted parameter `G`.

  Go pointers become values, as in `AtreeModel/Digester.lean`: a `*bytes.Buffer` handed out by the
  pool is a `Buffer` value its holder threads through its calls.  That is faithful as long as an
  object has ONE holder at a time and no holder keeps using it after `put`; for these pools this is
  the extractor fact `Gen.bufferGetIsFollowedByDeferredPut` together with `Gen.bufferPoolUses`
  (the `put` is the deferred call directly after the `get`; the variable is not stored, returned,
  sent or captured; the slice returned by `Bytes()` is copied at once).
-/
namespace Atree.Buf

abbrev Bytes := List UInt8

/-- Go's growth policy of `bytes.Buffer`: `G cap need` is the capacity after making room for a total
    of `need` bytes in a buffer of capacity `cap < need` (uninterpreted). -/
abbrev Growth := Nat → Nat → Nat

/-- `bytes.Buffer` with read offset 0: the contents (`Bytes()`, `String()`, `Len()`) and the capacity
    of the underlying array. -/
structure Buffer where
  data : Bytes := []
  cap  : Nat := 0
deriving DecidableEq, Repr, Inhabited

/-- `e := new(bytes.Buffer); e.Grow(n); return e` — what `bufferPool.New` (`n = int(maxThreshold)`,
    read from the settings at the moment of the call) and `typeIDBufferPool.New`
    (`n = defaultTypeIDBufferSize`) return (buffer.go:27-31, extradata.go:404-408). -/
def Buffer.fresh (G : Growth) (n : Nat) : Buffer := { data := [], cap := if n = 0 then 0 else G 0 n }

/-- `(*bytes.Buffer).Reset()`: "resets the buffer to be empty, but it retains the underlying storage". -/
def Buffer.reset (b : Buffer) : Buffer := { b with data := [] }

/-- `(*bytes.Buffer).Write(p)`: appends, growing if needed. -/
def Buffer.write (G : Growth) (b : Buffer) (p : Bytes) : Buffer :=
  { data := b.data ++ p,
    cap := if b.data.length + p.length ≤ b.cap then b.cap else G b.cap (b.data.length + p.length) }

/-- `(*bytes.Buffer).Bytes()` / `String()`: the contents. -/
def Buffer.bytes (b : Buffer) : Bytes := b.data

/-! ### The pool -/

/-- `var bufferPool = sync.Pool{New: …}` — the objects currently parked in it. -/
structure Pool where
  free : List Buffer := []
deriving Repr

/-- `getBuffer()` = `bufferPool.Get().(*bytes.Buffer)` (buffer.go:34).  `sync.Pool.Get` "selects an
    ARBITRARY item from the Pool, removes it and returns it", "may choose to ignore the pool and
    treat it as empty", and then calls `New`: `choice = some i` takes the i-th parked object, `none`
    (or an index that is not there) a new one grown to `n`. -/
def Pool.get (G : Growth) (p : Pool) (choice : Option Nat) (n : Nat) : Buffer × Pool :=
  match choice with
  | none => (Buffer.fresh G n, p)
  | some i =>
    match p.free[i]? with
    | some b => (b, { free := p.free.eraseIdx i })
    | none => (Buffer.fresh G n, p)

/-- `sync.Pool` may drop any parked object at any time (GC). -/
def Pool.drop (p : Pool) (i : Nat) : Pool := { free := p.free.eraseIdx i }

/-- `func putBuffer(e *bytes.Buffer) { e.Reset(); bufferPool.Put(e) }` (buffer.go:38): `Reset` THEN `Put`. -/
def Pool.put (p : Pool) (b : Buffer) : Pool := { free := b.reset :: p.free }

/-! ### One holder

`elementBuf := getBuffer(); defer putBuffer(elementBuf); …writes through the element encoder…;
enc.CBOR.EncodeRawBytes(elementBuf.Bytes())` (`ArrayDataSlab.Encode`, `MapDataSlab.Encode`) and
`b := getTypeIDBuffer(); defer putTypeIDBuffer(b); …writes…; return b.String()` (`getEncodedTypeInfo`):
the bytes the holder copies out, and the pool after the deferred `put`.  `ws` are the writes in order;
`completes = false` is an early error return (nothing is copied out; the deferred `put` still runs). -/
def useBuffer (G : Growth) (p : Pool) (choice : Option Nat) (n : Nat) (ws : List Bytes) (completes : Bool) :
    Option Bytes × Pool :=
  let (b, p) := p.get G choice n
  let b := ws.foldl (Buffer.write G) b
  (if completes then some b.bytes else none, p.put b)

/-! ### Histories: any number of holders of one pool, interleaved

A holder owns buffers in numbered slots.  Everything a holder does to a pooled buffer and the pool's
own freedom (which object `Get` returns, dropping objects) is an event. -/

inductive Ev where
  | get (choice : Option Nat) (n : Nat)   -- getBuffer(): a new slot (n = the size `New` would grow to)
  | write (slot : Nat) (p : Bytes)         -- a write through the encoder whose Writer is the buffer
  | read (slot : Nat)                      -- Bytes() copied at once / String()
  | put (slot : Nat)                       -- the deferred putBuffer; the slot is given up
  | drop (i : Nat)                         -- the pool discards an object
deriving Repr

inductive Obs where
  | read (b : Bytes)
  | none            -- no result (get / write / put / drop, or an event on an empty slot)
deriving DecidableEq, Repr

/-- pool + the buffers currently held (slot `i` = i-th `get`; `none` once given up) -/
structure World where
  pool : Pool := {}
  held : List (Option Buffer) := []

def getSlot {α : Type} (held : List (Option α)) (i : Nat) : Option α := (held[i]?).join

/-- One event on the pooled implementation.  `putWith` is the put helper (`Pool.put` in the code). -/
def World.stepWith (putWith : Pool → Buffer → Pool) (G : Growth) (w : World) : Ev → Obs × World
  | .get choice n =>
    let (b, p) := w.pool.get G choice n
    (.none, { pool := p, held := w.held ++ [some b] })
  | .write s p =>
    match getSlot w.held s with
    | some b => (.none, { w with held := w.held.set s (some (b.write G p)) })
    | none => (.none, w)
  | .read s =>
    match getSlot w.held s with
    | some b => (.read b.bytes, w)
    | none => (.none, w)
  | .put s =>
    match getSlot w.held s with
    | some b => (.none, { pool := putWith w.pool b, held := w.held.set s none })
    | none => (.none, w)
  | .drop i => (.none, { w with pool := w.pool.drop i })

def World.runWith (putWith : Pool → Buffer → Pool) (G : Growth) : World → List Ev → List Obs × World
  | w, [] => ([], w)
  | w, e :: es =>
    let (o, w1) := w.stepWith putWith G e
    let (os, w2) := World.runWith putWith G w1 es
    (o :: os, w2)

/-- the code as it is: `putBuffer` / `putTypeIDBuffer` -/
def World.step (G : Growth) (w : World) (e : Ev) : Obs × World := w.stepWith Pool.put G e
def World.run (G : Growth) (w : World) (es : List Ev) : List Obs × World := World.runWith Pool.put G w es

/-- The same history WITHOUT a pool: every `get` makes a new, empty byte string; a read returns what
    THIS slot's holder wrote since. -/
def specStep (held : List (Option Bytes)) : Ev → Obs × List (Option Bytes)
  | .get _ _ => (.none, held ++ [some []])
  | .write s p =>
    match getSlot held s with
    | some d => (.none, held.set s (some (d ++ p)))
    | none => (.none, held)
  | .read s =>
    match getSlot held s with
    | some d => (.read d, held)
    | none => (.none, held)
  | .put s =>
    match getSlot held s with
    | some _ => (.none, held.set s none)
    | none => (.none, held)
  | .drop _ => (.none, held)

def specRun : List (Option Bytes) → List Ev → List Obs
  | _, [] => []
  | held, e :: es =>
    let (o, held1) := specStep held e
    o :: specRun held1 es

/-! ### A defective put helper (for the negative theorem): forgets `e.Reset()` -/

/-- `putBuffer` without the line `e.Reset()`. -/
def Pool.badPut (p : Pool) (b : Buffer) : Pool := { free := b :: p.free }

/-! ### Object identity (for the negative theorems about the source premises)

The value model above cannot express a holder that keeps using a buffer after `put` (a `put` that is
not the deferred last action; a slice returned by `Bytes()` that is kept instead of copied): there a
slot is given up at `put`.  Here buffers live at addresses, the pool parks ADDRESSES, and nothing stops
a holder from using an address it has put back. -/

/-- the heap of `bytes.Buffer` objects and the addresses parked in the pool -/
structure HWorld where
  heap : List Buffer := []
  free : List Nat := []
deriving Repr

/-- `getBuffer()`: the most recently parked address if there is one (one of `sync.Pool`'s possible
    choices — a per-P pool hands back what the same P just put), else a new object. -/
def HWorld.get (G : Growth) (w : HWorld) (n : Nat) : Nat × HWorld :=
  match w.free with
  | a :: rest => (a, { w with free := rest })
  | [] => (w.heap.length, { w with heap := w.heap ++ [Buffer.fresh G n] })

/-- `putBuffer(e)`: `e.Reset()` on the object, then its address is parked. -/
def HWorld.put (w : HWorld) (a : Nat) : HWorld :=
  { heap := w.heap.modify a Buffer.reset, free := a :: w.free }

/-- a write through a pointer (valid or stale) -/
def HWorld.write (G : Growth) (w : HWorld) (a : Nat) (p : Bytes) : HWorld :=
  { w with heap := w.heap.modify a (fun b => b.write G p) }

/-- the contents behind a pointer / behind a slice obtained from `Bytes()` earlier (the slice shares the
    buffer's array: as long as the buffer has not grown, reading it reads the array) -/
def HWorld.read (w : HWorld) (a : Nat) : Bytes := (w.heap[a]?.map Buffer.bytes).getD []

end Atree.Buf
