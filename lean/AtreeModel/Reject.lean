import AtreeModel.Errors
/-
  C18 — the request prefix as IN-PLACE programs.

  The array / map models (`Array/*.lean`, `Map/*.lean`) are pure functions into `Except`: when they
  return an error there is no state, so "an error leaves everything as it was" cannot even be
  said about them.  The Go functions work on slab OBJECTS in place: whatever a function did before
  it returned an error stays done.  This file transcribes the request paths once more, in Go
  STATEMENT ORDER, as programs over a state that SURVIVES an error:

      Prog σ ε α  =  σ → Except ε α × σ

  (`StateT σ (Except ε)` would throw the state away on an error).  A statement is a step of the
  program; a call of `Set`/`Insert`/`Remove` on a child slab or an element runs the callee's program on
  that object, and what the callee did to it is written back whether or not it failed (`zoom`).
  Once no argument check can fire any more (after the last descent), the remaining statements –
  splitting, merging, re-balancing, storing – are taken from the functional model as one step.

  Transcribed: `ArrayDataSlab.Set/Insert/Remove`, `ArrayMetaDataSlab.Set/Insert/Remove` (all depths),
  `Array.set/Insert/remove`; `singleElements.Set`, `singleElement / inlineCollisionGroup /
  externalCollisionGroup.Set`, `hkeyElements.Set` with the collision-limit check, `MapDataSlab.Set`,
  `MapMetaDataSlab.Set`, `OrderedMap.set`; `…Remove` of the same map functions.
  Theorems: AtreeProofs/Props/C18Reject.lean.
-/
namespace Atree
open Gen

/-- a Go function body working on objects in place: result AND the state it leaves behind -/
def Prog (σ ε α : Type) := σ → Except ε α × σ

namespace Prog
variable {σ τ ε α β : Type}

/-- `return err` -/
def fail (e : ε) : Prog σ ε α := fun s => (.error e, s)
/-- `return a, nil` -/
def ret (a : α) : Prog σ ε α := fun s => (.ok a, s)
/-- sequencing: the second statement runs only if the first did not return an error; the state is
    threaded through in both cases -/
def andThen (p : Prog σ ε α) (f : α → Prog σ ε β) : Prog σ ε β := fun s =>
  match p s with
  | (.ok a, s1) => f a s1
  | (.error e, s1) => (.error e, s1)
/-- an assignment -/
def assign (f : σ → σ) : Prog σ ε Unit := fun s => (.ok (), f s)
/-- a functional step (everything after the last statement that can refuse the request): on
    success the new state, on failure the state as it was (the failures of these steps are internal
    errors, never argument errors: `tail_errors_not_arg`) -/
def tail (f : σ → Except ε (α × σ)) : Prog σ ε α := fun s =>
  match f s with
  | .ok (a, s1) => (.ok a, s1)
  | .error e => (.error e, s)

instance : Monad (Prog σ ε) where
  pure := ret
  bind := andThen

end Prog

/-! ## Arrays -/

/-- `value.Storable(storage, address, maxInlineArrayElementSize)`: may allocate and store a slab -/
def storableP {α : Type} (T addr : Nat) (v : Elem) : Prog (α × Ctx) AErr Elem := fun (a, c) =>
  let (e, c') := toStorable T addr v c
  (.ok e, (a, c'))

namespace DataSlab

/-- `if !a.inlined { storeSlab(storage, a) }` -/
def storeP : Prog (DataSlab × Ctx) AErr Unit := fun (s, c) => (.ok (), (s, s.storeIfNotInlined c))

/-- `ArrayDataSlab.Set` (array_data_slab.go), statement by statement -/
def setP (T i : Nat) (v : Elem) : Prog (DataSlab × Ctx) AErr Elem := fun (s, c) =>
  -- if index >= uint64(len(a.elements)) { return nil, NewIndexOutOfBoundsError(...) }
  -- oldElem := a.elements[index]
  match s.elems[i]? with
  | none => (.error .indexOutOfBounds, (s, c))
  | some oldElem =>
    -- storable, err := value.Storable(storage, address, maxInlineArrayElementSize)
    let (e, c) := toStorable T s.hdr.id.addr v c
    -- a.elements[index] = storable
    let s := { s with elems := s.elems.set i e }
    -- size := a.getPrefixSize(); for … { size += e.ByteSize() }; a.header.size = size
    let s := { s with hdr := { s.hdr with size := s.prefixSize + sumSizes s.elems } }
    -- if !a.inlined { storeSlab(storage, a) }
    (.ok oldElem, (s, s.storeIfNotInlined c))

/-- `ArrayDataSlab.Insert` -/
def insertP (T i : Nat) (v : Elem) : Prog (DataSlab × Ctx) AErr Unit := fun (s, c) =>
  -- if index > uint64(len(a.elements)) { return NewIndexOutOfBoundsError(...) }
  if i > s.elems.length then (.error .indexOutOfBounds, (s, c))
  else
    -- storable, err := value.Storable(...)
    let (e, c) := toStorable T s.hdr.id.addr v c
    -- a.elements = slices.Insert(a.elements, int(index), storable)
    let s := { s with elems := s.elems.insertIdx i e }
    -- a.header.count++
    let s := { s with hdr := { s.hdr with count := s.hdr.count + 1 } }
    -- a.header.size += storable.ByteSize()
    let s := { s with hdr := { s.hdr with size := s.hdr.size + e.size } }
    -- if !a.inlined { storeSlab(storage, a) }
    (.ok (), (s, s.storeIfNotInlined c))

/-- `ArrayDataSlab.Remove` -/
def removeP (i : Nat) : Prog (DataSlab × Ctx) AErr Elem := fun (s, c) =>
  -- if index >= uint64(len(a.elements)) { return nil, NewIndexOutOfBoundsError(...) }
  -- v := a.elements[index]
  match s.elems[i]? with
  | none => (.error .indexOutOfBounds, (s, c))
  | some v =>
    -- a.elements = slices.Delete(a.elements, int(index), int(index+1))
    let s := { s with elems := s.elems.eraseIdx i }
    -- a.header.count--
    let s := { s with hdr := { s.hdr with count := s.hdr.count - 1 } }
    -- a.header.size -= v.ByteSize()
    let s := { s with hdr := { s.hdr with size := s.hdr.size - v.size } }
    -- if !a.inlined { storeSlab(storage, a) }
    (.ok v, (s, s.storeIfNotInlined c))

/-- SEEDED CHANGE s06 as a program: `value.Storable` hoisted above the bounds check of
    `ArrayDataSlab.Insert`.  (Not used by anything; `Props/C18Reject.lean` shows that the no-trace
    theorem is FALSE for it.) -/
def insertP_s06 (T i : Nat) (v : Elem) : Prog (DataSlab × Ctx) AErr Unit := fun (s, c) =>
  let (e, c) := toStorable T s.hdr.id.addr v c
  if i > s.elems.length then (.error .indexOutOfBounds, (s, c))
  else
    let s := { s with elems := s.elems.insertIdx i e }
    let s := { s with hdr := { s.hdr with count := s.hdr.count + 1 } }
    let s := { s with hdr := { s.hdr with size := s.hdr.size + e.size } }
    (.ok (), (s, s.storeIfNotInlined c))

end DataSlab

namespace MetaSlab
variable {d : Nat}

/-- run the callee's program on child `k` (the object `getArraySlab` returned); what it did to the
    child and to the storage is there afterwards, error or not -/
def zoomChild {α : Type} (k : Nat) (child : ATree d) (p : Prog (ATree d × Ctx) AErr α) :
    Prog (MetaSlab (ATree d) × Ctx) AErr (α × ATree d) := fun (m, c) =>
  match p (child, c) with
  | (.ok a, (child', c')) => (.ok (a, child'), ({ m with children := m.children.set k child' }, c'))
  | (.error e, (child', c')) => (.error e, ({ m with children := m.children.set k child' }, c'))

end MetaSlab

namespace ATree
open MetaSlab

/-- `ArraySlab.Set`: `ArrayDataSlab.Set` / `ArrayMetaDataSlab.Set` -/
def setP (T : Nat) : (d : Nat) → Nat → Elem → Prog (ATree d × Ctx) AErr Elem
  | 0, i, v => DataSlab.setP T i v
  | d + 1, i, v => fun ((m : MetaSlab (ATree d)), c) =>
    -- childHeaderIndex, adjustedIndex, childID, err := a.childSlabIndexInfo(index)   (bounds check inside)
    match m.childSlabIndexInfo i with
    | .error e => (.error e, (m, c))
    | .ok (k, adj) =>
      -- child, err := getArraySlab(storage, childID)
      match m.children[k]? with
      | none => (.error .slabNotFound, (m, c))
      | some child =>
        -- existingElem, err := child.Set(storage, address, adjustedIndex, value)
        match zoomChild k child (setP T d adj v) (m, c) with
        | (.error e, st) => (.error e, st)
        | (.ok (old, child'), (m, c)) =>
          -- a.childrenHeaders[childHeaderIndex] = child.Header()
          let m : MetaSlab (ATree d) := { m with childHdrs := m.childHdrs.set k (hdr d child') }
          -- if child.IsFull() { SplitChildSlab } else if underflow { MergeOrRebalanceChildSlab } else storeSlab
          Prog.tail (fun (st : MetaSlab (ATree d) × Ctx) =>
            (afterSet T st.1 child' k st.2).map (fun r => (old, r))) (m, c)

/-- the part of `ArrayMetaDataSlab.Insert` after the target child `(k, adjustedIndex)` is known;
    `childInsert` is the program of `child.Insert` -/
def insertAtP (T : Nat) {d : Nat} (childInsert : Nat → Elem → Prog (ATree d × Ctx) AErr Unit) (k adj : Nat)
    (v : Elem) : Prog (MetaSlab (ATree d) × Ctx) AErr Unit := fun (m, c) =>
  -- child, err := getArraySlab(storage, childID)
  match m.children[k]? with
  | none => (.error .slabNotFound, (m, c))
  | some child =>
    -- err = child.Insert(storage, address, adjustedIndex, value)
    match zoomChild k child (childInsert adj v) (m, c) with
    | (.error e, st) => (.error e, st)
    | (.ok (_, child'), (m, c)) =>
      -- a.header.count++
      let m : MetaSlab (ATree d) := { m with hdr := { m.hdr with count := m.hdr.count + 1 } }
      -- for i := childHeaderIndex; i < len(a.childrenCountSum); i++ { a.childrenCountSum[i]++ }
      let m : MetaSlab (ATree d) := { m with countSum := bumpFrom k (· + 1) m.countSum }
      -- a.childrenHeaders[childHeaderIndex] = child.Header()
      let m : MetaSlab (ATree d) := { m with childHdrs := m.childHdrs.set k (hdr d child') }
      -- if child.IsFull() { return a.SplitChildSlab(...) }; return storeSlab(storage, a)
      Prog.tail (fun (st : MetaSlab (ATree d) × Ctx) =>
        if isFull T d child' then (st.1.splitChildSlab child' k st.2).map (fun r => ((), r))
        else .ok ((), (st.1, st.2.emit (.store st.1.hdr.id)))) (m, c)

/-- `ArraySlab.Insert` -/
def insertP (T : Nat) : (d : Nat) → Nat → Elem → Prog (ATree d × Ctx) AErr Unit
  | 0, i, v => DataSlab.insertP T i v
  | d + 1, i, v => fun ((m : MetaSlab (ATree d)), c) =>
    -- if index > uint64(a.header.count) { return NewIndexOutOfBoundsError(...) }
    if i > m.hdr.count then (.error .indexOutOfBounds, (m, c))
    else
      -- if index == count { last child } else { childSlabIndexInfo(index) }
      let target : Except AErr (Nat × Nat) :=
        if i = m.hdr.count then
          match m.childHdrs.getLast? with
          | some h => pure (m.childHdrs.length - 1, h.count)
          | none => .error .goPanic
        else m.childSlabIndexInfo i
      match target with
      | .error e => (.error e, (m, c))
      | .ok (k, adj) => insertAtP T (insertP T d) k adj v (m, c)

/-- `ArraySlab.Remove` -/
def removeP (T : Nat) : (d : Nat) → Nat → Prog (ATree d × Ctx) AErr Elem
  | 0, i => DataSlab.removeP i
  | d + 1, i => fun ((m : MetaSlab (ATree d)), c) =>
    -- if index >= uint64(a.header.count) { return nil, NewIndexOutOfBoundsError(...) }
    if i ≥ m.hdr.count then (.error .indexOutOfBounds, (m, c))
    else
      -- childHeaderIndex, adjustedIndex, childID, err := a.childSlabIndexInfo(index)
      match m.childSlabIndexInfo i with
      | .error e => (.error e, (m, c))
      | .ok (k, adj) =>
        -- child, err := getArraySlab(storage, childID)
        match m.children[k]? with
        | none => (.error .slabNotFound, (m, c))
        | some child =>
          -- v, err := child.Remove(storage, adjustedIndex)
          match zoomChild k child (removeP T d adj) (m, c) with
          | (.error e, st) => (.error e, st)
          | (.ok (v, child'), (m, c)) =>
            -- a.header.count--
            let m : MetaSlab (ATree d) := { m with hdr := { m.hdr with count := m.hdr.count - 1 } }
            -- for i := childHeaderIndex; … { a.childrenCountSum[i]-- }
            let m : MetaSlab (ATree d) := { m with countSum := bumpFrom k (· - 1) m.countSum }
            -- a.childrenHeaders[childHeaderIndex] = child.Header()
            let m : MetaSlab (ATree d) := { m with childHdrs := m.childHdrs.set k (hdr d child') }
            -- if underflow { MergeOrRebalanceChildSlab }; storeSlab(storage, a)
            Prog.tail (fun (st : MetaSlab (ATree d) × Ctx) =>
              (match isUnderflow T d child' with
               | some u => st.1.mergeOrRebalanceChildSlab T child' k u st.2
               | none => .ok (st.1, st.2)).map
                (fun (r : MetaSlab (ATree d) × Ctx) => (v, (r.1, r.2.emit (.store r.1.hdr.id))))) (m, c)

end ATree

namespace Arr

/-- run the root slab's program on `a.root` -/
def zoomRoot {α : Type} (p : (d : Nat) → Prog (ATree d × Ctx) AErr α) : Prog (Arr × Ctx) AErr α :=
  fun (a, c) =>
    match p a.d (a.root, c) with
    | (r, (root', c')) => (r, (⟨a.d, root', a.ty⟩, c'))

/-- `Array.set` (array.go): `a.root.Set`, then `splitRoot` / `promoteChildAsNewRoot` -/
def setP (T i : Nat) (v : Elem) : Prog (Arr × Ctx) AErr Elem :=
  -- existingStorable, err := a.root.Set(a.Storage, a.Address(), index, value)
  (zoomRoot (fun d => ATree.setP T d i v)).andThen fun old =>
  -- if a.root.IsFull() { a.splitRoot() }; if one child { a.promoteChildAsNewRoot(…) }
  Prog.tail (fun (st : Arr × Ctx) =>
    (if ATree.isFull T st.1.d st.1.root then st.1.splitRoot st.2 else .ok (st.1, st.2)).map
      (fun r => (old, r.1.promoteIfSingleChild r.2)))

/-- `Array.Insert` -/
def insertP (T i : Nat) (v : Elem) : Prog (Arr × Ctx) AErr Unit := fun (a, c) =>
  -- if a.Count() == maxArrayElementCount { return NewArrayElementCannotExceedMaxElementCountError(...) }
  if a.count = maxArrayElementCount then (.error .maxElementCount, (a, c))
  else
    -- err := a.root.Insert(a.Storage, a.Address(), index, value)
    ((zoomRoot (fun d => ATree.insertP T d i v)).andThen fun _ =>
    -- if a.root.IsFull() { a.splitRoot() }
    Prog.tail (fun (st : Arr × Ctx) =>
      (if ATree.isFull T st.1.d st.1.root then st.1.splitRoot st.2 else .ok (st.1, st.2)).map
        (fun r => ((), r)))) (a, c)

/-- `Array.remove` -/
def removeP (T i : Nat) : Prog (Arr × Ctx) AErr Elem :=
  -- storable, err := a.root.Remove(a.Storage, index)
  (zoomRoot (fun d => ATree.removeP T d i)).andThen fun v =>
  -- if one child { a.promoteChildAsNewRoot(…) }
  Prog.assign (fun (st : Arr × Ctx) => st.1.promoteIfSingleChild st.2) |>.andThen fun _ => Prog.ret v

/-- One request against (array, storage context), in place. -/
def requestP (T : Nat) : AReq → Prog (Arr × Ctx) AErr AResp
  | .get i => fun s => match s.1.get i with | .ok e => (.ok (.elem e), s) | .error e => (.error e, s)
  | .set i v => (setP T i v).andThen fun old => Prog.ret (.elem old)
  | .insert i v => (insertP T i v).andThen fun _ => Prog.ret .ok
  | .remove i => (removeP T i).andThen fun old => Prog.ret (.elem old)

end Arr

/-- the errors that mean "the request cannot be served because of its arguments" -/
def AErr.isArg : AErr → Bool
  | .indexOutOfBounds | .sliceOutOfBounds | .invalidSliceIndex | .maxElementCount => true
  | _ => false

def MErr.isArg : MErr → Bool
  | .keyNotFound | .collisionLimit => true
  | _ => false

/-! ## Maps -/

/-- the programs an `elements` value offers (`Set`, `Remove` of the Go interface `elements`), in
    place; the counterpart of `ElemsOps` for the two mutating operations -/
structure ElemsProgs (α : Type) where
  setP    : MCfg → Nat → MKey → Elem → Prog (α × Ctx) MErr (MKey × Option Elem)
  removeP : MCfg → Nat → MKey → Prog (α × Ctx) MErr (MKey × Elem)

/-- `value.Storable(storage, address, maxInlineMapValueSize(keySize))` -/
def storableLimP {α : Type} (lim addr : Nat) (v : Elem) : Prog (α × Ctx) MErr Elem := fun (a, c) =>
  let (e, c') := toStorableLim lim addr v c
  (.ok e, (a, c'))

namespace SingleElems

/-- `singleElements.Set` (map_elements_nokey.go) -/
def setP (cfg : MCfg) (level : Nat) (k : MKey) (v : Elem) : Prog (SingleElems × Ctx) MErr (MKey × Option Elem) :=
  fun (e, c) =>
    -- if level != digester.Levels() { return nil, nil, NewHashLevelErrorf(...) }
    if level ≠ cfg.L then (.error .hashLevel, (e, c))
    else
      -- for i, elem := range e.elems { equal, err := comparator(...); if equal { … } }
      match e.elems.findIdx? (fun x => x.key.same k) with
      | some i =>
        match e.elems[i]? with
        | none => (.error .goPanic, (e, c))
        | some x =>
          -- valueStorable, err := value.Storable(...)
          let (vs, c) := toStorableLim (maxInlineMapValue cfg.T x.key.size) cfg.addr v c
          -- elem.value = valueStorable; elem.size = …; e.elems[i] = elem
          let x' : SElem := { x with val := vs, size := singleElementPrefixSize + x.key.size + vs.size }
          let e := { e with elems := e.elems.set i x' }
          -- e.size = singleElementsPrefixSize + Σ sizes
          let e := { e with size := singleElementsPrefixSize + (e.elems.map (·.size)).sum }
          (.ok (x.key, some x.val), (e, c))
      | none =>
        -- newElem, err := newSingleElement(storage, address, key, value)
        let (ne, c) := newSingleElement cfg.T cfg.addr k v c
        -- e.elems = append(e.elems, newElem)
        let e0 := e
        let e := { e with elems := e.elems ++ [ne] }
        -- e.size += newElem.size
        let e := { e with size := e0.size + ne.size }
        (.ok (ne.key, none), (e, c))

/-- `singleElements.Remove` -/
def removeP (cfg : MCfg) (level : Nat) (k : MKey) : Prog (SingleElems × Ctx) MErr (MKey × Elem) :=
  fun (e, c) =>
    -- if level != digester.Levels() { return … NewHashLevelErrorf }
    if level ≠ cfg.L then (.error .hashLevel, (e, c))
    else
      -- for i, elem := range e.elems { if equal { remove; return } }; return NewKeyNotFoundError(key)
      match e.elems.findIdx? (fun x => x.key.same k) with
      | some i =>
        match e.elems[i]? with
        | none => (.error .goPanic, (e, c))
        | some x =>
          -- e.elems = slices.Delete(e.elems, i, i+1); e.size -= elem.Size()
          (.ok (x.key, x.val), ({ e with elems := e.elems.eraseIdx i, size := e.size - x.size }, c))
      | none => (.error .keyNotFound, (e, c))

def progs : ElemsProgs SingleElems := { setP := setP, removeP := removeP }

end SingleElems

namespace MElemF
variable {α : Type}

/-- `inlineCollisionGroup.Set` on the group `g` (an object of its own): returns the element that
    now stands for the group -/
def inlSetP (o : ElemsOps α) (p : ElemsProgs α) (cfg : MCfg) (level : Nat) (k : MKey) (v : Elem) :
    Prog (α × Ctx) MErr (MElemF α × MKey × Option Elem) := fun (g, c) =>
  -- level++; if level > digester.Levels() { return … NewHashLevelErrorf }
  if level + 1 > cfg.L then (.error .hashLevel, (g, c))
  else
    -- keyStorable, existingMapValueStorable, err := e.elements.Set(...)
    match p.setP cfg (level + 1) k v (g, c) with
    | (.error e, st) => (.error e, st)
    | (.ok (ks, old), (g, c)) =>
      -- if level == 1 && e.Size() > maxInlineMapElementSize { GenerateSlabID; slab := …; storeSlab; return external }
      if level + 1 == 1 && inlineCollisionGroupPrefixSize + o.size g > maxInlineMapElem cfg.T then
        let (id, c) := c.alloc cfg.addr
        let slab : GroupSlab α :=
          { hdr := { id := id, size := mapDataSlabPrefixSize + o.size g, firstKey := o.firstKey g }, elems := g }
        (.ok (.ext id (externalCollisionGroupPrefixSize + slabIDStorableSize) slab, ks, old), (g, c.emit (.store id)))
      else (.ok (.inl g, ks, old), (g, c))

/-- `element.Set`: the state is the element object referred to by `e.elems[equalIndex]`; on success
    it is replaced by the returned element (`e.elems[equalIndex] = elem` in the caller) -/
def setP (o : ElemsOps α) (p : ElemsProgs α) (cfg : MCfg) (level : Nat) (k : MKey) (v : Elem) :
    Prog (MElemF α × Ctx) MErr (MKey × Option Elem) := fun (el, c) =>
  match el with
  | .single x =>
    -- equal, err := comparator(storage, key, e.key)
    if x.key.same k then
      -- valueStorable, err := value.Storable(...); e.value = valueStorable; e.size = …
      let (vs, c) := toStorableLim (maxInlineMapValue cfg.T x.key.size) cfg.addr v c
      (.ok (x.key, some x.val),
        (.single { x with val := vs, size := singleElementPrefixSize + x.key.size + vs.size }, c))
    else
      -- group := &inlineCollisionGroup{elements: new…ElementsWithElement(level+1, e)}  (a fresh object)
      match o.newWith cfg (level + 1) x with
      | .error e => (.error e, (.single x, c))
      | .ok g =>
        -- return group.Set(...): on an error the caller keeps the single element it had
        match inlSetP o p cfg level k v (g, c) with
        | (.error e, (_, c)) => (.error e, (.single x, c))
        | (.ok (el', ks, old), (_, c)) => (.ok (ks, old), (el', c))
  | .inl g =>
    match inlSetP o p cfg level k v (g, c) with
    | (.error e, (g, c)) => (.error e, (.inl g, c))
    | (.ok (el', ks, old), (_, c)) => (.ok (ks, old), (el', c))
  | .ext id sz s =>
    -- slab, err := getMapSlab(storage, e.slabID); level++; if level > Levels() { NewHashLevelErrorf }
    if level + 1 > cfg.L then (.error .hashLevel, (.ext id sz s, c))
    else
      -- keyStorable, existingMapValueStorable, err := slab.Set(...)   (MapDataSlab.Set of the group slab)
      match p.setP cfg (level + 1) k v (s.elems, c) with
      | (.error e, (elems, c)) => (.error e, (.ext id sz { s with elems := elems }, c))
      | (.ok (ks, old), (elems, c)) =>
        -- … MapDataSlab.Set: header.size, firstKey; storeSlab
        let (s', c) := groupSlabUpdate o s elems c
        (.ok (ks, old), (.ext id sz s', c))

/-- `element.Remove`: on success the state is `some` updated element or `none` (element gone) -/
def removeP (o : ElemsOps α) (p : ElemsProgs α) (cfg : MCfg) (level : Nat) (k : MKey) :
    Prog (Option (MElemF α) × Ctx) MErr (MKey × Elem) := fun (el?, c) =>
  match el? with
  | none => (.error .goPanic, (none, c))
  | some (.single x) =>
    -- equal, err := comparator(…); if equal { return e.key, e.value, nil, nil }; return NewKeyNotFoundError(key)
    if x.key.same k then (.ok (x.key, x.val), (none, c)) else (.error .keyNotFound, (some (.single x), c))
  | some (.inl g) =>
    -- level++; if level > Levels() { NewHashLevelErrorf }
    if level + 1 > cfg.L then (.error .hashLevel, (some (.inl g), c))
    else
      -- k, v, err := e.elements.Remove(...)
      match p.removeP cfg (level + 1) k (g, c) with
      | (.error e, (g, c)) => (.error e, (some (.inl g), c))
      | (.ok (rk, rv), (g, c)) =>
        -- if e.elements.Count() == 1 && !group { return the single element }
        match o.soleSingle g with
        | some x => (.ok (rk, rv), (some (.single x), c))
        | none => (.ok (rk, rv), (some (.inl g), c))
  | some (.ext id sz s) =>
    -- slab := storage.Retrieve(e.slabID); level++; if level > Levels() { NewHashLevelErrorf }
    if level + 1 > cfg.L then (.error .hashLevel, (some (.ext id sz s), c))
    else
      -- k, v, err := dataSlab.Remove(...)
      match p.removeP cfg (level + 1) k (s.elems, c) with
      | (.error e, (elems, c)) => (.error e, (some (.ext id sz { s with elems := elems }), c))
      | (.ok (rk, rv), (elems, c)) =>
        let (s', c) := groupSlabUpdate o s elems c
        -- if dataSlab.Count() == 1 && !group { storage.Remove(e.slabID); return the single element }
        match o.soleSingle elems with
        | some x => (.ok (rk, rv), (some (.single x), c.emit (.remove id)))
        | none => (.ok (rk, rv), (some (.ext id sz s'), c))

end MElemF

namespace HkeyElems
variable {α : Type}

/-- `hkeyElements.Set` (map_elements_hashkey.go) -/
def setP (o : ElemsOps α) (p : ElemsProgs α) (cfg : MCfg) (level : Nat) (k : MKey) (v : Elem) :
    Prog (HkeyElems α × Ctx) MErr (MKey × Option Elem) := fun (e, c) =>
  -- if level >= digester.Levels() { return … NewHashLevelErrorf }
  if level ≥ cfg.L then (.error .hashLevel, (e, c))
  else
    let hkey := k.dig level
    -- a new element: newSingleElement (value.Storable), then the slice insertions and e.size +=
    let fresh (idx : Nat) : Except MErr (MKey × Option Elem) × (HkeyElems α × Ctx) :=
      let (ne, c) := newSingleElement cfg.T cfg.addr k v c
      let e0 := e
      let e := { e with hkeys := e.hkeys.insertIdx idx hkey }
      let e := { e with elems := e.elems.insertIdx idx (.single ne) }
      let e := { e with size := e0.size + digestSize + ne.size }
      (.ok (ne.key, none), (e, c))
    match e.hkeys.head?, e.hkeys.getLast? with
    -- if len(e.hkeys) == 0 { first element }
    | none, _ | _, none => fresh 0
    | some first, some last =>
      -- if hkey < e.hkeys[0] { prepend }
      if hkey < first then fresh 0
      -- if hkey > e.hkeys[len-1] { append }
      else if hkey > last then fresh e.hkeys.length
      else
        -- binary search
        match findEqLt e.hkeys hkey 0 e.hkeys.length 0 (e.hkeys.length + 1) with
        | (none, lt) => fresh lt
        | (some i, _) =>
          -- elem := e.elems[equalIndex]
          match e.elems[i]? with
          | none => (.error .goPanic, (e, c))
          | some el =>
            -- if e.level == 0 { elementCount, err := elem.Count(storage); if 0 → NewMapElementCountError;
            --   if elementCount-1 >= maxCollisionLimitPerDigest { _, _, err = elem.Get(...);
            --     if KeyNotFoundError { return nil, nil, NewCollisionLimitError(...) } } }
            let refused : Option MErr :=
              if e.level == 0 then
                let n := el.count o
                if n == 0 then some .mapElementCount
                else if n - 1 ≥ cfg.climit then
                  match el.get o cfg level k with
                  | .error .keyNotFound => some .collisionLimit
                  | _ => none
                else none
              else none
            match refused with
            | some err => (.error err, (e, c))
            | none =>
              -- elem, keyStorable, existingMapValueStorable, err := elem.Set(...)
              match MElemF.setP o p cfg level k v (el, c) with
              | (.error err, (el, c)) =>
                -- (the element object was worked on in place; e.elems[equalIndex] still refers to it)
                (.error err, ({ e with elems := e.elems.set i el }, c))
              | (.ok (ks, old), (el', c)) =>
                -- e.elems[equalIndex] = elem
                let e := { e with elems := e.elems.set i el' }
                -- size := hkeyElementsPrefixSize; for … { size += element.Size() + digestSize }; e.size = size
                let e := { e with size := hkeyElementsPrefixSize + elemSizes o e.elems }
                (.ok (ks, old), (e, c))

/-- `hkeyElements.Remove` -/
def removeP (o : ElemsOps α) (p : ElemsProgs α) (cfg : MCfg) (level : Nat) (k : MKey) :
    Prog (HkeyElems α × Ctx) MErr (MKey × Elem) := fun (e, c) =>
  -- if level >= digester.Levels() { NewHashLevelErrorf }
  if level ≥ cfg.L then (.error .hashLevel, (e, c))
  else
    let hkey := k.dig level
    -- if len(e.hkeys) == 0 || hkey < e.hkeys[0] || hkey > e.hkeys[len-1] { return NewKeyNotFoundError(key) }
    match e.hkeys.head?, e.hkeys.getLast? with
    | none, _ | _, none => (.error .keyNotFound, (e, c))
    | some first, some last =>
      if hkey < first || hkey > last then (.error .keyNotFound, (e, c))
      else
        -- binary search; if equalIndex == -1 { return NewKeyNotFoundError(key) }
        match findEq e.hkeys hkey 0 e.hkeys.length (e.hkeys.length + 1) with
        | none => (.error .keyNotFound, (e, c))
        | some i =>
          -- elem := e.elems[equalIndex]; oldElemSize := elem.Size()
          match e.elems[i]? with
          | none => (.error .goPanic, (e, c))
          | some el =>
            let oldSize := el.size o
            -- k, v, elem, err := elem.Remove(...)
            match MElemF.removeP o p cfg level k (some el, c) with
            | (.error err, (el?, c)) =>
              (.error err, ({ e with elems := e.elems.set i (el?.getD el) }, c))
            | (.ok (rk, rv), (none, c)) =>
              -- if elem == nil { slices.Delete(e.elems …); slices.Delete(e.hkeys …); e.size -= digestSize + oldElemSize }
              let e0 := e
              let e := { e with elems := e.elems.eraseIdx i }
              let e := { e with hkeys := e.hkeys.eraseIdx i }
              let e := { e with size := e0.size - (digestSize + oldSize) }
              (.ok (rk, rv), (e, c))
            | (.ok (rk, rv), (some el', c)) =>
              -- e.elems[equalIndex] = elem; e.size += elem.Size() - oldElemSize
              let e0 := e
              let e := { e with elems := e.elems.set i el' }
              let e := { e with size := e0.size + el'.size o - oldSize }
              (.ok (rk, rv), (e, c))

def progs (o : ElemsOps α) (p : ElemsProgs α) : ElemsProgs (HkeyElems α) :=
  { setP := setP o p, removeP := removeP o p }

end HkeyElems

/-- the programs of `MElems r`, level by level (the counterpart of `MElems.ops`) -/
def MElems.progs : (r : Nat) → ElemsProgs (MElems r)
  | 0 => SingleElems.progs
  | r + 1 => HkeyElems.progs (MElems.ops r) (MElems.progs r)

namespace MDataSlab
variable {r : Nat}

/-- `MapDataSlab.Set` (map_data_slab.go) -/
def setP (cfg : MCfg) (k : MKey) (v : Elem) : Prog (MDataSlab r × Ctx) MErr (MKey × Option Elem) := fun (s, c) =>
  -- keyStorable, existingMapValueStorable, err := m.elements.Set(...)
  match HkeyElems.setP (MElems.ops r) (MElems.progs r) cfg 0 k v (s.elems, c) with
  | (.error e, (elems, c)) => (.error e, ({ s with elems := elems }, c))
  | (.ok (ks, old), (elems, c)) =>
    let s := { s with elems := elems }
    -- m.header.firstKey = m.elements.firstKey()
    let s := { s with hdr := { s.hdr with firstKey := s.elems.firstKey } }
    -- m.header.size = m.getPrefixSize() + m.elements.Size()
    let s := { s with hdr := { s.hdr with size := s.prefixSize + s.elems.size } }
    -- if !m.inlined { storeSlab(storage, m) }
    (.ok (ks, old), (s, s.storeIfNotInlined c))

/-- `MapDataSlab.Remove` -/
def removeP (cfg : MCfg) (k : MKey) : Prog (MDataSlab r × Ctx) MErr (MKey × Elem) := fun (s, c) =>
  -- k, v, err := m.elements.Remove(...)
  match HkeyElems.removeP (MElems.ops r) (MElems.progs r) cfg 0 k (s.elems, c) with
  | (.error e, (elems, c)) => (.error e, ({ s with elems := elems }, c))
  | (.ok (rk, rv), (elems, c)) =>
    let s := { s with elems := elems }
    let s := { s with hdr := { s.hdr with firstKey := s.elems.firstKey } }
    let s := { s with hdr := { s.hdr with size := s.prefixSize + s.elems.size } }
    (.ok (rk, rv), (s, s.storeIfNotInlined c))

end MDataSlab

namespace MTree
variable {r : Nat}

/-- run the callee's program on child `k` of a map index slab -/
def zoomChild {α : Type} {d : Nat} (k : Nat) (child : MTree r d) (p : Prog (MTree r d × Ctx) MErr α) :
    Prog (MMetaSlab (MTree r d) × Ctx) MErr (α × MTree r d) := fun (m, c) =>
  match p (child, c) with
  | (.ok a, (child', c')) => (.ok (a, child'), ({ m with children := m.children.set k child' }, c'))
  | (.error e, (child', c')) => (.error e, ({ m with children := m.children.set k child' }, c'))

/-- `MapSlab.Set`: `MapDataSlab.Set` / `MapMetaDataSlab.Set` -/
def setP (cfg : MCfg) : (d : Nat) → MKey → Elem → Prog (MTree r d × Ctx) MErr (MKey × Option Elem)
  | 0, k, v => MDataSlab.setP cfg k v
  | d + 1, k, v => fun ((m : MMetaSlab (MTree r d)), c) =>
    -- ans := 0; binary search over childrenHeaders
    let i := (MMetaSlab.findChild m.childHdrs (k.dig 0) 0 m.childHdrs.length (some 0) (m.childHdrs.length + 1)).getD 0
    -- child, err := getMapSlab(storage, childID)
    match m.children[i]? with
    | none => (.error .goPanic, (m, c))
    | some child =>
      -- keyStorable, existingMapValueStorable, err := child.Set(...)
      match zoomChild i child (setP cfg d k v) (m, c) with
      | (.error e, st) => (.error e, st)
      | (.ok ((ks, old), child'), st) =>
        -- m.childrenHeaders[childHeaderIndex] = child.Header(); firstKey; split / merge / store
        Prog.tail (fun (st : MMetaSlab (MTree r d) × Ctx) =>
          (st.1.afterChild cfg.T child' i st.2).map (fun x => ((ks, old), x))) st

/-- `MapSlab.Remove` -/
def removeP (cfg : MCfg) : (d : Nat) → MKey → Prog (MTree r d × Ctx) MErr (MKey × Elem)
  | 0, k => MDataSlab.removeP cfg k
  | d + 1, k => fun ((m : MMetaSlab (MTree r d)), c) =>
    -- ans := -1; binary search; if ans < 0 { return nil, nil, NewKeyNotFoundError(key) }
    match MMetaSlab.findChild m.childHdrs (k.dig 0) 0 m.childHdrs.length none (m.childHdrs.length + 1) with
    | none => (.error .keyNotFound, (m, c))
    | some i =>
      -- child, err := getMapSlab(storage, childID)
      match m.children[i]? with
      | none => (.error .slabNotFound, (m, c))
      | some child =>
        -- k, v, err := child.Remove(...)
        match zoomChild i child (removeP cfg d k) (m, c) with
        | (.error e, st) => (.error e, st)
        | (.ok ((rk, rv), child'), st) =>
          Prog.tail (fun (st : MMetaSlab (MTree r d) × Ctx) =>
            (st.1.afterChild cfg.T child' i st.2).map (fun x => ((rk, rv), x))) st

end MTree

namespace OMap
variable {r : Nat}

/-- run the root slab's program on `m.root` -/
def zoomRoot {α : Type} (p : (d : Nat) → Prog (MTree r d × Ctx) MErr α) : Prog (OMap r × Ctx) MErr α :=
  fun (m, c) =>
    match p m.d (m.root, c) with
    | (x, (root', c')) => (x, ({ m with root := root' }, c'))

/-- `OrderedMap.set` (map.go) -/
def setP (cfg : MCfg) (k : MKey) (v : Elem) : Prog (OMap r × Ctx) MErr (Option Elem) :=
  -- keyStorable, existingMapValueStorable, err := m.root.Set(...)
  (zoomRoot (fun d => MTree.setP cfg d k v)).andThen fun (_, old) =>
  -- if existingMapValueStorable == nil { m.root.ExtraData().incrementCount() }
  (Prog.assign (fun (st : OMap r × Ctx) =>
    ({ st.1 with count := if old.isNone then st.1.count + 1 else st.1.count }, st.2))).andThen fun _ =>
  -- promoteChildAsNewRoot / splitRoot
  Prog.tail (fun (st : OMap r × Ctx) =>
    let (m2, c) := st.1.promoteIfSingleChild st.2
    (m2.splitRootIfFull cfg.T c).map (fun x => (old, x)))

/-- `OrderedMap.remove` -/
def removeP (cfg : MCfg) (k : MKey) : Prog (OMap r × Ctx) MErr (MKey × Elem) :=
  -- k, v, err := m.root.Remove(...)
  (zoomRoot (fun d => MTree.removeP cfg d k)).andThen fun (rk, rv) =>
  -- m.root.ExtraData().decrementCount()
  (Prog.assign (fun (st : OMap r × Ctx) => ({ st.1 with count := st.1.count - 1 }, st.2))).andThen fun _ =>
  Prog.tail (fun (st : OMap r × Ctx) =>
    let (m2, c) := st.1.promoteIfSingleChild st.2
    (m2.splitRootIfFull cfg.T c).map (fun x => ((rk, rv), x)))

end OMap

end Atree
