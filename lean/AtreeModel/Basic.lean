/-
  Basic vocabulary shared by the whole model: slab identifiers and finite maps as association
  lists.  Core Lean only (the driver executable links against this library).
-/
namespace Atree

/-- `SlabID` (slab_id.go): 8-byte owner address and 8-byte index, both read as big-endian numbers. -/
structure SlabID where
  addr : Nat
  idx  : Nat
deriving DecidableEq, Repr, Inhabited, BEq, Hashable

namespace SlabID

/-- `SlabIDUndefined` -/
def undef : SlabID := ⟨0, 0⟩

/-- `HasTempAddress` : the owner is `AddressUndefined`. -/
def isTemp (i : SlabID) : Bool := i.addr == 0

/-- The order used by `sortedOwnedDeltaKeys` (storage.go): address first, then index. -/
def lt (a b : SlabID) : Bool :=
  if a.addr == b.addr then a.idx < b.idx else a.addr < b.addr

def le (a b : SlabID) : Bool := a == b || lt a b

def render (i : SlabID) : String := s!"{i.addr}.{i.idx}"

end SlabID

/-- Finite maps as association lists with unique keys (kept unique by `AList.insert`). -/
abbrev AList (κ : Type) (α : Type) := List (κ × α)

namespace AList
variable {κ : Type} [DecidableEq κ] {α : Type}

def find? (m : AList κ α) (k : κ) : Option α :=
  match m with
  | [] => none
  | (k', v) :: rest => if k' = k then some v else find? rest k

def erase (m : AList κ α) (k : κ) : AList κ α :=
  m.filter (fun p => !decide (p.1 = k))

/-- Go's `m[k] = v`. -/
def insert (m : AList κ α) (k : κ) (v : α) : AList κ α :=
  (k, v) :: erase m k

def contains (m : AList κ α) (k : κ) : Bool := (find? m k).isSome

def keys (m : AList κ α) : List κ := m.map (·.1)

end AList

end Atree
