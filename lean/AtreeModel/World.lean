import AtreeModel.Array.Ops
import AtreeModel.Map.Ops
/-
  Nested containers (C10, C11, C09): the machinery of array.go / map.go / inline_utils.go that
  keeps a parent up to date when a child container is mutated through its handle:
  `setCallbackWithChild`, `notifyParentIfNeeded`, `Storable()` (the four-way inline / un-inline
  switch), `mutableElementIndex` with its shifts, `uninlineStorableIfNeeded`.

  Value-level model with ONE current handle per container (hypothesis `HandlesCurrent`,
  DESIGN.md §3): containers live in a table keyed by value ID; a parent element that refers to a
  child is `{ size, pay := .ref vid }` whether the child is inlined or not — the child's own root
  slab says whether it is inlined (`DataSlab.inlined`), and the element size is the size the
  parent slab accounts for (inlined slab size, or the 19-byte reference, plus 2 bytes per wrapper).
  Maps use the default digester (4 levels).
-/
namespace Atree
open Gen

inductive Cont where
  | arr (a : Arr)
  | map (m : OMap 3)

/-- the `parentUpdater` closure of a child: which parent, which slot (maps: the key; arrays: the
    slot is looked up in the parent's `mutableElementIndex`), the inline budget captured when the
    callback was set (wrapper size already subtracted) and the wrapper depth of the captured value -/
structure HInfo where
  parent    : SlabID
  key       : Option MKey
  maxInline : Nat
  wrap      : Nat
deriving Repr

inductive WErr where
  | arr (e : AErr)
  | map (e : MErr)
  | fatal               -- NewFatalError in the callbacks / Inline / Uninline
  | unknownContainer
  | outOfFuel
deriving Repr

/-- a value handed to a container operation -/
inductive WVal where
  | plain (e : Elem)
  | child (vid : SlabID) (wrap : Nat)
deriving Repr

structure World where
  T      : Nat
  addr   : Nat
  conts  : AList SlabID Cont := []
  hinfo  : AList SlabID HInfo := []
  mutIdx : AList SlabID (AList SlabID Nat) := []     -- per array: value ID ↦ index

namespace Cont

def isInlined : Cont → Bool
  | .arr a => a.isInlined
  | .map m => m.isInlined

/-- `ByteSize()` of the root slab -/
def rootSize : Cont → Nat
  | .arr a => a.rootHdr.size
  | .map m => m.rootHdr.size

/-- `Inlinable(maxInlineSize)` of the root slab: single root data slab whose inlined size fits -/
def inlinable (c : Cont) (lim : Nat) : Bool :=
  match c with
  | .arr ⟨0, (s : DataSlab), _⟩ =>
    s.root && (if s.inlined then s.hdr.size else s.hdr.size - arrayRootDataSlabPrefixSize + inlinedArrayDataSlabPrefixSize) ≤ lim
  | .arr ⟨_ + 1, _, _⟩ => false
  | .map ⟨0, (s : MDataSlab 3), _, _, _⟩ => s.root && inlinedMapDataSlabPrefixSize + s.elems.size ≤ lim
  | .map ⟨_ + 1, _, _, _, _⟩ => false

/-- `Inline(storage)` : remove the slab from storage, re-base the size, set the flag -/
def inline (c : Cont) (id : SlabID) (cx : Ctx) : Except WErr (Cont × Ctx) :=
  match c with
  | .arr ⟨0, (s : DataSlab), ty⟩ =>
    if s.inlined then .error .fatal
    else
      let s' : DataSlab := { s with inlined := true, hdr := { s.hdr with size := s.hdr.size - arrayRootDataSlabPrefixSize + inlinedArrayDataSlabPrefixSize } }
      .ok (.arr ⟨0, s', ty⟩, cx.emit (.remove id))
  | .map ⟨0, (s : MDataSlab 3), ty, cnt, seed⟩ =>
    if s.inlined then .error .fatal
    else
      let s' : MDataSlab 3 := { s with inlined := true, hdr := { s.hdr with size := inlinedMapDataSlabPrefixSize + s.elems.size } }
      .ok (.map ⟨0, s', ty, cnt, seed⟩, cx.emit (.remove id))
  | _ => .error .fatal

/-- `Uninline(storage)` : re-base the size, clear the flag, store the slab -/
def uninline (c : Cont) (id : SlabID) (cx : Ctx) : Except WErr (Cont × Ctx) :=
  match c with
  | .arr ⟨0, (s : DataSlab), ty⟩ =>
    if !s.inlined then .error .fatal
    else
      let s' : DataSlab := { s with inlined := false, hdr := { s.hdr with size := s.hdr.size - inlinedArrayDataSlabPrefixSize + arrayRootDataSlabPrefixSize } }
      .ok (.arr ⟨0, s', ty⟩, cx.emit (.store id))
  | .map ⟨0, (s : MDataSlab 3), ty, cnt, seed⟩ =>
    if !s.inlined then .error .fatal
    else
      let s' : MDataSlab 3 := { s with inlined := false, hdr := { s.hdr with size := mapRootDataSlabPrefixSize + s.elems.size } }
      .ok (.map ⟨0, s', ty, cnt, seed⟩, cx.emit (.store id))
  | _ => .error .fatal

end Cont

namespace World

def cont? (w : World) (vid : SlabID) : Option Cont := AList.find? w.conts vid
def setCont (w : World) (vid : SlabID) (c : Cont) : World := { w with conts := AList.insert w.conts vid c }
def idxOf (w : World) (p : SlabID) : AList SlabID Nat := (AList.find? w.mutIdx p).getD []
def setIdx (w : World) (p : SlabID) (m : AList SlabID Nat) : World := { w with mutIdx := AList.insert w.mutIdx p m }
def mcfg (w : World) : MCfg := { T := w.T, L := 4, climit := 255, addr := w.addr }

/-- `Array.Storable` / `OrderedMap.Storable` (through `wrap` wrappers, each taking 2 bytes of the
    budget): the storable the parent stores for child `vid` under the budget `lim`, inlining or
    un-inlining the child as needed. -/
def childStorable (w : World) (vid : SlabID) (wrap : Nat) (lim : Nat) (cx : Ctx) :
    Except WErr (Elem × World × Ctx) :=
  match w.cont? vid with
  | none => .error .unknownContainer
  | some c =>
    let lim' := lim - 2 * wrap
    let inl := c.isInlined
    let able := c.inlinable lim'
    if able && inl then .ok ({ size := c.rootSize + 2 * wrap, pay := .ref vid }, w, cx)
    else if !able && !inl then .ok ({ size := slabIDStorableSize + 2 * wrap, pay := .ref vid }, w, cx)
    else if able && !inl then
      match c.inline vid cx with
      | .error e => .error e
      | .ok (c', cx) => .ok ({ size := c'.rootSize + 2 * wrap, pay := .ref vid }, w.setCont vid c', cx)
    else
      match c.uninline vid cx with
      | .error e => .error e
      | .ok (c', cx) => .ok ({ size := slabIDStorableSize + 2 * wrap, pay := .ref vid }, w.setCont vid c', cx)

/-- `Value.Storable` for any value -/
def storableOf (w : World) (v : WVal) (lim : Nat) (cx : Ctx) : Except WErr (Elem × World × Ctx) :=
  match v with
  | .plain e => .ok (e, w, cx)     -- the container code applies `toStorable` itself
  | .child vid wrap => w.childStorable vid wrap lim cx

/-- `setCallbackWithChild` on an array parent -/
def setCallbackArr (w : World) (p : SlabID) (i : Nat) (v : WVal) : World :=
  match v with
  | .plain _ => w
  | .child vid wrap =>
    let w := w.setIdx p (AList.insert (w.idxOf p) vid i)
    let hi : HInfo := { parent := p, key := none, maxInline := maxInlineArr w.T - 2 * wrap, wrap := wrap }
    { w with hinfo := AList.insert w.hinfo vid hi }

/-- `setCallbackWithChild` on a map parent -/
def setCallbackMap (w : World) (p : SlabID) (k : MKey) (v : WVal) : World :=
  match v with
  | .plain _ => w
  | .child vid wrap =>
    let hi : HInfo := { parent := p, key := some k, maxInline := maxInlineMapValue w.T k.size - 2 * wrap, wrap := wrap }
    { w with hinfo := AList.insert w.hinfo vid hi }

/-- `incrementIndexFrom(index)` / `decrementIndexFrom(index)` -/
def shiftIdx (w : World) (p : SlabID) (f : Nat → Nat) : World :=
  w.setIdx p ((w.idxOf p).map (fun e => (e.1, f e.2)))

mutual

/-- `notifyParentIfNeeded()` of container `x` -/
def notifyParent (fuel : Nat) (w : World) (x : SlabID) (cx : Ctx) : Except WErr (World × Ctx) :=
  match fuel with
  | 0 => .error .outOfFuel
  | fuel + 1 =>
    match AList.find? w.hinfo x, w.cont? x with
    | none, _ => .ok (w, cx)
    | some _, none => .error .unknownContainer
    | some hi, some c =>
      -- child stays a separate slab: nothing to do in the parent
      if !c.isInlined && !c.inlinable hi.maxInline then .ok (w, cx)
      else
        let notFound : World := { w with hinfo := AList.erase w.hinfo x }
        match w.cont? hi.parent with
        | none => .ok (notFound, cx)   -- the former parent has been disposed of: the closure finds nothing
        | some (.arr pa) =>
          match AList.find? (w.idxOf hi.parent) x with
          | none => .ok (notFound, cx)
          | some idx =>
            match pa.get idx with
            | .error e => .error (.arr e)
            | .ok el =>
              if el.pay ≠ .ref x then .ok (notFound, cx)
              else
                match arrSetRaw fuel w hi.parent idx (.child x hi.wrap) cx with
                | .error e => .error e
                | .ok (old, w, cx) => if old.pay ≠ .ref x then .error .fatal else .ok (w, cx)
        | some (.map pm) =>
          match hi.key with
          | none => .error .fatal
          | some k =>
            match pm.get w.mcfg k with
            | .error .keyNotFound => .ok (notFound, cx)
            | .error e => .error (.map e)
            | .ok (_, el) =>
              if el.pay ≠ .ref x then .ok (notFound, cx)
              else
                match mapSetRaw fuel w hi.parent k (.child x hi.wrap) cx with
                | .error e => .error e
                | .ok (old, w, cx) =>
                  match old with
                  | some o => if o.pay ≠ .ref x then .error .fatal else .ok (w, cx)
                  | none => .error .fatal

/-- `Array.set(index, value)` -/
def arrSetRaw (fuel : Nat) (w : World) (p : SlabID) (i : Nat) (v : WVal) (cx : Ctx) :
    Except WErr (Elem × World × Ctx) :=
  match w.cont? p with
  | some (.arr a) =>
    if i ≥ a.count then .error (.arr .indexOutOfBounds)
    else
      match w.storableOf v (maxInlineArr w.T) cx with
      | .error e => .error e
      | .ok (e, w, cx) =>
        match a.set w.T i e cx with
        | .error er => .error (.arr er)
        | .ok (old, a', cx) =>
          let w := w.setCont p (.arr a')
          match notifyParent fuel w p cx with
          | .error e => .error e
          | .ok (w, cx) => .ok (old, w.setCallbackArr p i v, cx)
  | _ => .error .unknownContainer

/-- `OrderedMap.set(key, value)` -/
def mapSetRaw (fuel : Nat) (w : World) (p : SlabID) (k : MKey) (v : WVal) (cx : Ctx) :
    Except WErr (Option Elem × World × Ctx) :=
  match w.cont? p with
  | some (.map m) =>
    match w.storableOf v (maxInlineMapValue w.T k.size) cx with
    | .error e => .error e
    | .ok (e, w, cx) =>
      match m.set w.mcfg k e cx with
      | .error er => .error (.map er)
      | .ok (old, m', cx) =>
        let w := w.setCont p (.map m')
        match notifyParent fuel w p cx with
        | .error e => .error e
        | .ok (w, cx) => .ok (old, w.setCallbackMap p k v, cx)
  | _ => .error .unknownContainer

end

def fuelOf (w : World) : Nat := w.conts.length + 2

/-- `uninlineStorableIfNeeded(storage, storable)`: an inlined child handed back to the caller is
    turned into a standalone slab; returns the storable handed back and the child's value ID -/
def uninlineIfNeeded (w : World) (e : Elem) (cx : Ctx) : Except WErr (Elem × Option SlabID × World × Ctx) :=
  match e.pay with
  | .ref vid =>
    match w.cont? vid with
    | none => .ok (e, none, w, cx)        -- a reference to a large-value slab
    | some c =>
      if c.isInlined then
        let wrapBytes := e.size - c.rootSize
        match c.uninline vid cx with
        | .error er => .error er
        | .ok (c', cx) =>
          .ok ({ size := slabIDStorableSize + wrapBytes, pay := .ref vid }, some vid, w.setCont vid c', cx)
      else .ok (e, some vid, w, cx)
  | _ => .ok (e, none, w, cx)

/-- `Array.Insert(index, value)` -/
def arrInsert (w : World) (p : SlabID) (i : Nat) (v : WVal) (cx : Ctx) : Except WErr (World × Ctx) :=
  match w.cont? p with
  | some (.arr a) =>
    if i > a.count then .error (.arr .indexOutOfBounds)
    else do
      let (e, w, cx) ← w.storableOf v (maxInlineArr w.T) cx
      match a.insert w.T i e cx with
      | .error er => .error (.arr er)
      | .ok (a', cx) =>
        let w := w.setCont p (.arr a')
        let w := w.shiftIdx p (fun j => if j ≥ i then j + 1 else j)
        let (w, cx) ← notifyParent w.fuelOf w p cx
        return (w.setCallbackArr p i v, cx)
  | _ => .error .unknownContainer

/-- `Array.Set(index, value)` -/
def arrSet (w : World) (p : SlabID) (i : Nat) (v : WVal) (cx : Ctx) : Except WErr (Elem × World × Ctx) := do
  let (old, w, cx) ← arrSetRaw w.fuelOf w p i v cx
  let (old', oldVid, w, cx) ← w.uninlineIfNeeded old cx
  let w := match oldVid with
    | none => w
    | some ov =>
      let same := match v with | .child nv _ => nv == ov | _ => false
      if same then w else w.setIdx p (AList.erase (w.idxOf p) ov)
  return (old', w, cx)

/-- `Array.Remove(index)` -/
def arrRemove (w : World) (p : SlabID) (i : Nat) (cx : Ctx) : Except WErr (Elem × World × Ctx) :=
  match w.cont? p with
  | some (.arr a) =>
    match a.remove w.T i cx with
    | .error er => .error (.arr er)
    | .ok (old, a', cx) => do
      let w := w.setCont p (.arr a')
      let w := w.shiftIdx p (fun j => if j > i then j - 1 else j)
      let (w, cx) ← notifyParent w.fuelOf w p cx
      let (old', oldVid, w, cx) ← w.uninlineIfNeeded old cx
      let w := match oldVid with
        | none => w
        | some ov => w.setIdx p (AList.erase (w.idxOf p) ov)
      return (old', w, cx)
  | _ => .error .unknownContainer

/-- `OrderedMap.Set(key, value)` -/
def mapSet (w : World) (p : SlabID) (k : MKey) (v : WVal) (cx : Ctx) : Except WErr (Option Elem × World × Ctx) := do
  let (old, w, cx) ← mapSetRaw w.fuelOf w p k v cx
  match old with
  | none => return (none, w, cx)
  | some o =>
    let (o', _, w, cx) ← w.uninlineIfNeeded o cx
    return (some o', w, cx)

/-- `OrderedMap.Remove(key)` -/
def mapRemove (w : World) (p : SlabID) (k : MKey) (cx : Ctx) : Except WErr (MKey × Elem × World × Ctx) :=
  match w.cont? p with
  | some (.map m) =>
    match m.remove w.mcfg k cx with
    | .error er => .error (.map er)
    | .ok (rk, rv, m', cx) => do
      let w := w.setCont p (.map m')
      let (w, cx) ← notifyParent w.fuelOf w p cx
      let (rv', _, w, cx) ← w.uninlineIfNeeded rv cx
      return (rk, rv', w, cx)
  | _ => .error .unknownContainer

/-! ### Bulk pop through a handle (`Array.PopIterate` / `OrderedMap.PopIterate`)

The emptied container keeps its identity and its place; everything it held is handed to the
caller, who disposes of it (deep-removal idiom): the containers nested in it cease to exist.
As every other mutation, the pop notifies the parent (repaired in /repo by the commit
"fix: PopIterate through a child handle must notify the parent container"), and the emptied
array tracks no child index any more ("fix: Array.PopIterate must forget the indexes of the child
containers it removed"). -/

/-- the containers referenced by the elements of a container -/
def Cont.childRefs (w : World) (c : Cont) : List SlabID :=
  let es : List Elem := match c with
    | .arr a => a.toList
    | .map m => m.toList.map (·.2)
  es.filterMap (fun e => match e.pay with
    | .ref v => if (w.cont? v).isSome then some v else none
    | _ => none)

/-- container `vid` and everything nested in it has been disposed of by the caller -/
def forget (fuel : Nat) (w : World) (vid : SlabID) : World :=
  match fuel with
  | 0 => w
  | fuel + 1 =>
    match w.cont? vid with
    | none => w
    | some c =>
      let kids := Cont.childRefs w c
      let w : World := { w with conts := AList.erase w.conts vid, hinfo := AList.erase w.hinfo vid,
                                mutIdx := AList.erase w.mutIdx vid }
      kids.foldl (forget fuel) w

def forgetElems (w : World) (es : List Elem) : World :=
  es.foldl (fun w e => match e.pay with
    | .ref v => forget w.fuelOf w v
    | _ => w) w

/-- the popped elements the caller disposes of: all but the containers in `keep` -/
def disposed (keep : List SlabID) (es : List Elem) : List Elem :=
  es.filter (fun e => match e.pay with
    | .ref v => !keep.contains v
    | _ => true)

/-- `Array.PopIterate(fn)` where the caller keeps the popped containers `keep` alive for a while
    (a popped inlined child is then an in-memory slab outside storage whose closure still names
    `h`; a popped standalone child is simply detached).  `arrPopKeep w h [] = arrPop w h`. -/
def arrPopKeep (w : World) (h : SlabID) (keep : List SlabID) (cx : Ctx) :
    Except WErr (List Elem × World × Ctx) :=
  match w.cont? h with
  | some (.arr a) =>
    let (es, a', cx) := a.popIterate cx
    let w := w.setCont h (.arr a')
    let w := w.setIdx h []
    let w := w.forgetElems (disposed keep es)
    match notifyParent w.fuelOf w h cx with
    | .error e => .error e
    | .ok (w, cx) => .ok (es, w, cx)
  | _ => .error .unknownContainer

/-- `OrderedMap.PopIterate(fn)` with kept containers -/
def mapPopKeep (w : World) (h : SlabID) (keep : List SlabID) (cx : Ctx) :
    Except WErr (List (MKey × Elem) × World × Ctx) :=
  match w.cont? h with
  | some (.map m) =>
    let (kvs, m', cx) := m.popIterate cx
    let w := w.setCont h (.map m')
    let w := w.forgetElems (disposed keep (kvs.map (·.2)))
    match notifyParent w.fuelOf w h cx with
    | .error e => .error e
    | .ok (w, cx) => .ok (kvs, w, cx)
  | _ => .error .unknownContainer

/-- `Array.PopIterate(fn)` through the handle of container `h` -/
def arrPop (w : World) (h : SlabID) (cx : Ctx) : Except WErr (List Elem × World × Ctx) :=
  match w.cont? h with
  | some (.arr a) =>
    let (es, a', cx) := a.popIterate cx
    let w := w.setCont h (.arr a')
    let w := w.setIdx h []
    let w := w.forgetElems es
    match notifyParent w.fuelOf w h cx with
    | .error e => .error e
    | .ok (w, cx) => .ok (es, w, cx)
  | _ => .error .unknownContainer

/-- `OrderedMap.PopIterate(fn)` through the handle of container `h` -/
def mapPop (w : World) (h : SlabID) (cx : Ctx) : Except WErr (List (MKey × Elem) × World × Ctx) :=
  match w.cont? h with
  | some (.map m) =>
    let (kvs, m', cx) := m.popIterate cx
    let w := w.setCont h (.map m')
    let w := w.forgetElems (kvs.map (·.2))
    match notifyParent w.fuelOf w h cx with
    | .error e => .error e
    | .ok (w, cx) => .ok (kvs, w, cx)
  | _ => .error .unknownContainer

/-! ### Handles obtained by lookup or mutable iteration, and after reopening the storage

`Array.Get` / `OrderedMap.Get` and the mutable iterators call `setCallbackWithChild` on the value
they hand out: the NEW handle of a child container gets the parent-updater closure (and, for array
parents, the index is recorded again).  Reopening the containers on a fresh storage drops every
handle: no closure, no recorded index, until the children are fetched again. -/

/-- wrapper depth of a parent element that refers to container `c` -/
def wrapDepth (c : Cont) (el : Elem) : Nat :=
  (el.size - (if c.isInlined then c.rootSize else slabIDStorableSize)) / 2

/-- `Array.Get(i)` (also: the mutable array iterator arriving at index `i`) -/
def arrGet (w : World) (p : SlabID) (i : Nat) : Except WErr (Elem × World) :=
  match w.cont? p with
  | some (.arr a) =>
    match a.get i with
    | .error e => .error (.arr e)
    | .ok el =>
      match el.pay with
      | .ref vid =>
        match w.cont? vid with
        | none => .ok (el, w)
        | some c => .ok (el, w.setCallbackArr p i (.child vid (wrapDepth c el)))
      | _ => .ok (el, w)
  | _ => .error .unknownContainer

/-- `OrderedMap.Get(key)` (also: the mutable map iterator arriving at `key`) -/
def mapGet (w : World) (p : SlabID) (k : MKey) : Except WErr (Elem × World) :=
  match w.cont? p with
  | some (.map m) =>
    match m.get w.mcfg k with
    | .error e => .error (.map e)
    | .ok (k', el) =>
      match el.pay with
      | .ref vid =>
        match w.cont? vid with
        | none => .ok (el, w)
        | some c => .ok (el, w.setCallbackMap p k' (.child vid (wrapDepth c el)))
      | _ => .ok (el, w)
  | _ => .error .unknownContainer

/-- all containers reopened from their registers on a fresh storage -/
def reopen (w : World) : World := { w with hinfo := [], mutIdx := [] }

/-- `Array.SetType` / `OrderedMap.SetType` through the handle of container `h`: a standalone root
    is stored; an inlined one lives in its parent's slab, so the parent is notified instead -/
def setType (w : World) (h : SlabID) (ty : Nat) (cx : Ctx) : Except WErr (World × Ctx) :=
  match w.cont? h with
  | some (.arr a) =>
    let (a', cx) := a.setType ty cx
    let w := w.setCont h (.arr a')
    if a.isInlined then notifyParent w.fuelOf w h cx else .ok (w, cx)
  | some (.map m) =>
    let (m', cx) := m.setType ty cx
    let w := w.setCont h (.map m')
    if m.isInlined then notifyParent w.fuelOf w h cx else .ok (w, cx)
  | none => .error .unknownContainer

/-- `NewArray` / `NewMap`: a new standalone container -/
def newArr (w : World) (ty : Nat) (cx : Ctx) : SlabID × World × Ctx :=
  let (a, cx) := Arr.new w.addr ty cx
  (a.rootID, w.setCont a.rootID (.arr a), cx)

def newMap (w : World) (ty seed : Nat) (cx : Ctx) : SlabID × World × Ctx :=
  let (m, cx) := (OMap.new w.addr ty (fun _ => seed) cx : OMap 3 × Ctx)
  (m.rootID, w.setCont m.rootID (.map m), cx)

end World
end Atree
