import AtreeModel.Basic
import AtreeModel.Gen.Consts
/-
  Byte-level model of slab identifiers (slab_id.go, value_id.go, slab_id_storable.go), of the ledger
  key mapping and of the three simple storages (storage.go: `LedgerBaseStorage`,
  `BasicSlabStorage`; test_utils/storage_utils.go: `InMemBaseStorage`).

  The rest of the model (`AtreeModel/Basic.lean`) treats a `SlabID` as a pair of numbers.  The Go
  code works on bytes: `SlabID{address [8]byte, index [8]byte}`.  Here a Go `[8]byte` is a list of
  exactly 8 `UInt8`s, a Go `[]byte` is a `List UInt8`, a Go `uint64` is a `Nat` with every
  wrapping operation written as an explicit `% 2^64`.  Core Lean only (the driver links this).

  Every function names the Go function it transcribes.  `AtreeProofs/SlabIdBytes.lean` relates the
  bytes to the numeric `Atree.SlabID`; the statements are in `AtreeProofs/Props/SlabId.lean`.
-/
namespace Atree.SlabIdB

abbrev Bytes := List UInt8

/-! ### Go library primitives used by the transcribed functions -/

/-- `binary.BigEndian.Uint64(b)` generalised to any length: the big-endian number whose digits are
    the bytes of `b` (`uint64(b[7]) | uint64(b[6])<<8 | … | uint64(b[0])<<56` for 8 bytes). -/
def beNat : Bytes → Nat
  | [] => 0
  | x :: xs => x.toNat * 256 ^ xs.length + beNat xs

/-- `binary.BigEndian.PutUint64(b, v)` generalised to `k` bytes: `b[0] = byte(v >> 8(k-1))`, …,
    `b[k-1] = byte(v)`. -/
def putBE : Nat → Nat → Bytes
  | 0, _ => []
  | k + 1, v => UInt8.ofNat (v / 256 ^ k % 256) :: putBE k v

/-- `copy(dst, src)` on slices: the first `min(len(dst), len(src))` bytes of `src` overwrite the
    start of `dst`; returns the new content of `dst` and the number of bytes copied. -/
def goCopy (dst src : Bytes) : Bytes × Nat :=
  let n := min dst.length src.length
  (src.take n ++ dst.drop n, n)

/-- `bytes.Compare(a, b)`: lexicographic, a proper prefix is smaller; result in {-1, 0, +1}. -/
def bytesCompare : Bytes → Bytes → Int
  | [], [] => 0
  | [], _ :: _ => -1
  | _ :: _, [] => 1
  | a :: as, b :: bs => if a < b then -1 else if b < a then 1 else bytesCompare as bs

/-- `bytes.Equal(a, b)` -/
def bytesEqual (a b : Bytes) : Bool := a == b

/-- a zeroed Go array `[k]byte{}` -/
def zeros (k : Nat) : Bytes := List.replicate k 0

theorem length_zeros (k : Nat) : (zeros k).length = k := by simp [zeros]

theorem length_putBE (k v : Nat) : (putBE k v).length = k := by
  induction k with
  | zero => rfl
  | succ k ih => simp [putBE, ih]

theorem length_goCopy (dst src : Bytes) : (goCopy dst src).1.length = dst.length := by
  simp only [goCopy, List.length_append, List.length_take, List.length_drop]; omega

/-! ### slab_id.go: types -/

/-- `Address [SlabAddressLength]byte` -/
abbrev Address := { l : Bytes // l.length = Gen.SlabAddressLength }
/-- `SlabIndex [SlabIndexLength]byte` -/
abbrev SlabIndex := { l : Bytes // l.length = Gen.SlabIndexLength }

/-- `SlabID struct { address Address; index SlabIndex }` -/
structure SlabIDB where
  address : Address
  index   : SlabIndex
deriving DecidableEq

/-- `AddressUndefined = Address{}` -/
def AddressUndefined : Address := ⟨zeros Gen.SlabAddressLength, length_zeros _⟩
/-- `SlabIndexUndefined = SlabIndex{}` -/
def SlabIndexUndefined : SlabIndex := ⟨zeros Gen.SlabIndexLength, length_zeros _⟩
/-- `SlabIDUndefined = SlabID{}` -/
def SlabIDUndefined : SlabIDB := ⟨AddressUndefined, SlabIndexUndefined⟩

instance : Inhabited SlabIDB := ⟨SlabIDUndefined⟩

/-- All errors of slab_id.go are `SlabIDError`s (errors.go: `NewSlabIDError` wraps in
    `NewFatalError`); the constructor tells which call site produced it. -/
inductive SlabIdErr where
  | bufferLength (len : Nat)   -- "incorrect slab ID buffer length %d"
  | undefinedSlabID            -- "undefined slab ID"
  | undefinedSlabIndex         -- "undefined slab index"
deriving DecidableEq, Repr

/-! ### slab_id.go: SlabIndex -/

/-- `SlabIndex.Next`: `i := BigEndian.Uint64(index[:]); PutUint64(next[:], i+1)` (uint64 `+` wraps). -/
def SlabIndex.next (index : SlabIndex) : SlabIndex :=
  let i := beNat index.val
  ⟨putBE Gen.SlabIndexLength ((i + 1) % 2 ^ 64), length_putBE _ _⟩

/-- `LedgerBaseStorageSlabPrefix = "$"` (storage.go) as bytes. -/
def ledgerPrefix : Bytes := [0x24]

/-- `SlabIndexToLedgerKey`: `[]byte(LedgerBaseStorageSlabPrefix + string(ind[:]))`. -/
def slabIndexToLedgerKey (ind : SlabIndex) : Bytes := ledgerPrefix ++ ind.val

/-- `LedgerKeyIsSlabKey(key)` (storage.go): `strings.HasPrefix(key, LedgerBaseStorageSlabPrefix)`.
    (It looks at the prefix ONLY: neither the length nor the rest of the key is inspected.) -/
def ledgerKeyIsSlabKey (key : Bytes) : Bool := ledgerPrefix.isPrefixOf key

/-! ### slab_id.go: SlabID -/

/-- `NewSlabID` -/
def newSlabID (address : Address) (index : SlabIndex) : SlabIDB := ⟨address, index⟩

/-- `NewSlabIDFromRawBytes`: too-short buffers are rejected; LONGER buffers are accepted and the
    bytes from offset 16 on are ignored (`copy` stops at the end of the array). -/
def newSlabIDFromRawBytes (b : Bytes) : Except SlabIdErr SlabIDB :=
  if b.length < Gen.SlabIDLength then .error (.bufferLength b.length)
  else
    -- var address Address; copy(address[:], b)
    let address : Address := ⟨(goCopy (zeros Gen.SlabAddressLength) b).1, by rw [length_goCopy, length_zeros]⟩
    -- var index SlabIndex; copy(index[:], b[SlabAddressLength:])
    let index : SlabIndex :=
      ⟨(goCopy (zeros Gen.SlabIndexLength) (b.drop Gen.SlabAddressLength)).1, by rw [length_goCopy, length_zeros]⟩
    .ok ⟨address, index⟩

/-- `SlabID.ToRawBytes(b)`: returns the number of bytes written and the new content of `b`. -/
def SlabIDB.toRawBytes (id : SlabIDB) (b : Bytes) : Except SlabIdErr (Nat × Bytes) :=
  if b.length < Gen.SlabIDLength then .error (.bufferLength b.length)
  else
    -- copy(b, id.address[:])
    let b1 := (goCopy b id.address.val).1
    -- copy(b[SlabAddressLength:], id.index[:])
    let b2 := b1.take Gen.SlabAddressLength ++ (goCopy (b1.drop Gen.SlabAddressLength) id.index.val).1
    .ok (Gen.SlabIDLength, b2)

/-- `SlabID.AddressAsUint64` -/
def SlabIDB.addressAsUint64 (id : SlabIDB) : Nat := beNat id.address.val
/-- `SlabID.IndexAsUint64` -/
def SlabIDB.indexAsUint64 (id : SlabIDB) : Nat := beNat id.index.val

/-- `SlabID.HasTempAddress`: `id.address == AddressUndefined` (array comparison). -/
def SlabIDB.hasTempAddress (id : SlabIDB) : Bool := id.address == AddressUndefined

/-- `SlabID.Valid`: `nil` is `.ok ()`.  (The first test is subsumed by the second; it only selects
    the message.) -/
def SlabIDB.valid (id : SlabIDB) : Except SlabIdErr Unit :=
  if id = SlabIDUndefined then .error .undefinedSlabID
  else if id.index = SlabIndexUndefined then .error .undefinedSlabIndex
  else .ok ()

/-- `SlabID.Compare(other)` -/
def SlabIDB.compare (id other : SlabIDB) : Int :=
  let result := bytesCompare id.address.val other.address.val
  if result = 0 then bytesCompare id.index.val other.index.val
  else result

/-- lower-case hex / decimal digits of `fmt`'s `%x` / `%d` for a uint64 -/
def hexStr (n : Nat) : String := String.ofList (Nat.toDigits 16 n)

/-- `SlabID.String`: `fmt.Sprintf("0x%x.%d", BigEndian.Uint64(address), BigEndian.Uint64(index))` -/
def SlabIDB.toStr (id : SlabIDB) : String :=
  "0x" ++ hexStr id.addressAsUint64 ++ "." ++ toString id.indexAsUint64

/-- The comparison function handed to `sort.Slice` in
    `PersistentSlabStorage.sortedOwnedDeltaKeys` (storage.go): it does NOT call `Compare`, it
    compares the big-endian numbers. -/
def sortedKeysLess (a b : SlabIDB) : Bool :=
  if a.address = b.address then a.indexAsUint64 < b.indexAsUint64
  else a.addressAsUint64 < b.addressAsUint64

/-- insertion into a list sorted by `sortedKeysLess` (model of `sort.Slice`; the keys of a Go map
    are distinct, so stability is irrelevant) — same shape as `St.insertSorted` of Storage.lean -/
def insertSortedB (k : SlabIDB) : List SlabIDB → List SlabIDB
  | [] => [k]
  | x :: xs => if sortedKeysLess k x then k :: x :: xs else x :: insertSortedB k xs

/-- `PersistentSlabStorage.sortedOwnedDeltaKeys` on byte-level keys: drop the keys with the
    temporary address (`k.address != AddressUndefined`), sort the rest. -/
def sortedOwnedKeysB (keys : List SlabIDB) : List SlabIDB :=
  (keys.filter (fun k => !k.hasTempAddress)).foldr insertSortedB []

/-- The slab-ID construction of `PersistentSlabStorage.GenerateSlabID` for the temporary address:
    `s.tempSlabIndex++; binary.BigEndian.PutUint64(idx[:], s.tempSlabIndex)` (uint64 `++` wraps).
    Returns the identifier and the new counter. -/
def tempGenerate (tempSlabIndex : Nat) : SlabIDB × Nat :=
  let t := (tempSlabIndex + 1) % 2 ^ 64
  (⟨AddressUndefined, ⟨putBE Gen.SlabIndexLength t, length_putBE _ _⟩⟩, t)

/-! ### value_id.go -/

/-- `ValueID [ValueIDLength]byte` -/
abbrev ValueID := { l : Bytes // l.length = Gen.ValueIDLength }

/-- `slabIDToValueID`: `n := copy(id[:], sid.address[:]); copy(id[n:], sid.index[:])` -/
def slabIDToValueID (sid : SlabIDB) : ValueID :=
  let id0 := zeros Gen.ValueIDLength
  let c := goCopy id0 sid.address.val
  let id1 := c.1
  let n := c.2
  let id2 := id1.take n ++ (goCopy (id1.drop n) sid.index.val).1
  ⟨id2, by
    have h1 : id1.length = Gen.ValueIDLength := by
      show (goCopy id0 sid.address.val).1.length = _
      rw [length_goCopy, length_zeros]
    have hn : n ≤ id1.length := by
      show (goCopy id0 sid.address.val).2 ≤ _
      rw [h1]; simp only [goCopy, id0, length_zeros]; omega
    show (id1.take n ++ (goCopy (id1.drop n) sid.index.val).1).length = _
    rw [List.length_append, length_goCopy, List.length_take, List.length_drop]; omega⟩

/-- `ValueID.equal(sid)`:
    `bytes.Equal(vid[:len(sid.address)], sid.address[:]) && bytes.Equal(vid[len(sid.address):], sid.index[:])` -/
def ValueID.equal (vid : ValueID) (sid : SlabIDB) : Bool :=
  bytesEqual (vid.val.take sid.address.val.length) sid.address.val &&
  bytesEqual (vid.val.drop sid.address.val.length) sid.index.val

/-- `ValueID.String`: same format as `SlabID.String`, read from the 16 bytes. -/
def ValueID.toStr (vid : ValueID) : String :=
  "0x" ++ hexStr (beNat (vid.val.take Gen.SlabAddressLength)) ++ "." ++
    toString (beNat (vid.val.drop Gen.SlabAddressLength))

/-! ### slab_id_storable.go -/

/-- `SlabIDStorable.ByteSize`: tag number (2 bytes) + byte string header (1 byte) + slab id. -/
def storableByteSize : Nat := 2 + 1 + Gen.SlabIDLength

/-- head written by `enc.CBOR.EncodeBytes(b)` for a byte string of length `n` (cbor library,
    `encodeHead` with major type 2); only lengths below 2^16 are modelled. -/
def cborBytesHead (n : Nat) : Bytes :=
  if n < 24 then [UInt8.ofNat (0x40 + n)]
  else if n < 256 then [0x58, UInt8.ofNat n]
  else 0x59 :: putBE 2 n

/-- `SlabIDStorable.Encode`: raw `[0xd8, CBORTagSlabID]`, the 16 bytes are assembled in
    `enc.Scratch`, then `EncodeBytes(enc.Scratch[:SlabIDLength])`. -/
def storableEncode (v : SlabIDB) : Bytes :=
  let scratch := v.address.val ++ v.index.val
  [0xd8, UInt8.ofNat Gen.CBORTagSlabID] ++ cborBytesHead (scratch.take Gen.SlabIDLength).length ++
    scratch.take Gen.SlabIDLength

/-- `DecodeSlabIDStorable` after the tag number has been consumed by the caller:
    `b := dec.DecodeBytes()` (here: the content `b` of the byte string, `none` if the next item is
    not a byte string), then `NewSlabIDFromRawBytes(b)`. -/
inductive DecodeRes where
  | ok (id : SlabIDB)
  | decodingError               -- `NewDecodingError(err)` from `DecodeBytes`
  | slabIDError (e : SlabIdErr) -- from `NewSlabIDFromRawBytes`
deriving DecidableEq

def decodeSlabIDStorable (content : Option Bytes) : DecodeRes :=
  match content with
  | none => .decodingError
  | some b =>
    match newSlabIDFromRawBytes b with
    | .ok id => .ok id
    | .error e => .slabIDError e

/-- `SlabIDStorable.StoredValue` up to the storage lookup: `id.Valid()` first. -/
def storedValueCheck (v : SlabIDB) : Except SlabIdErr Unit := v.valid

/-! ### Relation to the numeric identifiers of the rest of the model -/

/-- The numeric identifier of `AtreeModel/Basic.lean` that the bytes denote. -/
def SlabIDB.toModel (id : SlabIDB) : Atree.SlabID := ⟨id.addressAsUint64, id.indexAsUint64⟩

/-- The bytes of a numeric identifier (both components reduced mod 2^64). -/
def ofModel (i : Atree.SlabID) : SlabIDB :=
  ⟨⟨putBE Gen.SlabAddressLength i.addr, length_putBE _ _⟩, ⟨putBE Gen.SlabIndexLength i.idx, length_putBE _ _⟩⟩

/-- `hx.MkAddr` / readable constructor: the address / index holding the number `n`. -/
def addrOfNat (n : Nat) : Address := ⟨putBE Gen.SlabAddressLength n, length_putBE _ _⟩
def indexOfNat (n : Nat) : SlabIndex := ⟨putBE Gen.SlabIndexLength n, length_putBE _ _⟩

end Atree.SlabIdB
