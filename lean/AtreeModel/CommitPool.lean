import AtreeModel.Commit
/-
  The worker pools of `PersistentSlabStorage.FastCommit(numWorkers)` and
  `PersistentSlabStorage.NondeterministicFastCommit(numWorkers)` (storage.go, lines 552-887) as a
  message-passing model WITH the main goroutine, the `done` channel, the closing of the channels
  and the deferred closure (`wg.Wait(); close(results)`).  `AtreeModel/Commit.lean` (`Atree.Pool`)
  covers only the happy path of the workers; this file adds everything that matters for
  "no send on a closed channel", "no blocked send", "no deadlock" and "termination".

  Actors: the main goroutine and `n` encoder goroutines.  A *schedule* is the list of actors chosen
  by the Go scheduler; the chosen actor performs its next channel operation (everything between two
  channel operations of one goroutine touches only goroutine-local data or read-only shared data -
  generated fact `Gen.workerClosuresWriteFree` - so it is attached to the preceding operation).
  An operation that BLOCKS in Go is a step that leaves the state unchanged (the actor stays where
  it is and may be chosen again later).  A run-time panic (`send on closed channel`) sets
  `panicked`; the process is dead from then on (every later step is a no-op).

  Channels:
    `jobs`     buffered, capacity = number of jobs : `queue`, `jobsClosed`
               (its capacity equals the number of sends that ever happen, so a send on it never
                blocks; the capacity is therefore not a parameter of the model);
    `results`  buffered, capacity `P.cap`          : `results`, `resultsClosed`
               (`P.cap` = number of jobs in the Go code; a parameter so that the mutation
                "capacity = numWorkers" is expressible);
    `done`     unbuffered, only ever closed        : `doneClosed`.
  `sync.WaitGroup`: `wg.Add(numWorkers)` + one `wg.Done()` per returning encoder; `wg.Wait()`
  returns iff every encoder has returned = every entry of `workers` is `.exited`.

  Not in the Go code (bookkeeping only, never read by a step): `dropped` (jobs taken by an encoder
  that then saw `done` closed and returned), `received`, `stop`.

  Core Lean only.
-/
namespace Atree
namespace PoolX

variable {ι ρ : Type}

/-- the goroutines -/
inductive Actor where
  | main
  | worker (w : Nat)
deriving DecidableEq, Repr

/-- where an `encoder` goroutine is -/
inductive WState (ι : Type) where
  | idle                 -- at `for id := range jobs` (about to receive from `jobs`)
  | took (j : ι)         -- received job `j`, at `select { case <-done: return; default: }`
  | sending (j : ι)      -- passed the `done` check, encoded, at `results <- ...`
  | exited               -- returned (deferred `wg.Done()` has run)
deriving DecidableEq, Repr

/-- where the main goroutine is -/
inductive Phase where
  | sendJobs                  -- [Nondeterministic] `for … { jobs <- … }` then `close(jobs)`
  | deleting (left : Nat)     -- [Nondeterministic] `for _, id := range deletedSlabIDs`, `left` to go
  | receiving                 -- `for range n { result := <-results … }`
  | applying                  -- [FastCommit] the apply loop over `keysWithOwners` (no channel operation)
  | waiting                   -- deferred closure: `wg.Wait()`
  | closing                   -- deferred closure: `close(results)`
  | returned
deriving DecidableEq, Repr

/-- why main left its loops early (each of these is preceded by `close(done)`) -/
inductive Stop where
  | encodeErr      -- `result.err != nil`
  | nilData        -- [Nondeterministic] `data == nil`
  | storeFailed    -- [Nondeterministic] `s.baseStorage.Store` failed
  | removeFailed   -- [Nondeterministic] `s.baseStorage.Remove` failed
deriving DecidableEq, Repr

structure Params (ι ρ : Type) where
  f     : ι → ρ          -- what an encoder computes for a job (`EncodeSlab` resp. the nil-slab result)
  isErr : ρ → Bool       -- `result.err != nil`
  isNil : ρ → Bool       -- `result.data == nil`                       (read by Nondeterministic only)
  fault : Nat → Bool     -- does the `n`-th base-storage call of this commit fail (Nondeterministic only)
  dels  : Nat            -- `len(deletedSlabIDs)`                        (Nondeterministic only)
  nondet : Bool          -- false: `FastCommit`, true: `NondeterministicFastCommit`
  cap   : Nat            -- capacity of `results`   (the Go code: the number of jobs)
  waitBeforeClose : Bool -- the deferred closure calls `wg.Wait()` before `close(results)` (the Go code: true)

structure XState (ι ρ : Type) where
  unsent        : List ι              -- jobs main has still to send
  jobsClosed    : Bool
  queue         : List ι              -- the `jobs` channel
  workers       : List (WState ι)     -- one entry per `go encoder(...)`
  results       : List (ι × ρ)        -- the `results` channel, oldest first
  resultsClosed : Bool
  panicked      : Bool                -- a goroutine executed a send on the closed `results` channel
  doneClosed    : Bool
  phase         : Phase
  remaining     : Nat                 -- iterations of the receive loop still to run
  ncalls        : Nat                 -- base-storage calls issued so far (position in the fault plan)
  received      : List (ι × ρ)        -- what main has received, in arrival order
  stop          : Option Stop         -- set together with `close(done)`
  dropped       : List ι              -- (ghost) jobs dropped by encoders that saw `done` closed
deriving DecidableEq, Repr

/-- `wg.Wait()` would return -/
def allExited (ws : List (WState ι)) : Bool :=
  ws.all (fun x => match x with | .exited => true | _ => false)

/-- The state when the first `go encoder(...)` of `FastCommit` starts (storage.go:620): all jobs
    are in the `jobs` channel and it is closed (lines 567-571); main is about to enter the receive
    loop (line 637); the deferred closure is registered (line 623). -/
def initFast (jobs : List ι) (workers : Nat) : XState ι ρ :=
  { unsent := [], jobsClosed := true, queue := jobs, workers := List.replicate workers .idle,
    results := [], resultsClosed := false, panicked := false, doneClosed := false,
    phase := .receiving, remaining := jobs.length, ncalls := 0, received := [], stop := none,
    dropped := [] }

/-- The state when the first `go encoder(...)` of `NondeterministicFastCommit` starts
    (storage.go:820): the channels are empty and open, the deferred closure is registered
    (line 807), main is about to send the jobs (line 824). -/
def initNondet (jobs : List ι) (workers : Nat) : XState ι ρ :=
  { unsent := jobs, jobsClosed := false, queue := [], workers := List.replicate workers .idle,
    results := [], resultsClosed := false, panicked := false, doneClosed := false,
    phase := .sendJobs, remaining := jobs.length, ncalls := 0, received := [], stop := none,
    dropped := [] }

def init (P : Params ι ρ) (jobs : List ι) (workers : Nat) : XState ι ρ :=
  if P.nondet then initNondet jobs workers else initFast jobs workers

/-- The `encoder` closure of `FastCommit` (storage.go:584-612) and of
    `NondeterministicFastCommit` (storage.go:711-747) - the two have the same channel behaviour:
    the next channel operation of encoder goroutine `w`.
      `for id := range jobs`            receive from `jobs`: blocks while empty and open, ends the
                                        loop (return, `wg.Done()`) when empty and closed;
      `select { case <-done: return }`  non-blocking check of `done`; on return the job is dropped;
      `results <- …`                    panics when `results` is closed, blocks while it is full. -/
def encoderStep (P : Params ι ρ) (s : XState ι ρ) (w : Nat) : XState ι ρ :=
  match s.workers[w]? with
  | none => s                                        -- no such goroutine
  | some .exited => s
  | some .idle =>
    match s.queue with
    | j :: rest => { s with queue := rest, workers := s.workers.set w (.took j) }
    | [] =>
      if s.jobsClosed then { s with workers := s.workers.set w .exited }
      else s                                         -- blocked on the empty, open `jobs` channel
  | some (.took j) =>
    if s.doneClosed then { s with workers := s.workers.set w .exited, dropped := j :: s.dropped }
    else { s with workers := s.workers.set w (.sending j) }
  | some (.sending j) =>
    if s.resultsClosed then { s with panicked := true }    -- panic: send on closed channel
    else if s.results.length < P.cap then
      { s with results := s.results ++ [(j, P.f j)], workers := s.workers.set w .idle }
    else s                                           -- blocked on the full `results` channel

/-- `close(done); return …` : the deferred closure runs next -/
def earlyExit (s : XState ι ρ) (why : Stop) : XState ι ρ :=
  { s with doneClosed := true, stop := some why, phase := .waiting }

/-- The main goroutine of `FastCommit` from the receive loop on (storage.go:633-687): the next
    channel operation.  The apply loop (lines 651-682) performs no channel operation and is one
    step (its effect on the storage is `St.applyEncoded`, outside the pool). -/
def fastCommitMainStep (P : Params ι ρ) (s : XState ι ρ) : XState ι ρ :=
  match s.phase with
  | .receiving =>
    match s.remaining with
    | 0 => { s with phase := .applying }
    | n + 1 =>
      match s.results with
      | [] => s                                      -- blocked on the empty `results` channel
      | r :: rest =>
        let s1 := { s with results := rest, received := s.received ++ [r] }
        if P.isErr r.2 then earlyExit s1 .encodeErr
        else { s1 with remaining := n }
  | .applying => { s with phase := .waiting }        -- `return` (nil or a base-storage error)
  | _ => s

/-- The main goroutine of `NondeterministicFastCommit` from the sending of the jobs on
    (storage.go:823-886): the next channel or base-storage operation. -/
def nondetMainStep (P : Params ι ρ) (s : XState ι ρ) : XState ι ρ :=
  match s.phase with
  | .sendJobs =>
    match s.unsent with
    | j :: rest => { s with unsent := rest, queue := s.queue ++ [j] }        -- `jobs <- …`
    | [] => { s with jobsClosed := true, phase := .deleting P.dels }         -- `close(jobs)`
  | .deleting 0 => { s with phase := .receiving }
  | .deleting (k + 1) =>                                                     -- `s.baseStorage.Remove(id)`
    if P.fault s.ncalls then earlyExit { s with ncalls := s.ncalls + 1 } .removeFailed
    else { s with ncalls := s.ncalls + 1, phase := .deleting k }
  | .receiving =>
    match s.remaining with
    | 0 => { s with phase := .waiting }                                      -- `return nil`
    | n + 1 =>
      match s.results with
      | [] => s                                      -- blocked on the empty `results` channel
      | r :: rest =>
        let s1 := { s with results := rest, received := s.received ++ [r] }
        if P.isErr r.2 then earlyExit s1 .encodeErr
        else if P.isNil r.2 then earlyExit s1 .nilData
        else if P.fault s.ncalls then                                        -- `s.baseStorage.Store(id, data)`
          earlyExit { s1 with ncalls := s.ncalls + 1 } .storeFailed
        else { s1 with ncalls := s.ncalls + 1, remaining := n }
  | _ => s

/-- The deferred closure of both functions (storage.go:623-631 and 807-815):
    `wg.Wait()` (blocks until every encoder has returned) then `close(results)`.
    `P.waitBeforeClose = false` is the mutation that deletes `wg.Wait()`. -/
def deferredStep (P : Params ι ρ) (s : XState ι ρ) : XState ι ρ :=
  match s.phase with
  | .waiting =>
    if P.waitBeforeClose && !allExited s.workers then s                      -- blocked in `wg.Wait()`
    else { s with phase := .closing }
  | .closing => { s with resultsClosed := true, phase := .returned }         -- `close(results)`
  | _ => s

/-- the next operation of the main goroutine -/
def mainStep (P : Params ι ρ) (s : XState ι ρ) : XState ι ρ :=
  match s.phase with
  | .waiting | .closing => deferredStep P s
  | .returned => s
  | _ => if P.nondet then nondetMainStep P s else fastCommitMainStep P s

/-- one scheduler step -/
def step (P : Params ι ρ) (s : XState ι ρ) (a : Actor) : XState ι ρ :=
  if s.panicked then s
  else
    match a with
    | .main => mainStep P s
    | .worker w => encoderStep P s w

def run (P : Params ι ρ) (s : XState ι ρ) (sched : List Actor) : XState ι ρ :=
  sched.foldl (step P) s

/-- main has returned (deferred closure included) and every encoder has returned -/
def final (s : XState ι ρ) : Bool :=
  match s.phase with
  | .returned => allExited s.workers
  | _ => false

/-- all actors of a pool with `workers` encoders -/
def actors (workers : Nat) : List Actor :=
  .main :: (List.range workers).map .worker

/-- a round-robin schedule over main and the encoders, `rounds` rounds -/
def roundRobin (workers rounds : Nat) : List Actor :=
  (List.range rounds).flatMap (fun _ => actors workers)

/-- what the caller of the commit function can observe of the pool -/
structure Observed (ι ρ : Type) where
  received : List (ι × ρ)      -- results received by main, in arrival order
  stop     : Option Stop       -- the reason of an early exit (`some .encodeErr`: encoding error)
  final    : Bool              -- main returned and all goroutines are gone
  panicked : Bool
deriving DecidableEq, Repr

def observe (s : XState ι ρ) : Observed ι ρ :=
  { received := s.received, stop := s.stop, final := final s, panicked := s.panicked }

end PoolX

namespace St
variable {σ β : Type}
open PoolX

/-- the parameters of the pool of `FastCommit` on storage state `s` with `n` jobs -/
def fastParamsX (c : Codec σ β) (s : St σ β) (n : Nat) : Params SlabID (Option (Option β)) :=
  { f := encodeJob c s, isErr := fun r => r.isNone, isNil := fun _ => false, fault := fun _ => false,
    dels := 0, nondet := false, cap := n, waitBeforeClose := true }

/-- the parameters of the pool of `NondeterministicFastCommit` on storage state `s` with `n` jobs,
    `dels` deleted slabs and the fault plan `fault` -/
def nondetParamsX (c : Codec σ β) (fault : Nat → Bool) (s : St σ β) (n dels : Nat) :
    Params SlabID (Option (Option β)) :=
  { f := encodeJob c s, isErr := fun r => r.isNone,
    isNil := fun r => match r with | some none => true | _ => false,
    fault := fault, dels := dels, nondet := true, cap := n, waitBeforeClose := true }

/-- What the main goroutine of `FastCommit(numWorkers)` observes of its pool under schedule
    `sched`: jobs = `sortedOwnedDeltaKeys`, `numWorkers` clamped to the job count
    (storage.go:555-564). -/
def fastCommitObserveX (c : Codec σ β) (s : St σ β) (workers : Nat) (sched : List Actor) :
    Observed SlabID (Option (Option β)) :=
  let keys := sortedOwnedDeltaKeys s
  let w := min workers keys.length
  observe (PoolX.run (fastParamsX c s keys.length) (initFast keys w) sched)

/-- `FastCommit(numWorkers)` with pool, main goroutine and deferred closure explicit: an encoding
    error received from the pool is returned before anything is written; otherwise the received
    results are put into the map `encSlabByID` and applied in key order (as `St.fastCommitPool`). -/
def fastCommitPoolX (c : Codec σ β) (fault : Nat → Bool) (s : St σ β) (workers : Nat)
    (sched : List Actor) : CommitRes σ β :=
  let keys := sortedOwnedDeltaKeys s
  if keys.isEmpty then { st := s, err := none, log := [], n := 0 }           -- `return nil`
  else
    let o := fastCommitObserveX c s workers sched
    match o.stop with
    | some _ => { st := s, err := some .encoding, log := [], n := 0 }
    | none =>
      match collectEncoded o.received with
      | none => { st := s, err := some .encoding, log := [], n := 0 }
      | some enc => keys.foldl (applyEncoded fault enc) { st := s, err := none, log := [], n := 0 }

/-- What the main goroutine of `NondeterministicFastCommit(numWorkers)` observes of its pool under
    schedule `sched`, when the modified owned keys were enumerated as `modOrder` (the map iteration
    of storage.go:759) and the deleted ones as `delOrder`; only for `2 ≤ modOrder.length`
    (otherwise the Go function calls `s.commit` and starts no goroutine, storage.go:784-790). -/
def nondetCommitPoolX (c : Codec σ β) (fault : Nat → Bool) (s : St σ β)
    (modOrder delOrder : List SlabID) (workers : Nat) (sched : List Actor) :
    Observed SlabID (Option (Option β)) :=
  let w := min workers modOrder.length
  observe (PoolX.run (nondetParamsX c fault s modOrder.length delOrder.length) (initNondet modOrder w) sched)

end St
end Atree
