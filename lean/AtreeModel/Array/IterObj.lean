import AtreeModel.Array.Iter
/-
  The iterator OBJECTS of arrays and the callback loop with its `resume` flag
  (array_iterator.go: `emptyArrayIterator`, `mutableArrayIterator`, `readOnlyArrayIterator`,
  `ArrayLoadedValueIterator`, `iterateArray`; array.go: `Iterator`, `ReadOnlyIterator…`,
  `RangeIterator`, `ReadOnlyRangeIterator…`, `ReadOnlyLoadedValueIterator`, `Iterate…`).

  `Array/Ops.lean` and `Array/Iter.lean` give the RESULT of running an iterator to its end as a list.
  Here every iterator is a state with a `Next()` step, so that
    * a caller can stop after any number of steps (`resume = false`, `iterateLoop`),
    * `Next()` can be called again after the end (it keeps answering nil),
    * the error exits of the read-only iterator (`SlabNotFoundError` when the `next` link names no
      slab, `SlabDataError` when the next data slab is empty) are representable.
-/
namespace Atree
open ATree

/-- errors an array iterator can report besides those of `Array.Get` -/
inductive AIterErr where
  | op (e : AErr)
  | slabData            -- SlabDataError (Fatal): "data slab contains 0 elements, expect more"
deriving DecidableEq, Repr

/-- The callback loops `iterateArray(iterator, fn)`, `iterateMap`, `iterateMapKeys`, `iterateMapValues`
    and the loop inside `IterateReadOnlyLoadedValues` are the same loop:

        for { value, err := iterator.Next(); if err != nil { return err }; if value == nil { return nil }
              resume, err := fn(value); …; if !resume { return nil } }

    `next` is the iterator's step (`none` = nil value), `resume i v` is what the `i`-th call of `fn`
    (counting from 0) answers when handed `v`.  Result: the values handed to `fn`, in order.
    The Go loop has no bound; the fuel is the number of `Next()` calls allowed. -/
def iterateLoop {σ ε α : Type} (next : σ → Except ε (Option α × σ)) (resume : Nat → α → Bool) :
    Nat → Nat → σ → Except ε (List α)
  | 0, _, _ => .ok []
  | fuel + 1, i, st =>
    match next st with
    | .error e => .error e
    | .ok (none, _) => .ok []
    | .ok (some v, st') =>
      if resume i v then
        match iterateLoop next resume fuel (i + 1) st' with
        | .error e => .error e
        | .ok rest => .ok (v :: rest)
      else .ok [v]

/-- the callback that answers `resume = false` at its `k`-th call (counting from 0) -/
def stopAt (α : Type) (k : Nat) : Nat → α → Bool := fun i _ => decide (i < k)

/-- the callback that never stops -/
def neverStop (α : Type) : Nat → α → Bool := fun _ _ => true

/-- `n` successive calls of a step function: what each call returned (`none` = nil) -/
def stepN {σ ε α : Type} (next : σ → Except ε (Option α × σ)) : Nat → σ → Except ε (List (Option α))
  | 0, _ => .ok []
  | n + 1, st =>
    match next st with
    | .error e => .error e
    | .ok (v, st') =>
      match stepN next n st' with
      | .error e => .error e
      | .ok rest => .ok (v :: rest)

/-- `readOnlyArrayIterator` -/
structure ROArrIter where
  dataSlab        : DataSlab
  indexInDataSlab : Nat
  remainingCount  : Nat

/-- An `ArrayIterator` value. -/
inductive ArrIter where
  | empty (readOnly : Bool)                  -- `emptyArrayIterator`
  | mut (nextIndex lastIndex : Nat)          -- `mutableArrayIterator`
  | ro (it : ROArrIter)                      -- `readOnlyArrayIterator`
  | loaded (it : LoadedIter)                 -- `ArrayLoadedValueIterator`

namespace ArrIter

/-- `CanMutate()` of the four iterator types -/
def canMutate : ArrIter → Bool
  | .empty rdonly => !rdonly
  | .mut _ _ => true
  | .ro _ => false
  | .loaded _ => false

/-- `readOnlyArrayIterator.Next()`; `all` are the data slabs the storage can serve
    (`i.array.Storage.Retrieve(nextDataSlabID)`). -/
def roNext (all : List DataSlab) (it : ROArrIter) : Except AIterErr (Option Elem × ROArrIter) :=
  if it.remainingCount = 0 then .ok (none, it)
  else
    let adv : Except AIterErr (Option ROArrIter) :=
      if it.indexInDataSlab ≥ it.dataSlab.elems.length then
        -- no more elements in the current data slab
        if it.dataSlab.next = SlabID.undef then .ok none
        else match all.find? (fun s => s.hdr.id == it.dataSlab.next) with
          | none => .error (.op .slabNotFound)
          | some nxt =>
            if nxt.elems.length = 0 then .error .slabData
            else .ok (some { it with dataSlab := nxt, indexInDataSlab := 0 })
      else .ok (some it)
    match adv with
    | .error e => .error e
    | .ok none => .ok (none, it)
    | .ok (some it) =>
      match it.dataSlab.elems[it.indexInDataSlab]? with
      | none => .error (.op .goPanic)       -- cannot happen: the index was checked
      | some e => .ok (some e, { it with indexInDataSlab := it.indexInDataSlab + 1,
                                         remainingCount := it.remainingCount - 1 })

/-- `Next()` of an `ArrayIterator` on array `a`.  The mutable iterator calls `Array.Get(nextIndex)`
    on the CURRENT array; the loaded-value iterator asks `loaded` (`RetrieveIfLoaded ≠ nil`). -/
def next (a : Arr) (loaded : SlabID → Bool) (it : ArrIter) : Except AIterErr (Option Elem × ArrIter) :=
  match it with
  | .empty rdonly => .ok (none, .empty rdonly)
  | .mut i last =>
    if i = last then .ok (none, .mut i last)
    else match a.get i with
      | .error e => .error (.op e)
      | .ok v => .ok (some v, .mut (i + 1) last)
  | .ro r =>
    match roNext (Arr.leaves a.d a.root) r with
    | .error e => .error e
    | .ok (v, r') => .ok (v, .ro r')
  | .loaded l =>
    let N := 2 * ATree.slabCount a.d a.root + 2
    match LoadedIter.next loaded N N l with
    | none => .ok (none, .loaded l)
    | some (v, l') => .ok (some v, .loaded l')

end ArrIter

namespace Arr

/-- `Array.Iterator()` -/
def iterator (a : Arr) : ArrIter :=
  if a.count = 0 then .empty false else .mut 0 a.count

/-- `firstArrayDataSlab` -/
def firstDataSlab : (d : Nat) → ATree d → Except AErr DataSlab
  | 0, (s : DataSlab) => .ok s
  | d + 1, (m : MetaSlab (ATree d)) =>
    match m.children with
    | [] => .error .goPanic
    | c :: _ => firstDataSlab d c

/-- `Array.ReadOnlyIteratorWithMutationCallback(cb)` (the callback plays no part in the values) -/
def readOnlyIterator (a : Arr) : Except AErr ArrIter :=
  if a.count = 0 then .ok (.empty true)
  else do
    let s ← firstDataSlab a.d a.root
    return .ro { dataSlab := s, indexInDataSlab := 0, remainingCount := a.count }

/-- `Array.RangeIterator(startIndex, endIndex)` -/
def rangeIterator (a : Arr) (lo hi : Nat) : Except AErr ArrIter := do
  a.checkRange lo hi
  if hi = lo then return .empty false
  return .mut lo hi

/-- `Array.ReadOnlyRangeIteratorWithMutationCallback(startIndex, endIndex, cb)` -/
def readOnlyRangeIterator (a : Arr) (lo hi : Nat) : Except AErr ArrIter := do
  a.checkRange lo hi
  if hi - lo = 0 then return .empty true
  match a with
  | ⟨0, (s : DataSlab), _⟩ =>
    return .ro { dataSlab := s, indexInDataSlab := lo, remainingCount := hi - lo }
  | ⟨d + 1, m, _⟩ =>
    if lo = 0 then
      let s ← firstDataSlab (d + 1) m
      return .ro { dataSlab := s, indexInDataSlab := 0, remainingCount := hi - lo }
    else
      let (s, idx) ← dataSlabWithIndex (d + 1) m lo
      return .ro { dataSlab := s, indexInDataSlab := idx, remainingCount := hi - lo }

/-- the five ways of making an iterator object -/
inductive Flavour where
  | mut | ro | mutRange (lo hi : Nat) | roRange (lo hi : Nat) | loaded
deriving Repr

def makeIterator (a : Arr) : Flavour → Except AErr ArrIter
  | .mut => .ok a.iterator
  | .ro => a.readOnlyIterator
  | .mutRange lo hi => a.rangeIterator lo hi
  | .roRange lo hi => a.readOnlyRangeIterator lo hi
  | .loaded => .ok (.loaded a.loadedIterator)

/-- `Iterate / IterateReadOnly / IterateRange / IterateReadOnlyRange / IterateReadOnlyLoadedValues`
    with a callback described by `resume`: the elements handed to the callback. -/
def iterateFlavour (a : Arr) (loaded : SlabID → Bool) (f : Flavour) (resume : Nat → Elem → Bool) :
    Except AIterErr (List Elem) :=
  match a.makeIterator f with
  | .error e => .error (.op e)
  | .ok it => iterateLoop (ArrIter.next a loaded) resume (a.count + 1) 0 it

/-- an iterator object driven by `n` successive `Next()` calls: `CanMutate()` and the answers -/
def stepFlavour (a : Arr) (loaded : SlabID → Bool) (f : Flavour) (n : Nat) :
    Except AIterErr (Bool × List (Option Elem)) :=
  match a.makeIterator f with
  | .error e => .error (.op e)
  | .ok it =>
    match stepN (ArrIter.next a loaded) n it with
    | .error e => .error e
    | .ok l => .ok (it.canMutate, l)

end Arr
end Atree
