import AtreeModel.Array.Ops
/-
  EXPLICIT FAILURE OUTCOMES of array functions that the model of `Array/Slab.lean`, `Array/Ops.lean`
  makes silently total (audit a1/F10).  ADDITIVE: the old functions are untouched (hundreds of lemmas
  are about them); every function here is a transcription of the SAME Go function with the Go runtime
  panics (slice bounds, index out of range) and the error returns written out.  Inside the invariant
  the new functions agree with the old ones (`AtreeProofs/Props/C01Partial.lean`); outside it they
  say what Go does where the old ones return some value.

  Go slices have a capacity besides their length: re-slicing `s[:n]` with `len(s) < n ≤ cap(s)`
  does not panic, it exposes stale backing-array entries.  The model's lists have no capacity; the
  functions below treat `cap = len` (so they report a panic where Go, depending on the allocation
  history, either panics or reads stale entries).  This concerns only `childrenCountSum[:n]`.
-/
namespace Atree
open Gen

/-! ### slice helpers (slice_utils.go) -/

/-- `lendToRight[S ~[]E, E any](left, right S, count int) (S, S)`: `count` is a signed `int`;
    `leftIndex := len(left) - count; _ = left[leftIndex:]` panics unless `0 ≤ leftIndex ≤ len(left)`. -/
def sliceLendToRightE {β : Type} (left right : List β) (count : Int) : Except AErr (List β × List β) :=
  let leftIndex : Int := (left.length : Int) - count
  if leftIndex < 0 ∨ (left.length : Int) < leftIndex then .error .goPanic
  else .ok (left.take leftIndex.toNat, left.drop leftIndex.toNat ++ right)

/-- `borrowFromRight[S ~[]E, E any](left, right S, count int) (S, S)`: `_ = right[:count]` panics
    unless `0 ≤ count ≤ cap(right)` (`cap = len` here). -/
def sliceBorrowFromRightE {β : Type} (left right : List β) (count : Int) : Except AErr (List β × List β) :=
  if count < 0 ∨ (right.length : Int) < count then .error .goPanic
  else .ok (left ++ right.take count.toNat, right.drop count.toNat)

namespace MetaSlab
variable {α : Type}

/-- `ArrayMetaDataSlab.LendToRight` (array_metadata_slab.go) with its panics:
    `moveCount := oldLeftChildrenHeaderCount - leftChildrenHeaderCount` is NEGATIVE when the left slab
    has fewer children than half of the total, and then `lendToRight(…, moveCount)` panics with
    "slice bounds out of range"; `a.childrenCountSum[:leftChildrenHeaderCount]` panics when the count
    sums are shorter than that.  (`children` is the model's parallel list of subtrees – in Go the
    children live in the storage – and moves with the headers.) -/
def lendToRightE (l r : MetaSlab α) : Except AErr (MetaSlab α × MetaSlab α) := do
  let oldLeft := l.childHdrs.length
  let total := l.childHdrs.length + r.childHdrs.length
  let leftN := total / 2
  let moveCount : Int := (oldLeft : Int) - (leftN : Int)
  let (leftHdrs, rightHdrs) ← sliceLendToRightE l.childHdrs r.childHdrs moveCount
  if l.countSum.length < leftN then throw .goPanic
  return ({ l with childHdrs := leftHdrs, countSum := l.countSum.take leftN,
                   children := l.children.take leftN,
                   hdr := { l.hdr with count := sumCounts leftHdrs,
                                       size := arrayMetaDataSlabPrefixSize + leftN * arraySlabHeaderSize } },
          { r with childHdrs := rightHdrs, countSum := prefixSums rightHdrs 0,
                   children := l.children.drop leftN ++ r.children,
                   hdr := { r.hdr with count := sumCounts rightHdrs,
                                       size := arrayMetaDataSlabPrefixSize + rightHdrs.length * arraySlabHeaderSize } })

/-- `ArrayMetaDataSlab.BorrowFromRight` with its panics: `moveCount := leftChildrenHeaderCount -
    oldLeftChildrenHeaderCount` is NEGATIVE when the left slab has more children than half of the
    total, and then `borrowFromRight(…, moveCount)` panics at `right[:count]`;
    `rightSlab.childrenCountSum[:len(rightSlab.childrenHeaders)]` panics when the right slab's count
    sums are shorter than its remaining headers. -/
def borrowFromRightE (l r : MetaSlab α) : Except AErr (MetaSlab α × MetaSlab α) := do
  let oldLeft := l.childHdrs.length
  let total := l.childHdrs.length + r.childHdrs.length
  let leftN := total / 2
  let moveCount : Int := (leftN : Int) - (oldLeft : Int)
  let (leftHdrs, rightHdrs) ← sliceBorrowFromRightE l.childHdrs r.childHdrs moveCount
  let move := leftN - oldLeft
  let moved := r.childHdrs.take move
  if r.countSum.length < rightHdrs.length then throw .goPanic
  return ({ l with childHdrs := leftHdrs, countSum := l.countSum ++ prefixSums moved l.hdr.count,
                   children := l.children ++ r.children.take move,
                   hdr := { l.hdr with count := l.hdr.count + sumCounts moved,
                                       size := arrayMetaDataSlabPrefixSize + leftN * arraySlabHeaderSize } },
          { r with childHdrs := rightHdrs, countSum := prefixSums rightHdrs 0,
                   children := r.children.drop move,
                   hdr := { r.hdr with count := sumCounts rightHdrs,
                                       size := arrayMetaDataSlabPrefixSize + rightHdrs.length * arraySlabHeaderSize } })

/-- `ArrayMetaDataSlab.Merge` with its panic: `baseCountSum := a.childrenCountSum[len(a.childrenCountSum)-1]`
    is an index-out-of-range panic (index −1) when the left slab has no count sums.  (The Go comment
    says "The assumption len > 0 holds in all cases except for the root slab".) -/
def mergeE (l r : MetaSlab α) : Except AErr (MetaSlab α) :=
  match l.countSum.getLast? with
  | none => .error .goPanic
  | some base =>
    .ok { l with childHdrs := l.childHdrs ++ r.childHdrs,
                 countSum := l.countSum ++ prefixSums r.childHdrs base,
                 children := l.children ++ r.children,
                 hdr := { l.hdr with size := l.hdr.size + (r.hdr.size - arrayMetaDataSlabPrefixSize),
                                     count := l.hdr.count + r.hdr.count } }

end MetaSlab

/-! ### the read-only iterator (array_iterator.go, array.go, array_slab.go) -/

/-- how `Array.IterateReadOnly` can fail (besides errors of the caller's callback) -/
inductive IterErr where
  | slabNotFound   -- `NewSlabNotFoundErrorf(nextDataSlabID, "slab not found during array iteration")`
  | slabData       -- `NewSlabDataErrorf("data slab contains 0 elements, expect more")`
  | goPanic        -- `slab.childrenHeaders[0]` on an index slab without children (firstArrayDataSlab)
deriving DecidableEq, Repr

namespace Arr
open ATree

/-- `readOnlyArrayIterator.Next` driven to the end by `iterateArray`: the elements handed to the
    callback, or the error `Next` returns.  `all` = the data slabs reachable through the storage
    (`Storage.Retrieve(next)` is a lookup by slab ID among them).
    * `remainingCount == 0`, or the current slab is exhausted and `next` is undefined: the iteration
      ENDS without an error (even if `remainingCount > 0`);
    * `next` is defined but no such slab exists: `SlabNotFoundError`;
    * the slab just loaded has no elements: `SlabDataError`;
    otherwise every visit of a slab after the first hands out at least one element, so `fuel >
    remaining + 1` never runs out (`iterReadOnlyE` starts with `count + 2`): a cyclic `next` chain is
    followed, as in Go, until `remainingCount` is used up. -/
def roIterFromE (all : List DataSlab) : (fuel : Nat) → (cur : DataSlab) → (idx remaining : Nat) → Except IterErr (List Elem)
  | 0, _, _, _ => .ok []
  | fuel + 1, cur, idx, remaining =>
    if remaining = 0 then .ok []
    else
      let avail := cur.elems.drop idx
      if avail.length ≥ remaining then .ok (avail.take remaining)
      else
        if cur.next = SlabID.undef then .ok avail
        else match all.find? (fun s => s.hdr.id == cur.next) with
          | none => .error .slabNotFound
          | some nxt =>
            if nxt.elems.length = 0 then .error .slabData
            else match roIterFromE all fuel nxt 0 (remaining - avail.length) with
              | .ok rest => .ok (avail ++ rest)
              | .error e => .error e

/-- `firstArrayDataSlab(storage, slab)`: `slab.childrenHeaders[0]` panics on an index slab without
    children.  (A first child that is missing from the storage – `SlabNotFoundError` in Go – cannot be
    expressed: the model's trees contain their children.) -/
def firstDataSlabE : (d : Nat) → ATree d → Except IterErr DataSlab
  | 0, (s : DataSlab) => .ok s
  | d + 1, (m : MetaSlab (ATree d)) =>
    match m.children with
    | [] => .error .goPanic
    | child :: _ => firstDataSlabE d child

/-- `Array.IterateReadOnly` (`ReadOnlyIterator` + `iterateArray`) with its failure exits -/
def iterReadOnlyE (a : Arr) : Except IterErr (List Elem) :=
  if a.count = 0 then .ok []
  else
    match firstDataSlabE a.d a.root with
    | .error e => .error e
    | .ok first => roIterFromE (leaves a.d a.root) (a.count + 2) first 0 a.count

end Arr
end Atree
