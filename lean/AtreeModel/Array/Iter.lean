import AtreeModel.Array.Ops
/-
  The loaded-value iterator of arrays (array_iterator.go: `ArrayLoadedValueIterator`,
  `arrayLoadedSlabIterator`, `arrayLoadedElementIterator`; array.go: `ReadOnlyLoadedValueIterator`,
  `IterateReadOnlyLoadedValues`; storable.go: `getLoadedValue`).

  `loaded : SlabID → Bool` is `storage.RetrieveIfLoaded(id) != nil`: the slab is in the write set
  or in the read cache of the `PersistentSlabStorage`.  The root slab is held by the `Array` handle
  itself, so it is never looked up.

  Two transcriptions are given:

  * `LoadedIter` – the iterator object of the Go code (a LIFO stack of index-slab cursors plus a
    data-slab cursor) with its `Next()` method; `Arr.iterLoadedSM` drives it the way
    `IterateReadOnlyLoadedValues` does.  `Next()` is a loop in Go (directly recursive, and
    `nextDataIterator` is a `for`); here it gets fuel.
  * `ATree.iterLoaded` – the same traversal as a structural recursion, which is what the theorems
    talk about.  AtreeProofs/Iter/ArrayLoaded.lean proves that the two agree on every tree.
-/
namespace Atree
open ATree

/-- `getLoadedValue(storage, storable)` for the storables of the model: a `SlabIDStorable` whose
    slab is not loaded yields `nil` (the element is skipped); everything else yields its value.
    The result is the stored element; turning a reference into the large value is `StoredValue`
    on the loaded `StorableSlab` (the replayer's `resolve`). -/
def Elem.loadedValue (loaded : SlabID → Bool) (e : Elem) : Option Elem :=
  match e.pay with
  | .ref id => if loaded id then some e else none
  | .val _ => some e

namespace DataSlab

/-- `arrayLoadedElementIterator` run to its end from element index `idx`:
    the loaded elements of one data slab in order. -/
def loadedFrom (loaded : SlabID → Bool) (s : DataSlab) (idx : Nat) : List Elem :=
  (s.elems.drop idx).filterMap (Elem.loadedValue loaded)

def loadedElems (loaded : SlabID → Bool) (s : DataSlab) : List Elem := s.loadedFrom loaded 0

end DataSlab

namespace ATree

/-- The loaded-value traversal as a structural recursion: the children of an index slab are
    visited in header order, a child whose slab ID is not loaded is skipped with everything
    below it (`arrayLoadedSlabIterator.next`), the elements of a data slab go through
    `getLoadedValue`. -/
def iterLoaded (loaded : SlabID → Bool) : (d : Nat) → ATree d → List Elem
  | 0, (s : DataSlab) => s.loadedElems loaded
  | d + 1, (m : MetaSlab (ATree d)) =>
    (m.childHdrs.zip m.children).flatMap
      (fun hc => if loaded hc.1.id then iterLoaded loaded d hc.2 else [])

end ATree

/-- `Array.IterateReadOnlyLoadedValues` (structural form). -/
def Arr.iterLoaded (loaded : SlabID → Bool) (a : Arr) : List Elem :=
  ATree.iterLoaded loaded a.d a.root

/-! ### The iterator object -/

/-- `arrayLoadedSlabIterator`: an index slab (of any depth) and the position of the next child
    header to look at. -/
structure LoadedSlabCursor where
  d    : Nat
  slab : MetaSlab (ATree d)
  idx  : Nat

/-- `ArrayLoadedValueIterator`: `parents` has the innermost index slab FIRST (Go appends at the
    end and pops from the end); `data` is `dataIterator` (`none` = nil). -/
structure LoadedIter where
  parents : List LoadedSlabCursor
  data    : Option (DataSlab × Nat)

namespace LoadedIter

/-- `arrayLoadedElementIterator.next`: skip elements that refer to unloaded slabs. -/
def elemNext (loaded : SlabID → Bool) (s : DataSlab) : Nat → Nat → Option (Elem × Nat)
  | 0, _ => none
  | fuel + 1, idx =>
    match s.elems[idx]? with
    | none => none
    | some e =>
      match e.loadedValue loaded with
      | some v => some (v, idx + 1)
      | none => elemNext loaded s fuel (idx + 1)

/-- A child slab handed out by `arrayLoadedSlabIterator.next`, with the advanced cursor. -/
inductive ChildRes where
  | leaf (s : DataSlab) (cur : LoadedSlabCursor)
  | inner (c : LoadedSlabCursor) (cur : LoadedSlabCursor)
  | done

/-- the `switch slab := nextChildSlab.(type)` of `nextDataIterator`: a data slab becomes the new
    data iterator, an index slab a new cursor on the stack -/
def childRes : (d : Nat) → ATree d → LoadedSlabCursor → ChildRes
  | 0, (s : DataSlab), cur => .leaf s cur
  | d + 1, (cm : MetaSlab (ATree d)), cur => .inner ⟨d, cm, 0⟩ cur

/-- `arrayLoadedSlabIterator.next`: the next child whose slab is loaded. -/
def slabNext (loaded : SlabID → Bool) : Nat → LoadedSlabCursor → ChildRes
  | 0, _ => .done
  | fuel + 1, p =>
    match p.slab.childHdrs[p.idx]? with
    | none => .done
    | some h =>
      if loaded h.id then
        match p.slab.children[p.idx]? with
        | none => .done       -- cannot happen: headers and children have the same length
        | some child => childRes p.d child ⟨p.d, p.slab, p.idx + 1⟩
      else slabNext loaded fuel ⟨p.d, p.slab, p.idx + 1⟩

/-- `nextDataIterator`: walk the stack until a loaded data slab turns up. -/
def nextData (loaded : SlabID → Bool) : Nat → List LoadedSlabCursor → Option DataSlab × List LoadedSlabCursor
  | 0, ps => (none, ps)
  | _ + 1, [] => (none, [])
  | fuel + 1, p :: ps =>
    match slabNext loaded (p.slab.childHdrs.length + 1) p with
    | .leaf s p' => (some s, p' :: ps)
    | .inner c p' => nextData loaded fuel (c :: p' :: ps)
    | .done => nextData loaded fuel ps

/-- `ArrayLoadedValueIterator.Next()`.  `N` bounds the loop of `nextDataIterator`, the fuel bounds
    the direct recursion `return i.Next()` (taken once per data slab without loaded elements). -/
def next (loaded : SlabID → Bool) (N : Nat) : Nat → LoadedIter → Option (Elem × LoadedIter)
  | 0, _ => none
  | fuel + 1, it =>
    let viaParents (ps : List LoadedSlabCursor) : Option (Elem × LoadedIter) :=
      match nextData loaded N ps with
      | (some s, ps') => next loaded N fuel ⟨ps', some (s, 0)⟩
      | (none, _) => none
    match it.data with
    | some (s, idx) =>
      match elemNext loaded s (s.elems.length + 1) idx with
      | some (v, idx') => some (v, ⟨it.parents, some (s, idx')⟩)
      | none => viaParents it.parents
    | none => viaParents it.parents

/-- the loop of `IterateReadOnlyLoadedValues` -/
def run (loaded : SlabID → Bool) (N : Nat) : Nat → LoadedIter → List Elem
  | 0, _ => []
  | fuel + 1, it =>
    match next loaded N N it with
    | none => []
    | some (v, it') => v :: run loaded N fuel it'

end LoadedIter

/-- number of slabs of a tree (a bound for the work of one `Next()`) -/
def ATree.slabCount : (d : Nat) → ATree d → Nat
  | 0, _ => 1
  | d + 1, (m : MetaSlab (ATree d)) => 1 + (m.children.map (slabCount d)).sum

/-- `Array.ReadOnlyLoadedValueIterator()` -/
def Arr.loadedIterator (a : Arr) : LoadedIter :=
  match a with
  | ⟨0, (s : DataSlab), _⟩ => ⟨[], some (s, 0)⟩
  | ⟨d + 1, m, _⟩ => ⟨[⟨d, m, 0⟩], none⟩

/-- `Array.IterateReadOnlyLoadedValues` by driving the iterator object. -/
def Arr.iterLoadedSM (loaded : SlabID → Bool) (a : Arr) : List Elem :=
  LoadedIter.run loaded (2 * ATree.slabCount a.d a.root + 2) (a.toList.length + 1) a.loadedIterator

/-! ### Mutable iteration with overwrites of the current element -/

/-- `Array.Iterate(fn)` where `fn`, called with element `i`, may overwrite that element
    (`array.Set(i, v)`, `upd i e = some v`).  The mutable iterator holds only `nextIndex` and
    `lastIndex` (the count when the iterator was created) and calls `Array.Get(nextIndex)` on the
    CURRENT tree.  Result: the elements handed to `fn`, the final array and the effect log. -/
def Arr.iterMutableWith (T : Nat) (upd : Nat → Elem → Option Elem) :
    Nat → Nat → Arr → Ctx → Except AErr (List Elem × Arr × Ctx)
  | 0, _, a, c => .ok ([], a, c)
  | n + 1, i, a, c => do
    let e ← a.get i
    let (a, c) ←
      match upd i e with
      | none => pure (a, c)
      | some v => do
        let (_, a', c') ← a.set T i v c
        pure (a', c')
    let (rest, a, c) ← iterMutableWith T upd n (i + 1) a c
    return (e :: rest, a, c)

/-- `Iterate` from the first to the last index of the array as it was when the iterator was made -/
def Arr.iterateWith (T : Nat) (upd : Nat → Elem → Option Elem) (a : Arr) (c : Ctx) :
    Except AErr (List Elem × Arr × Ctx) :=
  Arr.iterMutableWith T upd a.count 0 a c

end Atree
