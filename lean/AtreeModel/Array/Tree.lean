import AtreeModel.Array.Slab
/-
  Array slab trees, indexed by depth (`ATree 0` = data slab, `ATree (d+1)` = index slab whose
  children are `ATree d`), and the recursive operations of `ArraySlab`:
  Get / Set / Insert / Remove / PopIterate, SplitChildSlab, MergeOrRebalanceChildSlab,
  rebalanceChildren, mergeChildren (array_metadata_slab.go).
-/
namespace Atree
open Gen

/-- A slab tree of uniform depth `d`. -/
def ATree : Nat → Type
  | 0 => DataSlab
  | d + 1 => MetaSlab (ATree d)

namespace ATree

def hdr : (d : Nat) → ATree d → Hdr
  | 0, (s : DataSlab) => s.hdr
  | _ + 1, (m : MetaSlab _) => m.hdr

/-- `SetSlabID` -/
def setId : (d : Nat) → ATree d → SlabID → ATree d
  | 0, (s : DataSlab), id => ({ s with hdr := { s.hdr with id := id } } : DataSlab)
  | _ + 1, (m : MetaSlab _), id => ({ m with hdr := { m.hdr with id := id } } : MetaSlab _)

/-- `SetExtraData` / `RemoveExtraData` (only presence matters at this level) -/
def setRoot : (d : Nat) → ATree d → Bool → ATree d
  | 0, (s : DataSlab), b => ({ s with root := b } : DataSlab)
  | _ + 1, (m : MetaSlab _), b => ({ m with root := b } : MetaSlab _)

def isRoot : (d : Nat) → ATree d → Bool
  | 0, (s : DataSlab) => s.root
  | _ + 1, (m : MetaSlab _) => m.root

def isFull (T : Nat) : (d : Nat) → ATree d → Bool
  | 0, (s : DataSlab) => s.isFull T
  | _ + 1, (m : MetaSlab _) => m.isFull T

def isUnderflow (T : Nat) : (d : Nat) → ATree d → Option Nat
  | 0, (s : DataSlab) => s.isUnderflow T
  | _ + 1, (m : MetaSlab _) => m.isUnderflow T

def canLendToLeft (T : Nat) : (d : Nat) → ATree d → Nat → Bool
  | 0, (s : DataSlab), n => s.canLendToLeft T n
  | _ + 1, (m : MetaSlab _), n => m.canLend T n

def canLendToRight (T : Nat) : (d : Nat) → ATree d → Nat → Bool
  | 0, (s : DataSlab), n => s.canLendToRight T n
  | _ + 1, (m : MetaSlab _), n => m.canLend T n

def split : (d : Nat) → ATree d → Ctx → Except AErr (ATree d × ATree d × Ctx)
  | 0, (s : DataSlab), c => s.split c
  | _ + 1, (m : MetaSlab _), c => m.split c

def merge : (d : Nat) → ATree d → ATree d → ATree d
  | 0, (l : DataSlab), (r : DataSlab) => DataSlab.merge l r
  | _ + 1, (l : MetaSlab _), (r : MetaSlab _) => MetaSlab.merge l r

def lendToRight (T : Nat) : (d : Nat) → ATree d → ATree d → ATree d × ATree d
  | 0, (l : DataSlab), (r : DataSlab) => DataSlab.lendToRight T l r
  | _ + 1, (l : MetaSlab _), (r : MetaSlab _) => MetaSlab.lendToRight l r

def borrowFromRight (T : Nat) : (d : Nat) → ATree d → ATree d → ATree d × ATree d
  | 0, (l : DataSlab), (r : DataSlab) => DataSlab.borrowFromRight T l r
  | _ + 1, (l : MetaSlab _), (r : MetaSlab _) => MetaSlab.borrowFromRight l r

/-- All elements, left to right. -/
def flatten : (d : Nat) → ATree d → List Elem
  | 0, (s : DataSlab) => s.elems
  | d + 1, (m : MetaSlab (ATree d)) => m.children.flatMap (flatten d)

/-- All slabs of the tree with their IDs, root first, children left to right (pre-order). -/
def slabIds : (d : Nat) → ATree d → List SlabID
  | 0, (s : DataSlab) => [s.hdr.id]
  | d + 1, (m : MetaSlab (ATree d)) => m.hdr.id :: m.children.flatMap (slabIds d)

end ATree

namespace MetaSlab
open ATree

variable {d : Nat}

/-- `SplitChildSlab(storage, child, childHeaderIndex)`; `child` is the already updated child. -/
def splitChildSlab (m : MetaSlab (ATree d)) (child : ATree d) (k : Nat) (c : Ctx) :
    Except AErr (MetaSlab (ATree d) × Ctx) := do
  let base := m.countSum.getD k 0 - (ATree.hdr d child).count
  let (left, right, c) ← ATree.split d child c
  let lh := ATree.hdr d left
  let rh := ATree.hdr d right
  let leftSum := base + lh.count
  let rightSum := leftSum + rh.count
  let m' : MetaSlab (ATree d) :=
    { m with childHdrs := ((m.childHdrs.set k lh).insertIdx (k + 1) rh),
             countSum := ((m.countSum.set k leftSum).insertIdx (k + 1) rightSum),
             children := ((m.children.set k left).insertIdx (k + 1) right),
             hdr := { m.hdr with size := m.hdr.size + arraySlabHeaderSize } }
  let c := (((c.emit (.store lh.id)).emit (.store rh.id)).emit (.store m.hdr.id))
  return (m', c)

/-- `rebalanceChildren` -/
def rebalanceChildren (T : Nat) (m : MetaSlab (ATree d)) (left right : ATree d) (li ri : Nat)
    (leftBorrowFromRight : Bool) (c : Ctx) : MetaSlab (ATree d) × Ctx :=
  let base := m.countSum.getD li 0 - (ATree.hdr d left).count
  let (l', r') := if leftBorrowFromRight then ATree.borrowFromRight T d left right else ATree.lendToRight T d left right
  let lh := ATree.hdr d l'
  let rh := ATree.hdr d r'
  let m' : MetaSlab (ATree d) :=
    { m with childHdrs := (m.childHdrs.set li lh).set ri rh,
             countSum := m.countSum.set li (base + lh.count),
             children := (m.children.set li l').set ri r' }
  (m', ((c.emit (.store lh.id)).emit (.store rh.id)).emit (.store m.hdr.id))

/-- `mergeChildren` (with `updateChildrenHeadersAfterMerge`) -/
def mergeChildren (m : MetaSlab (ATree d)) (left right : ATree d) (li ri : Nat) (c : Ctx) :
    MetaSlab (ATree d) × Ctx :=
  let merged := ATree.merge d left right
  let mh := ATree.hdr d merged
  let m' : MetaSlab (ATree d) :=
    { m with childHdrs := (m.childHdrs.set li mh).eraseIdx ri,
             countSum := (m.countSum.set li (m.countSum.getD ri 0)).eraseIdx ri,
             children := (m.children.set li merged).eraseIdx ri,
             hdr := { m.hdr with size := m.hdr.size - arraySlabHeaderSize } }
  (m', ((c.emit (.store mh.id)).emit (.store m.hdr.id)).emit (.remove (ATree.hdr d right).id))

/-- `MergeOrRebalanceChildSlab(storage, child, childHeaderIndex, underflowSize)`;
    `m.children[k]` has already been replaced by the updated `child`. -/
def mergeOrRebalanceChildSlab (T : Nat) (m : MetaSlab (ATree d)) (child : ATree d) (k : Nat)
    (underflow : Nat) (c : Ctx) : Except AErr (MetaSlab (ATree d) × Ctx) :=
  let leftSib : Option (ATree d) := if k > 0 then m.children[k - 1]? else none
  let rightSib : Option (ATree d) := if k + 1 < m.childHdrs.length then m.children[k + 1]? else none
  let leftCanLend := match leftSib with | some l => ATree.canLendToRight T d l underflow | none => false
  let rightCanLend := match rightSib with | some r => ATree.canLendToLeft T d r underflow | none => false
  if leftCanLend || rightCanLend then
    match leftSib, rightSib with
    | some l, some r =>
      if !leftCanLend then .ok (rebalanceChildren T m child r k (k + 1) true c)
      else if !rightCanLend then .ok (rebalanceChildren T m l child (k - 1) k false c)
      else if (ATree.hdr d l).size > (ATree.hdr d r).size then .ok (rebalanceChildren T m l child (k - 1) k false c)
      else .ok (rebalanceChildren T m child r k (k + 1) true c)
    | some l, none => .ok (rebalanceChildren T m l child (k - 1) k false c)
    | none, some r => .ok (rebalanceChildren T m child r k (k + 1) true c)
    | none, none => .error .goPanic   -- unreachable: canRebalance needs a sibling
  else
    match leftSib, rightSib with
    | none, some r => .ok (mergeChildren m child r k (k + 1) c)
    | some l, none => .ok (mergeChildren m l child (k - 1) k c)
    | some l, some r =>
      if (ATree.hdr d l).size < (ATree.hdr d r).size then .ok (mergeChildren m l child (k - 1) k c)
      else .ok (mergeChildren m child r k (k + 1) c)
    | none, none => .error .goPanic   -- Go: Merge(nil) type-asserts a nil interface and panics

end MetaSlab

namespace ATree
open MetaSlab

/-- `ArraySlab.Get` -/
def get : (d : Nat) → ATree d → Nat → Except AErr Elem
  | 0, (s : DataSlab), i => s.get i
  | d + 1, (m : MetaSlab (ATree d)), i => do
    let (k, adj) ← m.childSlabIndexInfo i
    match m.children[k]? with
    | none => .error .slabNotFound
    | some child => get d child adj

/-- After a child operation: split / merge-or-rebalance / plain store (shared tail of
    `ArrayMetaDataSlab.Set`). -/
def afterSet (T : Nat) {d : Nat} (m : MetaSlab (ATree d)) (child : ATree d) (k : Nat) (c : Ctx) :
    Except AErr (MetaSlab (ATree d) × Ctx) :=
  if isFull T d child then m.splitChildSlab child k c
  else match isUnderflow T d child with
    | some u => m.mergeOrRebalanceChildSlab T child k u c
    | none => .ok (m, c.emit (.store m.hdr.id))

/-- `ArraySlab.Set` -/
def set (T : Nat) : (d : Nat) → ATree d → Nat → Elem → Ctx → Except AErr (Elem × ATree d × Ctx)
  | 0, (s : DataSlab), i, e, c => s.set T i e c
  | d + 1, (m : MetaSlab (ATree d)), i, e, c => do
    let (k, adj) ← m.childSlabIndexInfo i
    match m.children[k]? with
    | none => .error .slabNotFound
    | some child =>
      let (old, child', c) ← set T d child adj e c
      let m1 : MetaSlab (ATree d) :=
        { m with childHdrs := m.childHdrs.set k (hdr d child'), children := m.children.set k child' }
      let (m2, c) ← afterSet T m1 child' k c
      return (old, m2, c)

/-- `ArraySlab.Insert` -/
def insert (T : Nat) : (d : Nat) → ATree d → Nat → Elem → Ctx → Except AErr (ATree d × Ctx)
  | 0, (s : DataSlab), i, e, c => s.insert T i e c
  | d + 1, (m : MetaSlab (ATree d)), i, e, c =>
    if i > m.hdr.count then .error .indexOutOfBounds
    else do
      let (k, adj) ←
        if i = m.hdr.count then
          match m.childHdrs.getLast? with
          | some h => pure (m.childHdrs.length - 1, h.count)
          | none => .error .goPanic
        else m.childSlabIndexInfo i
      match m.children[k]? with
      | none => .error .slabNotFound
      | some child =>
        let (child', c) ← insert T d child adj e c
        let m1 : MetaSlab (ATree d) :=
          { m with hdr := { m.hdr with count := m.hdr.count + 1 },
                   countSum := bumpFrom k (· + 1) m.countSum,
                   childHdrs := m.childHdrs.set k (hdr d child'),
                   children := m.children.set k child' }
        if isFull T d child' then m1.splitChildSlab child' k c
        else return (m1, c.emit (.store m1.hdr.id))

/-- `ArraySlab.Remove` -/
def remove (T : Nat) : (d : Nat) → ATree d → Nat → Ctx → Except AErr (Elem × ATree d × Ctx)
  | 0, (s : DataSlab), i, c => s.remove i c
  | d + 1, (m : MetaSlab (ATree d)), i, c =>
    if i ≥ m.hdr.count then .error .indexOutOfBounds
    else do
      let (k, adj) ← m.childSlabIndexInfo i
      match m.children[k]? with
      | none => .error .slabNotFound
      | some child =>
        let (v, child', c) ← remove T d child adj c
        let m1 : MetaSlab (ATree d) :=
          { m with hdr := { m.hdr with count := m.hdr.count - 1 },
                   countSum := bumpFrom k (· - 1) m.countSum,
                   childHdrs := m.childHdrs.set k (hdr d child'),
                   children := m.children.set k child' }
        let (m2, c) ←
          match isUnderflow T d child' with
          | some u => m1.mergeOrRebalanceChildSlab T child' k u c
          | none => pure (m1, c)
        return (v, m2, c.emit (.store m2.hdr.id))

/-- `ArraySlab.PopIterate`: elements last to first; every child slab is removed from storage
    (children are visited right to left, each popped before it is removed). -/
def popIterate : (d : Nat) → ATree d → Ctx → List Elem × ATree d × Ctx
  | 0, (s : DataSlab), c => let (es, s') := s.popIterate; (es, s', c)
  | d + 1, (m : MetaSlab (ATree d)), c =>
    let (es, c) := m.children.reverse.foldl
      (fun (acc : List Elem × Ctx) child =>
        let (es, _, c) := popIterate d child acc.2
        (acc.1 ++ es, c.emit (.remove (hdr d child).id)))
      ([], c)
    let m' : MetaSlab (ATree d) :=
      { m with childHdrs := [], countSum := [], children := [],
               hdr := { m.hdr with count := 0, size := arrayMetaDataSlabPrefixSize } }
    (es, m', c)

end ATree
end Atree
