import AtreeModel.Array.Ops
import AtreeModel.BatchErr
/-
  Bulk operations on arrays (C17): functional transcription of
    array.go            NewArrayFromBatchData, nextLevelArraySlabs, CanCopyNonRefSimple, CopyNonRefSimple
    array_data_slab.go  canCopyWithoutSlabID, copyWithNewSlabID
  Loops are structural recursions over the input list; Go's `append(s, x)` is `s ++ [x]`; every
  call on `SlabStorage` goes through `Ctx.alloc` / `Ctx.emit` in the order of the Go code.
-/
namespace Atree
open Gen ATree

namespace ABatch

/-- `&ArrayDataSlab{header: ArraySlabHeader{slabID: id, size: arrayDataSlabPrefixSize}}` -/
def emptyData (id : SlabID) : DataSlab :=
  { hdr := { id := id, size := arrayDataSlabPrefixSize, count := 0 },
    next := SlabID.undef, elems := [], root := false, inlined := false }

/-- "Append new element" of `NewArrayFromBatchData`: `value.Storable(...)`, then
    `elements = append(elements, storable); header.count++; header.size += storable.ByteSize()`.
    `toSt` is the caller's `Value.Storable` (see `toStorable`). -/
def pushElem (toSt : Elem → Ctx → Elem × Ctx) (v : Elem) (cur : DataSlab) (c : Ctx) : DataSlab × Ctx :=
  let r := toSt v c
  ({ cur with elems := cur.elems ++ [r.1],
              hdr := { cur.hdr with count := cur.hdr.count + 1, size := cur.hdr.size + r.1.size } }, r.2)

/-- The element loop of `NewArrayFromBatchData` ("Batch append data by creating a list of
    ArrayDataSlab") including the final "Append last data slab to slabs".
    `cur` = `dataSlab`, `done` = `slabs`. -/
def fillLoop (T addr : Nat) (toSt : Elem → Ctx → Elem × Ctx) :
    List Elem → DataSlab → List DataSlab → Ctx → List DataSlab × Ctx
  | [], cur, done, c => (done ++ [cur], c)
  | v :: vs, cur, done, c =>
    if cur.hdr.size ≥ T then
      -- "Finalize current data slab without appending new element"
      let a := c.alloc addr
      let p := pushElem toSt v (emptyData a.1) a.2
      fillLoop T addr toSt vs p.1 (done ++ [{ cur with next := a.1 }]) p.2
    else
      let p := pushElem toSt v cur c
      fillLoop T addr toSt vs p.1 done p.2

/-- "Rebalance last slab if needed": the body of `if underflowSize, underflow :=
    lastSlab.IsUnderflow(); underflow { … LendToRight … | … Merge …; slabs = slabs[:len-1] }`
    applied to the last two slabs of the level (shared by every level). -/
def rebalanceTail (T : Nat) (d : Nat) : List (ATree d) → List (ATree d)
  | [] => []
  | [x] => [x]
  | [l, r] =>
    match isUnderflow T d r with
    | some u =>
      if canLendToRight T d l u then [(lendToRight T d l r).1, (lendToRight T d l r).2]
      else [merge d l r]
    | none => [l, r]
  | x :: y :: z :: rest => x :: rebalanceTail T d (y :: z :: rest)

/-- "Store all slabs": `for _, slab := range slabs { storeSlab(storage, slab) }` -/
def storeAll (d : Nat) (slabs : List (ATree d)) (c : Ctx) : Ctx :=
  slabs.foldl (fun c s => c.emit (.store (hdr d s).id)) c

/-- `&ArrayMetaDataSlab{header: ArraySlabHeader{slabID: id, size: arrayMetaDataSlabPrefixSize}}` -/
def emptyMeta (d : Nat) (id : SlabID) : MetaSlab (ATree d) :=
  { hdr := { id := id, size := arrayMetaDataSlabPrefixSize, count := 0 },
    childHdrs := [], countSum := [], children := [], root := false }

/-- the tail of the loop body of `nextLevelArraySlabs`: header size/count bumped, child header and
    running count appended -/
def addChild (d : Nat) (m : MetaSlab (ATree d)) (s : ATree d) : MetaSlab (ATree d) :=
  { m with hdr := { m.hdr with size := m.hdr.size + arraySlabHeaderSize,
                               count := m.hdr.count + (hdr d s).count },
           childHdrs := m.childHdrs ++ [hdr d s],
           countSum := m.countSum ++ [m.hdr.count + (hdr d s).count],
           children := m.children ++ [s] }

/-- the loop of `nextLevelArraySlabs` plus "Append last meta slab to slabs" -/
def nextLevelLoop (maxN addr d : Nat) :
    List (ATree d) → MetaSlab (ATree d) → List (MetaSlab (ATree d)) → Ctx → List (MetaSlab (ATree d)) × Ctx
  | [], cur, done, c => (done ++ [cur], c)
  | s :: ss, cur, done, c =>
    if cur.childHdrs.length = maxN then
      let a := c.alloc addr
      nextLevelLoop maxN addr d ss (addChild d (emptyMeta d a.1) s) (done ++ [cur]) a.2
    else nextLevelLoop maxN addr d ss (addChild d cur s) done c

/-- `nextLevelArraySlabs(storage, address, slabs)` -/
def nextLevelArraySlabs (T addr d : Nat) (slabs : List (ATree d)) (c : Ctx) :
    List (ATree (d + 1)) × Ctx :=
  let maxN := (maxThr T - arrayMetaDataSlabPrefixSize) / arraySlabHeaderSize
  let a := c.alloc addr
  nextLevelLoop maxN addr d slabs (emptyMeta d a.1) [] a.2

/-- "found root slab": size adjustment of a root data slab, `SetExtraData`, "Store root" -/
def finishRoot (ty : Nat) (d : Nat) (root : ATree d) (c : Ctx) : Arr × Ctx :=
  let root1 : ATree d :=
    match d, root with
    | 0, (s : DataSlab) =>
      ({ s with hdr := { s.hdr with size := s.hdr.size - arrayDataSlabPrefixSize + arrayRootDataSlabPrefixSize } } : DataSlab)
    | _ + 1, m => m
  let root2 := setRoot d root1 true
  (⟨d, root2, ty⟩, c.emit (.store (hdr d root2).id))

/-- `for len(slabs) > 1 { … }` of `NewArrayFromBatchData` followed by the root finalisation.
    Each round turns a level of `ATree d` into a level of `ATree (d+1)`; `fuel` bounds the number
    of rounds (the number of slabs suffices since every round at least halves it). -/
def levels (T addr ty : Nat) : (fuel : Nat) → (d : Nat) → List (ATree d) → Ctx → BRes (Arr × Ctx)
  | 0, _, _, c => .error (.outOfFuel, c)
  | fuel + 1, d, slabs, c =>
    match slabs with
    | [] => .error (.arr .goPanic, c)            -- `slabs[0]` of an empty slice (unreachable)
    | [root] => .ok (finishRoot ty d root c)
    | _ =>
      match rebalanceTail T d slabs with
      | [] => .error (.arr .goPanic, c)
      | [root] => .ok (finishRoot ty d root c)   -- "last slab has merged with the first slab"
      | slabs' =>
        let c := storeAll d slabs' c
        let n := nextLevelArraySlabs T addr d slabs' c
        levels T addr ty fuel (d + 1) n.1 n.2

/-- `NewArrayFromBatchData(storage, address, typeInfo, fn)` where `fn` yields `vs` and
    `toSt` is `Value.Storable(storage, address, maxInlineArrayElementSize)`. -/
def newWith (T addr ty : Nat) (toSt : Elem → Ctx → Elem × Ctx) (vs : List Elem) (c : Ctx) :
    BRes (Arr × Ctx) :=
  let a := c.alloc addr
  let r := fillLoop T addr toSt vs (emptyData a.1) [] a.2
  levels T addr ty r.1.length 0 r.1 r.2

end ABatch

/-- `NewArrayFromBatchData` for the harness's plain values (large values are externalised by
    `toStorable`, exactly as `Array.Insert` does). -/
def Arr.fromBatchData (T addr ty : Nat) (vs : List Elem) (c : Ctx) : BRes (Arr × Ctx) :=
  ABatch.newWith T addr ty (toStorable T addr) vs c

/-! ### Copy -/

/-- `Storable.CanCopyNonRefSimple()`: a plain value is copyable, a `SlabIDStorable` is not. -/
def Elem.canCopy (e : Elem) : Bool :=
  match e.pay with
  | .val _ => true
  | .ref _ => false

/-- `Storable.CopyNonRefSimple()` -/
def Elem.copyNonRefSimple (e : Elem) : Except BErr Elem :=
  match e.pay with
  | .val _ => .ok e
  | .ref _ => .error .copyFailed

namespace DataSlab

/-- `ArrayDataSlab.canCopyWithoutSlabID` -/
def canCopyWithoutSlabID (s : DataSlab) : Bool :=
  if s.next ≠ SlabID.undef then false
  else s.elems.all Elem.canCopy

/-- `ArrayDataSlab.copyWithNewSlabID(newID)`: the copy is never inlined; the size of an inlined
    source is re-based to the root prefix. -/
def copyWithNewSlabID (s : DataSlab) (newID : SlabID) : Except BErr DataSlab :=
  if s.next ≠ SlabID.undef then .error .copyFailed
  else
    match s.elems.mapM Elem.copyNonRefSimple with
    | .error e => .error e
    | .ok copied =>
      .ok { hdr := { id := newID, count := s.hdr.count,
                     size := if s.inlined then
                               s.hdr.size - inlinedArrayDataSlabPrefixSize + arrayRootDataSlabPrefixSize
                             else s.hdr.size },
            next := SlabID.undef, elems := copied, root := s.root, inlined := false }

end DataSlab

namespace Arr

/-- `Array.CanCopyNonRefSimple()` (`ArrayMetaDataSlab.canCopyWithoutSlabID` is `false`) -/
def canCopyNonRefSimple (a : Arr) : Bool :=
  match a with
  | ⟨0, (s : DataSlab), _⟩ => s.canCopyWithoutSlabID
  | ⟨_ + 1, _, _⟩ => false

/-- `Array.CopyNonRefSimple(address)`; `c` is the context of `address`. -/
def copyNonRefSimple (a : Arr) (addr : Nat) (c : Ctx) : BRes (Arr × Ctx) :=
  match a with
  | ⟨_ + 1, _, _⟩ => .error (.copyFailed, c)        -- "can't copy multi-slab array"
  | ⟨0, (s : DataSlab), ty⟩ =>
    let a := c.alloc addr
    match s.copyWithNewSlabID a.1 with
    | .error e => .error (e, a.2)
    | .ok s' => .ok (⟨0, s', ty⟩, a.2.emit (.store a.1))

/-- What the container code does when a standalone single-slab array becomes an element of a
    parent (`ArrayDataSlab.Inline`): the size is re-based to the inlined prefix.  (The `Remove`
    of the slab is the parent operation's effect and is not part of this model.) -/
def inlineRoot (a : Arr) : Arr :=
  match a with
  | ⟨0, (s : DataSlab), ty⟩ =>
    ⟨0, ({ s with inlined := true,
                  hdr := { s.hdr with size := s.hdr.size - arrayRootDataSlabPrefixSize + inlinedArrayDataSlabPrefixSize } } : DataSlab), ty⟩
  | a => a

end Arr
end Atree
