import AtreeModel.Basic
import AtreeModel.Settings
/-
  Array slabs: functional transcription of array_data_slab.go and array_metadata_slab.go.

  * Sizes and counts are `Nat`; Go uses `uint32`.  They agree as long as no subtraction
    underflows, which the invariant guarantees (AtreeProofs/ArithSafe); a disagreement would show
    in the correspondence check.
  * `T` is the slab-size threshold in force (`targetThreshold`).
  * Children of an index slab are embedded (`children`), but the copies of their headers that the
    Go code keeps (`childrenHeaders`, `childrenCountSum`) are explicit state, updated exactly where
    the Go code updates them.
  * Every function that calls `SlabStorage` appends the call to the effect log of its `Ctx`.
-/
namespace Atree
open Gen

/-- Payload of an element: an opaque value, or a reference to another slab (`SlabIDStorable`). -/
inductive Pay where
  | val (n : Nat)
  | ref (id : SlabID)
deriving DecidableEq, Repr, Inhabited

/-- An array element as the slab code sees it: encoded byte size and payload. -/
structure Elem where
  size : Nat
  pay  : Pay
deriving DecidableEq, Repr, Inhabited

/-- `SlabIDStorable.ByteSize()` : tag number (2) + byte-string head (1) + slab ID -/
def slabIDStorableSize : Nat := 2 + 1 + Gen.SlabIDLength

/-- `ArraySlabHeader` -/
structure Hdr where
  id    : SlabID
  size  : Nat
  count : Nat
deriving DecidableEq, Repr, Inhabited

/-- One call on `SlabStorage`. -/
inductive Eff where
  | alloc (addr : Nat) (got : SlabID)   -- GenerateSlabID
  | store (id : SlabID)                 -- storeSlab / storage.Store
  | remove (id : SlabID)                -- storage.Remove
deriving DecidableEq, Repr

/-- Allocation counter of the owner address, the effect log, and the large-value slabs
    (`StorableSlab`) created so far with their content. -/
structure Ctx where
  ctr : Nat
  eff : List Eff
  created : List (SlabID × Elem) := []
deriving Repr

inductive AErr where
  | indexOutOfBounds      -- IndexOutOfBoundsError (User)
  | sliceOutOfBounds      -- SliceOutOfBoundsError (User)
  | invalidSliceIndex     -- InvalidSliceIndexError (User)
  | slabSplit             -- SlabSplitError (Fatal)
  | maxElementCount       -- ArrayElementCannotExceedMaxElementCountError (User)
  | goPanic               -- a Go runtime panic (nil dereference, index out of range)
  | notValue              -- NotValueError (Fatal)
  | slabNotFound          -- SlabNotFoundError (Fatal)
deriving DecidableEq, Repr

namespace Ctx
def emit (c : Ctx) (e : Eff) : Ctx := { c with eff := c.eff ++ [e] }
/-- `storage.GenerateSlabID(addr)` for the owner address of the array. -/
def alloc (c : Ctx) (addr : Nat) : SlabID × Ctx :=
  let id : SlabID := ⟨addr, c.ctr + 1⟩
  (id, { c with ctr := c.ctr + 1, eff := c.eff ++ [.alloc addr id] })
end Ctx

/-- `Value.Storable(storage, address, maxInlineArrayElementSize)` for the plain values the harness
    uses (caller code, modelled): a value that fits is its own storable; a larger one is moved into
    a `StorableSlab` (`NewStorableSlab`: GenerateSlabID, storeSlab) and replaced by a reference. -/
def toStorable (T : Nat) (addr : Nat) (v : Elem) (c : Ctx) : Elem × Ctx :=
  match v.pay with
  | .ref _ => (v, c)
  | .val _ =>
    if v.size > maxInlineArr T then
      let (id, c) := c.alloc addr
      ({ size := slabIDStorableSize, pay := .ref id },
       { (c.emit (.store id)) with created := c.created ++ [(id, v)] })
    else (v, c)

def sumSizes (l : List Elem) : Nat := (l.map (·.size)).sum

/-- `ArrayDataSlab` -/
structure DataSlab where
  hdr     : Hdr
  next    : SlabID
  elems   : List Elem
  root    : Bool      -- extraData != nil
  inlined : Bool
deriving Repr, Inhabited

namespace DataSlab

/-- `getPrefixSize` -/
def prefixSize (s : DataSlab) : Nat :=
  if s.inlined then inlinedArrayDataSlabPrefixSize
  else if s.root then arrayRootDataSlabPrefixSize
  else arrayDataSlabPrefixSize

/-- `storeSlab(storage, a)` guarded by `!a.inlined` -/
def storeIfNotInlined (s : DataSlab) (c : Ctx) : Ctx :=
  if s.inlined then c else c.emit (.store s.hdr.id)

/-- `ArrayDataSlab.Get` -/
def get (s : DataSlab) (i : Nat) : Except AErr Elem :=
  match s.elems[i]? with
  | some e => .ok e
  | none => .error .indexOutOfBounds

/-- `ArrayDataSlab.Set` -/
def set (T : Nat) (s : DataSlab) (i : Nat) (v : Elem) (c : Ctx) : Except AErr (Elem × DataSlab × Ctx) :=
  match s.elems[i]? with
  | none => .error .indexOutOfBounds
  | some old =>
    let (e, c) := toStorable T s.hdr.id.addr v c
    let elems := s.elems.set i e
    let s' := { s with elems := elems, hdr := { s.hdr with size := s.prefixSize + sumSizes elems } }
    .ok (old, s', s'.storeIfNotInlined c)

/-- `ArrayDataSlab.Insert` -/
def insert (T : Nat) (s : DataSlab) (i : Nat) (v : Elem) (c : Ctx) : Except AErr (DataSlab × Ctx) :=
  if i > s.elems.length then .error .indexOutOfBounds
  else
    let (e, c) := toStorable T s.hdr.id.addr v c
    let s' := { s with elems := s.elems.insertIdx i e,
                       hdr := { s.hdr with count := s.hdr.count + 1, size := s.hdr.size + e.size } }
    .ok (s', s'.storeIfNotInlined c)

/-- `ArrayDataSlab.Remove` -/
def remove (s : DataSlab) (i : Nat) (c : Ctx) : Except AErr (Elem × DataSlab × Ctx) :=
  match s.elems[i]? with
  | none => .error .indexOutOfBounds
  | some v =>
    let s' := { s with elems := s.elems.eraseIdx i,
                       hdr := { s.hdr with count := s.hdr.count - 1, size := s.hdr.size - v.size } }
    .ok (v, s', s'.storeIfNotInlined c)

/-- `ArrayDataSlab.PopIterate`: elements are handed out last to first; the slab is reset. -/
def popIterate (s : DataSlab) : List Elem × DataSlab :=
  (s.elems.reverse,
   { s with elems := [], hdr := { s.hdr with count := 0, size := s.prefixSize } })

/-- The loop of `ArrayDataSlab.Split`: returns `(leftCount, leftSize)`. -/
def splitLoop (mid data : Nat) : List Elem → Nat → Nat → Nat × Nat
  | [], _, ls => (0, ls)     -- loop ended without `break`: leftCount keeps its initial value 0
  | e :: es, i, ls =>
    if ls + e.size ≥ mid then
      if ls ≤ data - ls - e.size then (i + 1, ls + e.size) else (i, ls)
    else splitLoop mid data es (i + 1) (ls + e.size)

/-- `ArrayDataSlab.Split` -/
def split (s : DataSlab) (c : Ctx) : Except AErr (DataSlab × DataSlab × Ctx) :=
  if s.elems.length < 2 then .error .slabSplit
  else
    let dataSize := s.hdr.size - arrayDataSlabPrefixSize
    let mid := (dataSize + 1) / 2
    let (leftCount, leftSize) := splitLoop mid dataSize s.elems 0 0
    let (sid, c) := c.alloc s.hdr.id.addr
    let rightElems := s.elems.drop leftCount
    let right : DataSlab :=
      { hdr := { id := sid, size := arrayDataSlabPrefixSize + dataSize - leftSize, count := rightElems.length },
        next := s.next, elems := rightElems, root := false, inlined := false }
    let left : DataSlab :=
      { s with elems := s.elems.take leftCount,
               hdr := { s.hdr with size := arrayDataSlabPrefixSize + leftSize, count := leftCount },
               next := sid }
    .ok (left, right, c)

/-- `ArrayDataSlab.Merge` -/
def merge (l r : DataSlab) : DataSlab :=
  { l with elems := l.elems ++ r.elems,
           hdr := { l.hdr with size := l.hdr.size + r.hdr.size - arrayDataSlabPrefixSize,
                               count := l.hdr.count + r.hdr.count },
           next := r.next }

/-- The loop of `LendToRight` over the left slab's elements from the back: `(leftCount, leftSize)`. -/
def lendLoop (T size mid : Nat) : List Elem → Nat → Nat → Nat × Nat
  | [], lc, ls => (lc, ls)
  | e :: revRest, lc, ls =>
    if ls - e.size < mid && size - ls ≥ minThr T then (lc, ls)
    else lendLoop T size mid revRest (lc - 1) (ls - e.size)

/-- `ArrayDataSlab.LendToRight` -/
def lendToRight (T : Nat) (l r : DataSlab) : DataSlab × DataSlab :=
  let count := l.hdr.count + r.hdr.count
  let size := l.hdr.size + r.hdr.size
  let mid := (size + 1) / 2
  let (leftCount, leftSize) := lendLoop T size mid l.elems.reverse l.hdr.count l.hdr.size
  let moveCount := l.hdr.count - leftCount
  let keep := l.elems.length - moveCount
  ({ l with elems := l.elems.take keep, hdr := { l.hdr with size := leftSize, count := leftCount } },
   { r with elems := l.elems.drop keep ++ r.elems,
            hdr := { r.hdr with size := size - leftSize, count := count - leftCount } })

/-- The loop of `BorrowFromRight` over the right slab's elements: `(leftCount, leftSize)`. -/
def borrowLoop (T size mid : Nat) : List Elem → Nat → Nat → Nat × Nat
  | [], lc, ls => (lc, ls)
  | e :: es, lc, ls =>
    if ls + e.size > mid then
      if size - ls - e.size ≥ minThr T then (lc + 1, ls + e.size) else (lc, ls)
    else borrowLoop T size mid es (lc + 1) (ls + e.size)

/-- `ArrayDataSlab.BorrowFromRight` -/
def borrowFromRight (T : Nat) (l r : DataSlab) : DataSlab × DataSlab :=
  let count := l.hdr.count + r.hdr.count
  let size := l.hdr.size + r.hdr.size
  let mid := (size + 1) / 2
  let (leftCount, leftSize) := borrowLoop T size mid r.elems l.hdr.count l.hdr.size
  let moveCount := leftCount - l.hdr.count
  ({ l with elems := l.elems ++ r.elems.take moveCount, hdr := { l.hdr with size := leftSize, count := leftCount } },
   { r with elems := r.elems.drop moveCount,
            hdr := { r.hdr with size := size - leftSize, count := count - leftCount } })

/-- `IsFull` -/
def isFull (T : Nat) (s : DataSlab) : Bool := s.hdr.size > maxThr T

/-- `IsUnderflow` : `some n` = underflowing by `n` bytes -/
def isUnderflow (T : Nat) (s : DataSlab) : Option Nat :=
  if minThr T > s.hdr.size then some (minThr T - s.hdr.size) else none

/-- The loop shared by `CanLendToLeft` (front to back) and `CanLendToRight` (back to front). -/
def canLendLoop (T hsize want : Nat) : List Elem → Nat → Bool
  | [], _ => false
  | e :: es, lend =>
    let lend := lend + e.size
    if hsize - lend < minThr T then false
    else if lend ≥ want then true
    else canLendLoop T hsize want es lend

/-- `CanLendToLeft(size)` -/
def canLendToLeft (T : Nat) (s : DataSlab) (want : Nat) : Bool :=
  if s.elems.length < 2 then false
  else if s.hdr.size - want < minThr T then false
  else canLendLoop T s.hdr.size want s.elems 0

/-- `CanLendToRight(size)` -/
def canLendToRight (T : Nat) (s : DataSlab) (want : Nat) : Bool :=
  if s.elems.length < 2 then false
  else if s.hdr.size - want < minThr T then false
  else canLendLoop T s.hdr.size want s.elems.reverse 0

end DataSlab

/-- `ArrayMetaDataSlab` with its children embedded. -/
structure MetaSlab (α : Type) where
  hdr       : Hdr
  childHdrs : List Hdr
  countSum  : List Nat
  children  : List α
  root      : Bool
deriving Repr

namespace MetaSlab
variable {α : Type}

/-- Linear scan of `childSlabIndexInfo` (fewer than `linearScanThreshold` children):
    first `i` with `index < countSum[i]`; stays 0 if there is none. -/
def scanLinear (index : Nat) : List Nat → Nat → Nat
  | [], _ => 0
  | cs :: rest, i => if index < cs then i else scanLinear index rest (i + 1)

/-- Binary search of `childSlabIndexInfo`, with its `low = mid + 1; break` on equality. -/
def scanBinary (index : Nat) (cs : List Nat) (low high : Nat) (fuel : Nat) : Nat :=
  match fuel with
  | 0 => low
  | fuel + 1 =>
    if low < high then
      let mid := (low + high) / 2
      let m := cs.getD mid 0
      if m < index then scanBinary index cs (mid + 1) high fuel
      else if m > index then scanBinary index cs low mid fuel
      else mid + 1
    else low

/-- `childSlabIndexInfo`: `(childHeaderIndex, adjustedIndex)`.  Indexing past the end of
    `childrenHeaders` panics in Go. -/
def childSlabIndexInfo (m : MetaSlab α) (index : Nat) : Except AErr (Nat × Nat) :=
  if index ≥ m.hdr.count then .error .indexOutOfBounds
  else
    let n := m.countSum.length
    let k := if n < linearScanThreshold then scanLinear index m.countSum 0
             else scanBinary index m.countSum 0 n (n + 1)
    match m.childHdrs[k]?, m.countSum[k]? with
    | some h, some cs => .ok (k, index + h.count - cs)
    | _, _ => .error .goPanic

/-- `for i := k; i < len(countSum); i++ { countSum[i] += 1 }` -/
def bumpFrom (k : Nat) (f : Nat → Nat) (l : List Nat) : List Nat :=
  l.mapIdx (fun i x => if i ≥ k then f x else x)

def isFull (T : Nat) (m : MetaSlab α) : Bool := m.hdr.size > maxThr T

def isUnderflow (T : Nat) (m : MetaSlab α) : Option Nat :=
  if minThr T > m.hdr.size then some (minThr T - m.hdr.size) else none

/-- `CanLendToLeft` / `CanLendToRight` (identical bodies): `n = ceil(size / arraySlabHeaderSize)` -/
def canLend (T : Nat) (m : MetaSlab α) (want : Nat) : Bool :=
  let n := (want + arraySlabHeaderSize - 1) / arraySlabHeaderSize
  if m.hdr.size ≥ arraySlabHeaderSize * n then m.hdr.size - arraySlabHeaderSize * n > minThr T
  else false

/-- prefix sums of the children counts (how `Split`, `LendToRight`, `BorrowFromRight` rebuild
    `childrenCountSum`) -/
def prefixSums : List Hdr → Nat → List Nat
  | [], _ => []
  | h :: hs, acc => (acc + h.count) :: prefixSums hs (acc + h.count)

def sumCounts (l : List Hdr) : Nat := (l.map (·.count)).sum

/-- `ArrayMetaDataSlab.Split` -/
def split (m : MetaSlab α) (c : Ctx) : Except AErr (MetaSlab α × MetaSlab α × Ctx) :=
  if m.childHdrs.length < 2 then .error .slabSplit
  else
    let n := m.childHdrs.length
    let leftN := (n + 1) / 2
    let leftSize := leftN * arraySlabHeaderSize
    let leftCount := sumCounts (m.childHdrs.take leftN)
    let (sid, c) := c.alloc m.hdr.id.addr
    let rightHdrs := m.childHdrs.drop leftN
    let right : MetaSlab α :=
      { hdr := { id := sid, size := m.hdr.size - leftSize, count := m.hdr.count - leftCount },
        childHdrs := rightHdrs, countSum := prefixSums rightHdrs 0,
        children := m.children.drop leftN, root := false }
    let left : MetaSlab α :=
      { m with childHdrs := m.childHdrs.take leftN, countSum := m.countSum.take leftN,
               children := m.children.take leftN,
               hdr := { m.hdr with count := leftCount, size := arrayMetaDataSlabPrefixSize + leftSize } }
    .ok (left, right, c)

/-- `ArrayMetaDataSlab.Merge` -/
def merge (l r : MetaSlab α) : MetaSlab α :=
  let base := l.countSum.getLastD 0
  { l with childHdrs := l.childHdrs ++ r.childHdrs,
           countSum := l.countSum ++ prefixSums r.childHdrs base,
           children := l.children ++ r.children,
           hdr := { l.hdr with size := l.hdr.size + (r.hdr.size - arrayMetaDataSlabPrefixSize),
                               count := l.hdr.count + r.hdr.count } }

/-- `ArrayMetaDataSlab.LendToRight` -/
def lendToRight (l r : MetaSlab α) : MetaSlab α × MetaSlab α :=
  let total := l.childHdrs.length + r.childHdrs.length
  let leftN := total / 2
  let rightHdrs := l.childHdrs.drop leftN ++ r.childHdrs
  let leftHdrs := l.childHdrs.take leftN
  ({ l with childHdrs := leftHdrs, countSum := l.countSum.take leftN,
            children := l.children.take leftN,
            hdr := { l.hdr with count := sumCounts leftHdrs,
                                size := arrayMetaDataSlabPrefixSize + leftN * arraySlabHeaderSize } },
   { r with childHdrs := rightHdrs, countSum := prefixSums rightHdrs 0,
            children := l.children.drop leftN ++ r.children,
            hdr := { r.hdr with count := sumCounts rightHdrs,
                                size := arrayMetaDataSlabPrefixSize + rightHdrs.length * arraySlabHeaderSize } })

/-- `ArrayMetaDataSlab.BorrowFromRight` -/
def borrowFromRight (l r : MetaSlab α) : MetaSlab α × MetaSlab α :=
  let total := l.childHdrs.length + r.childHdrs.length
  let leftN := total / 2
  let move := leftN - l.childHdrs.length
  let moved := r.childHdrs.take move
  let rightHdrs := r.childHdrs.drop move
  let newSums := prefixSums moved l.hdr.count
  ({ l with childHdrs := l.childHdrs ++ moved, countSum := l.countSum ++ newSums,
            children := l.children ++ r.children.take move,
            hdr := { l.hdr with count := l.hdr.count + sumCounts moved,
                                size := arrayMetaDataSlabPrefixSize + leftN * arraySlabHeaderSize } },
   { r with childHdrs := rightHdrs, countSum := prefixSums rightHdrs 0,
            children := r.children.drop move,
            hdr := { r.hdr with count := sumCounts rightHdrs,
                                size := arrayMetaDataSlabPrefixSize + rightHdrs.length * arraySlabHeaderSize } })

end MetaSlab
end Atree
