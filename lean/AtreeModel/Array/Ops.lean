import AtreeModel.Array.Tree
/-
  `Array` (array.go) without the nesting machinery (parent callbacks, mutableElementIndex; those
  are in World.lean): NewArray, Get, Set, Insert, Append, Remove, PopIterate, SetType, Count,
  splitRoot, promoteChildAsNewRoot, the iterators' results and the range checks.
-/
namespace Atree
open Gen ATree

/-- An array handle: the current root slab tree (of some depth) and the type info. -/
structure Arr where
  d    : Nat
  root : ATree d
  ty   : Nat

namespace Arr

def rootHdr (a : Arr) : Hdr := hdr a.d a.root
def rootID (a : Arr) : SlabID := a.rootHdr.id
/-- `Array.Count()` -/
def count (a : Arr) : Nat := a.rootHdr.count
/-- `Array.Address()` -/
def addr (a : Arr) : Nat := a.rootID.addr
def isInlined (a : Arr) : Bool :=
  match a with
  | ⟨0, (s : DataSlab), _⟩ => s.inlined
  | ⟨_ + 1, _, _⟩ => false

/-- the sequence the array represents -/
def toList (a : Arr) : List Elem := flatten a.d a.root

/-- `NewArray(storage, address, typeInfo)` -/
def new (addr ty : Nat) (c : Ctx) : Arr × Ctx :=
  let (id, c) := c.alloc addr
  let root : DataSlab :=
    { hdr := { id := id, size := arrayRootDataSlabPrefixSize, count := 0 },
      next := SlabID.undef, elems := [], root := true, inlined := false }
  (⟨0, root, ty⟩, c.emit (.store id))

/-- `Array.splitRoot()` -/
def splitRoot (a : Arr) (c : Ctx) : Except AErr (Arr × Ctx) := do
  -- adjust root data slab size before splitting
  let root0 : ATree a.d :=
    match a with
    | ⟨0, (s : DataSlab), _⟩ =>
      ({ s with hdr := { s.hdr with size := s.hdr.size - arrayRootDataSlabPrefixSize + arrayDataSlabPrefixSize } } : DataSlab)
    | ⟨_ + 1, m, _⟩ => m
  let rootID := (hdr a.d root0).id
  let root1 := setRoot a.d root0 false
  let (sid, c) := c.alloc rootID.addr
  let oldRoot := setId a.d root1 sid
  let (left, right, c) ← split a.d oldRoot c
  let lh := hdr a.d left
  let rh := hdr a.d right
  let newRoot : MetaSlab (ATree a.d) :=
    { hdr := { id := rootID, count := lh.count + rh.count,
               size := arrayMetaDataSlabPrefixSize + arraySlabHeaderSize * 2 },
      childHdrs := [lh, rh], countSum := [lh.count, lh.count + rh.count],
      children := [left, right], root := true }
  let c := ((c.emit (.store lh.id)).emit (.store rh.id)).emit (.store rootID)
  return (⟨a.d + 1, newRoot, a.ty⟩, c)

/-- `Array.promoteChildAsNewRoot(childID)` when the root index slab has exactly one child. -/
def promoteIfSingleChild (a : Arr) (c : Ctx) : Arr × Ctx :=
  match a with
  | ⟨0, _, _⟩ => (a, c)
  | ⟨d + 1, (m : MetaSlab (ATree d)), ty⟩ =>
    match m.childHdrs, m.children with
    | [h], [child] =>
      let child1 : ATree d :=
        match d, child with
        | 0, (s : DataSlab) =>
          ({ s with hdr := { s.hdr with size := s.hdr.size - arrayDataSlabPrefixSize + arrayRootDataSlabPrefixSize } } : DataSlab)
        | _ + 1, m' => m'
      let newRoot := setRoot d (setId d child1 m.hdr.id) true
      (⟨d, newRoot, ty⟩, (c.emit (.store m.hdr.id)).emit (.remove h.id))
    | _, _ => (a, c)

/-- `Array.Get(i)` (the stored element; turning it into a value is the caller's `StoredValue`) -/
def get (a : Arr) (i : Nat) : Except AErr Elem := ATree.get a.d a.root i

/-- `Array.set(index, value)` -/
def set (T : Nat) (a : Arr) (i : Nat) (v : Elem) (c : Ctx) : Except AErr (Elem × Arr × Ctx) := do
  let (old, root', c) ← ATree.set T a.d a.root i v c
  let a1 : Arr := ⟨a.d, root', a.ty⟩
  let (a2, c) ← if isFull T a.d root' then a1.splitRoot c else pure (a1, c)
  let (a3, c) := a2.promoteIfSingleChild c
  return (old, a3, c)

/-- `Array.Insert(index, value)` -/
def insert (T : Nat) (a : Arr) (i : Nat) (v : Elem) (c : Ctx) : Except AErr (Arr × Ctx) :=
  if a.count = maxArrayElementCount then .error .maxElementCount
  else do
    let (root', c) ← ATree.insert T a.d a.root i v c
    let a1 : Arr := ⟨a.d, root', a.ty⟩
    if isFull T a.d root' then a1.splitRoot c else return (a1, c)

/-- `Array.Append(value)` -/
def append (T : Nat) (a : Arr) (v : Elem) (c : Ctx) : Except AErr (Arr × Ctx) :=
  a.insert T a.count v c

/-- `Array.remove(index)` -/
def remove (T : Nat) (a : Arr) (i : Nat) (c : Ctx) : Except AErr (Elem × Arr × Ctx) := do
  let (v, root', c) ← ATree.remove T a.d a.root i c
  let (a2, c) := (⟨a.d, root', a.ty⟩ : Arr).promoteIfSingleChild c
  return (v, a2, c)

/-- `Array.PopIterate(fn)`: the elements handed to `fn` (last to first) and the emptied array. -/
def popIterate (a : Arr) (c : Ctx) : List Elem × Arr × Ctx :=
  let (es, _, c) := ATree.popIterate a.d a.root c
  let inl := a.isInlined
  let root : DataSlab :=
    { hdr := { id := a.rootID, count := 0,
               size := if inl then inlinedArrayDataSlabPrefixSize else arrayRootDataSlabPrefixSize },
      next := SlabID.undef, elems := [], root := true, inlined := inl }
  (es, ⟨0, root, a.ty⟩, if inl then c else c.emit (.store a.rootID))

/-- `Array.SetType(typeInfo)` for a standalone array -/
def setType (a : Arr) (ty : Nat) (c : Ctx) : Arr × Ctx :=
  ({ a with ty := ty }, if a.isInlined then c else c.emit (.store a.rootID))

/-- Range validation shared by `RangeIterator` and `ReadOnlyRangeIterator…`. -/
def checkRange (a : Arr) (lo hi : Nat) : Except AErr Unit :=
  if lo > a.count || hi > a.count then .error .sliceOutOfBounds
  else if lo > hi then .error .invalidSliceIndex
  else .ok ()

/-- Leaves of the tree in order (the chain the read-only iterator follows through `next`). -/
def leaves : (d : Nat) → ATree d → List DataSlab
  | 0, (s : DataSlab) => [s]
  | d + 1, (m : MetaSlab (ATree d)) => m.children.flatMap (leaves d)

/-- The read-only iterator: starts at the first data slab and follows the `next` links,
    bounded by `remainingCount` (array_iterator.go).  `next` links are looked up among the
    leaves by slab ID, as `getArraySlab(storage, next)` would. -/
def roIterFrom (all : List DataSlab) (fuel : Nat) (cur : DataSlab) (idx remaining : Nat) : List Elem :=
  match fuel with
  | 0 => []
  | fuel + 1 =>
    if remaining = 0 then []
    else
      let avail := cur.elems.drop idx
      if avail.length ≥ remaining then avail.take remaining
      else
        if cur.next = SlabID.undef then avail
        else match all.find? (fun s => s.hdr.id == cur.next) with
          | none => avail
          | some nxt => avail ++ roIterFrom all fuel nxt 0 (remaining - avail.length)

/-- `getArrayDataSlabWithIndex` -/
def dataSlabWithIndex : (d : Nat) → ATree d → Nat → Except AErr (DataSlab × Nat)
  | 0, (s : DataSlab), i => if i ≥ s.elems.length then .error .indexOutOfBounds else .ok (s, i)
  | d + 1, (m : MetaSlab (ATree d)), i => do
    let (k, adj) ← m.childSlabIndexInfo i
    match m.children[k]? with
    | none => .error .slabNotFound
    | some child => dataSlabWithIndex d child adj

/-- `IterateReadOnly` -/
def iterReadOnly (a : Arr) : List Elem :=
  let ls := leaves a.d a.root
  match ls with
  | [] => []
  | first :: _ => if a.count = 0 then [] else roIterFrom ls (ls.length + 1) first 0 a.count

/-- `IterateReadOnlyRange(lo, hi)` -/
def iterReadOnlyRange (a : Arr) (lo hi : Nat) : Except AErr (List Elem) := do
  a.checkRange lo hi
  if hi - lo = 0 then return []
  let ls := leaves a.d a.root
  match a with
  | ⟨0, (s : DataSlab), _⟩ => return roIterFrom ls (ls.length + 1) s lo (hi - lo)
  | ⟨d + 1, m, _⟩ =>
    if lo = 0 then
      match ls with
      | [] => return []
      | first :: _ => return roIterFrom ls (ls.length + 1) first 0 (hi - lo)
    else
      let (s, idx) ← dataSlabWithIndex (d + 1) m lo
      return roIterFrom ls (ls.length + 1) s idx (hi - lo)

/-- The mutable iterator (`Iterator`, `RangeIterator`): `Get(i)` for `i = lo … hi-1`. -/
def iterMutableRange (a : Arr) (lo hi : Nat) : Except AErr (List Elem) := do
  a.checkRange lo hi
  (List.range (hi - lo)).mapM (fun j => a.get (lo + j))

def iterMutable (a : Arr) : Except AErr (List Elem) := a.iterMutableRange 0 a.count

end Arr
end Atree
