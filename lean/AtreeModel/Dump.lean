import AtreeModel.Array.Ops
import AtreeModel.Storage
/-
  Canonical textual form of model states and observations — the same grammar the Go hook
  `VerifDumpSlab` and the harness use (DESIGN.md Appendix A).  Equality is string equality.
-/
namespace Atree
namespace Dump

def bool01 (b : Bool) : String := if b then "1" else "0"

def pay : Pay → String
  | .val n => s!"v{n}"
  | .ref id => s!"R{id.render}"

def elem (e : Elem) : String := s!"{e.size}:{pay e.pay}"

def joinWith (sep : String) (l : List String) : String := sep.intercalate l

/-- `re` renders one element (`elem` unless nested containers have to be resolved) -/
def dataSlabR (re : Elem → String) (s : DataSlab) (ty : Nat) : String :=
  s!"D({s.hdr.id.render},{s.next.render},{s.hdr.size},{s.hdr.count},{bool01 s.inlined})" ++
  (if s.root then s!"T({ty})" else "") ++
  "[" ++ joinWith "," (s.elems.map re) ++ "]"

def dataSlab (s : DataSlab) (ty : Nat) : String := dataSlabR elem s ty

def hdr3 (h : Hdr) : String := s!"{h.id.render}/{h.size}/{h.count}"

def metaSlab {α : Type} (m : MetaSlab α) (ty : Nat) : String :=
  s!"M({m.hdr.id.render},{m.hdr.size},{m.hdr.count})" ++
  (if m.root then s!"T({ty})" else "") ++
  "{" ++ joinWith ";" (m.childHdrs.map hdr3) ++ "}{" ++ joinWith "," (m.countSum.map toString) ++ "}"

/-- every slab of the tree in pre-order -/
def treeR (re : Elem → String) (ty : Nat) : (d : Nat) → ATree d → List String
  | 0, (s : DataSlab) => [dataSlabR re s ty]
  | d + 1, (m : MetaSlab (ATree d)) => metaSlab m ty :: m.children.flatMap (treeR re ty d)

def tree (ty : Nat) (d : Nat) (t : ATree d) : List String := treeR elem ty d t

/-- the dump of the slab with the given ID, if it is in the tree -/
def findSlabR (re : Elem → String) (ty : Nat) (id : SlabID) : (d : Nat) → ATree d → Option String
  | 0, (s : DataSlab) => if s.hdr.id = id then some (dataSlabR re s ty) else none
  | d + 1, (m : MetaSlab (ATree d)) =>
    if m.hdr.id = id then some (metaSlab m ty)
    else m.children.findSome? (findSlabR re ty id d)

def findSlab (ty : Nat) (id : SlabID) (d : Nat) (t : ATree d) : Option String := findSlabR elem ty id d t

def storableSlab (id : SlabID) (e : Elem) : String := s!"V({id.render},{elem e})"

/-- Net effect of an effect log: allocations in order, then the last store/remove per ID sorted by ID. -/
def lastActions (effs : List Eff) : List (SlabID × Bool) :=
  effs.foldl (fun acc e =>
    match e with
    | .alloc _ _ => acc
    | .store id => AList.insert acc id true
    | .remove id => AList.insert acc id false) []

def sortedActions (effs : List Eff) : List (SlabID × Bool) :=
  let l := lastActions effs
  let ids := St.sortIDs (l.map (·.1))
  ids.filterMap (fun id => (AList.find? l id).map (fun b => (id, b)))

def netEffect (effs : List Eff) : String :=
  let allocs := effs.filterMap (fun e => match e with | .alloc _ id => some s!"a:{id.render}" | _ => none)
  let acts := (sortedActions effs).map (fun p => (if p.2 then "s:" else "r:") ++ p.1.render)
  let parts := allocs ++ acts
  if parts.isEmpty then "-" else joinWith " " parts

def storedIDs (effs : List Eff) : List SlabID :=
  (sortedActions effs).filterMap (fun p => if p.2 then some p.1 else none)

def aerr : AErr → String
  | .indexOutOfBounds => "IndexOutOfBounds:User"
  | .sliceOutOfBounds => "SliceOutOfBounds:User"
  | .invalidSliceIndex => "InvalidSliceIndex:User"
  | .slabSplit => "SlabSplit:Fatal"
  | .maxElementCount => "MaxElementCount:User"
  | .goPanic => "PANIC"
  | .notValue => "NotValue:Fatal"
  | .slabNotFound => "SlabNotFound:Fatal"

end Dump
end Atree
