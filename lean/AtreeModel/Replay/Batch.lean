import AtreeModel.Dump
import AtreeModel.Map.Dump
import AtreeModel.Array.Batch
import AtreeModel.Map.Batch
import AtreeModel.Bytes
import AtreeModel.Replay.Common
import AtreeModel.Replay.Map
/-
  Replays the `batch` stream of the harness (C17) on the model: bulk builds of arrays and maps,
  `CanCopyNonRefSimple` / `CopyNonRefSimple`, byte conversions, and the follow-up single
  operations used to check independence of source and result.  Every `OBS` / `EFF` / `SLB` line
  and every `FULL` / `MFULL` tree dump of the implementation is compared with the model's.
-/
namespace Atree
namespace Dump

def berr : BErr → String
  | .arr e => aerr e
  | .map e => merr e
  | .hashNotSorted => "Hash:Fatal"
  | .duplicateKey => "DuplicateKey:Fatal"
  | .seedUninitialized => "HashSeedUninitialized:Fatal"
  | .copyFailed => "Copy:Fatal"
  | .unexpectedElemType => "UnexpectedElementType:User"
  | .outOfFuel => "MODEL-OUT-OF-FUEL"

end Dump

namespace Replay

structure BatchState where
  T : Nat := 1024
  alloc : AList Nat Nat := []
  arrs : AList Nat Arr := []
  maps : AList Nat (Σ r, OMap r) := []
  cfgs : AList Nat MCfg := []
  aux : AList SlabID Elem := []
  pending : List String := []
  rep : Report := {}

namespace BatchState

def note (s : BatchState) (msg : String) : BatchState := { s with rep := s.rep.mismatch msg }

def ctxFor (s : BatchState) (addr : Nat) : Ctx :=
  { ctr := (AList.find? s.alloc addr).getD 0, eff := [], created := [] }

/-! Effect rendering.  Same output as `Dump.netEffect` / `Dump.storedIDs` (allocations in order,
    then the last store/remove per slab ID in ID order), computed by sorting instead of by
    repeated list insertion: a bulk build makes thousands of storage calls. -/

def idLt (a b : SlabID) : Bool := a.addr < b.addr || (a.addr == b.addr && a.idx < b.idx)

/-- last store (`true`) / remove (`false`) per slab ID, sorted by ID -/
def lastActionsSorted (effs : List Eff) : Array (SlabID × Bool) :=
  let acts : Array (SlabID × Nat × Bool) :=
    (effs.foldl (fun (acc : Array (SlabID × Nat × Bool) × Nat) e =>
      match e with
      | .alloc _ _ => (acc.1, acc.2 + 1)
      | .store id => (acc.1.push (id, acc.2, true), acc.2 + 1)
      | .remove id => (acc.1.push (id, acc.2, false), acc.2 + 1)) (#[], 0)).1
  let sorted := acts.qsort (fun a b => idLt a.1 b.1 || (a.1 == b.1 && a.2.1 < b.2.1))
  -- keep the last entry of every run of equal IDs
  sorted.foldl (fun (out : Array (SlabID × Bool)) x =>
    match out.back? with
    | some (id, _) => if id == x.1 then out.pop.push (x.1, x.2.2) else out.push (x.1, x.2.2)
    | none => out.push (x.1, x.2.2)) #[]

def netEffectFast (effs : List Eff) (acts : Array (SlabID × Bool)) : String :=
  let allocs := effs.filterMap (fun e => match e with | .alloc _ id => some s!"a:{id.render}" | _ => none)
  let parts := allocs ++ (acts.toList.map (fun p => (if p.2 then "s:" else "r:") ++ p.1.render))
  if parts.isEmpty then "-" else " ".intercalate parts

/-- binary search in an array sorted by slab ID -/
def lookupSorted (arr : Array (SlabID × String)) (id : SlabID) : Option String :=
  let rec go (lo hi fuel : Nat) : Option String :=
    match fuel with
    | 0 => none
    | fuel + 1 =>
      if lo < hi then
        let mid := (lo + hi) / 2
        match arr[mid]? with
        | none => none
        | some (k, v) =>
          if k == id then some v
          else if idLt k id then go (mid + 1) hi fuel
          else go lo mid fuel
      else none
  go 0 arr.size (arr.size + 1)

/-- every slab of an array tree with its ID -/
def arrSlabs (ty : Nat) : (d : Nat) → ATree d → List (SlabID × String)
  | 0, (s : DataSlab) => [(s.hdr.id, Dump.dataSlab s ty)]
  | d + 1, (m : MetaSlab (ATree d)) => (m.hdr.id, Dump.metaSlab m ty) :: m.children.flatMap (arrSlabs ty d)

/-- `EFF` line and one `SLB` line per slab whose last action was a store, rendered from the
    post-state: the tree slabs `slabs`, the large-value slabs created by this call, older ones -/
def effectLinesOf (aux : AList SlabID Elem) (slabs : List (SlabID × String)) (c : Ctx) : List String :=
  let acts := lastActionsSorted c.eff
  let tree := slabs.toArray.qsort (fun a b => idLt a.1 b.1)
  let created := (c.created.map (fun p => (p.1, Dump.storableSlab p.1 p.2))).toArray.qsort (fun a b => idLt a.1 b.1)
  ("EFF " ++ netEffectFast c.eff acts) ::
  (acts.toList.filterMap (fun p =>
    if p.2 then
      some (match lookupSorted tree p.1 with
        | some str => "SLB " ++ str
        | none =>
          match lookupSorted created p.1 with
          | some str => "SLB " ++ str
          | none =>
            match AList.find? aux p.1 with
            | some e => "SLB " ++ Dump.storableSlab p.1 e
            | none => s!"SLB MISSING({p.1.render})")
    else none))

def arrEffectLines (aux : AList SlabID Elem) (a : Arr) (c : Ctx) : List String :=
  effectLinesOf aux (arrSlabs a.ty a.d a.root) c

def mapEffectLines {r : Nat} (aux : AList SlabID Elem) (m : OMap r) (c : Ctx) : List String :=
  effectLinesOf aux (Dump.mtree m m.d m.root) c

/-- freshly created large-value slabs have fresh IDs: no need to erase older entries -/
def addCreated (aux : AList SlabID Elem) (c : Ctx) : AList SlabID Elem := c.created.reverse ++ aux

def commitArr (s : BatchState) (h addr : Nat) (a : Arr) (c : Ctx) (obs : List String) : BatchState :=
  { s with alloc := AList.insert s.alloc addr c.ctr, arrs := AList.insert s.arrs h a, aux := addCreated s.aux c,
           pending := obs ++ arrEffectLines s.aux a c }

def commitMap {r : Nat} (s : BatchState) (h addr : Nat) (m : OMap r) (c : Ctx) (obs : List String) : BatchState :=
  { s with alloc := AList.insert s.alloc addr c.ctr, maps := AList.insert s.maps h ⟨r, m⟩, aux := addCreated s.aux c,
           pending := obs ++ mapEffectLines s.aux m c }

/-- a rejected bulk operation: the storage calls made before the rejection are compared (`EFF`),
    the slabs they left behind are not dumped -/
def reject (s : BatchState) (addr : Nat) (e : BErr) (c : Ctx) : BatchState :=
  { s with alloc := AList.insert s.alloc addr c.ctr, aux := addCreated s.aux c,
           pending := ["OBS err:" ++ Dump.berr e, "EFF " ++ netEffectFast c.eff (lastActionsSorted c.eff)] }

/-! Coverage tags: which tail case ("Rebalance last slab if needed") the build took at each tree
    level — `none` (last slab within band), `lend` (left sibling lends), `merge`. -/

def tailTag {α : Type} (under : α → Option Nat) (canLend : α → Nat → Bool) : List α → String
  | [] => "empty"
  | [_] => "single"
  | [l, r] => match under r with
    | some u => if canLend l u then "lend" else "merge"
    | none => "none"
  | _ :: y :: z :: rest => tailTag under canLend (y :: z :: rest)

def arrTailTags (T addr : Nat) : (fuel : Nat) → (d : Nat) → List (ATree d) → Ctx → List String
  | 0, _, _, _ => []
  | fuel + 1, d, slabs, c =>
    if slabs.length ≤ 1 then []
    else
      let t := s!"tail:array:level{d}:" ++ tailTag (ATree.isUnderflow T d) (ATree.canLendToRight T d) slabs
      let slabs' := ABatch.rebalanceTail T d slabs
      if slabs'.length ≤ 1 then [t]
      else
        let n := ABatch.nextLevelArraySlabs T addr d slabs' c
        t :: arrTailTags T addr fuel (d + 1) n.1 n.2

def mapTailTags {r : Nat} (T addr : Nat) : (fuel : Nat) → (d : Nat) → List (MTree r d) → Ctx → List String
  | 0, _, _, _ => []
  | fuel + 1, d, slabs, c =>
    if slabs.length ≤ 1 then []
    else
      let t := s!"tail:map:level{d}:" ++ tailTag (MTree.isUnderflow T d) (MTree.canLendToRight T d) slabs
      match MBatch.rebalanceTail T d slabs with
      | .error _ => [t]
      | .ok slabs' =>
        if slabs'.length ≤ 1 then [t]
        else
          let n := MBatch.nextLevelMapSlabs T addr d slabs' c
          t :: mapTailTags T addr fuel (d + 1) n.1 n.2

def addTags (s : BatchState) (ts : List String) : BatchState :=
  { s with rep := ts.foldl (fun r t => r.tag t) s.rep }

def arrBuildTags (T addr : Nat) (vs : List Elem) (c : Ctx) : List String :=
  let a := c.alloc addr
  let r := ABatch.fillLoop T addr (toStorable T addr) vs (ABatch.emptyData a.1) [] a.2
  arrTailTags T addr r.1.length 0 r.1 r.2

def mapBuildTags {r : Nat} (cfg : MCfg) (kvs : List (MKey × Elem)) (c : Ctx) : List String :=
  let a := c.alloc cfg.addr
  match MBatch.fillLoop (r := r) cfg kvs
      { id := a.1, elements := MBatch.emptyElems r, slabs := [], count := 0, prevHkey := 0 } a.2 with
  | .error _ => []
  | .ok (st, c) =>
    let slabs : List (MTree r 0) := st.slabs ++ [MBatch.mkData st.id SlabID.undef st.elements]
    mapTailTags cfg.T cfg.addr slabs.length 0 slabs c

def parseVals (str : String) : List Elem :=
  if str == "-" || str.isEmpty then []
  else (str.splitOn ",").filterMap (fun w => (parseSizePay w).map (fun p => { size := p.1, pay := .val p.2 }))

/-- `<ksize>:<kpay>@d0,d1,…><vsize>:<vpay>` separated by `;` -/
def parsePairs (str : String) : List (MKey × Elem) :=
  if str == "-" || str.isEmpty then []
  else (str.splitOn ";").filterMap (fun w =>
    match w.splitOn ">" with
    | [ks, vs] => do
      let k ← MapState.parseKey ks
      let (sz, pay) ← parseSizePay vs
      pure (k, ({ size := sz, pay := .val pay } : Elem))
    | _ => none)

def parseNats (str : String) : List Nat :=
  if str == "-" || str.isEmpty then [] else (str.splitOn ",").filterMap String.toNat?

def resolve (s : BatchState) (e : Elem) : Elem :=
  match e.pay with
  | .ref id => (AList.find? s.aux id).getD e
  | _ => e

def applyArrOp (s : BatchState) (name : String) (fs : List (String × String)) (lineNo : Nat) : BatchState :=
  let h := (fnat fs "h").getD 0
  let addr := (fnat fs "addr").getD 1
  let val : Option Elem := (fget fs "v").bind parseSizePay |>.map (fun p => { size := p.1, pay := .val p.2 })
  match AList.find? s.arrs h with
  | none => s.note s!"line {lineNo}: unknown array handle {h}"
  | some a =>
    match name with
    | "acan" => { s with pending := [s!"OBS ok:{a.canCopyNonRefSimple}"] }
    | "acopy" =>
      match a.copyNonRefSimple addr (s.ctxFor addr) with
      | .ok (a', c) => s.commitArr ((fnat fs "to").getD 0) addr a' c ["OBS ok"]
      | .error (e, c) => s.reject addr e c
    | "ainline" => { s with arrs := AList.insert s.arrs h a.inlineRoot }
    | "a2b" =>
      -- `nonbyte=`: payloads of the plain values in this array that are NOT of the byte type
      -- (the harness knows what it stored; model elements carry no Go type)
      let nonbyte := parseNats ((fget fs "nonbyte").getD "-")
      let isT : Elem → Bool := fun e => match e.pay with | .val b => !(nonbyte.contains b) | .ref _ => false
      match Bytes.byteArrayToByteSlice isT a with
      | .ok bs => { s with pending := ["OBS ok:[" ++ ",".intercalate (bs.map toString) ++ "]"] }
      | .error e => { s with pending := ["OBS err:" ++ Dump.berr e] }
    | "aiter" =>
      { s with pending := ["OBS ok:[" ++ ",".intercalate ((a.toList.map s.resolve).map Dump.elem) ++ "]"] }
    | "app" =>
      match val with
      | none => s.note s!"line {lineNo}: bad value"
      | some v =>
        match a.append s.T v (s.ctxFor a.addr) with
        | .ok (a', c) => s.commitArr h a.addr a' c ["OBS ok"]
        | .error e => { s with pending := ["OBS err:" ++ Dump.aerr e, "EFF -"] }
    | "set" =>
      match val with
      | none => s.note s!"line {lineNo}: bad value"
      | some v =>
        match a.set s.T ((fnat fs "i").getD 0) v (s.ctxFor a.addr) with
        | .ok (old, a', c) => s.commitArr h a.addr a' c ["OBS ok:" ++ Dump.elem old]
        | .error e => { s with pending := ["OBS err:" ++ Dump.aerr e, "EFF -"] }
    | _ => s.note s!"line {lineNo}: unknown op {name}"

def applyMapOp (s : BatchState) (name : String) (fs : List (String × String)) (lineNo : Nat) : BatchState :=
  let h := (fnat fs "h").getD 0
  let addr := (fnat fs "addr").getD 1
  let val : Option Elem := (fget fs "v").bind parseSizePay |>.map (fun p => { size := p.1, pay := .val p.2 })
  match AList.find? s.maps h, AList.find? s.cfgs h with
  | some ⟨r, m⟩, some cfg =>
    match name with
    | "mcan" => { s with pending := [s!"OBS ok:{m.canCopyNonRefSimple}"] }
    | "mcopy" =>
      let to := (fnat fs "to").getD 0
      match m.copyNonRefSimple addr (s.ctxFor addr) with
      | .ok (m', c) =>
        let s := s.commitMap to addr m' c ["OBS ok"]
        { s with cfgs := AList.insert s.cfgs to { cfg with addr := addr } }
      | .error (e, c) => s.reject addr e c
    | "minline" => { s with maps := AList.insert s.maps h ⟨r, m.inlineRoot⟩ }
    | "miter" =>
      { s with pending := ["OBS ok:[" ++ ",".intercalate (m.toList.map (fun p =>
          Dump.mkey p.1 ++ "=" ++ Dump.elem (s.resolve p.2))) ++ "]"] }
    | "mset" =>
      match (fget fs "k").bind MapState.parseKey, val with
      | some k, some v =>
        match m.set cfg k v (s.ctxFor m.addr) with
        | .ok (old, m', c) =>
          s.commitMap h m.addr m' c [match old with | none => "OBS ok:none" | some o => "OBS ok:" ++ Dump.elem o]
        | .error e => { s with pending := ["OBS err:" ++ Dump.merr e, "EFF -"] }
      | _, _ => s.note s!"line {lineNo}: bad key/value"
    | _ => s.note s!"line {lineNo}: unknown op {name}"
  | _, _ => s.note s!"line {lineNo}: unknown map handle {h}"

def applyOp (s : BatchState) (name : String) (fs : List (String × String)) (lineNo : Nat) : BatchState :=
  let h := (fnat fs "h").getD 0
  let addr := (fnat fs "addr").getD 1
  let ty := (fnat fs "ty").getD 0
  let s := { s with rep := { s.rep with ops := s.rep.ops + 1 } }
  match name with
  | "abatch" =>
    let vs := parseVals ((fget fs "vs").getD "-")
    match Arr.fromBatchData s.T addr ty vs (s.ctxFor addr) with
    | .ok (a, c) =>
      ((s.commitArr h addr a c ["OBS ok"]).addTags (arrBuildTags s.T addr vs (s.ctxFor addr))).addTags [s!"array:depth{a.d}"]
    | .error (e, c) => s.reject addr e c
  | "b2a" =>
    let bs := parseNats ((fget fs "bs").getD "-")
    let sz0 := (fnat fs "sz0").getD 3
    let sz1 := (fnat fs "sz1").getD 4
    let bsize := fun (b : Nat) => if b < 24 then sz0 else sz1
    match Bytes.byteSliceToByteArray s.T addr ty bsize bs ((fnat fs "est").getD 0) (s.ctxFor addr) with
    | .ok (a, c) =>
      -- raw numbers of GenerateSlabID / Store calls (the fast path stores its root twice)
      let na := (c.eff.filter (fun e => match e with | .alloc _ _ => true | _ => false)).length
      let ns := (c.eff.filter (fun e => match e with | .store _ => true | _ => false)).length
      (s.commitArr h addr a c [s!"OBS ok:calls={na}/{ns}"])
    | .error (e, c) => s.reject addr e c
  | "mbatch" =>
    let kvs := parsePairs ((fget fs "kvs").getD "-")
    let L := (fnat fs "L").getD 4
    if L == 0 then s.note s!"line {lineNo}: L must be positive" else
    let cfg : MCfg := { T := s.T, L := L, climit := (fnat fs "climit").getD 255, addr := addr }
    match (OMap.fromBatchData cfg ty ((fnat fs "seed").getD 0) kvs (s.ctxFor addr) : BRes (OMap (L - 1) × Ctx)) with
    | .ok (m, c) =>
      let tags := mapBuildTags (r := L - 1) cfg kvs (s.ctxFor addr)
      let s := s.commitMap h addr m c ["OBS ok"]
      ({ s with cfgs := AList.insert s.cfgs h cfg }.addTags tags).addTags [s!"map:depth{m.d}"]
    | .error (e, c) => (s.reject addr e c).addTags ["map:rejected:" ++ Dump.berr e]
  | _ =>
    if name.startsWith "m" then applyMapOp s name fs lineNo else applyArrOp s name fs lineNo

def stepLine (s : BatchState) (line : String) (lineNo : Nat) : BatchState :=
  let ws := line.splitOn " "
  let s := { s with rep := { s.rep with lines := s.rep.lines + 1 } }
  match ws with
  | "CFG" :: rest => { T := (fnat (fields rest) "T").getD 1024, rep := s.rep }
  | "SKIP" :: rest =>
    let fs := fields rest
    let addr := (fnat fs "addr").getD 1
    { s with alloc := AList.insert s.alloc addr ((AList.find? s.alloc addr).getD 0 + (fnat fs "n").getD 0) }
  | "OP" :: name :: rest =>
    let s := if s.pending.isEmpty then s
             else s.note s!"line {lineNo}: model expected further lines: {s.pending}"
    applyOp { s with pending := [] } name (fields rest) lineNo
  | "DSP" :: rest =>
    match (fget (fields rest) "id").bind parseID with
    | some id => { s with aux := AList.erase s.aux id }
    | none => s
  | "FULL" :: hs :: rest =>
    let h := (fnat (fields [hs]) "h").getD 0
    match AList.find? s.arrs h with
    | none => s.note s!"line {lineNo}: FULL for unknown handle"
    | some a =>
      let mine := " ".intercalate (Dump.tree a.ty a.d a.root)
      let theirs := " ".intercalate rest
      let s := { s with rep := { s.rep with compared := s.rep.compared + 1 } }
      if mine == theirs then s
      else s.note s!"line {lineNo}: FULL differs\n  model: {mine.take 600}\n  impl : {theirs.take 600}"
  | "MFULL" :: hs :: rest =>
    let h := (fnat (fields [hs]) "h").getD 0
    match AList.find? s.maps h with
    | none => s.note s!"line {lineNo}: MFULL for unknown handle"
    | some ⟨_, m⟩ =>
      let mine := " ".intercalate ((Dump.mtree m m.d m.root).map (·.2))
      let theirs := " ".intercalate rest
      let s := { s with rep := { s.rep with compared := s.rep.compared + 1 } }
      if mine == theirs then s
      else s.note s!"line {lineNo}: MFULL differs\n  model: {mine.take 600}\n  impl : {theirs.take 600}"
  | kind :: _ =>
    if kind == "OBS" || kind == "EFF" || kind == "SLB" then
      match s.pending with
      | [] => s.note s!"line {lineNo}: implementation has extra line: {line.take 300}"
      | p :: ps =>
        let s := { s with pending := ps, rep := { s.rep with compared := s.rep.compared + 1 } }
        if p == line then s
        else s.note s!"line {lineNo}: differs\n  model: {p.take 600}\n  impl : {line.take 600}"
    else s
  | [] => s

end BatchState
end Replay
end Atree
