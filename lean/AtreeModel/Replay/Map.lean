import AtreeModel.Map.Dump
import AtreeModel.StorageOps
import AtreeModel.Replay.Common
import AtreeModel.Verify.MapCorrupt
/- Replays the map streams of the harness on the model. -/
namespace Atree.Replay
open Atree

structure MapState where
  T : Nat := 1024
  alloc : AList Nat Nat := []
  maps : AList Nat (Σ r, OMap r) := []
  cfgs : AList Nat MCfg := []
  aux : AList SlabID Elem := []
  pending : List String := []
  rep : Report := {}
  -- persistence (C03): storage state machine over slab dumps, and the last committed world
  store : St String String := St.init
  snapMaps : AList Nat (Σ r, OMap r) := []
  snapAux : AList SlabID Elem := []
  -- the digests of every key met so far (the digester, as far as the trace shows it), for the
  -- model's transcription of VerifyMap
  keys : AList (Nat × Nat) (List Nat) := []
  -- verifybadmap stream: the map as it was before the `BAD` lines of the current experiment
  saved : AList Nat (Σ r, OMap r) := []

def mapDumpCodec : Codec String String := { enc := some, dec := fun _ b => some b, size := fun _ => 0 }

namespace MapState

def note (s : MapState) (msg : String) : MapState := { s with rep := s.rep.mismatch msg }

def ctxFor (s : MapState) (addr : Nat) : Ctx :=
  { ctr := (AList.find? s.alloc addr).getD 0, eff := [], created := [] }

def parseKey (str : String) : Option MKey :=
  match str.splitOn "@" with
  | [sp, ds] => do
    let (sz, pay) ← parseSizePay sp
    let digs := if ds.isEmpty then [] else (ds.splitOn ",").filterMap String.toNat?
    pure { size := sz, pay := pay, digs := digs }
  | _ => none

def effectLines {r : Nat} (aux : AList SlabID Elem) (m : OMap r) (c : Ctx) : List String :=
  let slabs := Dump.mtree m m.d m.root
  ("EFF " ++ Dump.netEffect c.eff) ::
  (Dump.storedIDs c.eff).map (fun id =>
    match AList.find? slabs id with
    | some str => "SLB " ++ str
    | none =>
      match AList.find? aux id with
      | some e => "SLB " ++ Dump.storableSlab id e
      | none => s!"SLB MISSING({id.render})")

def applyEffects {r : Nat} (st : St String String) (aux : AList SlabID Elem) (m : OMap r) (effs : List Eff) : St String String :=
  let slabs := Dump.mtree m m.d m.root
  effs.foldl (fun st e =>
    match e with
    | .alloc _ _ => st
    | .store id =>
      let d := match AList.find? slabs id with
        | some str => str
        | none => match AList.find? aux id with
          | some e => Dump.storableSlab id e
          | none => s!"MISSING({id.render})"
      match st.store id d with | .ok st' => st' | .error _ => st
    | .remove id => match st.remove id with | .ok st' => st' | .error _ => st) st

def commit {r : Nat} (s : MapState) (h : Nat) (m : OMap r) (c : Ctx) (obs : List String) : MapState :=
  let aux := c.created.foldl (fun a p => AList.insert a p.1 p.2) s.aux
  { s with alloc := AList.insert s.alloc m.addr c.ctr,
           maps := AList.insert s.maps h ⟨r, m⟩,
           aux := aux,
           store := applyEffects s.store aux m c.eff,
           pending := obs ++ effectLines aux m c }

def resolve (s : MapState) (e : Elem) : Elem :=
  match e.pay with
  | .ref id => (AList.find? s.aux id).getD e
  | _ => e

def pairStr (s : MapState) (resolveVals : Bool) (p : MKey × Elem) : String :=
  Dump.mkey p.1 ++ "=" ++ Dump.elem (if resolveVals then s.resolve p.2 else p.2)

def applyOp (s : MapState) (name : String) (fs : List (String × String)) (lineNo : Nat) : MapState :=
  let h := (fnat fs "h").getD 0
  match AList.find? s.maps h, AList.find? s.cfgs h with
  | some ⟨r, m⟩, some cfg =>
    let c := s.ctxFor m.addr
    let s := { s with rep := { s.rep with ops := s.rep.ops + 1 } }
    let key := (fget fs "k").bind parseKey
    let s := match key with
      | some k => if AList.contains s.keys (k.size, k.pay) then s
                  else { s with keys := (((k.size, k.pay), k.digs)) :: s.keys }
      | none => s
    let val : Option Elem := (fget fs "v").bind parseSizePay |>.map (fun p => { size := p.1, pay := .val p.2 })
    match name with
    | "mset" =>
      match key, val with
      | some k, some v =>
        match m.set cfg k v c with
        | .ok (old, m', c') =>
          s.commit h m' c' [match old with | none => "OBS ok:none" | some o => "OBS ok:" ++ Dump.elem o]
        | .error e => { s with pending := ["OBS err:" ++ Dump.merr e, "EFF -"] }
      | _, _ => s.note s!"line {lineNo}: bad key/value"
    | "mrem" =>
      match key with
      | some k =>
        match m.remove cfg k c with
        | .ok (rk, rv, m', c') => s.commit h m' c' ["OBS ok:" ++ Dump.mkey rk ++ "," ++ Dump.elem rv]
        | .error e => { s with pending := ["OBS err:" ++ Dump.merr e, "EFF -"] }
      | none => s.note s!"line {lineNo}: bad key"
    | "mpop" =>
      let (l, m', c') := m.popIterate c
      s.commit h m' c' ["OBS ok:[" ++ ",".intercalate (l.map (s.pairStr false)) ++ "]"]
    | "mtype" =>
      let (m', c') := m.setType ((fnat fs "ty").getD 0) c
      s.commit h m' c' ["OBS ok"]
    | "mget" =>
      match key with
      | some k =>
        match m.get cfg k with
        | .ok (_, v) => { s with pending := ["OBS ok:" ++ Dump.elem (s.resolve v)] }
        | .error e => { s with pending := ["OBS err:" ++ Dump.merr e] }
      | none => s.note s!"line {lineNo}: bad key"
    | "mhas" =>
      match key with
      | some k =>
        match m.has cfg k with
        | .ok b => { s with pending := [s!"OBS ok:{b}"] }
        | .error e => { s with pending := ["OBS err:" ++ Dump.merr e] }
      | none => s.note s!"line {lineNo}: bad key"
    | "mcnt" => { s with pending := [s!"OBS ok:{m.count}"] }
    | "miter" =>
      { s with pending := ["OBS ok:[" ++ ",".intercalate (m.toList.map (s.pairStr true)) ++ "]"] }
    | _ => s.note s!"line {lineNo}: unknown op {name}"
  | _, _ => s.note s!"line {lineNo}: unknown handle {h}"

def stepLine (s : MapState) (line : String) (lineNo : Nat) : MapState :=
  let ws := line.splitOn " "
  let s := { s with rep := { s.rep with lines := s.rep.lines + 1 } }
  match ws with
  | "CFG" :: rest => { T := (fnat (fields rest) "T").getD 1024, rep := s.rep }
  | "BAD" :: rest =>
    -- one field overwritten on the implementation side (verifybadmap stream)
    let fs := fields rest
    let h := (fnat fs "h").getD 0
    match (AList.find? s.maps h : Option (Σ r, OMap r)) with
    | some ⟨r, m⟩ =>
      let id := ((fget fs "id").bind parseID).getD SlabID.undef
      let nid := ((fget fs "nid").bind parseID).getD SlabID.undef
      let path := match fget fs "p" with
        | some p => if p.isEmpty then [] else (p.splitOn ".").filterMap String.toNat?
        | none => []
      match Verify.corruptMap m id ((fget fs "f").getD "") path ((fnat fs "i").getD 0) ((fnat fs "j").getD 0)
              ((fnat fs "v").getD 0) nid with
      | some m' =>
        { s with maps := AList.insert s.maps h ⟨r, m'⟩,
                 saved := if AList.contains s.saved h then s.saved else AList.insert s.saved h ⟨r, m⟩ }
      | none => s.note s!"line {lineNo}: unknown corruption {line}"
    | none => s.note s!"line {lineNo}: BAD for unknown handle"
  | "UNDO" :: rest =>
    let h := (fnat (fields rest) "h").getD 0
    match (AList.find? s.saved h : Option (Σ r, OMap r)) with
    | some x => { s with maps := AList.insert s.maps h x, saved := AList.erase s.saved h }
    | none => s
  | "VFY" :: rest =>
    -- the verdict of the Go verifier (`VerifyMap`), to be matched by its transcription
    let fs := fields rest
    let h := (fnat fs "h").getD 0
    match (AList.find? s.maps h : Option (Σ r, OMap r)), AList.find? s.cfgs h with
    | some ⟨_, m⟩, some cfg =>
      let baseIds := match (AList.find? s.saved h : Option (Σ r, OMap r)) with
        | some ⟨_, b⟩ => Verify.mapTreeIds b.d b.root
        | none => Verify.mapTreeIds m.d m.root
      let baseAddr := match (AList.find? s.saved h : Option (Σ r, OMap r)) with
        | some ⟨_, b⟩ => b.addr
        | none => m.addr
      let gone := (fget fs "nostore").bind parseID
      let keys := s.keys
      let v : Verify.MVerifier :=
        { T := s.T, L := cfg.L, address := (fnat fs "addr").getD baseAddr,
          inStorage := fun id => baseIds.any (fun x => decide (x = id)) && !(decide (gone = some id)),
          dg := fun p => (AList.find? keys p).getD [] }
      let mine := Verify.renderMapResult (Verify.verifyMap v (fnat fs "ty") m)
      let theirs := (fget fs "r").getD "?"
      let s := { s with rep := ({ s.rep with compared := s.rep.compared + 1 }).tag ("vfy:" ++ mine) }
      if mine == theirs then s
      else s.note s!"line {lineNo}: verifier verdicts differ\n  model: {mine}\n  impl : {theirs}"
    | _, _ => s.note s!"line {lineNo}: VFY for unknown handle"
  | "MNEW" :: rest =>
    let fs := fields rest
    let h := (fnat fs "h").getD 0
    let addr := (fnat fs "addr").getD 1
    let L := (fnat fs "L").getD 4
    let seed := (fnat fs "seed").getD 0
    if L == 0 then s.note s!"line {lineNo}: L must be positive" else
    let cfg : MCfg := { T := s.T, L := L, climit := (fnat fs "climit").getD 255, addr := addr }
    let (m, c) := (OMap.new addr ((fnat fs "ty").getD 0) (fun _ => seed) (s.ctxFor addr) : OMap (L - 1) × Ctx)
    let s' := s.commit h m c []
    { s' with cfgs := AList.insert s'.cfgs h cfg }
  | "OP" :: name :: rest =>
    let s := if s.pending.isEmpty then s
             else s.note s!"line {lineNo}: model expected further lines: {s.pending}"
    applyOp { s with pending := [] } name (fields rest) lineNo
  | "DSP" :: rest =>
    match (fget (fields rest) "id").bind parseID with
    | some id => { s with aux := AList.erase s.aux id,
                          store := match s.store.remove id with | .ok st' => st' | .error _ => s.store }
    | none => s
  | "COMMIT" :: _ =>
    let r := s.store.fastCommit mapDumpCodec (fun _ => false)
    let logParts := r.log.map (fun c => match c with
      | .store id _ => "S:" ++ id.render
      | .remove id => "R:" ++ id.render)
    let ids := St.sortIDs (AList.keys r.st.base)
    let regs := ids.filterMap (fun id => (AList.find? r.st.base id).map (fun d => "REG " ++ d))
    { s with store := r.st, snapMaps := s.maps, snapAux := s.aux,
             pending := [(match r.err with | none => "OBS ok" | some _ => "OBS err"),
                         "LOG " ++ (if logParts.isEmpty then "-" else " ".intercalate logParts)] ++ regs ++ ["ENDREG"] }
  | "CRASH" :: _ =>
    { s with maps := s.snapMaps, aux := s.snapAux, store := St.fresh s.store.base s.store.alloc, pending := [] }
  | "FULL" :: hs :: rest =>
    let h := (fnat (fields [hs]) "h").getD 0
    match AList.find? s.maps h with
    | none => s.note s!"line {lineNo}: FULL for unknown handle"
    | some ⟨_, m⟩ =>
      let mine := " ".intercalate ((Dump.mtree m m.d m.root).map (·.2))
      let theirs := " ".intercalate rest
      let s := { s with rep := { s.rep with compared := s.rep.compared + 1 } }
      if mine == theirs then s
      else s.note s!"line {lineNo}: FULL differs\n  model: {mine}\n  impl : {theirs}"
  | kind :: _ =>
    if kind == "OBS" || kind == "EFF" || kind == "SLB" || kind == "LOG" || kind == "REG" || kind == "ENDREG" then
      match s.pending with
      | [] => s.note s!"line {lineNo}: implementation has extra line: {line}"
      | p :: ps =>
        let s := { s with pending := ps, rep := { s.rep with compared := s.rep.compared + 1 } }
        if p == line then s
        else s.note s!"line {lineNo}: differs\n  model: {p}\n  impl : {line}"
    else s
  | [] => s

end MapState
end Atree.Replay
