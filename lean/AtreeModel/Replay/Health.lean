import AtreeModel.Health
import AtreeModel.Storage
import AtreeModel.Replay.Common
/- Replays the health stream: heaps dumped by the harness, `CheckStorageHealth` outcomes and
   `GetAllChildReferences` results. -/
namespace Atree.Replay
open Atree

structure HealthState where
  heap : Heap := []
  pending : List String := []
  rep : Report := {}

namespace HealthState

def note (s : HealthState) (msg : String) : HealthState := { s with rep := s.rep.mismatch msg }

def parseHeap (str : String) : Heap :=
  if str.isEmpty then [] else
  (str.splitOn ";").filterMap (fun ent =>
    match ent.splitOn ":" with
    | [ids, addr, refs] => do
      let id ← parseID ids
      let a ← addr.toNat?
      let rs := if refs.isEmpty then [] else (refs.splitOn ",").filterMap parseID
      pure (id, { self := ⟨a, id.idx⟩, refs := rs })
    | _ => none)

def idList (l : List SlabID) : String := ",".intercalate ((St.sortIDs l).map (·.render))

def herr : HErr → String
  | .twoParents => "TwoParents" | .twoRefsToLeaf => "TwoRefsToLeaf" | .slabNotFound => "SlabNotFound"
  | .owner => "Owner" | .unreachable => "Unreachable" | .rootCount => "RootCount" | .diverges => "DIVERGES"

def stepLine (s : HealthState) (line : String) (lineNo : Nat) : HealthState :=
  let ws := line.splitOn " "
  let s := { s with rep := { s.rep with lines := s.rep.lines + 1 } }
  match ws with
  | ["HEAP"] => { s with heap := [] }
  | ["HEAP", h] => { s with heap := parseHeap h }
  | "HC" :: rest =>
    let fs := fields rest
    let expected : Option Nat := match fget fs "expected" with
      | some "-1" => none
      | some x => x.toNat?
      | none => none
    let s := { s with rep := { s.rep with ops := s.rep.ops + 1 } }
    match Health.check s.heap expected with
    | .ok roots => { s with pending := ["OBS ok:" ++ idList roots] }
    | .error e => { s with pending := ["OBS err:" ++ herr e] }
  | "REFS" :: rest =>
    let root := ((fget (fields rest) "root").bind parseID).getD SlabID.undef
    let s := { s with rep := { s.rep with ops := s.rep.ops + 1 } }
    match Health.allChildReferences s.heap root with
    | some (refs, broken) => { s with pending := ["OBS ok:" ++ idList refs ++ "|" ++ idList broken] }
    | none => { s with pending := ["OBS err:SlabNotFound"] }
  | "OBS" :: _ =>
    match s.pending with
    | [] => s.note s!"line {lineNo}: unexpected OBS"
    | p :: ps =>
      let s := { s with pending := ps, rep := { s.rep with compared := s.rep.compared + 1 } }
      -- which error is reported first depends on Go's map iteration order: compare the class
      let cls := fun (x : String) => if x.startsWith "OBS err:" then "OBS err" else x
      if cls p == cls line then s
      else s.note s!"line {lineNo}: differs\n  model: {p}\n  impl : {line}"
  | _ => s

end HealthState
end Atree.Replay
