import AtreeModel.Health
import AtreeModel.Storage
import AtreeModel.Replay.Common
/- Replays the health stream: heaps and storage states dumped by the harness, `CheckStorageHealth`
   outcomes (on the heap: `HC`; through the slab iterator on the storage state: `HCS`), the slab
   iterator itself (`ITER`) and `GetAllChildReferences` results (`REFS`).

   Error kinds are compared EXACTLY.  Go visits the slabs in map order, the model in list order,
   but on a heap with unique keys the check that fires does not depend on the order
   (`Health.check_perm`, AtreeProofs/Health/Order.lean) unless the run diverges. -/
namespace Atree.Replay
open Atree

structure HealthState where
  heap : Heap := []
  sto : St HSlab HSlab := St.init
  pending : List String := []
  rep : Report := {}

namespace HealthState

def note (s : HealthState) (msg : String) : HealthState := { s with rep := s.rep.mismatch msg }

def parseRefs (refs : String) : List SlabID :=
  if refs.isEmpty then [] else (refs.splitOn ",").filterMap parseID

def parseHeap (str : String) : Heap :=
  if str.isEmpty then [] else
  (str.splitOn ";").filterMap (fun ent =>
    match ent.splitOn ":" with
    | [ids, addr, refs] => do
      let id ← parseID ids
      let a ← addr.toNat?
      pure (id, { self := ⟨a, id.idx⟩, refs := parseRefs refs })
    | _ => none)

/-- entries of the write set / the cache: `id:addr:refs` or `id:nil` -/
def parseOpt (str : String) : AList SlabID (Option HSlab) :=
  if str.isEmpty then [] else
  (str.splitOn ";").filterMap (fun ent =>
    match ent.splitOn ":" with
    | [ids, "nil"] => do
      let id ← parseID ids
      pure (id, none)
    | [ids, addr, refs] => do
      let id ← parseID ids
      let a ← addr.toNat?
      pure (id, some { self := ⟨a, id.idx⟩, refs := parseRefs refs })
    | _ => none)

/-- the identity codec: registers are dumped already reduced to `HSlab` -/
def idCodec : Codec HSlab HSlab := { enc := some, dec := fun _ b => some b, size := fun _ => 0 }

def idList (l : List SlabID) : String := ",".intercalate ((St.sortIDs l).map (·.render))

def herr : HErr → String
  | .twoParents => "TwoParents" | .twoRefsToLeaf => "TwoRefsToLeaf" | .slabNotFound => "SlabNotFound"
  | .owner => "Owner" | .unreachable => "Unreachable" | .rootCount => "RootCount" | .diverges => "DIVERGES"
  | .duplicate => "Duplicate" | .decoding => "Decoding"

def expectedOf (fs : List (String × String)) : Option Nat :=
  match fget fs "expected" with
  | some "-1" => none
  | some x => x.toNat?
  | none => none

def checkObs : Except HErr (List SlabID) → String
  | .ok roots => "OBS ok:" ++ idList roots
  | .error e => "OBS err:" ++ herr e

def stepLine (s : HealthState) (line : String) (lineNo : Nat) : HealthState :=
  let ws := line.splitOn " "
  let s := { s with rep := { s.rep with lines := s.rep.lines + 1 } }
  match ws with
  | ["HEAP"] => { s with heap := [] }
  | ["HEAP", h] => { s with heap := parseHeap h }
  | "STO" :: rest =>
    let fs := fields rest
    let get := fun k => (fget fs k).getD ""
    { s with sto := { deltas := parseOpt (get "d"), cache := parseOpt (get "c"),
                      base := parseHeap (get "b"), tempIx := 0, alloc := [] } }
  | "HC" :: rest =>
    let s := { s with rep := { s.rep with ops := s.rep.ops + 1 } }
    { s with pending := [checkObs (Health.check s.heap (expectedOf (fields rest)))] }
  | "HCS" :: rest =>
    let s := { s with rep := { s.rep with ops := s.rep.ops + 1 } }
    { s with pending := [checkObs (Health.checkStorage idCodec (fun _ v => v) s.sto (expectedOf (fields rest)))] }
  | "ITER" :: _ =>
    let s := { s with rep := { s.rep with ops := s.rep.ops + 1 } }
    match Health.slabIterator idCodec (fun _ v => v) s.sto with
    | .ok ys => { s with pending := ["OBS ok:" ++ idList (ys.map (·.1))] }
    | .error e => { s with pending := ["OBS err:" ++ herr e] }
  | "REFS" :: rest =>
    let root := ((fget (fields rest) "root").bind parseID).getD SlabID.undef
    let s := { s with rep := { s.rep with ops := s.rep.ops + 1 } }
    match Health.allChildReferences s.heap root with
    | .ok (refs, broken) => { s with pending := ["OBS ok:" ++ idList refs ++ "|" ++ idList broken] }
    | .error e => { s with pending := ["OBS err:" ++ herr e] }
  | "OBS" :: _ =>
    match s.pending with
    | [] => s.note s!"line {lineNo}: unexpected OBS"
    | p :: ps =>
      let s := { s with pending := ps, rep := { s.rep with compared := s.rep.compared + 1 } }
      if p == line then s
      else s.note s!"line {lineNo}: differs\n  model: {p}\n  impl : {line}"
  | _ => s

end HealthState
end Atree.Replay
