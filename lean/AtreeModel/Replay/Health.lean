import AtreeModel.Health
import AtreeModel.Storage
import AtreeModel.Replay.Common
/- Replays the health stream: heaps and storage states dumped by the harness, `CheckStorageHealth`
   outcomes (on the heap: `HC`; through the slab iterator on the storage state: `HCS`), the slab
   iterator itself (`ITER`) and `GetAllChildReferences` results (`REFS`).

   Error kinds are compared EXACTLY.  Go visits the slabs in map order, the model in list order,
   but on a heap with unique keys the check that fires does not depend on the order
   (`Health.check_perm`, AtreeProofs/Health/Order.lean) unless the run diverges. -/
namespace Atree.Replay
open Atree

structure HealthState where
  heap : Heap := []
  sto : St HSlab HSlab := St.init
  pending : List String := []
  rep : Report := {}

namespace HealthState

def note (s : HealthState) (msg : String) : HealthState := { s with rep := s.rep.mismatch msg }

def parseRefs (refs : String) : List SlabID :=
  if refs.isEmpty then [] else (refs.splitOn ",").filterMap parseID

def parseHeap (str : String) : Heap :=
  if str.isEmpty then [] else
  (str.splitOn ";").filterMap (fun ent =>
    match ent.splitOn ":" with
    | [ids, addr, refs] => do
      let id ← parseID ids
      let a ← addr.toNat?
      pure (id, { self := ⟨a, id.idx⟩, refs := parseRefs refs })
    | _ => none)

/-- entries of the write set / the cache: `id:addr:refs` or `id:nil`; `id:shadowed` is a non-nil
    cache entry whose identifier is also a key of the write set - its content is not dumped (the
    object may be dead) and is never looked at: slab iteration skips the key in both loops, every
    read takes the pending entry.  It is given the empty content. -/
def parseOpt (str : String) : AList SlabID (Option HSlab) :=
  if str.isEmpty then [] else
  (str.splitOn ";").filterMap (fun ent =>
    match ent.splitOn ":" with
    | [ids, "nil"] => do
      let id ← parseID ids
      pure (id, none)
    | [ids, "shadowed"] => do
      let id ← parseID ids
      pure (id, some { self := id, refs := [] })
    | [ids, addr, refs] => do
      let id ← parseID ids
      let a ← addr.toNat?
      pure (id, some { self := ⟨a, id.idx⟩, refs := parseRefs refs })
    | _ => none)

/-- the identity codec: registers are dumped already reduced to `HSlab` -/
def idCodec : Codec HSlab HSlab := { enc := some, dec := fun _ b => some b, size := fun _ => 0 }

def idList (l : List SlabID) : String := ",".intercalate ((St.sortIDs l).map (·.render))

def herr : HErr → String
  | .twoParents => "TwoParents" | .twoRefsToLeaf => "TwoRefsToLeaf" | .slabNotFound => "SlabNotFound"
  | .owner => "Owner" | .unreachable => "Unreachable" | .rootCount => "RootCount" | .diverges => "DIVERGES"
  | .duplicate => "Duplicate" | .decoding => "Decoding"

def expectedOf (fs : List (String × String)) : Option Nat :=
  match fget fs "expected" with
  | some "-1" => none
  | some x => x.toNat?
  | none => none

def checkObs : Except HErr (List SlabID) → String
  | .ok roots => "OBS ok:" ++ idList roots
  | .error e => "OBS err:" ++ herr e

/-! ### Totality of the replay on ANY trace

`Health.childRefs` and `Health.iterChildren` expand their levels as lists (with multiplicity, as the
Go loops do) and stop at `diverges` only when their level fuel (number of slabs + 1) runs out.  On
a dumped heap in which a slab refers several times into a reference cycle (a trace written by a
changed tree: e.g. every reference decoded as `x.x`, a slab `[ref self, ref self, ref self]`) the
levels grow geometrically and the evaluation does not finish within the lifetime of the machine.
Before evaluating the model the replayer therefore COUNTS the references the traversal would visit,
on multiplicities (one step per distinct identifier of a level, whatever the number of paths that
lead to it: `levels x slabs` steps at most), and refuses to evaluate beyond `workCap`: the answer
line is then a text no implementation prints, so the line is reported as a disagreement.  The
model's answer is never replaced by anything computed here. -/

/-- add `n` occurrences of `id` to a multiset kept as an association list -/
def addMult (m : AList SlabID Nat) (id : SlabID) (n : Nat) : AList SlabID Nat :=
  match AList.find? m id with
  | some k => AList.insert m id (k + n)
  | none => (id, n) :: m

/-- `acc` + the number of references the level-by-level traversal visits from `level` on (at most
    `fuel` levels), where a visited reference `r` contributes the references `succ r` to the next
    level; gives up (returning the count so far) once the count exceeds `cap`. -/
def walkCost (succ : SlabID → List SlabID) (cap : Nat) : Nat → AList SlabID Nat → Nat → Nat
  | 0, _, acc => acc
  | fuel + 1, level, acc =>
    if level.isEmpty then acc
    else
      let acc := level.foldl (fun a p => a + p.2) acc
      if acc > cap then acc
      else
        let next := level.foldl (fun m p => (succ p.1).foldl (fun m r => addMult m r p.2) m) ([] : AList SlabID Nat)
        walkCost succ cap fuel next acc

def toLevel (refs : List SlabID) : AList SlabID Nat := refs.foldl (fun m r => addMult m r 1) []

/-- references visited by `Health.allChildReferences h root` -/
def refsCost (cap : Nat) (h : Heap) (root : SlabID) : Nat :=
  match AList.find? h root with
  | none => 0
  | some s =>
    walkCost (fun r => match AList.find? h r with | some t => t.refs | none => []) cap (h.length + 1) (toLevel s.refs) 0

/-- references visited by `Health.slabIterator idCodec _ sto` (every loaded slab starts one
    traversal; a key of the write set or of the cache is visited but not expanded) -/
def iterCost (cap : Nat) (sto : St HSlab HSlab) : Nat :=
  let succ := fun (r : SlabID) =>
    if AList.contains sto.deltas r || AList.contains sto.cache r then []
    else match AList.find? sto.base r with | some t => t.refs | none => []
  let start := fun (acc : Nat) (v : Option HSlab) =>
    match v with
    | some t => if acc > cap then acc else walkCost succ cap (sto.base.length + 1) (toLevel t.refs) acc
    | none => acc
  let a := sto.deltas.foldl (fun acc p => start acc p.2) 0
  sto.cache.foldl (fun acc p => start acc p.2) a

def workCap : Nat := 30000

def refused (what : String) (n : Nat) : String :=
  s!"OBS model-not-evaluated: {what} visits more than {workCap} references on the dumped slabs (counted {n}: a reference cycle or a heavily shared subgraph)"

def stepLine (s : HealthState) (line : String) (lineNo : Nat) : HealthState :=
  let ws := line.splitOn " "
  let s := { s with rep := { s.rep with lines := s.rep.lines + 1 } }
  match ws with
  | ["HEAP"] => { s with heap := [] }
  | ["HEAP", h] => { s with heap := parseHeap h }
  | "STO" :: rest =>
    let fs := fields rest
    let get := fun k => (fget fs k).getD ""
    { s with sto := { deltas := parseOpt (get "d"), cache := parseOpt (get "c"),
                      base := parseHeap (get "b"), tempIx := 0, alloc := [] } }
  | "HC" :: rest =>
    let s := { s with rep := { s.rep with ops := s.rep.ops + 1 } }
    { s with pending := [checkObs (Health.check s.heap (expectedOf (fields rest)))] }
  | "HCS" :: rest =>
    let s := { s with rep := { s.rep with ops := s.rep.ops + 1 } }
    let n := iterCost workCap s.sto
    if n > workCap then { s with pending := [refused "slab iteration" n] } else
    { s with pending := [checkObs (Health.checkStorage idCodec (fun _ v => v) s.sto (expectedOf (fields rest)))] }
  | "ITER" :: _ =>
    let s := { s with rep := { s.rep with ops := s.rep.ops + 1 } }
    let n := iterCost workCap s.sto
    if n > workCap then { s with pending := [refused "slab iteration" n] } else
    match Health.slabIterator idCodec (fun _ v => v) s.sto with
    | .ok ys => { s with pending := ["OBS ok:" ++ idList (ys.map (·.1))] }
    | .error e => { s with pending := ["OBS err:" ++ herr e] }
  | "REFS" :: rest =>
    let root := ((fget (fields rest) "root").bind parseID).getD SlabID.undef
    let s := { s with rep := { s.rep with ops := s.rep.ops + 1 } }
    let n := refsCost workCap s.heap root
    if n > workCap then { s with pending := [refused "the all-child-references walk" n] } else
    match Health.allChildReferences s.heap root with
    | .ok (refs, broken) => { s with pending := ["OBS ok:" ++ idList refs ++ "|" ++ idList broken] }
    | .error e => { s with pending := ["OBS err:" ++ herr e] }
  | "OBS" :: _ =>
    match s.pending with
    | [] => s.note s!"line {lineNo}: unexpected OBS"
    | p :: ps =>
      let s := { s with pending := ps, rep := { s.rep with compared := s.rep.compared + 1 } }
      if p == line then s
      else s.note s!"line {lineNo}: differs\n  model: {p}\n  impl : {line}"
  | _ => s

end HealthState
end Atree.Replay
