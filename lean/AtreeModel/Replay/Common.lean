import AtreeModel.Basic
/- Line parsing helpers for the trace replayer. -/
namespace Atree.Replay

/-- `key=value` fields of a line (after the first two words). -/
def fields (ws : List String) : List (String × String) :=
  ws.filterMap (fun w =>
    match w.splitOn "=" with
    | [k, v] => some (k, v)
    | k :: rest => some (k, "=".intercalate rest)
    | _ => none)

def fget (fs : List (String × String)) (k : String) : Option String :=
  (fs.find? (fun p => p.1 == k)).map (·.2)

def fnat (fs : List (String × String)) (k : String) : Option Nat :=
  (fget fs k).bind String.toNat?

def parseID (s : String) : Option SlabID :=
  match s.splitOn "." with
  | [a, i] => do let a ← a.toNat?; let i ← i.toNat?; pure ⟨a, i⟩
  | _ => none

/-- `<size>:<pay>` -/
def parseSizePay (s : String) : Option (Nat × Nat) :=
  match s.splitOn ":" with
  | [a, b] => do let a ← a.toNat?; let b ← b.toNat?; pure (a, b)
  | _ => none

/-- Result of replaying: counters and the first mismatches. -/
structure Report where
  lines : Nat := 0
  ops : Nat := 0
  compared : Nat := 0
  mismatches : List String := []   -- newest first; capped
  nMismatch : Nat := 0
  tags : List (String × Nat) := []
deriving Repr

def Report.mismatch (r : Report) (msg : String) : Report :=
  { r with nMismatch := r.nMismatch + 1,
           mismatches := if r.nMismatch < 5 then msg :: r.mismatches else r.mismatches }

def Report.tag (r : Report) (t : String) : Report :=
  match r.tags.find? (fun p => p.1 == t) with
  | some _ => { r with tags := r.tags.map (fun p => if p.1 == t then (p.1, p.2 + 1) else p) }
  | none => { r with tags := (t, 1) :: r.tags }

end Atree.Replay
