import AtreeModel.StorageOps
import AtreeModel.Gen.Consts
import AtreeModel.Replay.Common
/-
  Replays the storage stream on the storage state machine (slabs and registers are version
  numbers; 999 = a slab that fails to encode, 998 = a register that fails to decode) and compares
  every observation, the ledger call log of every commit, and after every step where each
  identifier is served from (write set / cache / ledger) and what the ledger holds.
-/
namespace Atree.Replay
open Atree

def verBad : Nat := 999
def verGarbage : Nat := 998

def natCodec : Codec Nat Nat :=
  { enc := fun v => if v == verBad then none else some v,
    dec := fun _ b => if b == verGarbage then none else some b,
    size := fun _ => 12 }

structure StorState where
  st : St Nat Nat := St.init
  ids : List SlabID := []
  pending : List String := []
  rep : Report := {}

namespace StorState

def note (s : StorState) (msg : String) : StorState := { s with rep := s.rep.mismatch msg }

def optVer : Option Nat → String
  | some v => toString v
  | none => "-"

def sterr : StErr → String
  | .slabIDUndefined => "SlabIDUndefined:Fatal"
  | .external => "Injected:External"
  | .encoding => "Other:External"   -- the unencodable slab of the harness fails inside the caller-supplied Storable.Encode
  | .decoding => "Decoding:Fatal"

def obsStr : Obs Nat → String
  | .unit => "OBS ok"
  | .slab v => "OBS slab:" ++ optVer v
  | .id i => "OBS id:" ++ i.render
  | .err e => "OBS err:" ++ sterr e

/-- The three results `(slab, found, err)` of `PersistentSlabStorage.Retrieve` /
    `RetrieveIgnoringDeltas` as the harness prints them.  Without an error `found = (slab != nil)`
    (storage.go:901, 911, 925, 946).  With an error no slab comes back and `found` is what the base
    storage answered: `return nil, ok, wrap(err)` (storage.go:908) hands on the flag the failing
    `BaseStorage.Retrieve` returned (`bfound`: chosen by the harness's ledger, told in the `ST` line),
    `return nil, ok, err` after a failed `DecodeSlab` (storage.go:917) is reached only behind
    `if !ok { return }`, so the flag is true there. -/
def readObsStr (bfound : Bool) : Obs Nat → String
  | .slab v => "OBS slab:" ++ optVer v ++ (if v.isSome then " found=1" else " found=0")
  | .err .decoding => "OBS err:" ++ sterr .decoding ++ " found=1 slab=nil"
  | .err .external => "OBS err:" ++ sterr .external ++ (if bfound then " found=1" else " found=0") ++ " slab=nil"
  | .err e => "OBS err:" ++ sterr e ++ " found=0 slab=nil"
  | o => obsStr o

def viewLine (s : StorState) : String :=
  "VIEW " ++ " ".intercalate (s.ids.map (fun id =>
    let served :=
      match AList.find? s.st.deltas id with
      | some v => "D" ++ optVer v
      | none =>
        match AList.find? s.st.cache id with
        | some v => "C" ++ optVer v
        | none =>
          match AList.find? s.st.base id with
          | some b => "B" ++ toString b
          | none => "."
    let led := match AList.find? s.st.base id with | some b => toString b | none => "-"
    id.render ++ "=" ++ served ++ "/" ++ led))

def cntLine (s : StorState) : String :=
  let b := fun (x : Bool) => if x then "1" else "0"
  s!"CNT deltas={s.st.deltasCount} nontemp={s.st.deltasWithoutTemp} size={s.st.deltasSizeWithoutTemp natCodec} " ++
  s!"unsaved0={b (s.st.hasUnsavedChanges 0)} unsaved1={b (s.st.hasUnsavedChanges 1)} unsaved2={b (s.st.hasUnsavedChanges 2)}"

def parseIDs (str : String) : List SlabID :=
  if str.isEmpty then [] else (str.splitOn ",").filterMap parseID

def logLine (r : St.CommitRes Nat Nat) : String :=
  if r.log.isEmpty then "LOG -"
  else
    let n := r.log.length
    let failed := r.err == some StErr.external
    "LOG " ++ " ".intercalate (r.log.mapIdx (fun i c =>
      let base := match c with
        | .store id b => s!"S:{id.render}:{b}"
        | .remove id => s!"R:{id.render}"
      if failed && i + 1 == n then base ++ "!" else base))

instance : BEq StErr := ⟨fun a b => decide (a = b)⟩

def applyOp (s : StorState) (name : String) (fs : List (String × String)) (lineNo : Nat) : StorState :=
  let s := { s with rep := { s.rep with ops := s.rep.ops + 1 } }
  let id := ((fget fs "id").bind parseID).getD SlabID.undef
  let run := fun (op : Op Nat) =>
    let (st', obs) := St.step natCodec s.st op
    let s' := { s with st := st' }
    { s' with pending := [obsStr obs, s'.viewLine, s'.cntLine] }
  -- the retrieve flavours that return `(slab, found, err)`
  let runRead := fun (op : Op Nat) =>
    let (st', obs) := St.step natCodec s.st op
    let s' := { s with st := st' }
    { s' with pending := [readObsStr false obs, s'.viewLine, s'.cntLine] }
  match name with
  | "new" => { st := St.init, ids := parseIDs ((fget fs "ids").getD ""), rep := s.rep }
  | "store" => run (.store id ((fnat fs "ver").getD 0))
  | "remove" => run (.remove id)
  | "get" => runRead (.retrieve id)
  | "getloaded" => run (.retrieveIfLoaded id)
  | "getnodelta" => runRead (.retrieveIgnoringDeltas id ((fnat fs "cache").getD 0 == 1))
  | "dropdeltas" =>
    let s' := { s with st := s.st.dropDeltas }
    { s' with pending := [s'.viewLine, s'.cntLine] }
  | "dropcache" =>
    let s' := { s with st := s.st.dropCache }
    { s' with pending := [s'.viewLine, s'.cntLine] }
  | "recreate" =>
    let s' := { s with st := St.fresh s.st.base s.st.alloc }
    { s' with pending := [s'.viewLine, s'.cntLine] }
  | "preload" => run (.preload (parseIDs ((fget fs "ids").getD "")))
  | "genid" => run (.genID ((fnat fs "addr").getD 0))
  -- D6: ledger calls other than Store/Remove that FAIL.  These are not operations of the model
  -- (`Op`); the replayer states what the code must show: the failure surfaces as an external error
  -- and leaves no trace in the storage (state unchanged, so the following VIEW/CNT lines and every
  -- later identifier allocation must still agree).
  | "failget" =>
    -- Retrieve (mode 0) / RetrieveIgnoringDeltas (mode 1, 2) with the ledger read of `id` failing:
    -- the read is reached only when neither the write set (mode 0) nor the cache serves the identifier
    let mode := (fnat fs "mode").getD 0
    let hit : Option (Option Nat) :=
      match (if mode == 0 then AList.find? s.st.deltas id else none) with
      | some v => some v
      | none => AList.find? s.st.cache id
    let obs : Obs Nat := match hit with
      | some v => .slab v
      | none => .err .external
    { s with pending := [readObsStr ((fnat fs "bfound").getD 0 == 1) obs, s.viewLine, s.cntLine] }
  | "failgenid" =>
    -- GenerateSlabID with a failing ledger allocation: temporary identifiers do not reach the ledger
    let a := (fnat fs "addr").getD 0
    if a == 0 then run (.genID 0)
    else { s with pending := [obsStr (.err .external : Obs Nat), s.viewLine, s.cntLine] }
  | "failpreload" =>
    -- BatchPreload with the ledger read of `fail` failing.  Fewer than minCountForBatchPreload
    -- identifiers: the loop has cached the identifiers before the failing one (or stopped earlier at an
    -- undecodable register); otherwise the reads happen before any result is processed: nothing cached.
    let ids := parseIDs ((fget fs "ids").getD "")
    let fail := ((fget fs "fail").bind parseID).getD SlabID.undef
    if ids.length < Gen.PersistentSlabStorage_BatchPreload_minCountForBatchPreload then
      let (st', e) := s.st.batchPreload natCodec (ids.takeWhile (fun i => i != fail))
      let s' := { s with st := st' }
      let obs : Obs Nat := match e with | some e => .err e | none => .err .external
      { s' with pending := [obsStr obs, s'.viewLine, s'.cntLine] }
    else { s with pending := [obsStr (.err .external : Obs Nat), s.viewLine, s.cntLine] }
  | "corrupt" =>
    let s' := { s with st := { s.st with base := AList.insert s.st.base id verGarbage } }
    { s' with pending := [s'.viewLine, s'.cntLine] }
  | "sweep" =>
    -- the harness retrieved every identifier (populating the cache)
    let st' := s.ids.foldl (fun st id =>
      match st.retrieve natCodec id with
      | .ok (_, st') => st'
      | .error _ => st) s.st
    let s' := { s with st := st' }
    { s' with pending := [s'.viewLine, s'.cntLine] }
  | "commit" =>
    let faults := ((fget fs "faults").getD "").splitOn "," |>.filterMap String.toNat?
    let mo := parseIDs ((fget fs "mo").getD "")
    let dlo := parseIDs ((fget fs "do").getD "")
    let r : St.CommitRes Nat Nat :=
      if (fget fs "kind").getD "det" == "det" then s.st.fastCommit natCodec (St.faultPlan faults)
      else s.st.nondetCommit natCodec (St.faultPlan faults) (St.normOrder s.st.modifiedOwned mo) (St.normOrder s.st.deletedOwned dlo)
    let s' := { s with st := r.st }
    let obs := match r.err with | none => "OBS ok" | some e => "OBS err:" ++ sterr e
    { s' with pending := [obs, logLine r, s'.viewLine, s'.cntLine] }
  | _ => s.note s!"line {lineNo}: unknown storage op {name}"

def stepLine (s : StorState) (line : String) (lineNo : Nat) : StorState :=
  let ws := line.splitOn " "
  let s := { s with rep := { s.rep with lines := s.rep.lines + 1 } }
  match ws with
  | "ST" :: name :: rest =>
    let s := if s.pending.isEmpty then s
             else s.note s!"line {lineNo}: model expected further lines: {s.pending}"
    applyOp { s with pending := [] } name (fields rest) lineNo
  | kind :: _ =>
    if kind == "OBS" || kind == "VIEW" || kind == "CNT" || kind == "LOG" then
      match s.pending with
      | [] => s.note s!"line {lineNo}: implementation has extra line: {line}"
      | p :: ps =>
        let s := { s with pending := ps, rep := { s.rep with compared := s.rep.compared + 1 } }
        if p == line then s
        else s.note s!"line {lineNo}: differs\n  model: {p}\n  impl : {line}"
    else s
  | [] => s

end StorState
end Atree.Replay
