import AtreeModel.Settings
import AtreeModel.Array.Slab
import AtreeModel.Replay.Common
/- Compares the compiled constants and the real `setThreshold` (all legal thresholds) with the
   regenerated constants and `Settings.lean`. -/
namespace Atree.Replay
open Atree

structure SetState where
  rep : Report := {}

def SetState.stepLine (s : SetState) (line : String) (lineNo : Nat) : SetState :=
  let ws := line.splitOn " "
  let s : SetState := { rep := { s.rep with lines := s.rep.lines + 1 } }
  let bad := fun (msg : String) => ({ rep := s.rep.mismatch s!"line {lineNo}: {msg}" } : SetState)
  let ok : SetState := { rep := { s.rep with compared := s.rep.compared + 1 } }
  match ws with
  | ["CONST", kv] =>
    match kv.splitOn "=" with
    | [k, v] =>
      let want := v.toNat?.getD 0
      if k == "slabIDStorableSize" then
        if slabIDStorableSize == want then ok else bad s!"slabIDStorableSize: model {slabIDStorableSize}, compiled {want}"
      else
        match Gen.constTable.find? (fun p => p.1 == k) with
        | some p => if p.2 == want then ok else bad s!"constant {k}: extracted {p.2}, compiled {want}"
        | none => bad s!"constant {k} not extracted"
    | _ => s
  | "SET" :: rest =>
    let fs := fields rest
    let T := (fnat fs "T").getD 0
    let s := { rep := { ok.rep with ops := ok.rep.ops + 1 } }
    let chk := fun (name : String) (mine : Nat) =>
      if (fnat fs name) == some mine then none else some s!"T={T} {name}: model {mine}, implementation {(fnat fs name).getD 0}"
    let errs := [chk "min" (minThr T), chk "max" (maxThr T), chk "arr" (maxInlineArr T),
                 chk "mapelem" (maxInlineMapElem T), chk "mapkey" (maxInlineMapKey T),
                 chk "mapval9" (maxInlineMapValue T 9)].filterMap id
    if !legalThreshold T then bad s!"T={T} is not legal in the model"
    else match errs with
      | [] => s
      | e :: _ => bad e
  | _ => s

end Atree.Replay
