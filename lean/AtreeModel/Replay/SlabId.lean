import AtreeModel.SlabIdBytes
import AtreeModel.SlabIdStorages
import AtreeModel.Replay.Common
/- Replays the `slabid` stream (harness/cmd/trace/slabid.go): recomputes every output of the
   byte-level identifier functions and of the three simple storages with the model and compares. -/
namespace Atree.Replay
open Atree Atree.SlabIdB

namespace Sid

def hexDigit (n : Nat) : Char := if n < 10 then Char.ofNat (48 + n) else Char.ofNat (87 + n)

def hexOf (b : Bytes) : String :=
  String.ofList (b.foldr (fun x acc => hexDigit (x.toNat / 16) :: hexDigit (x.toNat % 16) :: acc) [])

/-- hex, `-` for the empty string -/
def hx0 (b : Bytes) : String := if b.isEmpty then "-" else hexOf b

def hexVal (c : Char) : Option Nat :=
  if '0' ≤ c ∧ c ≤ '9' then some (c.toNat - 48)
  else if 'a' ≤ c ∧ c ≤ 'f' then some (c.toNat - 87)
  else none

def parseHexChars : List Char → Option Bytes
  | [] => some []
  | [_] => none
  | a :: b :: rest => do
    let x ← hexVal a
    let y ← hexVal b
    let r ← parseHexChars rest
    pure (UInt8.ofNat (x * 16 + y) :: r)

def parseHex (s : String) : Option Bytes := if s == "-" then some [] else parseHexChars s.toList

def mkAddr (b : Bytes) : Option Address := if h : b.length = Gen.SlabAddressLength then some ⟨b, h⟩ else none
def mkIndex (b : Bytes) : Option SlabIndex := if h : b.length = Gen.SlabIndexLength then some ⟨b, h⟩ else none

def parseAddr (s : String) : Option Address := (parseHex s).bind mkAddr

/-- a 32-digit identifier -/
def parseSID (s : String) : Option SlabIDB := do
  let b ← parseHex s
  if b.length = 16 then
    let a ← mkAddr (b.take 8)
    let i ← mkIndex (b.drop 8)
    pure ⟨a, i⟩
  else none

def rawOf (id : SlabIDB) : Bytes := id.address.val ++ id.index.val
def rawHex (id : SlabIDB) : String := hexOf (rawOf id)

def b2s (b : Bool) : String := if b then "1" else "0"

def sortStrs (l : List String) : List String := l.mergeSort (fun a b => !(b < a))

def joinOrDash (l : List String) : String := if l.isEmpty then "-" else ",".intercalate l

def errLen : SlabIdErr → String
  | .bufferLength n => s!"err:{n}"
  | .undefinedSlabID => "err:undefinedSlabID"
  | .undefinedSlabIndex => "err:undefinedSlabIndex"

def verStr : Option Nat → String
  | none => "nil"
  | some n => toString n

end Sid
open Sid

structure SidState where
  rep : Report := {}
  pending : String := ""
  basic : Basic Nat := {}
  biter : Option (BasicIter Nat) := none
  inmem : InMem := {}
  lbs : LBS MapLedger := LBS.new {}
  ptemp : Nat := 0
  plbs : LBS MapLedger := LBS.new {}

namespace SidState

def note (s : SidState) (msg : String) : SidState := { s with rep := s.rep.mismatch msg }

def expect (s : SidState) (obs : String) : SidState :=
  { s with pending := obs, rep := { s.rep with ops := s.rep.ops + 1 } }

def inmemState (m : InMem) : String :=
  s!"c={m.segmentCounts} sz={m.size} br={m.bytesRetrieved} bs={m.bytesStored} ret={m.segmentsReturnedCount} upd={m.segmentsUpdatedCount} tch={m.segmentsTouchedCount}"

def lbsState (l : LBS MapLedger) : String :=
  s!"br={l.bytesRetrieved} bs={l.bytesStored} z={l.zeroReporter}"

def regsDump (l : MapLedger) : String :=
  joinOrDash (sortStrs (l.regs.map (fun p => hexOf p.1.1 ++ "/" ++ hexOf p.1.2 ++ "=" ++ hx0 p.2)))

/-- compare the fields of an `ID` line with the model -/
def checkID (fs : List (String × String)) (id : SlabIDB) : List String :=
  let chk := fun (name mine : String) =>
    if fget fs name == some mine then none else some s!"{name}: model {mine}, implementation {(fget fs name).getD "<missing>"}"
  let raw := match id.toRawBytes (zeros 16) with
    | .ok (n, b) => if n == 16 then hexOf b else "wrong-count"
    | .error e => errLen e
  let valid := match id.valid with
    | .ok () => "ok"
    | .error .undefinedSlabID => "id"
    | .error .undefinedSlabIndex => "index"
    | .error (.bufferLength _) => "?"
  let key := slabIndexToLedgerKey id.index
  let vid := slabIDToValueID id
  let isValid := valid == "ok"
  [chk "raw" raw, chk "str" id.toStr, chk "au" (toString id.addressAsUint64),
   chk "iu" (toString id.indexAsUint64), chk "temp" (b2s id.hasTempAddress), chk "valid" valid,
   chk "next" (hexOf id.index.next.val), chk "key" (hexOf key), chk "iskey" (b2s (ledgerKeyIsSlabKey key)),
   chk "vid" (hexOf vid.val), chk "vstr" vid.toStr,
   chk "veq" (if isValid then b2s (vid.equal id) else "-"),
   chk "enc" (hexOf (storableEncode id)), chk "size" (toString storableByteSize),
   chk "sv" (match storedValueCheck id with | .ok () => "notfound" | .error _ => "invalid")].filterMap (fun x => x)

def stepLine (s : SidState) (line : String) (lineNo : Nat) : SidState :=
  let ws := line.splitOn " "
  let s : SidState := { s with rep := { s.rep with lines := s.rep.lines + 1 } }
  let bad := fun (msg : String) => s.note s!"line {lineNo}: {msg}"
  let ok : SidState := { s with rep := { s.rep with compared := s.rep.compared + 1, ops := s.rep.ops + 1 } }
  let cmp := fun (what mine theirs : String) =>
    if mine == theirs then ok else bad s!"{what}: model {mine}, implementation {theirs}"
  match ws with
  | "OBS" :: _ =>
    if s.pending == "" then bad s!"unexpected {line}"
    else if "OBS " ++ s.pending == line then
      { s with pending := "", rep := { s.rep with compared := s.rep.compared + 1 } }
    else { (bad s!"model OBS {s.pending}, implementation {line}") with pending := "" }
  | "ID" :: rest =>
    let fs := fields rest
    match (fget fs "a").bind parseAddr, ((fget fs "i").bind parseHex).bind mkIndex with
    | some a, some i =>
      match checkID fs ⟨a, i⟩ with
      | [] => ok
      | e :: _ => bad s!"ID {rawHex ⟨a, i⟩}: {e}"
    | _, _ => bad "unparsable ID line"
  | ["CMP", x, y, r] =>
    match ((fields [x]).head?.map (·.2)).bind parseSID, ((fields [y]).head?.map (·.2)).bind parseSID with
    | some a, some b => cmp s!"Compare {rawHex a} {rawHex b}" s!"r={a.compare b}" r
    | _, _ => bad "unparsable CMP line"
  | ["FROMRAW", b, res] =>
    match (fget (fields [b]) "b").bind parseHex with
    | some bs =>
      let mine := match newSlabIDFromRawBytes bs with
        | .ok id => "res=ok:" ++ rawHex id
        | .error e => "res=" ++ errLen e
      cmp s!"NewSlabIDFromRawBytes {hx0 bs}" mine res
    | none => bad "unparsable FROMRAW line"
  | ["TORAW", idf, b, res] =>
    match (fget (fields [idf]) "id").bind parseSID, (fget (fields [b]) "b").bind parseHex with
    | some id, some bs =>
      let mine := match id.toRawBytes bs with
        | .ok (n, b') => s!"res=ok:{n}:{hx0 b'}"
        | .error e => "res=" ++ errLen e
      cmp s!"ToRawBytes {rawHex id} into {hx0 bs}" mine res
    | _, _ => bad "unparsable TORAW line"
  | ["DEC", c, res] =>
    let cf := (fget (fields [c]) "content").getD ""
    let content : Option (Option Bytes) := if cf == "notbytes" then some none else (parseHex cf).map some
    match content with
    | some ct =>
      let mine := match decodeSlabIDStorable ct with
        | .ok id => "res=ok:" ++ rawHex id
        | .decodingError => "res=err:dec"
        | .slabIDError (.bufferLength n) => s!"res=err:id:{n}"
        | .slabIDError _ => "res=err:id:?"
      cmp s!"DecodeSlabIDStorable {cf}" mine res
    | none => bad "unparsable DEC line"
  | ["ISKEY", k, r] =>
    match (fget (fields [k]) "k").bind parseHex with
    | some key => cmp s!"LedgerKeyIsSlabKey {hx0 key}" ("r=" ++ b2s (ledgerKeyIsSlabKey key)) r
    | none => bad "unparsable ISKEY line"
  | ["SORT", i, o] =>
    let inS := (fget (fields [i]) "in").getD "-"
    let ins := if inS == "-" then some [] else (inS.splitOn ",").mapM parseSID
    match ins with
    | some l => cmp "commit order" ("out=" ++ joinOrDash ((sortedOwnedKeysB l).map rawHex)) o
    | none => bad "unparsable SORT line"
  -- BasicSlabStorage ------------------------------------------------------------------------
  | ["BNEW"] => { s with basic := {}, biter := none }
  | "BOP" :: op :: rest =>
    let fs := fields rest
    let id? := (fget fs "id").bind parseSID
    match op, id? with
    | "gen", _ =>
      match (fget fs "a").bind parseAddr with
      | some a => let r := s.basic.generateSlabID a; { s with basic := r.1 }.expect ("id=" ++ rawHex r.2)
      | none => bad "unparsable BOP gen"
    | "store", some id =>
      let v := if fget fs "v" == some "nil" then none else (fnat fs "v")
      { s with basic := s.basic.store id v }.expect "ok"
    | "remove", some id => { s with basic := s.basic.remove id }.expect "ok"
    | "retrieve", some id =>
      let r := s.basic.retrieve id
      s.expect s!"slab={verStr r.1} found={b2s r.2}"
    | "loaded", some id => s.expect s!"slab={verStr (s.basic.retrieveIfLoaded id)}"
    | "count", _ => s.expect s!"n={s.basic.count}"
    | "ids", _ => s.expect ("ids=" ++ joinOrDash (sortStrs (s.basic.slabIDs.map rawHex)))
    | "iternew", _ => { s with biter := some s.basic.slabIterator }.expect "ok"
    | "iternext", _ =>
      match s.biter, fnat fs "n" with
      | some it, some n =>
        let ents : List (SlabIDB × Option Nat) := it.nexts n
        let drained := (it.drain n).length + 2 == n
        { s with biter := none }.expect
          s!"ents={joinOrDash (sortStrs (ents.map (fun (e : SlabIDB × Option Nat) => rawHex e.1 ++ ":" ++ verStr e.2)))} drain={b2s drained}"
      | _, _ => bad "iternext without iterator"
    | _, _ => bad s!"unknown BOP {op}"
  -- InMemBaseStorage ------------------------------------------------------------------------
  | ["MNEW"] => { s with inmem := {} }
  | "MOP" :: op :: rest =>
    let fs := fields rest
    let id? := (fget fs "id").bind parseSID
    match op, id? with
    | "gen", _ =>
      match (fget fs "a").bind parseAddr with
      | some a =>
        let r := s.inmem.generateSlabID a
        { s with inmem := r.1 }.expect s!"id={rawHex r.2} {inmemState r.1}"
      | none => bad "unparsable MOP gen"
    | "store", some id =>
      match (fget fs "d").bind parseHex with
      | some d => let m := s.inmem.store id d; { s with inmem := m }.expect s!"ok {inmemState m}"
      | none => bad "unparsable MOP store"
    | "remove", some id => let m := s.inmem.remove id; { s with inmem := m }.expect s!"ok {inmemState m}"
    | "retrieve", some id =>
      let r := s.inmem.retrieve id
      { s with inmem := r.1 }.expect s!"d={hx0 r.2.1} found={b2s r.2.2} {inmemState r.1}"
    | "reset", _ => let m := s.inmem.resetReporter; { s with inmem := m }.expect s!"ok {inmemState m}"
    | _, _ => bad s!"unknown MOP {op}"
  -- LedgerBaseStorage -----------------------------------------------------------------------
  | "LNEW" :: rest =>
    let fs := fields rest
    let failS := (fget fs "fail").getD "-"
    let fail := if failS == "-" then [] else (failS.splitOn ",").filterMap String.toNat?
    let junk := ((fget fs "junk").bind parseHex).getD []
    { s with lbs := LBS.new { keepEmpty := fget fs "keep" == some "1", fail := fail, junk := junk } }
  | "LOP" :: op :: rest =>
    let fs := fields rest
    let id? := (fget fs "id").bind parseSID
    let lop? : Option LOp :=
      match op, id? with
      | "gen", _ => ((fget fs "a").bind parseAddr).map LOp.gen
      | "store", some id => ((fget fs "d").bind parseHex).map (LOp.store id)
      | "remove", some id => some (.remove id)
      | "retrieve", some id => some (.retrieve id)
      | "reset", _ => some .reset
      | _, _ => none
    match lop? with
    | some lop =>
      let r := s.lbs.step MapLedger.iface lop
      let o := match r.2 with
        | .data b f => s!"d={hx0 b} found={b2s f}"
        | .unit => "ok"
        | .id i => "id=" ++ rawHex i
        | .err => "err"
      { s with lbs := r.1 }.expect s!"{o} {lbsState r.1}"
    | none => bad s!"unparsable LOP {op}"
  | ["LREGS", d] => cmp "ledger registers" (regsDump s.lbs.ledger) d
  -- PersistentSlabStorage.GenerateSlabID ------------------------------------------------------
  | ["PNEW"] => { s with ptemp := 0, plbs := LBS.new {} }
  | ["POP", "gen", af] =>
    match (fget (fields [af]) "a").bind parseAddr with
    | some a =>
      let r := persistGenerate MapLedger.iface s.ptemp s.plbs a
      let o := match r.2 with
        | .ok i => "id=" ++ rawHex i
        | .error _ => "err"
      { s with ptemp := r.1.1, plbs := r.1.2 }.expect o
    | none => bad "unparsable POP"
  | _ => bad s!"unknown line: {line}"

end SidState

end Atree.Replay
