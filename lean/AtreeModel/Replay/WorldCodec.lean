import AtreeModel.Codec.World
import AtreeModel.Replay.Codec
/-
  The tie of the translation `World.toCodec` (AtreeModel/Codec/World.lean) to the implementation:
  on every `SLB` line of the nested stream the slab parsed from the implementation's dump
  (`Replay.parseDump`, the parser of the codec stream) must be the translation of the replayed
  world for that slab ID, and the translation must dump as the implementation's dump string.
-/
namespace Atree.Replay
open Atree Atree.Codec

mutual
def sameStor : Stor → Stor → Bool
  | .val s p, .val s' p' => s == s' && p == p'
  | .ref a, .ref b => a == b
  | .some a, .some b => sameStor a b
  | .arr t i es, .arr t' i' es' => decide (t = t') && i == i' && sameSts es es'
  | .map x i els, .map x' i' els' => decide (x = x') && i == i' && sameMEls els els'
  | _, _ => false
def sameSts : List Stor → List Stor → Bool
  | [], [] => true
  | a :: as, b :: bs => sameStor a b && sameSts as bs
  | _, _ => false
def sameSEl : SEl → SEl → Bool
  | .mk k v, .mk k' v' => sameStor k k' && sameStor v v'
def sameMEl : MEl → MEl → Bool
  | .single e, .single e' => sameSEl e e'
  | .inl els, .inl els' => sameMEls els els'
  | .ext a, .ext b => a == b
  | _, _ => false
def sameMEls : MEls → MEls → Bool
  | .hkey l hk es, .hkey l' hk' es' => l == l' && hk == hk' && sameMElList es es'
  | .single l es, .single l' es' => l == l' && sameSElList es es'
  | _, _ => false
def sameMElList : List MEl → List MEl → Bool
  | [], [] => true
  | a :: as, b :: bs => sameMEl a b && sameMElList as bs
  | _, _ => false
def sameSElList : List SEl → List SEl → Bool
  | [], [] => true
  | a :: as, b :: bs => sameSEl a b && sameSElList as bs
  | _, _ => false
end

/-- field-by-field equality of two codec slabs -/
def sameSlab : Slab → Slab → Bool
  | .data ty s, .data ty' s' =>
    decide (ty = ty') && decide (s.hdr = s'.hdr) && s.next == s'.next && decide (s.elems = s'.elems) &&
      s.root == s'.root && s.inlined == s'.inlined
  | .index ty m, .index ty' m' =>
    decide (ty = ty') && decide (m.hdr = m'.hdr) && decide (m.childHdrs = m'.childHdrs) &&
      m.countSum == m'.countSum && m.children.length == m'.children.length && m.root == m'.root
  | .storable id e, .storable id' e' => id == id' && decide (e = e')
  | .adata a, .adata a' => a.id == a'.id && a.next == a'.next && decide (a.ty = a'.ty) && sameSts a.elems a'.elems
  | .mdata m, .mdata m' =>
    m.id == m'.id && m.next == m'.next && decide (m.extra = m'.extra) && sameMEls m.els m'.els &&
      m.anySize == m'.anySize && m.group == m'.group
  | .mindex m, .mindex m' => m.id == m'.id && decide (m.extra = m'.extra) && decide (m.childHdrs = m'.childHdrs)
  | .storableG id s, .storableG id' s' => id == id' && sameStor s s'
  | _, _ => false

/-! ### the side conditions of the theorems `C07.world_*` (AtreeProofs/Props/C07World.lean), evaluated at run time -/

mutual
/-- nesting levels the CBOR validator needs (`Stor.vneedI`, AtreeProofs/Codec/InlDefs.lean) -/
def needSt : Stor → Nat
  | .val _ _ => 1
  | .ref _ => 1
  | .some s => needSt s + 1
  | .arr _ _ es => needSts es + 3
  | .map _ _ els => needMEls els + 2
def needSts : List Stor → Nat
  | [] => 0
  | s :: ss => max (needSt s) (needSts ss)
def needSEl : SEl → Nat
  | .mk k v => max (needSt k) (needSt v) + 1
def needMEl : MEl → Nat
  | .single e => needSEl e
  | .inl els => needMEls els + 1
  | .ext _ => 2
def needMEls : MEls → Nat
  | .hkey _ _ es => needMElList es + 2
  | .single _ es => needSElList es + 2
def needMElList : List MEl → Nat
  | [] => 0
  | e :: es => max (needMEl e) (needMElList es)
def needSElList : List SEl → Nat
  | [] => 0
  | e :: es => max (needSEl e) (needSElList es)
end

/-- `(nesting within the limit, at most 256 shared extra-data entries)` for the slab -/
def sideOf : Slab → Bool × Bool
  | .adata a => (needSts a.elems + 1 ≤ maxNestedLevels, (encSts a.elems []).2.length ≤ 256)
  | .mdata m => (needMEls m.els ≤ maxNestedLevels, (encMEls m.els []).2.length ≤ 256)
  | _ => (true, true)

/-- the 16 bytes of an undefined sibling link that a non-root data slab does not write -/
def omittedOf : Slab → Nat
  | .data _ d => if !d.root && d.next == SlabID.undef then 16 else 0
  | .adata a => if a.ty.isNone && a.next == SlabID.undef then 16 else 0
  | .mdata m => if m.extra.isNone && m.next == SlabID.undef then 16 else 0
  | _ => 0

/-- the conclusions of the theorems, evaluated on the translation when its side conditions hold:
    `DecodeSlab (EncodeSlab sl) = sl` and the length law (an equality: no compact maps) -/
def theoremCheck (tr : Slab) : Option String :=
  let enc := encodeSlab tr
  if enc.length + omittedOf tr != tr.byteSize + tr.extraDataLen then
    some s!"length law fails on the translation: {enc.length} + {omittedOf tr} vs {tr.byteSize} + {tr.extraDataLen}"
  else
    match (decodeSlab tr.id enc).run with
    | .ok s' _ => if sameSlab s' tr then none else some "DecodeSlab (EncodeSlab sl) differs from sl for the translation"
    | _ => some "the model decoder rejects the encoding of the translation"

/-- the codec-level slab the model expects under `id`: the translation of the world, or a
    large-value slab created by the container code (`aux`, plain values only) -/
def expectedSlab (heap : List (SlabID × Slab)) (aux : AList SlabID Elem) (id : SlabID) : Option Slab :=
  match AList.find? heap id with
  | some sl => some sl
  | none => (AList.find? aux id).map (fun e => .storable id e)

/-- one `SLB <dump>` line: `(none, tags)` = agreement, `(some msg, tags)` = what differs; the tags
    count how often a side condition of the theorems does not hold on a stored slab -/
def checkSLB (heap : List (SlabID × Slab)) (aux : AList SlabID Elem) (dump : String) : Option String × List String :=
  match parseDump dump with
  | none => (some s!"cannot parse the implementation's dump {CodecState.short dump}", [])
  | some sl =>
    match expectedSlab heap aux sl.id with
    | none => (some s!"World.toCodec has no slab {sl.id.render}, implementation stored {CodecState.short dump}", [])
    | some tr =>
      if !sameSlab tr sl then
        (some s!"World.toCodec differs from the slab parsed from the implementation's dump\n  model: {CodecState.short (dumpSlab tr)}\n  impl : {CodecState.short dump}", [])
      else if dumpSlab tr != dump then
        (some s!"World.toCodec dumps as {CodecState.short (dumpSlab tr)}, implementation's dump is {CodecState.short dump}", [])
      else
        let side := sideOf tr
        let tags := (if side.1 then [] else ["SLB:side:nesting>32"]) ++ (if side.2 then [] else ["SLB:side:entries>256"])
        if side.1 && side.2 then ((theoremCheck tr).map (fun m => m ++ ": " ++ CodecState.short dump), ["SLB:thm"])
        else (none, tags)

end Atree.Replay
