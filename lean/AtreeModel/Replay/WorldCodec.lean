import AtreeModel.Codec.World
import AtreeModel.Replay.Codec
/-
  The tie of the translation `World.toCodec` (AtreeModel/Codec/World.lean) to the implementation:
  on every `SLB` line of the nested stream the slab parsed from the implementation's dump
  (`Replay.parseDump`, the parser of the codec stream) must be the translation of the replayed
  world for that slab ID, and the translation must dump as the implementation's dump string.
-/
namespace Atree.Replay
open Atree Atree.Codec

mutual
def sameStor : Stor → Stor → Bool
  | .val s p, .val s' p' => s == s' && p == p'
  | .ref a, .ref b => a == b
  | .some a, .some b => sameStor a b
  | .arr t i es, .arr t' i' es' => decide (t = t') && i == i' && sameSts es es'
  | .map x i els, .map x' i' els' => decide (x = x') && i == i' && sameMEls els els'
  | _, _ => false
def sameSts : List Stor → List Stor → Bool
  | [], [] => true
  | a :: as, b :: bs => sameStor a b && sameSts as bs
  | _, _ => false
def sameSEl : SEl → SEl → Bool
  | .mk k v, .mk k' v' => sameStor k k' && sameStor v v'
def sameMEl : MEl → MEl → Bool
  | .single e, .single e' => sameSEl e e'
  | .inl els, .inl els' => sameMEls els els'
  | .ext a, .ext b => a == b
  | _, _ => false
def sameMEls : MEls → MEls → Bool
  | .hkey l hk es, .hkey l' hk' es' => l == l' && hk == hk' && sameMElList es es'
  | .single l es, .single l' es' => l == l' && sameSElList es es'
  | _, _ => false
def sameMElList : List MEl → List MEl → Bool
  | [], [] => true
  | a :: as, b :: bs => sameMEl a b && sameMElList as bs
  | _, _ => false
def sameSElList : List SEl → List SEl → Bool
  | [], [] => true
  | a :: as, b :: bs => sameSEl a b && sameSElList as bs
  | _, _ => false
end

/-- field-by-field equality of two codec slabs -/
def sameSlab : Slab → Slab → Bool
  | .data ty s, .data ty' s' =>
    decide (ty = ty') && decide (s.hdr = s'.hdr) && s.next == s'.next && decide (s.elems = s'.elems) &&
      s.root == s'.root && s.inlined == s'.inlined
  | .index ty m, .index ty' m' =>
    decide (ty = ty') && decide (m.hdr = m'.hdr) && decide (m.childHdrs = m'.childHdrs) &&
      m.countSum == m'.countSum && m.children.length == m'.children.length && m.root == m'.root
  | .storable id e, .storable id' e' => id == id' && decide (e = e')
  | .adata a, .adata a' => a.id == a'.id && a.next == a'.next && decide (a.ty = a'.ty) && sameSts a.elems a'.elems
  | .mdata m, .mdata m' =>
    m.id == m'.id && m.next == m'.next && decide (m.extra = m'.extra) && sameMEls m.els m'.els &&
      m.anySize == m'.anySize && m.group == m'.group
  | .mindex m, .mindex m' => m.id == m'.id && decide (m.extra = m'.extra) && decide (m.childHdrs = m'.childHdrs)
  | .storableG id s, .storableG id' s' => id == id' && sameStor s s'
  | _, _ => false

/-- the codec-level slab the model expects under `id`: the translation of the world, or a
    large-value slab created by the container code (`aux`, plain values only) -/
def expectedSlab (heap : List (SlabID × Slab)) (aux : AList SlabID Elem) (id : SlabID) : Option Slab :=
  match AList.find? heap id with
  | some sl => some sl
  | none => (AList.find? aux id).map (fun e => .storable id e)

/-- one `SLB <dump>` line: `none` = agreement, `some msg` = what differs -/
def checkSLB (heap : List (SlabID × Slab)) (aux : AList SlabID Elem) (dump : String) : Option String :=
  match parseDump dump with
  | none => some s!"cannot parse the implementation's dump {CodecState.short dump}"
  | some sl =>
    match expectedSlab heap aux sl.id with
    | none => some s!"World.toCodec has no slab {sl.id.render}, implementation stored {CodecState.short dump}"
    | some tr =>
      if !sameSlab tr sl then
        some s!"World.toCodec differs from the slab parsed from the implementation's dump\n  model: {CodecState.short (dumpSlab tr)}\n  impl : {CodecState.short dump}"
      else if dumpSlab tr != dump then
        some s!"World.toCodec dumps as {CodecState.short (dumpSlab tr)}, implementation's dump is {CodecState.short dump}"
      else none

end Atree.Replay
