import AtreeModel.Codec.Decode
import AtreeModel.Dump
import AtreeModel.Replay.Common
/-
  Replays the `codec` and `malformed` streams of the harness (harness/cmd/trace/codec.go):

    ENC <dump> <hex> size=<n>   parse the dump back into a model slab; the model's encoding must be
                                 <hex>, its size <n>; the model's decoding of <hex> must dump as <dump>
    DEC <hex> id=<a>.<i>        the model decoder's outcome is the expected next OBS line
    HDR <hex>                   the three header queries give the expected next OBS line
    CBR <hex>                   the model of the CBOR library's validator (`wfNext`) gives the next OBS line
    OBS …                       compared verbatim with what the model expects
-/
namespace Atree.Replay
open Atree Atree.Codec

/-! ### string helpers (independent of the `String.Slice` API) -/

def sdrop (s : String) (n : Nat) : String := String.ofList (s.toList.drop n)
def stake (s : String) (n : Nat) : String := String.ofList (s.toList.take n)
def sdropEnd (s : String) (n : Nat) : String := String.ofList (s.toList.take (s.length - n))

/-! ### hex -/

def hexVal (c : Char) : Option Nat :=
  if '0' ≤ c ∧ c ≤ '9' then some (c.toNat - '0'.toNat)
  else if 'a' ≤ c ∧ c ≤ 'f' then some (c.toNat - 'a'.toNat + 10)
  else if 'A' ≤ c ∧ c ≤ 'F' then some (c.toNat - 'A'.toNat + 10)
  else none

def parseHexAux : List Char → List Nat → Option (List Nat)
  | [], acc => some acc.reverse
  | [_], _ => none
  | a :: b :: rest, acc =>
    match hexVal a, hexVal b with
    | some x, some y => parseHexAux rest ((x * 16 + y) :: acc)
    | _, _ => none

def parseHex (s : String) : Option Bytes := parseHexAux s.toList []

def hexDigit (n : Nat) : Char :=
  if n < 10 then Char.ofNat ('0'.toNat + n) else Char.ofNat ('a'.toNat + n - 10)

def renderHex (b : Bytes) : String :=
  String.ofList (b.foldr (fun x acc => hexDigit (x / 16 % 16) :: hexDigit (x % 16) :: acc) [])

/-! ### dumps (grammar of `atree.VerifDumpSlab`, the part for array and large-value slabs) -/

def dumpTy : TyInfo → String
  | .plain n => toString n
  | .composite n => "c" ++ toString n

def dumpSlab : Slab → String
  | .data ty s =>
    s!"D({s.hdr.id.render},{s.next.render},{s.hdr.size},{s.hdr.count},{Dump.bool01 s.inlined})" ++
    (match ty with | some t => "T(" ++ dumpTy t ++ ")" | none => "") ++
    "[" ++ Dump.joinWith "," (s.elems.map Dump.elem) ++ "]"
  | .index ty m =>
    s!"M({m.hdr.id.render},{m.hdr.size},{m.hdr.count})" ++
    (match ty with | some t => "T(" ++ dumpTy t ++ ")" | none => "") ++
    "{" ++ Dump.joinWith ";" (m.childHdrs.map Dump.hdr3) ++ "}{" ++
    Dump.joinWith "," (m.countSum.map toString) ++ "}"
  | .storable id e => s!"V({id.render},{Dump.elem e})"

/-- split at the first occurrence of `sep` -/
def cut (s : String) (sep : String) : Option (String × String) :=
  match s.splitOn sep with
  | a :: b :: rest => some (a, sep.intercalate (b :: rest))
  | _ => none

def parseTy (s : String) : Option TyInfo :=
  if s.startsWith "c" then (sdrop s 1).toNat?.map .composite else s.toNat?.map .plain

/-- `<size>:v<pay>` or `<size>:R<addr>.<idx>` -/
def parseElem (s : String) : Option Elem :=
  match s.splitOn ":" with
  | [a, b] => do
    let size ← a.toNat?
    if b.startsWith "v" then do
      let p ← (sdrop b 1).toNat?
      pure { size := size, pay := .val p }
    else if b.startsWith "R" then do
      let id ← parseID (sdrop b 1)
      pure { size := size, pay := .ref id }
    else none
  | _ => none

def parseList {α : Type} (sep : String) (f : String → Option α) (s : String) : Option (List α) :=
  if s.isEmpty then some [] else (s.splitOn sep).mapM f

/-- optional `T(<ty>)` prefix -/
def parseOptTy (s : String) : Option (Option TyInfo × String) :=
  if s.startsWith "T(" then do
    let (t, rest) ← cut (sdrop s 2) ")"
    let ty ← parseTy t
    pure (some ty, rest)
  else some (none, s)

def parseHdr3 (s : String) : Option Hdr :=
  match s.splitOn "/" with
  | [a, b, c] => do
    let id ← parseID a
    let size ← b.toNat?
    let count ← c.toNat?
    pure { id := id, size := size, count := count }
  | _ => none

def stripSuffix (s suffix : String) : Option String :=
  if s.endsWith suffix then some (sdropEnd s suffix.length) else none

def parseDump (s : String) : Option Slab :=
  if s.startsWith "D(" then do
    let (hd, rest) ← cut (sdrop s 2) ")"
    match hd.splitOn "," with
    | [id, next, size, count, inl] => do
      let id ← parseID id
      let next ← parseID next
      let size ← size.toNat?
      let count ← count.toNat?
      let (ty, rest) ← parseOptTy rest
      if !rest.startsWith "[" then none
      let body ← stripSuffix (sdrop rest 1) "]"
      let elems ← parseList "," parseElem body
      pure (.data ty { hdr := { id := id, size := size, count := count }, next := next, elems := elems,
                       root := ty.isSome, inlined := inl == "1" })
    | _ => none
  else if s.startsWith "M(" then do
    let (hd, rest) ← cut (sdrop s 2) ")"
    match hd.splitOn "," with
    | [id, size, count] => do
      let id ← parseID id
      let size ← size.toNat?
      let count ← count.toNat?
      let (ty, rest) ← parseOptTy rest
      if !rest.startsWith "{" then none
      let (hs, rest) ← cut (sdrop rest 1) "}{"
      let sums ← stripSuffix rest "}"
      let hs ← parseList ";" parseHdr3 hs
      let sums ← parseList "," String.toNat? sums
      pure (.index ty { hdr := { id := id, size := size, count := count }, childHdrs := hs, countSum := sums,
                        children := [], root := ty.isSome })
    | _ => none
  else if s.startsWith "V(" then do
    let body ← stripSuffix (sdrop s 2) ")"
    let (id, e) ← cut body ","
    let id ← parseID id
    let e ← parseElem e
    pure (.storable id e)
  else none

/-! ### expected observations -/

def obsDecode (id : SlabID) (data : Bytes) : String :=
  match (decodeSlab id data).run with
  | .ok s _ => s!"OBS ok:{dumpSlab s} size={s.byteSize}"
  | .error _ _ => "OBS err"
  | .panic => "OBS PANIC"

def obsHeader (data : Bytes) : String :=
  match (isRootOfAnObject data).run, (hasPointers data).run, (hasSizeLimit data).run with
  | .ok r _, .ok p _, .ok l _ => s!"OBS root={Dump.bool01 r} ptr={Dump.bool01 p} limit={Dump.bool01 l}"
  | .panic, _, _ | _, .panic, _ | _, _, .panic => "OBS PANIC"
  | _, _, _ => "OBS err"

/-- `StreamDecoder.Skip` then `NumBytesDecoded`: validity and length of the next complete item -/
def obsCbor (data : Bytes) : String :=
  match wfNext data with
  | some rest => s!"OBS ok:{data.length - rest.length}"
  | none => "OBS err"

structure CodecState where
  pending : List String := []
  rep : Report := {}

namespace CodecState

def note (s : CodecState) (msg : String) : CodecState := { s with rep := s.rep.mismatch msg }

def check (s : CodecState) (ok : Bool) (msg : Unit → String) : CodecState :=
  let s := { s with rep := { s.rep with compared := s.rep.compared + 1 } }
  if ok then s else s.note (msg ())

def short (str : String) : String := if str.length > 600 then stake str 600 ++ "…" else str

/-- one `ENC` line: four comparisons -/
def stepENC (s : CodecState) (dump hex : String) (size : Nat) (lineNo : Nat) : CodecState :=
  match parseDump dump, parseHex hex with
  | some slab, some bytes =>
    let s := { s with rep := (s.rep.tag "ENC") }
    let enc := encodeSlab slab
    let s := s.check (enc == bytes) (fun _ =>
      s!"line {lineNo}: ENC bytes differ for {short dump}: model {short (renderHex enc)}, implementation {short hex}")
    let s := s.check (slab.byteSize == size) (fun _ =>
      s!"line {lineNo}: ENC size differs for {short dump}: model {slab.byteSize}, implementation {size}")
    -- the length law of C06 on the implementation's bytes, evaluated by the model's bookkeeping
    let omitted := match slab with
      | .data _ d => if !d.root && d.next == SlabID.undef then 16 else 0
      | _ => 0
    let s := s.check (bytes.length + omitted == slab.byteSize + slab.extraDataLen) (fun _ =>
      s!"line {lineNo}: ENC length law fails for {short dump}: {bytes.length} + {omitted} ≠ {slab.byteSize} + {slab.extraDataLen}")
    match (decodeSlab slab.id bytes).run with
    | .ok s' _ =>
      let d' := dumpSlab s'
      let s := s.check (d' == dump) (fun _ =>
        s!"line {lineNo}: model decoding of the implementation's bytes dumps as {short d'}, implementation's slab is {short dump}")
      s.check (s'.byteSize == size) (fun _ =>
        s!"line {lineNo}: model-decoded size {s'.byteSize}, implementation {size}")
    | .error _ _ => (s.check false (fun _ => s!"line {lineNo}: model decoder rejects the implementation's bytes of {short dump}"))
    | .panic => (s.check false (fun _ => s!"line {lineNo}: model decoder PANICS on the implementation's bytes of {short dump}"))
  | none, _ => s.note s!"line {lineNo}: cannot parse dump {short dump}"
  | _, none => s.note s!"line {lineNo}: cannot parse hex"

def stepLine (s : CodecState) (line : String) (lineNo : Nat) : CodecState :=
  let s := { s with rep := { s.rep with lines := s.rep.lines + 1 } }
  match line.splitOn " " with
  | "ENC" :: dump :: hex :: rest =>
    let size := (fnat (fields rest) "size").getD 0
    let s := { s with rep := { s.rep with ops := s.rep.ops + 1 } }
    s.stepENC dump hex size lineNo
  | "DEC" :: hex :: rest =>
    let s := { s with rep := { (s.rep.tag "DEC") with ops := s.rep.ops + 1 } }
    let s := if s.pending.isEmpty then s else s.note s!"line {lineNo}: model expected {s.pending} before this DEC"
    match parseHex hex, (fget (fields rest) "id").bind parseID with
    | some bytes, some id => { s with pending := [obsDecode id bytes] }
    | _, _ => s.note s!"line {lineNo}: cannot parse DEC line"
  | "HDR" :: hex :: _ =>
    let s := { s with rep := { (s.rep.tag "HDR") with ops := s.rep.ops + 1 } }
    let s := if s.pending.isEmpty then s else s.note s!"line {lineNo}: model expected {s.pending} before this HDR"
    match parseHex hex with
    | some bytes => { s with pending := [obsHeader bytes] }
    | none => s.note s!"line {lineNo}: cannot parse HDR line"
  | "CBR" :: hex :: _ =>
    let s := { s with rep := { (s.rep.tag "CBR") with ops := s.rep.ops + 1 } }
    match parseHex hex with
    | some bytes => { s with pending := [obsCbor bytes] }
    | none => s.note s!"line {lineNo}: cannot parse CBR line"
  | ["CBR"] => { s with rep := (s.rep.tag "CBR"), pending := [obsCbor []] }
  | "OBS" :: _ =>
    match s.pending with
    | exp :: rest =>
      let s := { s with pending := rest }
      let s := { s with rep := s.rep.tag (if line.startsWith "OBS ok" then "obs:ok" else if line == "OBS err" then "obs:err"
                                          else if line == "OBS PANIC" then "obs:PANIC" else "obs:hdr") }
      s.check (exp == line) (fun _ => s!"line {lineNo}: model {short exp}, implementation {short line}")
    | [] => s.note s!"line {lineNo}: unexpected OBS line"
  | _ => s

end CodecState
end Atree.Replay
