import AtreeModel.Codec.Decode
import AtreeModel.Codec.Limits
import AtreeModel.Codec.Hyp
import AtreeModel.Dump
import AtreeModel.Replay.Common
/-
  Replays the `codec` and `malformed` streams of the harness (harness/cmd/trace/codec.go):

    ENC <hex> size=<n> | <dump> [| <decoded dump>]
                                parse the dump back into a model slab; its dump must reproduce <dump> (all
                                stored sizes equal the computed ones), the model's encoder (`encodeSlabE`,
                                with the error exits of the Go encoder) must succeed with <hex>, its size
                                <n>; the EXACT length law of C06 must hold (written + omitted sibling link
                                + hoisted compact-map bytes = reported + extra-data sections); the model's
                                decoding of <hex> must dump as <decoded dump> (= <dump> unless the slab
                                holds compact maps) and the exact validator depth `Slab.vdepth` must be
                                within the DecMode limit; every hypothesis of the C06 / C07 theorems
                                (`Slab.hypReport`) is evaluated: counters `hypothesis-not-met:<name>`
    ENC <hex> size=<n> | <dump> | !nest
                                the implementation's decoder rejected the register for its nesting depth:
                                the model's decoder must reject it too and `Slab.vdepth` must exceed the limit
    ENCERR <kind> | <dump>      the implementation's encoder returned an error (xdindex | level) on this
                                slab: `encodeSlabE` must fail the same way
    NEST kind=<k> first=<d>     the first depth of the nesting walk whose register did not reload; the
                                model computes the same number from `Slab.vdepth`
    UMI <hex>                   the model of `cbor.Unmarshal` into a `uint64` gives the next OBS line
    USZ n=<n> size=<k>          `GetUintCBORSize(n)` returned k: must be `headLen n`
    DEC <hex> id=<a>.<i>        the model decoder's outcome is the expected next OBS line
    HDR <hex>                   the three header queries give the expected next OBS line
    CBR <hex>                   the model of the CBOR library's validator (`wfNext`) gives the next OBS line
    OBS …                       compared verbatim with what the model expects
-/
namespace Atree.Replay
open Atree Atree.Codec

/-! ### string helpers (independent of the `String.Slice` API) -/

def sdrop (s : String) (n : Nat) : String := String.ofList (s.toList.drop n)
def stake (s : String) (n : Nat) : String := String.ofList (s.toList.take n)
def sdropEnd (s : String) (n : Nat) : String := String.ofList (s.toList.take (s.length - n))

/-! ### hex -/

def hexVal (c : Char) : Option Nat :=
  if '0' ≤ c ∧ c ≤ '9' then some (c.toNat - '0'.toNat)
  else if 'a' ≤ c ∧ c ≤ 'f' then some (c.toNat - 'a'.toNat + 10)
  else if 'A' ≤ c ∧ c ≤ 'F' then some (c.toNat - 'A'.toNat + 10)
  else none

def parseHexAux : List Char → List Nat → Option (List Nat)
  | [], acc => some acc.reverse
  | [_], _ => none
  | a :: b :: rest, acc =>
    match hexVal a, hexVal b with
    | some x, some y => parseHexAux rest ((x * 16 + y) :: acc)
    | _, _ => none

def parseHex (s : String) : Option Bytes := parseHexAux s.toList []

def hexDigit (n : Nat) : Char :=
  if n < 10 then Char.ofNat ('0'.toNat + n) else Char.ofNat ('a'.toNat + n - 10)

def renderHex (b : Bytes) : String :=
  String.ofList (b.foldr (fun x acc => hexDigit (x / 16 % 16) :: hexDigit (x % 16) :: acc) [])

/-! ### dumps (grammar of `atree.VerifDumpSlab`, the part for array and large-value slabs) -/

def dumpTy : TyInfo → String
  | .plain n => toString n
  | .composite n => "c" ++ toString n

mutual
/-- `VerifDescribe.sized`; `addr` is the address of the enclosing slab -/
partial def dumpStor (addr : Nat) : Stor → String
  | .val s p => s!"{s}:v{p}"
  | .ref id => s!"{slabIDStorableSize}:R{id.render}"
  | .some x => s!"{(Stor.some x).size}:W({dumpStor addr x})"
  | .arr ty idx es =>
    let sz := (Stor.arr ty idx es).size
    s!"{sz}:D({addr}.{idx},0.0,{sz},{es.length},1)T({dumpTy ty})[" ++
      Dump.joinWith "," (es.map (dumpStor addr)) ++ "]"
  | .map x idx els =>
    let sz := (Stor.map x idx els).size
    s!"{sz}:d({addr}.{idx},0.0,{sz},{els.firstKey},1,0,0)T({dumpTy x.ty},{x.count},{x.seed})" ++
      dumpMEls addr els
partial def dumpSEl (addr : Nat) : SEl → String
  | .mk k v => s!"S({(SEl.mk k v).size},{dumpStor addr k},{dumpStor addr v})"
partial def dumpMEl (addr : Nat) : MEl → String
  | .single e => dumpSEl addr e
  | .inl els => s!"I({(MEl.inl els).size},{dumpMEls addr els})"
  | .ext id => s!"X({(MEl.ext id).size},{id.render})"
partial def dumpMEls (addr : Nat) : MEls → String
  | .hkey level hkeys es =>
    s!"H({level},{(MEls.hkey level hkeys es).size})" ++ "{" ++ Dump.joinWith "," (hkeys.map toString) ++ "}[" ++
      Dump.joinWith " " (es.map (dumpMEl addr)) ++ "]"
  | .single level es =>
    s!"L({level},{(MEls.single level es).size})[" ++ Dump.joinWith " " (es.map (dumpSEl addr)) ++ "]"
end

def dumpMapExtra (x : MapExtra) : String := s!"T({dumpTy x.ty},{x.count},{x.seed})"

def dumpSlab : Slab → String
  | .data ty s =>
    s!"D({s.hdr.id.render},{s.next.render},{s.hdr.size},{s.hdr.count},{Dump.bool01 s.inlined})" ++
    (match ty with | some t => "T(" ++ dumpTy t ++ ")" | none => "") ++
    "[" ++ Dump.joinWith "," (s.elems.map Dump.elem) ++ "]"
  | .index ty m =>
    s!"M({m.hdr.id.render},{m.hdr.size},{m.hdr.count})" ++
    (match ty with | some t => "T(" ++ dumpTy t ++ ")" | none => "") ++
    "{" ++ Dump.joinWith ";" (m.childHdrs.map Dump.hdr3) ++ "}{" ++
    Dump.joinWith "," (m.countSum.map toString) ++ "}"
  | .storable id e => s!"V({id.render},{Dump.elem e})"
  | .adata a =>
    s!"D({a.id.render},{a.next.render},{a.size},{a.elems.length},0)" ++
    (match a.ty with | some t => "T(" ++ dumpTy t ++ ")" | none => "") ++
    "[" ++ Dump.joinWith "," (a.elems.map (dumpStor a.id.addr)) ++ "]"
  | .mdata m =>
    s!"d({m.id.render},{m.next.render},{m.size},{m.els.firstKey},0,{Dump.bool01 m.anySize},{Dump.bool01 m.group})" ++
    (match m.extra with | some x => dumpMapExtra x | none => "") ++ dumpMEls m.id.addr m.els
  | .mindex m =>
    s!"m({m.id.render},{m.size},{m.firstKey})" ++
    (match m.extra with | some x => dumpMapExtra x | none => "") ++
    "{" ++ Dump.joinWith ";" (m.childHdrs.map (fun h => s!"{h.id.render}/{h.size}/{h.firstKey}")) ++ "}"
  | .storableG id x => s!"V({id.render},{dumpStor id.addr x})"

/-- split at the first occurrence of `sep` -/
def cut (s : String) (sep : String) : Option (String × String) :=
  match s.splitOn sep with
  | a :: b :: rest => some (a, sep.intercalate (b :: rest))
  | _ => none

def parseTy (s : String) : Option TyInfo :=
  if s.startsWith "c" then (sdrop s 1).toNat?.map .composite else s.toNat?.map .plain

/-- `<size>:v<pay>` or `<size>:R<addr>.<idx>` -/
def parseElem (s : String) : Option Elem :=
  match s.splitOn ":" with
  | [a, b] => do
    let size ← a.toNat?
    if b.startsWith "v" then do
      let p ← (sdrop b 1).toNat?
      pure { size := size, pay := .val p }
    else if b.startsWith "R" then do
      let id ← parseID (sdrop b 1)
      pure { size := size, pay := .ref id }
    else none
  | _ => none

def parseList {α : Type} (sep : String) (f : String → Option α) (s : String) : Option (List α) :=
  if s.isEmpty then some [] else (s.splitOn sep).mapM f

/-- optional `T(<ty>)` prefix -/
def parseOptTy (s : String) : Option (Option TyInfo × String) :=
  if s.startsWith "T(" then do
    let (t, rest) ← cut (sdrop s 2) ")"
    let ty ← parseTy t
    pure (some ty, rest)
  else some (none, s)

def parseHdr3 (s : String) : Option Hdr :=
  match s.splitOn "/" with
  | [a, b, c] => do
    let id ← parseID a
    let size ← b.toNat?
    let count ← c.toNat?
    pure { id := id, size := size, count := count }
  | _ => none

def stripSuffix (s suffix : String) : Option String :=
  if s.endsWith suffix then some (sdropEnd s suffix.length) else none

/-! ### recursive-descent parser for the full grammar of `VerifDumpSlab` -/

abbrev P (α : Type) := List Char → Option (α × List Char)

def pLit (lit : String) : P Unit := fun cs =>
  let l := lit.toList
  if cs.take l.length == l then some ((), cs.drop l.length) else none

def pNat : P Nat := fun cs =>
  let ds := cs.takeWhile Char.isDigit
  if ds.isEmpty then none else some ((String.ofList ds).toNat!, cs.drop ds.length)

def pID : P SlabID := fun cs => do
  let (a, cs) ← pNat cs
  let (_, cs) ← pLit "." cs
  let (i, cs) ← pNat cs
  pure (⟨a, i⟩, cs)

def pTy : P TyInfo := fun cs =>
  match cs with
  | 'c' :: rest => do let (n, cs) ← pNat rest; pure (.composite n, cs)
  | _ => do let (n, cs) ← pNat cs; pure (.plain n, cs)

/-- `p` separated by `sep`, ended by (and consuming) `close`; possibly empty -/
partial def pSepUntil {α : Type} (p : P α) (sep close : Char) : P (List α) := fun cs =>
  match cs with
  | c :: rest =>
    if c == close then some ([], rest)
    else do
      let (a, cs) ← p cs
      match cs with
      | c :: rest =>
        if c == close then some ([a], rest)
        else if c == sep then do
          let (as, cs) ← pSepUntil p sep close rest
          pure (a :: as, cs)
        else none
      | [] => none
  | [] => none

def pOptMapExtra : P (Option MapExtra) := fun cs =>
  match pLit "T(" cs with
  | some (_, cs) => do
    let (ty, cs) ← pTy cs
    let (_, cs) ← pLit "," cs
    let (count, cs) ← pNat cs
    let (_, cs) ← pLit "," cs
    let (seed, cs) ← pNat cs
    let (_, cs) ← pLit ")" cs
    pure (some { ty := ty, count := count, seed := seed }, cs)
  | none => some (none, cs)

def pOptTy : P (Option TyInfo) := fun cs =>
  match pLit "T(" cs with
  | some (_, cs) => do
    let (ty, cs) ← pTy cs
    let (_, cs) ← pLit ")" cs
    pure (some ty, cs)
  | none => some (none, cs)

/-- header of an array data slab: `D(id,next,size,count,inl)` -/
structure ArrHead where
  id : SlabID
  next : SlabID
  size : Nat
  count : Nat
  inl : Bool

def pArrHead : P ArrHead := fun cs => do
  let (_, cs) ← pLit "D(" cs
  let (id, cs) ← pID cs
  let (_, cs) ← pLit "," cs
  let (next, cs) ← pID cs
  let (_, cs) ← pLit "," cs
  let (size, cs) ← pNat cs
  let (_, cs) ← pLit "," cs
  let (count, cs) ← pNat cs
  let (_, cs) ← pLit "," cs
  let (inl, cs) ← pNat cs
  let (_, cs) ← pLit ")" cs
  pure ({ id := id, next := next, size := size, count := count, inl := inl == 1 }, cs)

/-- header of a map data slab: `d(id,next,size,first,inl,any,grp)` -/
structure MapHead where
  id : SlabID
  next : SlabID
  inl : Bool
  anySize : Bool
  group : Bool

def pMapHead : P MapHead := fun cs => do
  let (_, cs) ← pLit "d(" cs
  let (id, cs) ← pID cs
  let (_, cs) ← pLit "," cs
  let (next, cs) ← pID cs
  let (_, cs) ← pLit "," cs
  let (_, cs) ← pNat cs
  let (_, cs) ← pLit "," cs
  let (_, cs) ← pNat cs
  let (_, cs) ← pLit "," cs
  let (inl, cs) ← pNat cs
  let (_, cs) ← pLit "," cs
  let (a, cs) ← pNat cs
  let (_, cs) ← pLit "," cs
  let (g, cs) ← pNat cs
  let (_, cs) ← pLit ")" cs
  pure ({ id := id, next := next, inl := inl == 1, anySize := a == 1, group := g == 1 }, cs)

mutual
/-- `<size>:<desc>`; printed sizes of nested forms are not kept: the model computes them, and the
    dump of the parsed slab must reproduce the input -/
partial def pSized : P Stor := fun cs => do
  let (size, cs) ← pNat cs
  let (_, cs) ← pLit ":" cs
  match cs with
  | 'v' :: rest => do
    let (p, cs) ← pNat rest
    pure (.val size p, cs)
  | 'R' :: rest => do
    let (id, cs) ← pID rest
    pure (.ref id, cs)
  | 'W' :: '(' :: rest => do
    let (x, cs) ← pSized rest
    let (_, cs) ← pLit ")" cs
    pure (.some x, cs)
  | 'D' :: _ => do
    let (h, cs) ← pArrHead cs
    let (ty, cs) ← pOptTy cs
    let (_, cs) ← pLit "[" cs
    let (es, cs) ← pSepUntil pSized ',' ']' cs
    match ty with
    | some t => pure (.arr t h.id.idx es, cs)
    | none => none
  | 'd' :: _ => do
    let (h, cs) ← pMapHead cs
    let (x, cs) ← pOptMapExtra cs
    let (els, cs) ← pMEls cs
    match x with
    | some x => pure (.map x h.id.idx els, cs)
    | none => none
  | _ => none
partial def pSEl : P SEl := fun cs => do
  let (_, cs) ← pLit "S(" cs
  let (_, cs) ← pNat cs
  let (_, cs) ← pLit "," cs
  let (k, cs) ← pSized cs
  let (_, cs) ← pLit "," cs
  let (v, cs) ← pSized cs
  let (_, cs) ← pLit ")" cs
  pure (.mk k v, cs)
partial def pMEl : P MEl := fun cs =>
  match cs with
  | 'S' :: _ => do
    let (e, cs) ← pSEl cs
    pure (.single e, cs)
  | 'I' :: '(' :: rest => do
    let (_, cs) ← pNat rest
    let (_, cs) ← pLit "," cs
    let (els, cs) ← pMEls cs
    let (_, cs) ← pLit ")" cs
    pure (.inl els, cs)
  | 'X' :: '(' :: rest => do
    let (_, cs) ← pNat rest
    let (_, cs) ← pLit "," cs
    let (id, cs) ← pID cs
    let (_, cs) ← pLit ")" cs
    pure (.ext id, cs)
  | _ => none
partial def pMEls : P MEls := fun cs =>
  match cs with
  | 'H' :: '(' :: rest => do
    let (level, cs) ← pNat rest
    let (_, cs) ← pLit "," cs
    let (_, cs) ← pNat cs
    let (_, cs) ← pLit "){" cs
    let (hkeys, cs) ← pSepUntil pNat ',' '}' cs
    let (_, cs) ← pLit "[" cs
    let (es, cs) ← pSepUntil pMEl ' ' ']' cs
    pure (.hkey level hkeys es, cs)
  | 'L' :: '(' :: rest => do
    let (level, cs) ← pNat rest
    let (_, cs) ← pLit "," cs
    let (_, cs) ← pNat cs
    let (_, cs) ← pLit ")[" cs
    let (es, cs) ← pSepUntil pSEl ' ' ']' cs
    pure (.single level es, cs)
  | _ => none
end

/-- the flat element, if the storable is one -/
def storToElem? : Stor → Option Elem
  | .val s p => some { size := s, pay := .val p }
  | .ref id => some { size := slabIDStorableSize, pay := .ref id }
  | _ => none

def pMChildHdr : P MChildHdr := fun cs => do
  let (id, cs) ← pID cs
  let (_, cs) ← pLit "/" cs
  let (size, cs) ← pNat cs
  let (_, cs) ← pLit "/" cs
  let (fk, cs) ← pNat cs
  pure ({ id := id, size := size, firstKey := fk }, cs)

def pSlab : P Slab := fun cs =>
  match cs with
  | 'D' :: _ => do
    let (h, cs) ← pArrHead cs
    let (ty, cs) ← pOptTy cs
    let (_, cs) ← pLit "[" cs
    let (es, cs) ← pSepUntil pSized ',' ']' cs
    match es.mapM storToElem? with
    | some flat =>
      pure (.data ty { hdr := { id := h.id, size := h.size, count := h.count }, next := h.next, elems := flat,
                       root := ty.isSome, inlined := h.inl }, cs)
    | none => if h.inl then none else pure (.adata { id := h.id, next := h.next, ty := ty, elems := es }, cs)
  | 'd' :: _ => do
    let (h, cs) ← pMapHead cs
    let (x, cs) ← pOptMapExtra cs
    let (els, cs) ← pMEls cs
    if h.inl then none
    else pure (.mdata { id := h.id, next := h.next, extra := x, els := els, anySize := h.anySize, group := h.group }, cs)
  | 'm' :: '(' :: rest => do
    let (id, cs) ← pID rest
    let (_, cs) ← pLit "," cs
    let (_, cs) ← pNat cs
    let (_, cs) ← pLit "," cs
    let (_, cs) ← pNat cs
    let (_, cs) ← pLit ")" cs
    let (x, cs) ← pOptMapExtra cs
    let (_, cs) ← pLit "{" cs
    let (hs, cs) ← pSepUntil pMChildHdr ';' '}' cs
    pure (.mindex { id := id, extra := x, childHdrs := hs }, cs)
  | 'V' :: '(' :: rest => do
    let (id, cs) ← pID rest
    let (_, cs) ← pLit "," cs
    let (x, cs) ← pSized cs
    let (_, cs) ← pLit ")" cs
    match storToElem? x with
    | some e => pure (.storable id e, cs)
    | none => pure (.storableG id x, cs)
  | _ => none

/-- array index slabs keep the original (string-splitting) parser -/
def parseDumpOld (s : String) : Option Slab :=
  if s.startsWith "M(" then do
    let (hd, rest) ← cut (sdrop s 2) ")"
    match hd.splitOn "," with
    | [id, size, count] => do
      let id ← parseID id
      let size ← size.toNat?
      let count ← count.toNat?
      let (ty, rest) ← parseOptTy rest
      if !rest.startsWith "{" then none
      let (hs, rest) ← cut (sdrop rest 1) "}{"
      let sums ← stripSuffix rest "}"
      let hs ← parseList ";" parseHdr3 hs
      let sums ← parseList "," String.toNat? sums
      pure (.index ty { hdr := { id := id, size := size, count := count }, childHdrs := hs, countSum := sums,
                        children := [], root := ty.isSome })
    | _ => none
  else none

def parseDump (s : String) : Option Slab :=
  if s.startsWith "M(" then parseDumpOld s
  else
    match pSlab s.toList with
    | some (slab, []) => some slab
    | _ => none

/-! ### expected observations -/

def obsDecode (id : SlabID) (data : Bytes) : String :=
  match (decodeSlab id data).run with
  | .ok s _ => s!"OBS ok:{dumpSlab s} size={s.byteSize}"
  | .error _ _ => "OBS err"
  | .panic => "OBS PANIC"

def obsHeader (data : Bytes) : String :=
  match (isRootOfAnObject data).run, (hasPointers data).run, (hasSizeLimit data).run with
  | .ok r _, .ok p _, .ok l _ => s!"OBS root={Dump.bool01 r} ptr={Dump.bool01 p} limit={Dump.bool01 l}"
  | .panic, _, _ | _, .panic, _ | _, _, .panic => "OBS PANIC"
  | _, _, _ => "OBS err"

/-- `StreamDecoder.Skip` then `NumBytesDecoded`: validity and length of the next complete item -/
def obsCbor (data : Bytes) : String :=
  match wfNext data with
  | some rest => s!"OBS ok:{data.length - rest.length}"
  | none => "OBS err"

structure CodecState where
  pending : List String := []
  rep : Report := {}

namespace CodecState

def note (s : CodecState) (msg : String) : CodecState := { s with rep := s.rep.mismatch msg }

def check (s : CodecState) (ok : Bool) (msg : Unit → String) : CodecState :=
  let s := { s with rep := { s.rep with compared := s.rep.compared + 1 } }
  if ok then s else s.note (msg ())

def short (str : String) : String := if str.length > 600 then stake str 600 ++ "…" else str

/-- does the encoder write some inlined map of the slab in the compact form -/
def usesCompact : Slab → Bool
  | .adata a => (encSts a.elems []).2.any (fun x => match x with | .cmap _ _ _ => true | _ => false)
  | .mdata m => (encMEls m.els []).2.any (fun x => match x with | .cmap _ _ _ => true | _ => false)
  | _ => false

/-- the 16 bytes of an undefined sibling link that a non-root data slab does not write -/
def omittedNext : Slab → Nat
  | .data _ d => if !d.root && d.next == SlabID.undef then 16 else 0
  | .adata a => if a.ty.isNone && a.next == SlabID.undef then 16 else 0
  | .mdata m => if m.extra.isNone && m.next == SlabID.undef then 16 else 0
  | _ => 0

/-- one `ENC` line; `nest` = the implementation's decoder rejected the register for its nesting depth -/
def stepENC (s : CodecState) (dump hex : String) (decDump : String) (size : Nat) (lineNo : Nat)
    (nest : Bool := false) : CodecState :=
  match parseDump dump, parseHex hex with
  | some slab, some bytes =>
    let s := { s with rep := (s.rep.tag "ENC") }
    -- every size the implementation keeps in a header field equals the size the model computes
    let rd := dumpSlab slab
    let s := s.check (rd == dump) (fun _ =>
      s!"line {lineNo}: the parsed slab dumps as {short rd}, implementation's dump is {short dump}")
    -- the model's encoder with the error exits of the Go encoder: it must succeed, with the same bytes
    let s := match encodeSlabE slab with
      | .ok enc => s.check (enc == bytes) (fun _ =>
          s!"line {lineNo}: ENC bytes differ for {short dump}: model {short (renderHex enc)}, implementation {short hex}")
      | .error err => s.check false (fun _ =>
          s!"line {lineNo}: the model's encoder refuses ({repr err}, {slab.xdCount} extra-data entries) a slab the implementation encoded: {short dump}")
    let s := s.check (slab.byteSize == size) (fun _ =>
      s!"line {lineNo}: ENC size differs for {short dump}: model {slab.byteSize}, implementation {size}")
    -- the EXACT length law of C06 on the implementation's bytes, evaluated by the model's bookkeeping
    let omitted := omittedNext slab
    let compact := usesCompact slab
    let hoisted := slab.hoisted
    let s := s.check (bytes.length + omitted + hoisted == slab.byteSize + slab.extraDataLen) (fun _ =>
      s!"line {lineNo}: ENC length law fails for {short dump}: {bytes.length} + {omitted} + hoisted {hoisted} vs {slab.byteSize} + {slab.extraDataLen} (compact {compact})")
    let s := s.check (compact || hoisted == 0) (fun _ =>
      s!"line {lineNo}: hoisted bytes {hoisted} without a compact map: {short dump}")
    let s := if compact then { s with rep := s.rep.tag "ENC:compact" } else s
    -- the hypotheses of the C06 / C07 theorems (`SlabOKG`; Bool versions in Codec/Hyp.lean, proved
    -- equivalent in AtreeProofs/Codec/HypB.lean), evaluated on the slab the implementation encoded:
    -- a failed clause is counted (`hypothesis-not-met:<name>`); it is an ERROR for the clauses claimed
    -- to be invariants of encodable slabs — all but the older, non-tight nesting clause `nest-vneed`
    -- (a measured gap) and the exact one on a register the implementation itself rejects (`!nest`)
    let s := slab.hypReport.foldl (fun (s : CodecState) (p : String × Bool) =>
      if p.2 then s
      else if p.1 == "noCompact" || p.1 == "noInl" then s    -- shapes, not hypotheses of the general theorems
      else
        let s := { s with rep := s.rep.tag ("hypothesis-not-met:" ++ p.1) }
        if p.1 == "nest-vneed" || (p.1 == "nest-exact" && nest) then s
        else s.check false (fun _ =>
          s!"line {lineNo}: hypothesis `{p.1}` of the C06/C07 theorems does not hold for a slab the implementation encoded: {short dump}")) s
    let s := if slab.hypOK then { s with rep := s.rep.tag "hypotheses-met" } else s
    let vd := slab.vdepth
    match (decodeSlab slab.id bytes).run with
    | .ok s' _ =>
      if nest then
        s.check false (fun _ => s!"line {lineNo}: the implementation's decoder rejects the register for its nesting depth, the model decoder accepts it (vdepth {vd}): {short dump}")
      else
      let d' := dumpSlab s'
      let s := s.check (d' == decDump) (fun _ =>
        s!"line {lineNo}: model decoding of the implementation's bytes dumps as {short d'}, implementation's decoded slab is {short decDump}")
      -- the decoded form differs from the in-memory form only under the compact-map exception
      let s := s.check (decDump == dump || compact) (fun _ =>
        s!"line {lineNo}: decoded dump differs from the slab's dump although no compact map is encoded: {short dump}")
      -- the exact validator depth predicts that the register decodes
      let s := s.check (vd ≤ maxNestedLevels) (fun _ =>
        s!"line {lineNo}: the register decodes although the exact validator depth is {vd} > {maxNestedLevels}: {short dump}")
      s.check (s'.byteSize == size) (fun _ =>
        s!"line {lineNo}: model-decoded size {s'.byteSize}, implementation {size}")
    | .error _ _ =>
      if nest then
        let s := { s with rep := s.rep.tag "ENC:!nest" }
        s.check (vd > maxNestedLevels) (fun _ =>
          s!"line {lineNo}: the register is rejected for its nesting depth but the exact validator depth is {vd} ≤ {maxNestedLevels}: {short dump}")
      else (s.check false (fun _ => s!"line {lineNo}: model decoder rejects the implementation's bytes of {short dump} (vdepth {vd})"))
    | .panic => (s.check false (fun _ => s!"line {lineNo}: model decoder PANICS on the implementation's bytes of {short dump}"))
  | none, _ => s.note s!"line {lineNo}: cannot parse dump {short dump}"
  | _, none => s.note s!"line {lineNo}: cannot parse hex"

/-- one `ENCERR` line: the implementation's encoder refused the slab -/
def stepENCERR (s : CodecState) (kind dump : String) (lineNo : Nat) : CodecState :=
  match parseDump dump with
  | some slab =>
    let s := { s with rep := (s.rep.tag ("ENCERR:" ++ kind)) }
    let rd := dumpSlab slab
    let s := s.check (rd == dump) (fun _ =>
      s!"line {lineNo}: the parsed slab dumps as {short rd}, implementation's dump is {short dump}")
    match encodeSlabE slab with
    | .ok _ => s.check false (fun _ =>
        s!"line {lineNo}: the implementation's encoder refuses ({kind}) a slab the model's encoder accepts ({slab.xdCount} extra-data entries): {short dump}")
    | .error err =>
      let k := match err with | .extraDataIndex => "xdindex" | .digestLevel => "level" | .storableInlined => "storable-inlined"
      s.check (k == kind) (fun _ => s!"line {lineNo}: encoder error kinds differ: model {k}, implementation {kind}: {short dump}")
  | none => s.note s!"line {lineNo}: cannot parse dump {short dump}"

/-- the containers of the harness's nesting walk (harness/cmd/trace/codecdirected.go, `runNestingWalk`):
    `k + 1` containers inside each other, the innermost holding a plain value -/
def nestChain (kind : String) : Nat → Stor
  | 0 =>
    if kind == "map" then .map ⟨.plain 1, 1, 9⟩ 2 (.hkey 0 [5] [.single (.mk (.val 2 1) (.val 2 7))])
    else .arr (.plain 1) 2 [.val 2 7]
  | k + 1 =>
    let c := if kind == "warr" then Stor.some (nestChain kind k) else nestChain kind k
    if kind == "map" then .map ⟨.plain 1, 1, 9⟩ (k + 3) (.hkey 0 [5] [.single (.mk (.val 2 1) c)])
    else .arr (.plain 1) (k + 3) [c]

/-- the root slab of the walk at `depth ≥ 1` (the root plus `depth` inlined containers) -/
def nestRoot (kind : String) (depth : Nat) : Slab :=
  let c := if kind == "warr" then Stor.some (nestChain kind (depth - 1)) else nestChain kind (depth - 1)
  if kind == "map" then
    .mdata { id := ⟨1, 1⟩, next := SlabID.undef, extra := some ⟨.plain 1, 1, 9⟩,
             els := .hkey 0 [5] [.single (.mk (.val 2 1) c)], anySize := false, group := false }
  else .adata { id := ⟨1, 1⟩, next := SlabID.undef, ty := some (.plain 1), elems := [c] }

/-- the first depth whose register the validator rejects, as `Slab.vdepth` predicts it -/
def nestFirstFail (kind : String) : Option Nat :=
  ((List.range 64).map (· + 1)).find? (fun d => (nestRoot kind d).vdepth > maxNestedLevels)

/-- `cbor.Unmarshal(data, &uint64)` -/
def obsUnmarshal (data : Bytes) : String :=
  match unmarshalUint64 data with
  | some n => s!"OBS ok:{n}"
  | none => "OBS err"

def stepLine (s : CodecState) (line : String) (lineNo : Nat) : CodecState :=
  let s := { s with rep := { s.rep with lines := s.rep.lines + 1 } }
  match line.splitOn " " with
  | "ENC" :: hex :: sz :: "|" :: _ =>
    let size := (fnat (fields [sz]) "size").getD 0
    let s := { s with rep := { s.rep with ops := s.rep.ops + 1 } }
    match line.splitOn " | " with
    | [_, dump] => s.stepENC dump hex dump size lineNo
    | [_, dump, "!nest"] => s.stepENC dump hex dump size lineNo true
    | [_, dump, dec] => s.stepENC dump hex dec size lineNo
    | _ => s.note s!"line {lineNo}: cannot parse ENC line"
  | "ENCERR" :: kind :: "|" :: _ =>
    let s := { s with rep := { s.rep with ops := s.rep.ops + 1 } }
    match line.splitOn " | " with
    | [_, dump] => s.stepENCERR kind dump lineNo
    | _ => s.note s!"line {lineNo}: cannot parse ENCERR line"
  | "NEST" :: rest =>
    let s := { s with rep := { (s.rep.tag "NEST") with ops := s.rep.ops + 1 } }
    match fget (fields rest) "kind", fnat (fields rest) "first" with
    | some kind, some first =>
      s.check (nestFirstFail kind == some first) (fun _ =>
        s!"line {lineNo}: nesting walk {kind}: the implementation's first failing depth is {first}, the model predicts {repr (nestFirstFail kind)}")
    | _, _ => s.note s!"line {lineNo}: cannot parse NEST line"
  | "DEC" :: hex :: rest =>
    let s := { s with rep := { (s.rep.tag "DEC") with ops := s.rep.ops + 1 } }
    let s := if s.pending.isEmpty then s else s.note s!"line {lineNo}: model expected {s.pending} before this DEC"
    match parseHex hex, (fget (fields rest) "id").bind parseID with
    | some bytes, some id => { s with pending := [obsDecode id bytes] }
    | _, _ => s.note s!"line {lineNo}: cannot parse DEC line"
  | "HDR" :: hex :: _ =>
    let s := { s with rep := { (s.rep.tag "HDR") with ops := s.rep.ops + 1 } }
    let s := if s.pending.isEmpty then s else s.note s!"line {lineNo}: model expected {s.pending} before this HDR"
    match parseHex hex with
    | some bytes => { s with pending := [obsHeader bytes] }
    | none => s.note s!"line {lineNo}: cannot parse HDR line"
  | "CBR" :: hex :: _ =>
    let s := { s with rep := { (s.rep.tag "CBR") with ops := s.rep.ops + 1 } }
    match parseHex hex with
    | some bytes => { s with pending := [obsCbor bytes] }
    | none => s.note s!"line {lineNo}: cannot parse CBR line"
  | ["CBR"] => { s with rep := (s.rep.tag "CBR"), pending := [obsCbor []] }
  | "UMI" :: hex :: _ =>
    let s := { s with rep := { (s.rep.tag "UMI") with ops := s.rep.ops + 1 } }
    match parseHex hex with
    | some bytes => { s with pending := [obsUnmarshal bytes] }
    | none => s.note s!"line {lineNo}: cannot parse UMI line"
  | ["UMI"] => { s with rep := (s.rep.tag "UMI"), pending := [obsUnmarshal []] }
  | "USZ" :: rest =>
    -- `GetUintCBORSize(n)` (encode.go, the exported helper of caller-side `ByteSize()`) against the length of the
    -- head the model writes for `n`
    let s := { s with rep := { (s.rep.tag "USZ") with ops := s.rep.ops + 1 } }
    match fnat (fields rest) "n", fnat (fields rest) "size" with
    | some n, some size =>
      s.check (headLen n == size) (fun _ =>
        s!"line {lineNo}: GetUintCBORSize({n}): implementation {size}, the model's head has {headLen n} bytes")
    | _, _ => s.note s!"line {lineNo}: cannot parse USZ line"
  | "OBS" :: _ =>
    match s.pending with
    | exp :: rest =>
      let s := { s with pending := rest }
      let s := { s with rep := s.rep.tag (if line.startsWith "OBS ok" then "obs:ok" else if line == "OBS err" then "obs:err"
                                          else if line == "OBS PANIC" then "obs:PANIC" else "obs:hdr") }
      s.check (exp == line) (fun _ => s!"line {lineNo}: model {short exp}, implementation {short line}")
    | [] => s.note s!"line {lineNo}: unexpected OBS line"
  | _ => s

end CodecState
end Atree.Replay
