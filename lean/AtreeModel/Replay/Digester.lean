import AtreeModel.Digester
import AtreeModel.DigesterSeed
import AtreeModel.Replay.Common
/-
  Replays a `digester` trace (harness/cmd/trace/digester.go) on the digester model.

  The third-party hash functions are NOT modelled: the harness calls `circlehash.Hash64`,
  `blake3.Sum256` and `circlehash.Hash64Uint64x2` directly (not through atree) and writes the results
  as `ORA` lines; these tables are the `Hashes` the model is run with.  Everything atree adds — which
  seed reaches which function, the big-endian split of the BLAKE3 sum, level ↦ word, the caches,
  `Reset`, the pool, the error for out-of-range levels, the seed derivation and the builder objects —
  is computed by the model and compared with what the real code returned.

  Pool identity: the harness's hash-input provider stamps bytes 24..31 of the scratch buffer it is
  handed with a fresh number and reports the number it found there (`prev`).  Since `Reset` does not
  clear `scratch`, `prev` identifies the OBJECT `sync.Pool` handed out; the replayer looks that
  object up in the model's pool (`choice`), and reports a mismatch if the implementation hands out an
  object the model says is still held by someone.

  One event per line; the observation of the real code is the field `r=`.
    ORA circle msg=<hex> k0=<n> v=<n>
    ORA blake msg=<hex> sum=<hex>
    ORA circle2 a=<n> b=<n> v=<n>
    LEVELS n=<n> k1=<n>
    BUILD h=<slot> k0=<n> k1=<n> msg=<hex> fail=0|1 alias=0|1 prev=<n> new=<n> r=ok|err:<kind>
    BUILD h=<slot> k0=0 k1=<n> nohip=1 r=err:seedUninitialized
    DIG h=<slot> l=<n> r=ok:<n>|err:hashLevel
    PRE h=<slot> l=<n> r=ok:<n>,<n>,…|ok:-|err:hashLevel
    RST h=<slot>
    MAPOP k0=<n> hips=<prev>:<new>:<msghex>;…   (builds made and put back inside one OrderedMap operation)
    BNEW b=<ref>
    MNEW m=<n> addr=<n> idx=<n> b=<ref> r=<seed>:<k0>:<k1>
    MOPEN m=<n> src=<n> b=<ref> r=<seed>:<k0>:<k1>
    MCOPY m=<n> src=<n> b=<ref> r=<seed>:<k0>:<k1>
    MBATCH m=<n> seed=<n> b=<ref> r=<seed>:<k0>:<k1>|err:seedUninitialized
    MCHILD m=<n> seed=<n> r=<seed>:<k0>:<k1>
    BQ b=<ref> r=<k0>:<k1>
-/
namespace Atree.Replay
open Atree Atree.Dig

namespace DigR

def hexVal (c : Char) : Option Nat :=
  if '0' ≤ c ∧ c ≤ '9' then some (c.toNat - '0'.toNat)
  else if 'a' ≤ c ∧ c ≤ 'f' then some (c.toNat - 'a'.toNat + 10)
  else none

def parseHexAux : List Char → List UInt8 → Option (List UInt8)
  | [], acc => some acc.reverse
  | [_], _ => none
  | a :: b :: rest, acc =>
    match hexVal a, hexVal b with
    | some x, some y => parseHexAux rest ((x * 16 + y).toUInt8 :: acc)
    | _, _ => none

/-- `-` is the empty string -/
def parseHex (s : String) : Option Bytes := if s == "-" then some [] else parseHexAux s.toList []

/-- what the harness's provider is told to do for one key -/
structure HipArg where
  msg   : Bytes
  fail  : Bool
  alias : Bool     -- return a sub-slice of the scratch buffer instead of a new slice
  stamp : Nat      -- the number it writes into scratch[24:32]
deriving Repr

/-- 8 big-endian bytes -/
def stampBytes (n : Nat) : Bytes := beBytes8 n

/-- model of the harness's instrumented `HashInputProvider` (digester.go `digEnv.hip`) -/
def replayHip : HIP HipArg := fun v buf =>
  let buf1 := if v.alias && !v.fail then v.msg ++ buf.drop v.msg.length else buf
  let buf2 := buf1.take 24 ++ stampBytes v.stamp
  (if v.fail then .error () else .ok v.msg, buf2)

/-- the stamp an object carries -/
def stampOf (d : BasicDigester) : Nat := (beUint64 (d.scratch.drop 24)).toNat


def errName : DErr → String
  | .hashLevel => "hashLevel"
  | .seedUninitialized => "seedUninitialized"
  | .external => "external"

def renderDigest : Except DErr UInt64 → String
  | .ok x => s!"ok:{x.toNat}"
  | .error e => s!"err:{errName e}"

def renderPrefix : Except DErr (List UInt64) → String
  | .ok [] => "ok:-"
  | .ok xs => "ok:" ++ ",".intercalate (xs.map (fun x => toString x.toNat))
  | .error e => s!"err:{errName e}"

def u64 (fs : List (String × String)) (k : String) : UInt64 := UInt64.ofNat ((fnat fs k).getD 0)

def parseSeedObs (r : String) : Option (Nat × Nat × Nat) :=
  match r.splitOn ":" with
  | [a, b, c] => do let a ← a.toNat?; let b ← b.toNat?; let c ← c.toNat?; pure (a, b, c)
  | _ => none

end DigR

open DigR

structure DigState where
  rep : Report := {}
  circleTab : List ((Bytes × UInt64) × UInt64) := []
  blakeTab : List (Bytes × Bytes) := []
  circle2Tab : List ((UInt64 × UInt64) × UInt64) := []
  pool : Pool := {}
  held : List (Nat × BasicDigester) := []
  issued : List Nat := []
  sw : SeedWorld := {}
  maps : List (Nat × MapH) := []

def DigState.hashes (s : DigState) : Hashes where
  circle m k := ((s.circleTab.find? (fun p => p.1 == (m, k))).map (·.2)).getD 0
  sum256 m := ((s.blakeTab.find? (fun p => p.1 == m)).map (·.2)).getD []
  circle2 a b _ := ((s.circle2Tab.find? (fun p => p.1 == (a, b))).map (·.2)).getD 0

def DigState.bad (s : DigState) (lineNo : Nat) (msg : String) : DigState :=
  { s with rep := s.rep.mismatch s!"line {lineNo}: {msg}" }

def DigState.good (s : DigState) : DigState :=
  { s with rep := { s.rep with compared := s.rep.compared + 1 } }

def DigState.tag (s : DigState) (t : String) : DigState := { s with rep := s.rep.tag t }

def DigState.getHeld (s : DigState) (h : Nat) : Option BasicDigester :=
  (s.held.find? (fun p => p.1 == h)).map (·.2)

def DigState.setHeld (s : DigState) (h : Nat) (d : BasicDigester) : DigState :=
  { s with held := (h, d) :: s.held.filter (fun p => p.1 != h) }

/-- which pooled object carries stamp `prev`; `none` = a new object (or one parked before this
    trace began).  Second component: an error text if the implementation handed out an object the
    model does not have in its pool. -/
def DigState.choose (s : DigState) (prev : Nat) : Option Nat × Option String :=
  if prev == 0 then (none, none)
  else
    match s.pool.free.findIdx? (fun d => stampOf d == prev) with
    | some i => (some i, none)
    | none =>
      if s.issued.contains prev then
        let heldBy := s.held.find? (fun p => stampOf p.2 == prev)
        (none, some (match heldBy with
          | some p => s!"the pool handed out the object last stamped {prev}, which slot {p.1} still holds"
          | none => s!"the pool handed out the object last stamped {prev}, which was never returned to it"))
      else (none, none)

/-- the oracle must know every hash the model is about to evaluate -/
def DigState.needCircle (s : DigState) (m : Bytes) (k : UInt64) : Bool :=
  (s.circleTab.find? (fun p => p.1 == (m, k))).isSome

def DigState.needBlake (s : DigState) (m : Bytes) : Bool :=
  (s.blakeTab.find? (fun p => p.1 == m)).isSome

/-- one build through the model, with the pool choice reconstructed from `prev` -/
def DigState.build (s : DigState) (lineNo : Nat) (k0 k1 : UInt64) (arg : HipArg) (prev : Nat) (nohip : Bool) :
    Except DErr BasicDigester × DigState :=
  let (choice, err) := if nohip then (none, none) else s.choose prev
  let s := match err with
    | some e => s.bad lineNo e
    | none => s
  let s := if nohip then s else
    (if choice.isSome then s.tag "pool-reuse" else if prev == 0 then s.tag "pool-new" else s.tag "pool-foreign")
  let s := if !nohip && !arg.fail && k0 != 0 && !s.needCircle arg.msg k0 then
      s.bad lineNo "no ORA circle line for this (msg, k0)" else s
  let (r, p) := (Builder.new.setSeed k0 k1).digest s.hashes replayHip arg s.pool choice
  (r, { s with pool := p, issued := if nohip then s.issued else arg.stamp :: s.issued })

def DigState.cmpSeed (s : DigState) (lineNo : Nat) (what : String) (m : MapH) (r : String) : DigState :=
  let b := s.sw.builder m.builder
  let mine := s!"{m.seed.toNat}:{b.k0.toNat}:{b.k1.toNat}"
  if mine == r then s.good else s.bad lineNo s!"{what}: model seed:k0:k1 = {mine}, implementation {r}"

def DigState.getMap (s : DigState) (m : Nat) : Option MapH := (s.maps.find? (fun p => p.1 == m)).map (·.2)

def DigState.stepLine (s : DigState) (line : String) (lineNo : Nat) : DigState :=
  let ws := line.splitOn " "
  let s : DigState := { s with rep := { s.rep with lines := s.rep.lines + 1 } }
  match ws with
  | "ORA" :: "circle" :: rest =>
    let fs := fields rest
    match (fget fs "msg").bind parseHex with
    | some m => { s with circleTab := ((m, u64 fs "k0"), u64 fs "v") :: s.circleTab }
    | none => s.bad lineNo "unparsable ORA circle"
  | "ORA" :: "blake" :: rest =>
    let fs := fields rest
    match (fget fs "msg").bind parseHex, (fget fs "sum").bind parseHex with
    | some m, some sum =>
      if sum.length == 32 then { s with blakeTab := (m, sum) :: s.blakeTab }
      else s.bad lineNo "ORA blake: sum is not 32 bytes"
    | _, _ => s.bad lineNo "unparsable ORA blake"
  | "ORA" :: "circle2" :: rest =>
    let fs := fields rest
    { s with circle2Tab := ((u64 fs "a", u64 fs "b"), u64 fs "v") :: s.circle2Tab }
  | "LEVELS" :: rest =>
    let fs := fields rest
    let s := if fnat fs "n" == some levels then s.good
      else s.bad lineNo s!"Levels(): model {levels}, implementation {(fnat fs "n").getD 0}"
    if fnat fs "k1" == some k1Const.toNat then s.good
      else s.bad lineNo s!"typicalRandomConstant: model {k1Const.toNat}, implementation {(fnat fs "k1").getD 0}"
  | "BUILD" :: rest =>
    let fs := fields rest
    let s := { s with rep := { s.rep with ops := s.rep.ops + 1 } }
    let h := (fnat fs "h").getD 0
    let nohip := (fnat fs "nohip") == some 1
    let arg : HipArg := { msg := ((fget fs "msg").bind parseHex).getD [], fail := fnat fs "fail" == some 1,
                          alias := fnat fs "alias" == some 1, stamp := (fnat fs "new").getD 0 }
    let (r, s) := s.build lineNo (u64 fs "k0") (u64 fs "k1") arg ((fnat fs "prev").getD 0) nohip
    let mine := match r with
      | .ok _ => "ok"
      | .error e => s!"err:{errName e}"
    let s := match r with
      | .ok d => s.setHeld h d
      | .error _ => s
    if some mine == fget fs "r" then s.good
    else s.bad lineNo s!"BUILD h={h}: model {mine}, implementation {(fget fs "r").getD "?"}"
  | "DIG" :: rest =>
    let fs := fields rest
    let s := { s with rep := { s.rep with ops := s.rep.ops + 1 } }
    let h := (fnat fs "h").getD 0
    let l := (fnat fs "l").getD 0
    match s.getHeld h with
    | none => s.bad lineNo s!"DIG on unknown slot {h}"
    | some d =>
      let cached := d.blake3Hash != emptyBlake3Hash
      let s := if 1 ≤ l && l ≤ 3 && !cached && !s.needBlake d.msg then
          s.bad lineNo "no ORA blake line for this message" else s
      let s := if l ≥ levels then s.tag "dig-out-of-range"
        else if l == 0 then s.tag "dig-level0"
        else if cached then s.tag "dig-cache-hit" else s.tag "dig-cache-fill"
      let (r, d') := d.digest s.hashes l
      let s := s.setHeld h d'
      let mine := renderDigest r
      if some mine == fget fs "r" then s.good
      else s.bad lineNo s!"DIG h={h} l={l}: model {mine}, implementation {(fget fs "r").getD "?"}"
  | "PRE" :: rest =>
    let fs := fields rest
    let s := { s with rep := { s.rep with ops := s.rep.ops + 1 } }
    let h := (fnat fs "h").getD 0
    let l := (fnat fs "l").getD 0
    match s.getHeld h with
    | none => s.bad lineNo s!"PRE on unknown slot {h}"
    | some d =>
      let s := if 2 ≤ l && l ≤ levels && d.blake3Hash == emptyBlake3Hash && !s.needBlake d.msg then
          s.bad lineNo "no ORA blake line for this message" else s
      let s := if l > levels then s.tag "prefix-out-of-range" else s.tag "prefix"
      let (r, d') := d.digestPrefix s.hashes l
      let s := s.setHeld h d'
      let mine := renderPrefix r
      if some mine == fget fs "r" then s.good
      else s.bad lineNo s!"PRE h={h} l={l}: model {mine}, implementation {(fget fs "r").getD "?"}"
  | "RST" :: rest =>
    let fs := fields rest
    let h := (fnat fs "h").getD 0
    match s.getHeld h with
    | none => s.bad lineNo s!"RST on unknown slot {h}"
    | some d => (s.setHeld h d.reset).tag "holder-reset"
  | "MAPOP" :: rest =>
    let fs := fields rest
    let s := { s with rep := { s.rep with ops := s.rep.ops + 1 } }
    let k0 := u64 fs "k0"
    let hips := ((fget fs "hips").getD "").splitOn ";" |>.filter (· != "")
    -- every digester obtained inside one OrderedMap operation is put back before it returns
    let (s, got) := hips.foldl (fun (acc : DigState × List BasicDigester) (hp : String) =>
      let (s, got) := acc
      match hp.splitOn ":" with
      | [prev, new, msg] =>
        let arg : HipArg := { msg := (parseHex msg).getD [], fail := false, alias := false, stamp := new.toNat?.getD 0 }
        let (r, s) := s.build lineNo k0 k1Const arg (prev.toNat?.getD 0) false
        match r with
        | .ok d => (s, d :: got)
        | .error _ => (s.bad lineNo "MAPOP: the model's build failed", got)
      | _ => (s.bad lineNo "unparsable MAPOP entry", got)) (s, [])
    let s := { s with pool := got.foldl (fun p d => p.put (.basic d)) s.pool }
    (if got.length ≥ 2 then s.tag "mapop-two-digesters" else s.tag "mapop").good
  | "BNEW" :: rest =>
    let fs := fields rest
    let (b, sw) := s.sw.newBuilder
    let s := { s with sw := sw }
    if fnat fs "b" == some b then s else s.bad lineNo s!"BNEW: model reference {b}"
  | "MNEW" :: rest =>
    let fs := fields rest
    let s := { s with rep := { s.rep with ops := s.rep.ops + 1 } }
    let id : SlabID := ⟨(fnat fs "addr").getD 0, (fnat fs "idx").getD 0⟩
    let a := seedArgs id
    let s := if (s.circle2Tab.find? (fun p => p.1 == a)).isSome then s
      else s.bad lineNo s!"no ORA circle2 line for the arguments the model derives from the slab ID ({a.1.toNat}, {a.2.toNat})"
    match newMap s.hashes s.sw id ((fnat fs "b").getD 0) with
    | (some m, sw) =>
      let s := { s with sw := sw, maps := ((fnat fs "m").getD 0, m) :: s.maps }
      (s.cmpSeed lineNo "MNEW" m ((fget fs "r").getD "")).tag "seed-newmap"
    | (none, _) => s.bad lineNo "MNEW: model returned no map"
  | "MOPEN" :: rest =>
    let fs := fields rest
    match s.getMap ((fnat fs "src").getD 0) with
    | none => s.bad lineNo "MOPEN: unknown source"
    | some src =>
      let (m, sw) := newMapWithRootID s.sw src.seed ((fnat fs "b").getD 0)
      let s := { s with sw := sw, maps := ((fnat fs "m").getD 0, m) :: s.maps }
      (s.cmpSeed lineNo "MOPEN" m ((fget fs "r").getD "")).tag "seed-reopen"
  | "MCOPY" :: rest =>
    let fs := fields rest
    match s.getMap ((fnat fs "src").getD 0) with
    | none => s.bad lineNo "MCOPY: unknown source"
    | some src =>
      match copyNonRefSimple s.sw src ((fnat fs "b").getD 0) with
      | (some m, sw) =>
        let s := { s with sw := sw, maps := ((fnat fs "m").getD 0, m) :: s.maps }
        (s.cmpSeed lineNo "MCOPY" m ((fget fs "r").getD "")).tag "seed-copy"
      | (none, _) => s.bad lineNo "MCOPY: model returned no map"
  | "MBATCH" :: rest =>
    let fs := fields rest
    match newMapFromBatchData s.sw (u64 fs "seed") ((fnat fs "b").getD 0) with
    | (.ok (some m), sw) =>
      let s := { s with sw := sw, maps := ((fnat fs "m").getD 0, m) :: s.maps }
      (s.cmpSeed lineNo "MBATCH" m ((fget fs "r").getD "")).tag "seed-batch"
    | (.error e, _) =>
      if fget fs "r" == some s!"err:{errName e}" then s.good.tag "seed-batch-zero"
      else s.bad lineNo s!"MBATCH: model err:{errName e}, implementation {(fget fs "r").getD "?"}"
    | (.ok none, _) => s.bad lineNo "MBATCH: model returned no map"
  | "MCHILD" :: rest =>
    let fs := fields rest
    let (m, sw) := storedValue s.sw (u64 fs "seed")
    let s := { s with sw := sw, maps := ((fnat fs "m").getD 0, m) :: s.maps }
    (s.cmpSeed lineNo "MCHILD" m ((fget fs "r").getD "")).tag "seed-child"
  | "BQ" :: rest =>
    let fs := fields rest
    let b := s.sw.builder ((fnat fs "b").getD 0)
    let mine := s!"{b.k0.toNat}:{b.k1.toNat}"
    if some mine == fget fs "r" then s.good.tag "builder-query"
    else s.bad lineNo s!"BQ b={(fnat fs "b").getD 0}: model k0:k1 = {mine}, implementation {(fget fs "r").getD "?"}"
  | _ => s

end Atree.Replay
