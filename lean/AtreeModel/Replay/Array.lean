import AtreeModel.Dump
import AtreeModel.StorageOps
import AtreeModel.Replay.Common
import AtreeModel.Verify.Corrupt
import AtreeModel.Replay.ArrBranch
/-
  Replays the array stream of the harness on the model and compares every observation,
  net storage effect, stored-slab dump and periodic full-tree dump with the implementation's.
-/
namespace Atree.Replay
open Atree

structure ArrState where
  T : Nat := 1024
  alloc : AList Nat Nat := []          -- per-address allocation counters (the harness ledger)
  arrs : AList Nat Arr := []           -- handle → array
  aux : AList SlabID Elem := []        -- large-value slabs created so far
  pending : List String := []          -- lines the model expects next (OBS / EFF / SLB)
  rep : Report := {}
  -- persistence (C03): the storage state machine over slab dumps, and the last committed world
  store : St String String := St.init
  snapArrs : AList Nat Arr := []
  snapAux : AList SlabID Elem := []
  -- verifybad stream: the array as it was before the `BAD` lines of the current experiment
  saved : AList Nat Arr := []

/-- slabs and registers are their canonical dumps; encoding and decoding are the identity -/
def dumpCodec : Codec String String := { enc := some, dec := fun _ b => some b, size := fun _ => 0 }

namespace ArrState

def ctxFor (s : ArrState) (addr : Nat) : Ctx :=
  { ctr := (AList.find? s.alloc addr).getD 0, eff := [], created := [] }

/-- EFF line and SLB lines for an effect log, rendered from the model's post-state. -/
def effectLines (s : ArrState) (a : Arr) (c : Ctx) : List String :=
  let aux := c.created.foldl (fun m p => AList.insert m p.1 p.2) s.aux
  ("EFF " ++ Dump.netEffect c.eff) ::
  (Dump.storedIDs c.eff).map (fun id =>
    match Dump.findSlab a.ty id a.d a.root with
    | some str => "SLB " ++ str
    | none =>
      match AList.find? aux id with
      | some e => "SLB " ++ Dump.storableSlab id e
      | none => s!"SLB MISSING({id.render})")

/-- the dump of slab `id` in the post-state (tree of `a` or a large-value slab) -/
def slabDump (aux : AList SlabID Elem) (a : Arr) (id : SlabID) : String :=
  match Dump.findSlab a.ty id a.d a.root with
  | some str => str
  | none =>
    match AList.find? aux id with
    | some e => Dump.storableSlab id e
    | none => s!"MISSING({id.render})"

/-- feed an effect log into the storage state machine (stored slabs by their post-state dump:
    the write set holds pointers to the live slab objects) -/
def applyEffects (st : St String String) (aux : AList SlabID Elem) (a : Arr) (effs : List Eff) : St String String :=
  effs.foldl (fun st e =>
    match e with
    | .alloc _ _ => st
    | .store id => match st.store id (slabDump aux a id) with | .ok st' => st' | .error _ => st
    | .remove id => match st.remove id with | .ok st' => st' | .error _ => st) st

def commit (s : ArrState) (h : Nat) (a : Arr) (c : Ctx) (obs : String) : ArrState :=
  let aux := c.created.foldl (fun m p => AList.insert m p.1 p.2) s.aux
  { s with alloc := AList.insert s.alloc a.addr c.ctr,
           arrs := AList.insert s.arrs h a,
           aux := aux,
           store := applyEffects s.store aux a c.eff,
           pending := obs :: s.effectLines a c }

def resolve (s : ArrState) (e : Elem) : Elem :=
  match e.pay with
  | .ref id => (AList.find? s.aux id).getD e
  | _ => e

def listStr (l : List Elem) : String := "[" ++ ",".intercalate (l.map Dump.elem) ++ "]"

def note (s : ArrState) (msg : String) : ArrState := { s with rep := s.rep.mismatch msg }

def tagAll (s : ArrState) (ts : List String) : ArrState :=
  if ts.isEmpty then s else { s with rep := ts.foldl (fun r t => r.tag t) s.rep }

/-- apply one `OP` line -/
def applyOp (s : ArrState) (name : String) (fs : List (String × String)) (lineNo : Nat) : ArrState :=
  let h := (fnat fs "h").getD 0
  match AList.find? s.arrs h with
  | none => s.note s!"line {lineNo}: unknown handle {h}"
  | some a =>
    let c := s.ctxFor a.addr
    let val : Option Elem := (fget fs "v").bind parseSizePay |>.map (fun p => { size := p.1, pay := .val p.2 })
    let i := (fnat fs "i").getD 0
    let s := { s with rep := { s.rep with ops := s.rep.ops + 1 } }
    match name with
    | "app" | "ins" =>
      match val with
      | none => s.note s!"line {lineNo}: bad value"
      | some v =>
        match (if name == "app" then a.append s.T v c else a.insert s.T i v c) with
        | .ok (a', c') =>
          -- branch tags of the model's run (index-level split, root split); see ArrBranch.lean
          let s := s.tagAll (ArrBranch.arrInsertTags s.T a (if name == "app" then a.count else i) v a')
          s.commit h a' c' "OBS ok"
        | .error e => { s with pending := ["OBS err:" ++ Dump.aerr e, "EFF -"] }
    | "set" =>
      match val with
      | none => s.note s!"line {lineNo}: bad value"
      | some v =>
        match a.set s.T i v c with
        | .ok (old, a', c') => s.commit h a' c' ("OBS ok:" ++ Dump.elem old)
        | .error e => { s with pending := ["OBS err:" ++ Dump.aerr e, "EFF -"] }
    | "rem" =>
      match a.remove s.T i c with
      | .ok (old, a', c') =>
        -- branch tags of the model's run (index-slab merge / lend / borrow, boundary decisions, root promotion)
        let s := s.tagAll (ArrBranch.arrRemoveTags s.T a i a')
        s.commit h a' c' ("OBS ok:" ++ Dump.elem old)
      | .error e => { s with pending := ["OBS err:" ++ Dump.aerr e, "EFF -"] }
    | "pop" =>
      let (es, a', c') := a.popIterate c
      s.commit h a' c' ("OBS ok:" ++ listStr es)
    | "type" =>
      let (a', c') := a.setType ((fnat fs "ty").getD 0) c
      s.commit h a' c' "OBS ok"
    | "get" =>
      match a.get i with
      | .ok e => { s with pending := ["OBS ok:" ++ Dump.elem (s.resolve e)] }
      | .error e => { s with pending := ["OBS err:" ++ Dump.aerr e] }
    | "cnt" => { s with pending := [s!"OBS ok:{a.count}"] }
    | "iter" =>
      let lo := (fnat fs "lo").getD 0
      let hi := (fnat fs "hi").getD 0
      let res : Except AErr (List Elem) :=
        match (fget fs "mode").getD "" with
        | "ro" => .ok a.iterReadOnly
        | "mut" => a.iterMutable
        | "rorange" => a.iterReadOnlyRange lo hi
        | _ => a.iterMutableRange lo hi
      match res with
      | .ok es => { s with pending := ["OBS ok:" ++ listStr (es.map s.resolve)] }
      | .error e => { s with pending := ["OBS err:" ++ Dump.aerr e] }
    | _ => s.note s!"line {lineNo}: unknown op {name}"

/-- process one trace line -/
def stepLine (s : ArrState) (line : String) (lineNo : Nat) : ArrState :=
  let ws := line.splitOn " "
  let s := { s with rep := { s.rep with lines := s.rep.lines + 1 } }
  match ws with
  | "CFG" :: rest =>
    let fs := fields rest
    { T := (fnat fs "T").getD 1024, rep := s.rep }
  | "NEW" :: rest =>
    let fs := fields rest
    let h := (fnat fs "h").getD 0
    let addr := (fnat fs "addr").getD 1
    let (a, c) := Arr.new addr ((fnat fs "ty").getD 0) (s.ctxFor addr)
    let s' := s.commit h a c ""
    { s' with pending := s'.pending.drop 1 }
  | "OP" :: name :: rest =>
    let s := if s.pending.isEmpty then s
             else (s.note s!"line {lineNo}: model expected further lines: {s.pending}")
    applyOp { s with pending := [] } name (fields rest) lineNo
  | "DSP" :: rest =>
    match (fget (fields rest) "id").bind parseID with
    | some id => { s with aux := AList.erase s.aux id,
                          store := match s.store.remove id with | .ok st' => st' | .error _ => s.store }
    | none => s
  | "COMMIT" :: _ =>
    let r := s.store.fastCommit dumpCodec (fun _ => false)
    let logParts := r.log.map (fun c => match c with
      | .store id _ => "S:" ++ id.render
      | .remove id => "R:" ++ id.render)
    let ids := St.sortIDs (AList.keys r.st.base)
    let regs := ids.filterMap (fun id => (AList.find? r.st.base id).map (fun d => "REG " ++ d))
    { s with store := r.st, snapArrs := s.arrs, snapAux := s.aux,
             pending := [(match r.err with | none => "OBS ok" | some _ => "OBS err"),
                         "LOG " ++ (if logParts.isEmpty then "-" else " ".intercalate logParts)] ++ regs ++ ["ENDREG"] }
  | "REQ" :: rest =>
    -- a branch the directed stream requires: the MODEL's run of the trace so far must have reported it
    let t := " ".intercalate rest
    let s := { s with rep := { s.rep with compared := s.rep.compared + 1 } }
    if s.rep.tags.any (fun p => p.1 == t) then s
    else s.note s!"line {lineNo}: required branch never taken by the model: {t}"
  | "CRASH" :: _ =>
    { s with arrs := s.snapArrs, aux := s.snapAux, store := St.fresh s.store.base s.store.alloc, pending := [] }
  | "FULL" :: hs :: rest =>
    let h := (fnat (fields [hs]) "h").getD 0
    match AList.find? s.arrs h with
    | none => s.note s!"line {lineNo}: FULL for unknown handle"
    | some a =>
      let mine := " ".intercalate (Dump.tree a.ty a.d a.root)
      let theirs := " ".intercalate rest
      let s := { s with rep := { s.rep with compared := s.rep.compared + 1 } }
      if mine == theirs then s
      else s.note s!"line {lineNo}: FULL differs\n  model: {mine}\n  impl : {theirs}"
  | "BAD" :: rest =>
    -- one field of one slab overwritten on the implementation side (verifybad stream)
    let fs := fields rest
    let h := (fnat fs "h").getD 0
    match AList.find? s.arrs h, (fget fs "id").bind parseID with
    | some a, some id =>
      let nid := ((fget fs "nid").bind parseID).getD SlabID.undef
      match Verify.corrupt a id ((fget fs "f").getD "") ((fnat fs "i").getD 0) ((fnat fs "v").getD 0) nid with
      | some a' =>
        { s with arrs := AList.insert s.arrs h a',
                 saved := if AList.contains s.saved h then s.saved else AList.insert s.saved h a }
      | none => s.note s!"line {lineNo}: unknown corruption {line}"
    | _, _ => s.note s!"line {lineNo}: BAD for unknown handle / without slab id"
  | "UNDO" :: rest =>
    let h := (fnat (fields rest) "h").getD 0
    match AList.find? s.saved h with
    | some a => { s with arrs := AList.insert s.arrs h a, saved := AList.erase s.saved h }
    | none => s
  | "VFY" :: rest =>
    -- the Go verifier's verdict on the container (`VerifyArray`), to be matched by the model's
    -- transcription of it on the replayed tree
    let fs := fields rest
    let h := (fnat fs "h").getD 0
    match AList.find? s.arrs h with
    | none => s.note s!"line {lineNo}: VFY for unknown handle"
    | some a =>
      -- storage keys are those of the uncorrupted tree (overwriting a header field does not move a slab)
      let base := (AList.find? s.saved h).getD a
      let gone := (fget fs "nostore").bind parseID
      let v : Verify.AVerifier :=
        { T := s.T, address := (fnat fs "addr").getD base.addr,
          inStorage := fun id => (ATree.slabIds base.d base.root).any (fun x => decide (x = id)) &&
                                 !(decide (gone = some id)) }
      let mine := Verify.renderResult (Verify.verifyArray v (fnat fs "ty") a)
      let theirs := (fget fs "r").getD "?"
      let s := { s with rep := ({ s.rep with compared := s.rep.compared + 1 }).tag ("vfy:" ++ mine) }
      if mine == theirs then s
      else s.note s!"line {lineNo}: verifier verdicts differ\n  model: {mine}\n  impl : {theirs}"
  | kind :: _ =>
    if kind == "OBS" || kind == "EFF" || kind == "SLB" || kind == "LOG" || kind == "REG" || kind == "ENDREG" then
      match s.pending with
      | [] => s.note s!"line {lineNo}: implementation has extra line: {line}"
      | p :: ps =>
        let s := { s with pending := ps, rep := { s.rep with compared := s.rep.compared + 1 } }
        if p == line then s
        else s.note s!"line {lineNo}: differs\n  model: {p}\n  impl : {line}"
    else s
  | [] => s

end ArrState
end Atree.Replay
