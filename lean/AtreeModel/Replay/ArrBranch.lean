import AtreeModel.Array.Ops
/-
  Branch tags of the MODEL's run of an array request (audit a1 / F5, stream `arrmeta`).

  `removeTags` / `insertTags` walk the path the model's `ATree.remove` / `ATree.insert` takes and, wherever the
  updated child is an INDEX slab, report what the model's `MetaSlab.mergeOrRebalanceChildSlab` /
  `splitChildSlab` did with it: the sibling configuration (evaluated with the model's own `canLendToLeft/Right`,
  `isUnderflow`), and the function that ran, read off the result of the model's own
  `mergeOrRebalanceChildSlab` (never from a second copy of its decision table).  The tag strings are the ones the
  Go harness derives from the dumps of the real slabs (harness/cmd/trace/arrdirected.go); the `REQ` lines of a
  trace make a tag the model never produced a replay mismatch.  Not used by any theorem.
-/
namespace Atree.Replay.ArrBranch
open Atree Gen ATree MetaSlab

def emptyCtx : Ctx := { ctr := 0, eff := [], created := [] }

/-- which function the model's `mergeOrRebalanceChildSlab` ran for the underflowing child `child'` at position `k`
    of `m1`, read off ITS result: a child fewer = merge (which id disappeared), else the sibling that got smaller -/
def eventFn (T : Nat) {d : Nat} (m1 : MetaSlab (ATree d)) (child' : ATree d) (k u : Nat) : String :=
  let hasL := decide (k > 0)
  let hasR := decide (k + 1 < m1.childHdrs.length)
  let szAt (m : MetaSlab (ATree d)) (i : Nat) : Nat := ((m.childHdrs[i]?).map (·.size)).getD 0
  match m1.mergeOrRebalanceChildSlab T child' k u emptyCtx with
  | .error _ => "model-error"
  | .ok (m2, _) =>
    if m2.childHdrs.length < m1.childHdrs.length then
      (if m2.childHdrs.any (fun h => decide (h.id = (hdr d child').id)) then "child.Merge(right)" else "left.Merge(child)")
    else if hasR && decide (szAt m2 (k + 1) < szAt m1 (k + 1)) then "child.BorrowFromRight(right)"
    else if hasL && decide (szAt m2 (k - 1) < szAt m1 (k - 1)) then "left.LendToRight(child)"
    else "unexplained-rebalance"

/-- DATA-slab child underflowing by `u` next to a single sibling whose size minus `u` is exactly `minThreshold`
    (`ArrayDataSlab.CanLendToLeft/Right`: `size - need < minThreshold` decided on the boundary) -/
def dataBoundaryTags (T : Nat) {d : Nat} (m1 : MetaSlab (ATree d)) (child' : ATree d) (k u : Nat) : List String :=
  let leftSib : Option (ATree d) := if k > 0 then m1.children[k - 1]? else none
  let rightSib : Option (ATree d) := if k + 1 < m1.childHdrs.length then m1.children[k + 1]? else none
  let atB (s : ATree d) : Bool := decide ((hdr d s).size = minThr T + u)
  match leftSib, rightSib with
  | none, some r => if atB r then [s!"data:right.CanLendToLeft@boundary -> {eventFn T m1 child' k u}"] else []
  | some l, none => if atB l then [s!"data:left.CanLendToRight@boundary -> {eventFn T m1 child' k u}"] else []
  | _, _ => []

/-- the index-slab child `child'` at position `k` of `m1` underflows by `u`: configuration and function tags -/
def eventTags (T : Nat) {d : Nat} (m1 : MetaSlab (ATree d)) (child' : ATree d) (k u : Nat) : List String :=
  let leftSib : Option (ATree d) := if k > 0 then m1.children[k - 1]? else none
  let rightSib : Option (ATree d) := if k + 1 < m1.childHdrs.length then m1.children[k + 1]? else none
  let n := (u + arraySlabHeaderSize - 1) / arraySlabHeaderSize
  let atBoundary (s : ATree d) : Bool :=
    decide ((hdr d s).size ≥ arraySlabHeaderSize * n) && decide ((hdr d s).size - arraySlabHeaderSize * n = minThr T)
  let lCan := match leftSib with | some l => canLendToRight T d l u | none => false
  let rCan := match rightSib with | some r => canLendToLeft T d r u | none => false
  let lTags := match leftSib with
    | some l => [s!"fn:left.CanLendToRight={lCan}"] ++ (if atBoundary l then ["fn:left.CanLendToRight@boundary"] else [])
    | none => []
  let rTags := match rightSib with
    | some r => [s!"fn:right.CanLendToLeft={rCan}"] ++ (if atBoundary r then ["fn:right.CanLendToLeft@boundary"] else [])
    | none => []
  let sib := (if leftSib.isSome then "L" else "") ++ (if rightSib.isSome then "R" else "")
  let lend0 := (if lCan then "L" else "") ++ (if rCan then "R" else "")
  let lend := if lend0 == "" then "none" else lend0
  let bigger := match leftSib, rightSib with
    | some l, some r =>
      if lCan == rCan then
        (if (hdr d l).size > (hdr d r).size then " bigger=L"
         else if (hdr d l).size < (hdr d r).size then " bigger=R" else " bigger=none")
      else ""
    | _, _ => ""
  let cfg := s!"siblings={sib} can-lend={lend}{bigger}"
  let fn := eventFn T m1 child' k u
  lTags ++ rTags ++ ["fn:" ++ fn, cfg ++ " -> " ++ fn]

/-- tags of the model's `ATree.remove T d t i` (index-slab children only) -/
def removeTags (T : Nat) : (d : Nat) → ATree d → Nat → List String
  | 0, _, _ => []
  | d + 1, (m : MetaSlab (ATree d)), i =>
    match m.childSlabIndexInfo i with
    | .error _ => []
    | .ok (k, adj) =>
      match m.children[k]? with
      | none => []
      | some child =>
        let below := removeTags T d child adj
        match ATree.remove T d child adj emptyCtx with
        | .error _ => below
        | .ok (_, child', _) =>
          let m1 : MetaSlab (ATree d) :=
            { m with hdr := { m.hdr with count := m.hdr.count - 1 },
                     countSum := bumpFrom k (· - 1) m.countSum,
                     childHdrs := m.childHdrs.set k (hdr d child'),
                     children := m.children.set k child' }
          if d == 0 then
            match isUnderflow T d child' with
            | some u => below ++ dataBoundaryTags T m1 child' k u
            | none => below
          else
            match isUnderflow T d child' with
            | some u => below ++ eventTags T m1 child' k u
            | none =>
              -- an index slab of exactly minThreshold bytes is NOT rebalanced (`minThreshold > size`)
              if (hdr d child').size == minThr T then below ++ ["fn:IsUnderflow@boundary=false"] else below

/-- tags of the model's `ATree.insert T d t i e`: an index-slab child that became full is split -/
def insertTags (T : Nat) : (d : Nat) → ATree d → Nat → Elem → List String
  | 0, _, _, _ => []
  | d + 1, (m : MetaSlab (ATree d)), i, e =>
    if i > m.hdr.count then []
    else
      let r : Except AErr (Nat × Nat) :=
        if i = m.hdr.count then
          match m.childHdrs.getLast? with
          | some h => .ok (m.childHdrs.length - 1, h.count)
          | none => .error .goPanic
        else m.childSlabIndexInfo i
      match r with
      | .error _ => []
      | .ok (k, adj) =>
        match m.children[k]? with
        | none => []
        | some child =>
          let below := insertTags T d child adj e
          if d == 0 then below
          else
            match ATree.insert T d child adj e emptyCtx with
            | .error _ => below
            | .ok (child', _) =>
              if isFull T d child' then below ++ ["fn:index.Split"]
              -- an index slab of exactly maxThreshold bytes is NOT split (`size > maxThreshold`)
              else if (hdr d child').size == maxThr T then below ++ ["fn:IsFull@boundary=false"] else below

/-- all tags of `Arr.remove T a i` with result `a'` (slab levels are `d + 1`) -/
def arrRemoveTags (T : Nat) (a : Arr) (i : Nat) (a' : Arr) : List String :=
  let ts := if a.d ≥ 1 then removeTags T a.d a.root i else []
  let promote := if a'.d < a.d then [s!"fn:root-promote:{a.d + 1}->{a'.d + 1}"] else []
  let collapse :=
    if a'.d < a.d && ts.any (fun t => t == "fn:child.Merge(right)" || t == "fn:left.Merge(child)")
    then ["fn:root-collapse-after-Merge"] else []
  ts ++ promote ++ collapse

/-- all tags of `Arr.insert T a i v` with result `a'` -/
def arrInsertTags (T : Nat) (a : Arr) (i : Nat) (v : Elem) (a' : Arr) : List String :=
  (if a.d ≥ 2 then insertTags T a.d a.root i v else []) ++
  (if a'.d > a.d then [s!"fn:root-split:{a.d + 1}->{a'.d + 1}"] else [])

end Atree.Replay.ArrBranch
