import AtreeModel.Array.Iter
import AtreeModel.Map.Iter
import AtreeModel.Array.IterObj
import AtreeModel.Map.IterObj
import AtreeModel.Replay.Array
import AtreeModel.Replay.Map
/-
  Replays the "iter" stream of the harness (property C13).

  The stream builds arrays and maps with ordinary operations in the vocabulary of the "array" and
  "map" streams; those lines are handed to the existing replayers (`ArrState`, `MapState`), which
  rebuild the model trees and keep comparing every observation, effect and slab dump.  The lines
  added by this stream are

    PROG kind=arr|map                       which of the two replayers gets the following lines
    IT arr h=<h> kind=loaded ld=<ids>       loaded-value iteration with these slab IDs loaded
    IT arr h=<h> kind=mutset sets=<i:size:pay;...>   mutable iteration overwriting the current element
    IT map h=<h> kind=loaded ld=<ids>
    IT map h=<h> kind=mut|ro|keys|rokeys|vals|rovals
    IT map h=<h> kind=mutset sets=<keypay:size:pay;...>

    IT arr h=<h> kind=stop fl=<ro|mut|rorange|mutrange|loaded> lo=<lo> hi=<hi> ld=<ids> stop=<k>
                                            callback loop whose callback answers resume=false at its k-th call
    IT arr h=<h> kind=obj fl=<…> lo=<lo> hi=<hi> ld=<ids> n=<N>
                                            iterator object: CanMutate() and N successive Next() calls
    IT map h=<h> kind=stop fl=<mut|ro|loaded> call=<N|K|V> ld=<ids> stop=<k>
    IT map h=<h> kind=obj fl=<mut|ro|loaded> ld=<ids> calls=<string over N K V>
                                            ONE iterator object, Next / NextKey / NextValue interleaved

  each followed by the implementation's `OBS` line (and `EFF` / `SLB` lines for `mutset`).  The model's
  expected lines are queued in the `pending` list of the sub-replayer, which compares them.
-/
namespace Atree.Replay
open Atree

structure IterState where
  arr   : ArrState := {}
  map   : MapState := {}
  isMap : Bool := false
  own   : Report := {}       -- `IT` operations and mismatches found here

namespace IterState

def parseIDs (s : String) : List SlabID :=
  if s == "-" || s.isEmpty then [] else (s.splitOn ",").filterMap parseID

def loadedPred (ids : List SlabID) : SlabID → Bool := fun id => ids.contains id

/-- `i:size:pay;...` -/
def parseSets (s : String) : List (Nat × Elem) :=
  if s == "-" || s.isEmpty then []
  else (s.splitOn ";").filterMap (fun part =>
    match part.splitOn ":" with
    | [a, b, c] => do
      let a ← a.toNat?; let b ← b.toNat?; let c ← c.toNat?
      pure (a, ({ size := b, pay := .val c } : Elem))
    | _ => none)

def lookupSet (sets : List (Nat × Elem)) (i : Nat) : Option Elem :=
  (sets.find? (fun p => p.1 == i)).map (·.2)

def keysStr (l : List MKey) : String := "[" ++ ",".intercalate (l.map Dump.mkey) ++ "]"

def miterErr : MIterErr → String
  | .op e => Dump.merr e
  | .slabData => "SlabData:Fatal"

def noteOwn (s : IterState) (msg : String) : IterState := { s with own := s.own.mismatch msg }

def aiterErr : AIterErr → String
  | .op e => Dump.aerr e
  | .slabData => "SlabData:Fatal"

def arrFlavour (fs : List (String × String)) : Arr.Flavour :=
  let lo := (fnat fs "lo").getD 0
  let hi := (fnat fs "hi").getD 0
  match (fget fs "fl").getD "" with
  | "ro" => .ro
  | "mut" => .mut
  | "rorange" => .roRange lo hi
  | "mutrange" => .mutRange lo hi
  | _ => .loaded

/-- the result of running the flavour to its end by the LIST functions of Array/Ops.lean and
    Array/Iter.lean (what the C13 theorems are about) -/
def arrFlavourList (a : Arr) (ld : SlabID → Bool) : Arr.Flavour → Except AErr (List Elem)
  | .ro => .ok a.iterReadOnly
  | .mut => a.iterMutable
  | .roRange lo hi => a.iterReadOnlyRange lo hi
  | .mutRange lo hi => a.iterMutableRange lo hi
  | .loaded => .ok (a.iterLoaded ld)

def optElemStr (sub : ArrState) : Option Elem → String
  | none => "nil"
  | some e => Dump.elem (sub.resolve e)

def mapCall : Char → MapCall
  | 'K' => .nextKey
  | 'V' => .nextValue
  | _ => .next

def mapFlavour (fs : List (String × String)) : OMap.IterFlavour :=
  match (fget fs "fl").getD "" with
  | "ro" => .ro
  | "mut" => .mut
  | _ => .loaded

def mapRetStr (sub : MapState) : MapRet → String
  | .nil => "nil"
  | .pair k v => sub.pairStr true (k, v)
  | .key k => Dump.mkey k
  | .value v => Dump.elem (sub.resolve v)

/-- `IT arr …` -/
def itArr (s : IterState) (fs : List (String × String)) (lineNo : Nat) : IterState :=
  let h := (fnat fs "h").getD 0
  let s := { s with own := { s.own with ops := s.own.ops + 1 } }
  match AList.find? s.arr.arrs h with
  | none => s.noteOwn s!"line {lineNo}: IT for unknown array handle {h}"
  | some a =>
    let sub := s.arr
    let sub := if sub.pending.isEmpty then sub
               else sub.note s!"line {lineNo}: model expected further lines: {sub.pending}"
    match (fget fs "kind").getD "" with
    | "loaded" =>
      let ld := loadedPred (parseIDs ((fget fs "ld").getD "-"))
      let rec1 := a.iterLoaded ld
      let sm := a.iterLoadedSM ld
      let s := if rec1 == sm then s
               else s.noteOwn s!"line {lineNo}: the two model transcriptions of the loaded-value iterator disagree"
      { s with arr := { sub with pending := ["OBS ok:" ++ ArrState.listStr (rec1.map sub.resolve)] },
               own := s.own.tag "arr:loaded" }
    | "mutset" =>
      let sets := parseSets ((fget fs "sets").getD "-")
      let c := sub.ctxFor a.addr
      match a.iterateWith sub.T (fun i _ => lookupSet sets i) c with
      | .ok (es, a', c') =>
        -- values are rendered as they were when handed to the callback
        let obs := "OBS ok:" ++ ArrState.listStr (es.map sub.resolve)
        { s with arr := ({ sub with pending := [] }).commit h a' c' obs, own := s.own.tag "arr:mutset" }
      | .error e =>
        { s with arr := { sub with pending := ["OBS err:" ++ Dump.aerr e, "EFF -"] } }
    | "stop" =>
      let ld := loadedPred (parseIDs ((fget fs "ld").getD "-"))
      let f := arrFlavour fs
      let k := (fnat fs "stop").getD 0
      -- the state machine run to its end must be the list function the theorems talk about
      let full := a.iterateFlavour ld f (neverStop Elem)
      let agree : Bool :=
        match full, arrFlavourList a ld f with
        | .ok l1, .ok l2 => l1 == l2
        | .error (.op e1), .error e2 => e1 == e2
        | _, _ => false
      let s := if agree then s
               else s.noteOwn s!"line {lineNo}: iterator object run to its end and the list form of the iteration disagree"
      let line := match a.iterateFlavour ld f (stopAt Elem k) with
        | .ok es => "OBS ok:" ++ ArrState.listStr (es.map sub.resolve)
        | .error e => "OBS err:" ++ aiterErr e
      { s with arr := { sub with pending := [line] }, own := s.own.tag "arr:stop" }
    | "obj" =>
      let ld := loadedPred (parseIDs ((fget fs "ld").getD "-"))
      let line := match a.stepFlavour ld (arrFlavour fs) ((fnat fs "n").getD 0) with
        | .ok (cm, l) => "OBS ok:mut=" ++ (if cm then "1" else "0") ++ ";[" ++ ",".intercalate (l.map (optElemStr sub)) ++ "]"
        | .error e => "OBS err:" ++ aiterErr e
      { s with arr := { sub with pending := [line] }, own := s.own.tag "arr:obj" }
    | k => s.noteOwn s!"line {lineNo}: unknown IT arr kind {k}"

/-- `IT map …` -/
def itMap (s : IterState) (fs : List (String × String)) (lineNo : Nat) : IterState :=
  let h := (fnat fs "h").getD 0
  let s := { s with own := { s.own with ops := s.own.ops + 1 } }
  let found : Option (Σ r, OMap r) := AList.find? s.map.maps h
  match found, AList.find? s.map.cfgs h with
  | some ⟨_, m⟩, some cfg =>
    let sub := s.map
    let sub := if sub.pending.isEmpty then sub
               else sub.note s!"line {lineNo}: model expected further lines: {sub.pending}"
    let pairs (l : List (MKey × Elem)) : String := "[" ++ ",".intercalate (l.map (sub.pairStr true)) ++ "]"
    let vals (l : List Elem) : String := ArrState.listStr (l.map sub.resolve)
    let s := if m.leafIdsOk then s
             else s.noteOwn s!"line {lineNo}: data-slab IDs of the model tree are not pairwise different and defined"
    let expect (line : String) (tag : String) : IterState :=
      { s with map := { sub with pending := [line] }, own := s.own.tag tag }
    match (fget fs "kind").getD "" with
    | "loaded" =>
      let ld := loadedPred (parseIDs ((fget fs "ld").getD "-"))
      expect ("OBS ok:" ++ pairs (m.iterLoaded ld)) "map:loaded"
    | "mut" =>
      match m.iterMutable cfg with
      | .ok l => expect ("OBS ok:" ++ pairs l) "map:mut"
      | .error e => expect ("OBS err:" ++ miterErr e) "map:mut"
    | "ro" =>
      match m.iterReadOnly with
      | .ok l => expect ("OBS ok:" ++ pairs l) "map:ro"
      | .error e => expect ("OBS err:" ++ Dump.merr e) "map:ro"
    | "keys" =>
      match m.iterMutableKeys cfg with
      | .ok l => expect ("OBS ok:" ++ keysStr l) "map:keys"
      | .error e => expect ("OBS err:" ++ miterErr e) "map:keys"
    | "rokeys" =>
      match m.iterReadOnlyKeys with
      | .ok l => expect ("OBS ok:" ++ keysStr l) "map:rokeys"
      | .error e => expect ("OBS err:" ++ Dump.merr e) "map:rokeys"
    | "vals" =>
      match m.iterMutableValues cfg with
      | .ok l => expect ("OBS ok:" ++ vals l) "map:vals"
      | .error e => expect ("OBS err:" ++ miterErr e) "map:vals"
    | "rovals" =>
      match m.iterReadOnlyValues with
      | .ok l => expect ("OBS ok:" ++ vals l) "map:rovals"
      | .error e => expect ("OBS err:" ++ Dump.merr e) "map:rovals"
    | "mutset" =>
      let sets := parseSets ((fget fs "sets").getD "-")
      let c := sub.ctxFor m.addr
      match m.iterateWith cfg (fun k _ => lookupSet sets k.pay) c with
      | .ok (l, m', c') =>
        { s with map := ({ sub with pending := [] }).commit h m' c' ["OBS ok:" ++ pairs l],
                 own := s.own.tag "map:mutset" }
      | .error e =>
        { s with map := { sub with pending := ["OBS err:" ++ miterErr e, "EFF -"] } }
    | "stop" =>
      let ld := loadedPred (parseIDs ((fget fs "ld").getD "-"))
      let call := mapCall (((fget fs "call").getD "N").front)
      let k := (fnat fs "stop").getD 0
      let f := mapFlavour fs
      -- the iterator object run to its end must be the list function the theorems talk about
      let full := m.iterateFlavour cfg ld f .next (neverStop MapRet)
      let listForm : Except MIterErr (List (MKey × Elem)) :=
        match f with
        | .mut => m.iterMutable cfg
        | .ro => match m.iterReadOnly with | .ok l => .ok l | .error e => .error (.op e)
        | .loaded => .ok (m.iterLoaded ld)
      let agree : Bool :=
        match full, listForm with
        | .ok l1, .ok l2 => l1 == l2.map (fun p => MapRet.pair p.1 p.2)
        | .error e1, .error e2 => e1 == e2
        | _, _ => false
      let s := if agree then s
               else s.noteOwn s!"line {lineNo}: map iterator object run to its end and the list form of the iteration disagree"
      match m.iterateFlavour cfg ld f call (stopAt MapRet k) with
      | .ok l => { s with map := { sub with pending := ["OBS ok:[" ++ ",".intercalate (l.map (mapRetStr sub)) ++ "]"] },
                          own := s.own.tag "map:stop" }
      | .error e => { s with map := { sub with pending := ["OBS err:" ++ miterErr e] }, own := s.own.tag "map:stop" }
    | "obj" =>
      let ld := loadedPred (parseIDs ((fget fs "ld").getD "-"))
      let calls := (((fget fs "calls").getD "").toList).map mapCall
      match m.stepCalls cfg ld (mapFlavour fs) calls with
      | .ok (cm, l) =>
        let line := "OBS ok:mut=" ++ (if cm then "1" else "0") ++ ";[" ++ ",".intercalate (l.map (mapRetStr sub)) ++ "]"
        { s with map := { sub with pending := [line] }, own := s.own.tag "map:obj" }
      | .error e => { s with map := { sub with pending := ["OBS err:" ++ miterErr e] }, own := s.own.tag "map:obj" }
    | k => s.noteOwn s!"line {lineNo}: unknown IT map kind {k}"
  | _, _ => s.noteOwn s!"line {lineNo}: IT for unknown map handle {h}"

def stepLine (s : IterState) (line : String) (lineNo : Nat) : IterState :=
  match line.splitOn " " with
  | "PROG" :: rest =>
    let s := { s with own := { s.own with lines := s.own.lines + 1 } }
    { s with isMap := (fget (fields rest) "kind").getD "arr" == "map" }
  | "IT" :: "arr" :: rest =>
    itArr { s with own := { s.own with lines := s.own.lines + 1 } } (fields rest) lineNo
  | "IT" :: "map" :: rest =>
    itMap { s with own := { s.own with lines := s.own.lines + 1 } } (fields rest) lineNo
  | _ =>
    if s.isMap then { s with map := s.map.stepLine line lineNo }
    else { s with arr := s.arr.stepLine line lineNo }

/-- lines still expected by a sub-replayer when the trace ends -/
def finish (s : IterState) : IterState :=
  let s := if s.arr.pending.isEmpty then s
           else s.noteOwn s!"end of trace: array model expected further lines: {s.arr.pending}"
  if s.map.pending.isEmpty then s
  else s.noteOwn s!"end of trace: map model expected further lines: {s.map.pending}"

/-- the combined report of the two sub-replayers and this one -/
def report (s : IterState) : Report :=
  let rs := [s.arr.rep, s.map.rep, s.own]
  { lines := (rs.map (·.lines)).sum,
    ops := (rs.map (·.ops)).sum,
    compared := (rs.map (·.compared)).sum,
    nMismatch := (rs.map (·.nMismatch)).sum,
    mismatches := ((rs.flatMap (fun r => r.mismatches.reverse)).take 5).reverse,
    tags := s.own.tags }

end IterState
end Atree.Replay
