import AtreeModel.World
import AtreeModel.Map.Dump
import AtreeModel.Replay.Common
import AtreeModel.Replay.WorldCodec
/- Replays the nested-container stream on the World model. -/
namespace Atree.Replay
open Atree

namespace WDump

def wrapLayers : Nat → Nat → String → String
  | 0, isz, inner => s!"{isz}:{inner}"
  | n + 1, isz, inner => s!"{isz + 2 * (n + 1)}:W({wrapLayers n isz inner})"

mutual
/-- an element of a parent slab, resolving references to nested containers -/
def elemW (fuel : Nat) (w : World) (e : Elem) : String :=
  match fuel with
  | 0 => Dump.elem e
  | fuel + 1 =>
    match e.pay with
    | .val _ => Dump.elem e
    | .ref vid =>
      match w.cont? vid with
      | none => Dump.elem e
      | some c =>
        if c.isInlined then
          wrapLayers ((e.size - c.rootSize) / 2) c.rootSize (contRoot fuel w c)
        else
          wrapLayers ((e.size - slabIDStorableSize) / 2) slabIDStorableSize ("R" ++ vid.render)

/-- dump of the root slab of a single-slab container (as an inlined element) -/
def contRoot (fuel : Nat) (w : World) (c : Cont) : String :=
  match c with
  | .arr ⟨0, (s : DataSlab), ty⟩ => Dump.dataSlabR (elemW fuel w) s ty
  | .arr _ => "?multi-slab-inlined"
  | .map ⟨0, (s : MDataSlab 3), ty, cnt, seed⟩ =>
    (Dump.mdataSlabR (elemW fuel w) (⟨0, s, ty, cnt, seed⟩ : OMap 3) s).1
  | .map _ => "?multi-slab-inlined"
end

/-- all stand-alone slabs of a container (id ↦ dump), pre-order.  An INLINED map has no slab of its
    own but still owns the external collision-group slabs of its elements (audit a5, F1); the
    containers nested in it are listed by their own entries of `World.conts`. -/
def contSlabs (w : World) (c : Cont) : List (SlabID × String) :=
  let re := elemW (w.conts.length + 2) w
  match c with
  | .arr a =>
    if a.isInlined then [] else
    (ATree.slabIds a.d a.root).zip (Dump.treeR re a.ty a.d a.root)
  | .map m =>
    if m.isInlined then
      match m with
      | ⟨0, (s : MDataSlab 3), ty, cnt, seed⟩ =>
        (Dump.mdataSlabR re (⟨0, s, ty, cnt, seed⟩ : OMap 3) s).2
      | _ => []
    else Dump.mtreeR re m m.d m.root

end WDump

structure WState where
  w : World := { T := 1024, addr := 1 }
  alloc : AList Nat Nat := []
  handles : AList Nat SlabID := []
  aux : AList SlabID Elem := []
  pending : List String := []
  /-- the codec-level slabs (`World.toCodec`) of the IDs the last operation stored -/
  codec : List (SlabID × Codec.Slab) := []
  rep : Report := {}

namespace WState

def note (s : WState) (msg : String) : WState := { s with rep := s.rep.mismatch msg }

def ctx (s : WState) : Ctx := { ctr := (AList.find? s.alloc s.w.addr).getD 0, eff := [], created := [] }

def parseVal (s : WState) (str : String) : Option WVal :=
  if str.startsWith "C" then
    match ((str.drop 1).toString).splitOn "w" with
    | [h, wr] => do
      let h ← h.toNat?
      let wr ← wr.toNat?
      let vid ← AList.find? s.handles h
      pure (.child vid wr)
    | _ => none
  else (parseSizePay str).map (fun p => .plain { size := p.1, pay := .val p.2 })

def parseKey (str : String) : Option MKey :=
  match str.splitOn "@" with
  | [sp, ds] => do
    let (sz, pay) ← parseSizePay sp
    pure { size := sz, pay := pay, digs := if ds.isEmpty then [] else (ds.splitOn ",").filterMap String.toNat? }
  | _ => none

def effectLines (w : World) (aux : AList SlabID Elem) (c : Ctx) : List String :=
  let slabs := w.conts.flatMap (fun p => WDump.contSlabs w p.2)
  ("EFF " ++ Dump.netEffect c.eff) ::
  (Dump.storedIDs c.eff).map (fun id =>
    match AList.find? slabs id with
    | some str => "SLB " ++ str
    | none =>
      match AList.find? aux id with
      | some e => "SLB " ++ Dump.storableSlab id e
      | none => s!"SLB MISSING({id.render})")

def commit (s : WState) (w : World) (c : Ctx) (obs : List String) : WState :=
  let aux := c.created.foldl (fun a p => AList.insert a p.1 p.2) s.aux
  let stored := Dump.storedIDs c.eff
  let heap := if stored.isEmpty then [] else w.codecHeap
  { s with w := w, alloc := AList.insert s.alloc w.addr c.ctr, aux := aux,
           pending := obs ++ effectLines w aux c,
           codec := stored.filterMap (fun id => (AList.find? heap id).map (fun sl => (id, sl))) }

def werr : WErr → String
  | .arr e => Dump.aerr e
  | .map e => Dump.merr e
  | .fatal => "Other:Fatal"
  | .unknownContainer => "MODEL:unknown-container"
  | .outOfFuel => "MODEL:out-of-fuel"

def renderOld (s : WState) (w : World) (e : Elem) : String := WDump.elemW (w.conts.length + 2) w e

/-- one token of an `HST` line (handle bookkeeping of the implementation, hooks
    `VerifArrayHasParentUpdater` / `VerifMapHasParentUpdater` / `VerifArrayMutableElementIndex`):
    `<h>:<parentUpdater set>[:<mutableElementIndex, sorted by rendered value ID>]`, rendered from
    the model's `hinfo` / `mutIdx` for the handle number the implementation's token names -/
def hstToken (s : WState) (tok : String) : String :=
  let hs := (tok.splitOn ":").headD ""
  match hs.toNat?.bind (AList.find? s.handles) with
  | none => s!"{hs}:?unknown-handle"
  | some vid =>
    match s.w.cont? vid with
    | none => s!"{hs}:?no-container"
    | some c =>
      let u := if (AList.find? s.w.hinfo vid).isSome then "1" else "0"
      match c with
      | .map _ => s!"{hs}:{u}"
      | .arr _ =>
        let es := ((s.w.idxOf vid).map (fun e => (e.1.render, e.2))).mergeSort (fun a b => !(b.1 < a.1))
        s!"{hs}:{u}:" ++ ",".intercalate (es.map (fun e => s!"{e.1}={e.2}"))

def applyOp (s : WState) (name : String) (fs : List (String × String)) (lineNo : Nat) : WState :=
  let s := { s with rep := { s.rep with ops := s.rep.ops + 1 } }
  let h := (fnat fs "h").getD 0
  match AList.find? s.handles h with
  | none => s.note s!"line {lineNo}: unknown handle {h}"
  | some p =>
    let c := s.ctx
    let i := (fnat fs "i").getD 0
    let val := (fget fs "v").bind s.parseVal
    let key := (fget fs "k").bind parseKey
    let fail := fun (e : WErr) => { s with pending := ["OBS err:" ++ werr e, "EFF -"] }
    match name with
    | "ains" =>
      match val with
      | none => s.note s!"line {lineNo}: bad value"
      | some v =>
        match s.w.arrInsert p i v c with
        | .ok (w, c) => s.commit w c ["OBS ok"]
        | .error e => fail e
    | "aset" =>
      match val with
      | none => s.note s!"line {lineNo}: bad value"
      | some v =>
        match s.w.arrSet p i v c with
        | .ok (old, w, c) => s.commit w c ["OBS ok:" ++ s.renderOld w old]
        | .error e => fail e
    | "arem" =>
      match s.w.arrRemove p i c with
      | .ok (old, w, c) => s.commit w c ["OBS ok:" ++ s.renderOld w old]
      | .error e => fail e
    | "mset" =>
      match key, val with
      | some k, some v =>
        match s.w.mapSet p k v c with
        | .ok (old, w, c) =>
          s.commit w c [match old with | none => "OBS ok:none" | some o => "OBS ok:" ++ s.renderOld w o]
        | .error e => fail e
      | _, _ => s.note s!"line {lineNo}: bad key/value"
    | "mrem" =>
      match key with
      | some k =>
        match s.w.mapRemove p k c with
        | .ok (rk, rv, w, c) => s.commit w c ["OBS ok:" ++ Dump.mkey rk ++ "," ++ s.renderOld w rv]
        | .error e => fail e
      | none => s.note s!"line {lineNo}: bad key"
    | "aget" =>
      match s.w.arrGet p i with
      | .ok (_, w) => s.commit w c ["OBS ok"]
      | .error e => fail e
    | "mget" =>
      match key with
      | some k =>
        match s.w.mapGet p k with
        | .ok (_, w) => s.commit w c ["OBS ok"]
        | .error e => fail e
      | none => s.note s!"line {lineNo}: bad key"
    | "sty" =>
      match s.w.setType p ((fnat fs "ty").getD 0) c with
      | .ok (w, c) => s.commit w c ["OBS ok"]
      | .error e => fail e
    | "apop" =>
      match s.w.arrPopKeep p (((fnat fs "keep").bind (AList.find? s.handles)).toList) c with
      | .ok (es, w, c) => s.commit w c ["OBS ok:" ++ "|".intercalate (es.map (s.renderOld s.w))]
      | .error e => fail e
    | "mpop" =>
      match s.w.mapPopKeep p (((fnat fs "keep").bind (AList.find? s.handles)).toList) c with
      | .ok (kvs, w, c) =>
        s.commit w c ["OBS ok:" ++ "|".intercalate (kvs.map (fun kv => Dump.mkey kv.1 ++ "," ++ s.renderOld s.w kv.2))]
      | .error e => fail e
    | _ => s.note s!"line {lineNo}: unknown op {name}"

def stepLine (s : WState) (line : String) (lineNo : Nat) : WState :=
  let ws := line.splitOn " "
  let s := { s with rep := { s.rep with lines := s.rep.lines + 1 } }
  match ws with
  | "CFG" :: rest => { w := { T := (fnat (fields rest) "T").getD 1024, addr := 1 }, rep := s.rep }
  | "WNEW" :: rest =>
    let fs := fields rest
    let h := (fnat fs "h").getD 0
    let addr := (fnat fs "addr").getD 1
    let s := { s with w := { s.w with addr := addr } }
    let ty := (fnat fs "ty").getD 0
    let (vid, w, c) :=
      if (fget fs "kind").getD "a" == "a" then s.w.newArr ty s.ctx
      else s.w.newMap ty ((fnat fs "seed").getD 0) s.ctx
    let s' := s.commit w c []
    { s' with handles := AList.insert s'.handles h vid }
  | "OP" :: name :: rest =>
    let s := if s.pending.isEmpty then s
             else s.note s!"line {lineNo}: model expected further lines: {s.pending}"
    applyOp { s with pending := [] } name (fields rest) lineNo
  | "DSP" :: rest =>
    match (fget (fields rest) "id").bind parseID with
    | some id => { s with aux := AList.erase s.aux id }
    | none => s
  | "FULL" :: hs :: rest =>
    let h := (fnat (fields [hs]) "h").getD 0
    match (AList.find? s.handles h).bind s.w.cont? with
    | none => s.note s!"line {lineNo}: FULL for unknown handle"
    | some c =>
      let mine := " ".intercalate ((WDump.contSlabs s.w c).map (·.2))
      let theirs := " ".intercalate rest
      let s := { s with rep := { s.rep with compared := s.rep.compared + 1 } }
      if mine == theirs then s
      else s.note s!"line {lineNo}: FULL differs\n  model: {mine}\n  impl : {theirs}"
  | "HST" :: rest =>
    let mine := " ".intercalate (rest.map s.hstToken)
    let theirs := " ".intercalate rest
    let s := { s with rep := { s.rep with compared := s.rep.compared + 1 } }
    if mine == theirs then s
    else s.note s!"line {lineNo}: HST (parent callbacks / mutableElementIndex) differs\n  model: {mine}\n  impl : {theirs}"
  | "COMMIT" :: _ => { s with pending := ["OBS ok"] }
  | "REOPEN" :: _ => { s with w := s.w.reopen }
  | "FORGET" :: rest =>
    match (fnat (fields rest) "h").bind (AList.find? s.handles) with
    | some vid => { s with w := World.forget s.w.fuelOf s.w vid }
    | none => s.note s!"line {lineNo}: FORGET for unknown handle"
  | kind :: _ =>
    if kind == "OBS" || kind == "EFF" || kind == "SLB" then
      match s.pending with
      | [] => s.note s!"line {lineNo}: implementation has extra line: {line}"
      | p :: ps =>
        let s := { s with pending := ps, rep := { s.rep with compared := s.rep.compared + 1 } }
        -- a removed map key is rendered `*` by the harness when the value is what matters
        let same := p == line ||
          (line.startsWith "OBS ok:*," && p.startsWith "OBS ok:" &&
            (line.drop 9).toString == ((p.splitOn ",").drop 1 |> ",".intercalate))
        if same then
          -- the translation `World.toCodec` against the slab parsed from the implementation's dump
          if kind == "SLB" && !line.startsWith "SLB MISSING" then
            let s := { s with rep := { (s.rep.tag "SLB:codec") with compared := s.rep.compared + 1 } }
            let (res, tags) := checkSLB s.codec s.aux (sdrop line 4)
            let s := { s with rep := tags.foldl (fun r t => r.tag t) s.rep }
            match res with
            | none => s
            | some msg => s.note s!"line {lineNo}: {msg}"
          else s
        else s.note s!"line {lineNo}: differs\n  model: {p}\n  impl : {line}"
    else s
  | [] => s

end WState
end Atree.Replay
