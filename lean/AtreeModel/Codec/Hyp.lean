import AtreeModel.Codec.Limits
import AtreeModel.Codec.Decode
/-
  Executable (Bool-valued) versions of the hypotheses of the codec theorems of C06 / C07.

  The theorems about slabs (`AtreeProofs/Props/C07.lean`) assume predicates — `DataOK`, `MetaOK`,
  `validElem`, `MapMetaOK`, `MapDataOK`, `ArrDataOKW`, `MapDataOKI`, `ArrDataOKI`, `MapDataOKC`,
  `ArrDataOKC`, `MapDataOKX`, `ArrDataOKX`, `ArrDataOKWX` (the last three: with the exact nesting
  clause `Slab.vdepth ≤ maxNestedLevels`), built from `Stor.RT`, `Stor.RTI`, `Stor.OK`, `noInl`, `noCompact`, `nodupKeys`,
  `vneed`, `vneedI`, `validTy`, `validMapExtra`, `validNext`, `XOK`, `XOKC` — that live in
  `AtreeProofs` (Prop-valued, not importable here).  This file re-defines every one of them as a
  `Bool` (resp. `Nat`) function with the same recursion, clause by clause, so that the trace replayer
  can EVALUATE them on every slab the implementation encodes (`Slab.hypReport`).
  `AtreeProofs/Codec/HypB.lean` proves `xB v = true ↔ X v` for each of them, and
  `AtreeProofs/Props/C07Hyp.lean` that a slab on which the check passes is in the domain of the
  round-trip theorems.

  Cost: every checker visits each node of the slab once per enclosing inlined slab / element group
  (the size clauses recompute `Stor.size` of the children), i.e. linear in the slab size times the
  nesting depth (which the `nest` clause bounds by 32; in the traces it is below 10).  The only
  super-linear piece is `nodupB` on the keys of a compact-eligible map (quadratic in the number of
  keys of ONE map; these are field lists of composites, a few dozen at most).  The `entries` clause
  and `Slab.vdepth` run the element encoder once each to obtain the shared extra-data list.
-/
namespace Atree.Codec
open Atree Atree.Gen

/-! ### scalars -/

/-- `validElem` (Encode.lean) -/
def validElemB (e : Elem) : Bool :=
  match e.pay with
  | .ref id => decide (e.size = slabIDStorableSize) && (decide (id.addr < 2 ^ 64) && decide (id.idx < 2 ^ 64))
  | .val p =>
    decide (1 ≤ e.size) && (decide (e.size ≠ 65540) && (decide (e.size < 2 ^ 32) &&
      decide (p < 256 ^ (min (tvLen e.size) 8))))

/-- `validTy` (RoundTrip.lean) -/
def validTyB : TyInfo → Bool
  | .plain n => decide (n < 2 ^ 64)
  | .composite n => decide (n < 2 ^ 64)

/-- `validMapExtra` (RoundTripM.lean) -/
def validMapExtraB (x : MapExtra) : Bool :=
  validTyB x.ty && (decide (x.count < 2 ^ 64) && decide (x.seed < 2 ^ 64))

/-- `validNext` (RoundTrip.lean) -/
def validNextB (id : SlabID) : Bool := decide (id.addr < 2 ^ 64) && decide (id.idx < 2 ^ 64)

/-- `validChildHdr` (RoundTrip.lean) -/
def validChildHdrB (addr : Nat) (h : Hdr) : Bool :=
  decide (h.id.addr = addr) && (decide (h.id.idx < 2 ^ 64) && (decide (h.count < 2 ^ 32) && decide (h.size < 65536)))

/-- `validMChildHdr` (RoundTripM.lean) -/
def validMChildHdrB (addr : Nat) (h : MChildHdr) : Bool :=
  decide (h.id.addr = addr) && (decide (h.id.idx < 2 ^ 64) && (decide (h.firstKey < 2 ^ 64) && decide (h.size < 65536)))

/-- `∀ x, o = some x → p x` -/
def optAllB {α : Type} (p : α → Bool) : Option α → Bool
  | some x => p x
  | none => true

/-- `List.Nodup` on compact-map keys: quadratic, the lists are the field lists of one composite -/
def nodupB : List (Nat × Nat) → Bool
  | [] => true
  | k :: ks => !ks.contains k && nodupB ks

/-! ### `noInl` (RoundTripG.lean) -/

mutual
def Stor.noInlB : Stor → Bool
  | .val _ _ => true
  | .ref _ => true
  | .some s => s.noInlB
  | .arr _ _ _ => false
  | .map _ _ _ => false
def SEl.noInlB : SEl → Bool
  | .mk k v => k.noInlB && v.noInlB
def MEl.noInlB : MEl → Bool
  | .single e => e.noInlB
  | .inl els => els.noInlB
  | .ext _ => true
def MEls.noInlB : MEls → Bool
  | .hkey _ _ es => noInlMElListB es
  | .single _ es => noInlSElListB es
def noInlMElListB : List MEl → Bool
  | [] => true
  | e :: es => e.noInlB && noInlMElListB es
def noInlSElListB : List SEl → Bool
  | [] => true
  | e :: es => e.noInlB && noInlSElListB es
end

def noInlStsB : List Stor → Bool
  | [] => true
  | s :: ss => s.noInlB && noInlStsB ss

/-! ### `RT` (RoundTripG.lean): what the round trip without inlined slabs needs -/

mutual
def Stor.rtB : Stor → Bool
  | .val size pay => validElemB { size := size, pay := .val pay }
  | .ref id => decide (id.addr < 2 ^ 64) && decide (id.idx < 2 ^ 64)
  | .some s => s.rtB
  | .arr _ _ _ => true
  | .map _ _ _ => true
def SEl.rtB : SEl → Bool
  | .mk k v => k.rtB && (v.rtB && decide (singleElementPrefixSize + k.size + v.size ≤ maxUint32))
def MEl.rtB : MEl → Bool
  | .single e => e.rtB
  | .inl els => els.rtB
  | .ext id => decide (id.addr < 2 ^ 64) && decide (id.idx < 2 ^ 64)
def MEls.rtB : MEls → Bool
  | .hkey level hkeys es =>
    decide (level < 24) && (decide (hkeys.length = es.length) && (decide (es.length < 8192) &&
      (hkeys.all (fun h => decide (h < 2 ^ 64)) && (rtMElListB es &&
        decide (hkeyElementsPrefixSize + sizeMEl es ≤ maxUint32)))))
  | .single level es =>
    decide (level < 24) && (!es.isEmpty && (decide (es.length < 65536) && (rtSElListB es &&
      decide (singleElementsPrefixSize + sizeSEl es ≤ maxUint32))))
def rtMElListB : List MEl → Bool
  | [] => true
  | e :: es => e.rtB && rtMElListB es
def rtSElListB : List SEl → Bool
  | [] => true
  | e :: es => e.rtB && rtSElListB es
end

/-! ### `vneed` (RoundTripG.lean): the nesting bound of the theorems without inlined slabs -/

mutual
def Stor.vneedB : Stor → Nat
  | .val _ _ => 1
  | .ref _ => 1
  | .some s => s.vneedB + 1
  | .arr _ _ _ => 0
  | .map _ _ _ => 0
def SEl.vneedB : SEl → Nat
  | .mk k v => max k.vneedB v.vneedB + 1
def MEl.vneedB : MEl → Nat
  | .single e => e.vneedB
  | .inl els => els.vneedB + 1
  | .ext _ => 2
def MEls.vneedB : MEls → Nat
  | .hkey _ _ es => vneedMElListB es + 2
  | .single _ es => vneedSElListB es + 2
def vneedMElListB : List MEl → Nat
  | [] => 0
  | e :: es => max e.vneedB (vneedMElListB es)
def vneedSElListB : List SEl → Nat
  | [] => 0
  | e :: es => max e.vneedB (vneedSElListB es)
end

def vneedStsB : List Stor → Nat
  | [] => 0
  | s :: ss => max s.vneedB (vneedStsB ss)

/-! ### `RTI` (InlDefs.lean): the same with inlined arrays / maps -/

mutual
def Stor.rtiB : Stor → Bool
  | .val size pay => validElemB { size := size, pay := .val pay }
  | .ref id => decide (id.addr < 2 ^ 64) && decide (id.idx < 2 ^ 64)
  | .some s => s.rtiB
  | .arr ty idx es =>
    validTyB ty && (decide (idx < 2 ^ 64) && (decide (es.length < 65536) && (rtiStsB es &&
      decide (inlinedArrayDataSlabPrefixSize + sizeSts es ≤ maxUint32))))
  | .map x idx els =>
    validMapExtraB x && (decide (idx < 2 ^ 64) && (els.rtiB &&
      decide (inlinedMapDataSlabPrefixSize + els.size ≤ maxUint32)))
def rtiStsB : List Stor → Bool
  | [] => true
  | s :: ss => s.rtiB && rtiStsB ss
def SEl.rtiB : SEl → Bool
  | .mk k v => k.rtiB && (v.rtiB && decide (singleElementPrefixSize + k.size + v.size ≤ maxUint32))
def MEl.rtiB : MEl → Bool
  | .single e => e.rtiB
  | .inl els => els.rtiB
  | .ext id => decide (id.addr < 2 ^ 64) && decide (id.idx < 2 ^ 64)
def MEls.rtiB : MEls → Bool
  | .hkey level hkeys es =>
    decide (level < 24) && (decide (hkeys.length = es.length) && (decide (es.length < 8192) &&
      (hkeys.all (fun h => decide (h < 2 ^ 64)) && (rtiMElListB es &&
        decide (hkeyElementsPrefixSize + sizeMEl es ≤ maxUint32)))))
  | .single level es =>
    decide (level < 24) && (!es.isEmpty && (decide (es.length < 65536) && (rtiSElListB es &&
      decide (singleElementsPrefixSize + sizeSEl es ≤ maxUint32))))
def rtiMElListB : List MEl → Bool
  | [] => true
  | e :: es => e.rtiB && rtiMElListB es
def rtiSElListB : List SEl → Bool
  | [] => true
  | e :: es => e.rtiB && rtiSElListB es
end

/-! ### `vneedI` (InlDefs.lean): the nesting bound of the theorems with inlined slabs -/

mutual
def Stor.vneedIB : Stor → Nat
  | .val _ _ => 1
  | .ref _ => 1
  | .some s => s.vneedIB + 1
  | .arr _ _ es => vneedIStsB es + 3
  | .map _ _ els => els.vneedIB + 2
def vneedIStsB : List Stor → Nat
  | [] => 0
  | s :: ss => max s.vneedIB (vneedIStsB ss)
def SEl.vneedIB : SEl → Nat
  | .mk k v => max k.vneedIB v.vneedIB + 1
def MEl.vneedIB : MEl → Nat
  | .single e => e.vneedIB
  | .inl els => els.vneedIB + 1
  | .ext _ => 2
def MEls.vneedIB : MEls → Nat
  | .hkey _ _ es => vneedIMElListB es + 2
  | .single _ es => vneedISElListB es + 2
def vneedIMElListB : List MEl → Nat
  | [] => 0
  | e :: es => max e.vneedIB (vneedIMElListB es)
def vneedISElListB : List SEl → Nat
  | [] => 0
  | e :: es => max e.vneedIB (vneedISElListB es)
end

/-! ### `OK` (EncLemmasG.lean): what the length law needs -/

mutual
def Stor.okB : Stor → Bool
  | .val size pay => validElemB { size := size, pay := .val pay }
  | .ref _ => true
  | .some s => s.okB
  | .arr _ _ es => okStsB es
  | .map _ _ els => els.okB
def okStsB : List Stor → Bool
  | [] => true
  | s :: ss => s.okB && okStsB ss
def SEl.okB : SEl → Bool
  | .mk k v => k.okB && v.okB
def MEl.okB : MEl → Bool
  | .single e => e.okB
  | .inl els => els.okB
  | .ext _ => true
def MEls.okB : MEls → Bool
  | .hkey _ hkeys es => decide (hkeys.length = es.length) && okMElListB es
  | .single _ es => okSElListB es
def okMElListB : List MEl → Bool
  | [] => true
  | e :: es => e.okB && okMElListB es
def okSElListB : List SEl → Bool
  | [] => true
  | e :: es => e.okB && okSElListB es
end

/-! ### `noCompact` (EncLemmasG.lean): no inlined map is written in the compact form -/

mutual
def Stor.noCompactB : Stor → Bool
  | .val _ _ => true
  | .ref _ => true
  | .some s => s.noCompactB
  | .arr _ _ es => noCompactStsB es
  | .map x _ (.hkey _ _ es) => (compactKeys x es).isNone && noCompactMElListB es
  | .map _ _ (.single _ es) => noCompactSElListB es
def noCompactStsB : List Stor → Bool
  | [] => true
  | s :: ss => s.noCompactB && noCompactStsB ss
def SEl.noCompactB : SEl → Bool
  | .mk k v => k.noCompactB && v.noCompactB
def MEl.noCompactB : MEl → Bool
  | .single e => e.noCompactB
  | .inl els => els.noCompactB
  | .ext _ => true
def MEls.noCompactB : MEls → Bool
  | .hkey _ _ es => noCompactMElListB es
  | .single _ es => noCompactSElListB es
def noCompactMElListB : List MEl → Bool
  | [] => true
  | e :: es => e.noCompactB && noCompactMElListB es
def noCompactSElListB : List SEl → Bool
  | [] => true
  | e :: es => e.noCompactB && noCompactSElListB es
end

/-! ### `nodupKeys` (EncLemmasC.lean): the keys of every compact-eligible map are distinct -/

mutual
def Stor.nodupKeysB : Stor → Bool
  | .val _ _ => true
  | .ref _ => true
  | .some s => s.nodupKeysB
  | .arr _ _ es => nodupKeysStsB es
  | .map x _ (.hkey _ _ es) => optAllB nodupB (compactKeys x es) && nodupKeysMElListB es
  | .map _ _ (.single _ es) => nodupKeysSElListB es
def nodupKeysStsB : List Stor → Bool
  | [] => true
  | s :: ss => s.nodupKeysB && nodupKeysStsB ss
def SEl.nodupKeysB : SEl → Bool
  | .mk k v => k.nodupKeysB && v.nodupKeysB
def MEl.nodupKeysB : MEl → Bool
  | .single e => e.nodupKeysB
  | .inl els => els.nodupKeysB
  | .ext _ => true
def MEls.nodupKeysB : MEls → Bool
  | .hkey _ _ es => nodupKeysMElListB es
  | .single _ es => nodupKeysSElListB es
def nodupKeysMElListB : List MEl → Bool
  | [] => true
  | e :: es => e.nodupKeysB && nodupKeysMElListB es
def nodupKeysSElListB : List SEl → Bool
  | [] => true
  | e :: es => e.nodupKeysB && nodupKeysSElListB es
end

/-! ### the encoder's `InlinedExtraData`: `XOK` (InlDefs.lean), `XD.validC` / `XOKC` (CmpDefs.lean) -/

def XD.validB : XD → Bool
  | .arr t => validTyB t
  | .map m => validMapExtraB m
  | .cmap _ _ _ => false

def xokB (xs : List XD) : Bool := xs.all XD.validB

def XD.validCB : XD → Bool
  | .arr t => validTyB t
  | .map m => validMapExtraB m
  | .cmap m hkeys keys =>
    validMapExtraB m && (decide (hkeys.length = keys.length) && (decide (keys.length < 8192) &&
      (hkeys.all (fun h => decide (h < 2 ^ 64)) &&
        (keys.all (fun k => validElemB { size := k.1, pay := .val k.2 }) &&
          (m.ty.isComposite && decide (m.count = keys.length))))))

def xokcB (xs : List XD) : Bool := xs.all XD.validCB

/-! ### the slab-level predicates -/

/-- `DataOK` (RoundTrip.lean) -/
def dataOKB (ty : TyInfo) (s : DataSlab) : Bool :=
  s.elems.all validElemB && (decide (s.elems.length < 65536) && (!s.inlined &&
    (decide (s.hdr.count = s.elems.length) && (decide (s.hdr.size = s.prefixSize + sumSizes s.elems) &&
      (decide (s.hdr.size ≤ 4294967295) && (validNextB s.next && (!s.root || validTyB ty)))))))

/-- `MetaOK` (RoundTrip.lean) -/
def metaOKB (ty : TyInfo) (m : MetaSlab Unit) : Bool :=
  decide (m.hdr.id.addr < 2 ^ 64) && (m.childHdrs.all (validChildHdrB m.hdr.id.addr) &&
    (decide (m.childHdrs.length < 65536) && (decide (m.countSum = MetaSlab.prefixSums m.childHdrs 0) &&
      (decide (m.hdr.count = m.countSum.getLastD 0) && (decide (MetaSlab.sumCounts m.childHdrs ≤ 4294967295) &&
        (decide (m.hdr.size = arrayMetaDataSlabPrefixSize + arraySlabHeaderSize * m.childHdrs.length) &&
          (m.children.isEmpty && (!m.root || validTyB ty))))))))

/-- `MapMetaOK` (RoundTripM.lean) -/
def mapMetaOKB (m : MapMeta) : Bool :=
  decide (m.id.addr < 2 ^ 64) && (m.childHdrs.all (validMChildHdrB m.id.addr) &&
    (decide (m.childHdrs.length < 65536) && optAllB validMapExtraB m.extra))

/-- `MapDataOK` (RoundTripD.lean): no inlined slab -/
def mapDataOKB (s : MapData) : Bool :=
  s.els.rtB && (s.els.noInlB && (decide (s.els.vneedB ≤ maxNestedLevels) && (validNextB s.next &&
    (optAllB validMapExtraB s.extra && decide (s.size ≤ maxUint32)))))

/-- `ArrDataOKW` (RoundTripW.lean): wrapped elements, no inlined slab -/
def arrDataOKWB (a : ArrData) : Bool :=
  rtiStsB a.elems && (noInlStsB a.elems && (a.elems.any (fun s => !s.isFlat) &&
    (decide (vneedIStsB a.elems + 1 ≤ maxNestedLevels) && (decide (a.elems.length < 65536) &&
      (validNextB a.next && (optAllB validTyB a.ty && decide (a.size ≤ maxUint32)))))))

/-- `MapDataOKI` (InlSlab.lean): inlined slabs, not the compact form -/
def mapDataOKIB (s : MapData) : Bool :=
  s.els.rtiB && (s.els.noCompactB && (decide (s.els.vneedIB ≤ maxNestedLevels) &&
    (decide ((encMEls s.els []).2.length ≤ 256) && (validNextB s.next &&
      (optAllB validMapExtraB s.extra && decide (s.size ≤ maxUint32))))))

/-- `ArrDataOKI` (InlSlab.lean) -/
def arrDataOKIB (a : ArrData) : Bool :=
  rtiStsB a.elems && (noCompactStsB a.elems && (decide (vneedIStsB a.elems + 1 ≤ maxNestedLevels) &&
    (decide (a.elems.length < 65536) && (!(encSts a.elems []).2.isEmpty &&
      (decide ((encSts a.elems []).2.length ≤ 256) && (validNextB a.next &&
        (optAllB validTyB a.ty && decide (a.size ≤ maxUint32))))))))

/-- `MapDataOKC` (CmpSlab.lean): inlined slabs in any form -/
def mapDataOKCB (s : MapData) : Bool :=
  s.els.rtiB && (s.els.nodupKeysB && (decide (s.els.vneedIB ≤ maxNestedLevels) &&
    (decide ((encMEls s.els []).2.length ≤ 256) && (validNextB s.next &&
      (optAllB validMapExtraB s.extra && decide (s.size ≤ maxUint32))))))

/-- `ArrDataOKC` (CmpSlab.lean) -/
def arrDataOKCB (a : ArrData) : Bool :=
  rtiStsB a.elems && (nodupKeysStsB a.elems && (decide (vneedIStsB a.elems + 1 ≤ maxNestedLevels) &&
    (decide (a.elems.length < 65536) && (!(encSts a.elems []).2.isEmpty &&
      (decide ((encSts a.elems []).2.length ≤ 256) && (validNextB a.next &&
        (optAllB validTyB a.ty && decide (a.size ≤ maxUint32))))))))

/-- `MapDataOKX` (VDepthSlab.lean): `MapDataOKC` with the EXACT nesting clause `Slab.vdepth ≤ maxNestedLevels` -/
def mapDataOKXB (s : MapData) : Bool :=
  s.els.rtiB && (s.els.nodupKeysB && (decide ((Slab.mdata s).vdepth ≤ maxNestedLevels) &&
    (decide ((encMEls s.els []).2.length ≤ 256) && (validNextB s.next &&
      (optAllB validMapExtraB s.extra && decide (s.size ≤ maxUint32))))))

/-- `ArrDataOKX` (VDepthSlab.lean): `ArrDataOKC` with the exact nesting clause -/
def arrDataOKXB (a : ArrData) : Bool :=
  rtiStsB a.elems && (nodupKeysStsB a.elems && (decide ((Slab.adata a).vdepth ≤ maxNestedLevels) &&
    (decide (a.elems.length < 65536) && (!(encSts a.elems []).2.isEmpty &&
      (decide ((encSts a.elems []).2.length ≤ 256) && (validNextB a.next &&
        (optAllB validTyB a.ty && decide (a.size ≤ maxUint32))))))))

/-- `ArrDataOKWX` (VDepthW.lean): `ArrDataOKW` with the exact nesting clause -/
def arrDataOKWXB (a : ArrData) : Bool :=
  rtiStsB a.elems && (noInlStsB a.elems && (a.elems.any (fun s => !s.isFlat) &&
    (decide ((Slab.adata a).vdepth ≤ maxNestedLevels) && (decide (a.elems.length < 65536) &&
      (validNextB a.next && (optAllB validTyB a.ty && decide (a.size ≤ maxUint32)))))))

/-- the hypotheses of `C07.decode_encode_storable_wrapped` on the storable of a large-value slab:
    it is a wrapper `some x` with `x.RT`, `x.noInl`, `x.vneed + 1 ≤ maxNestedLevels` -/
def storableGOKB : Stor → Bool
  | .some x => x.rtB && (x.noInlB && decide (x.vneedB + 1 ≤ maxNestedLevels))
  | _ => false

/-! ### the dispatcher -/

/-- The REQUIRED clauses for the slab's kind: one entry per clause of `SlabOKG` (the predicate under
    which the general theorems `C07.decode_encode`, `C07.reencode_fixpoint`, `C06.enc_len`,
    `C06.decoded_size_eq` are stated) for that kind, with the clause's field name:

    * `.data`     — `SlabOK` = `DataOK` (+ `tyRoot`: the type info is present exactly for roots)
    * `.index`    — `SlabOK` = `MetaOK` (+ `tyRoot`)
    * `.storable` — `validElem`
    * `.mindex`   — `MapMetaOK`
    * `.mdata`    — `MapDataOKX`
    * `.adata`    — `ArrDataOKX` or `ArrDataOKWX`: the clauses the two share, `nodupKeys` and `entries`
                    (trivially true without inlined slabs), and `inlined-or-wrapped` = `ArrDataOKX.inlined`
                    or (`ArrDataOKWX.noInl` and `ArrDataOKWX.wrapped`)
    * `.storableG` — the hypotheses of `C07.decode_encode_storable_wrapped`

    `nest-exact` (`.mdata` / `.adata`) is the EXACT nesting clause: the validator depth of the register
    (`Slab.vdepth`, Limits.lean) is within the limit; one level more and the register does not decode
    (`C07.decodes_iff_depth_mdata` / `_adata`).  The older, non-tight clause of `MapDataOKC` /
    `ArrDataOKC` / `ArrDataOKW` (`vneedI`, an over-approximation) is the informative entry `nest-vneed`
    of `hypInfo`.  (`.storableG`: the theorem is still stated with `vneed`; there `nest-vneed` is the
    required clause and `nest-exact` the informative one.) -/
def Slab.hypReq : Slab → List (String × Bool)
  | .data ty s =>
    let t := ty.getD default
    [ ("elems", s.elems.all validElemB),
      ("count16", decide (s.elems.length < 65536)),
      ("notInlined", !s.inlined),
      ("count", decide (s.hdr.count = s.elems.length)),
      ("size", decide (s.hdr.size = s.prefixSize + sumSizes s.elems)),
      ("size32", decide (s.hdr.size ≤ 4294967295)),
      ("next", validNextB s.next),
      ("ty", !s.root || validTyB t),
      ("tyRoot", ty.isSome == s.root) ]
  | .index ty m =>
    let t := ty.getD default
    [ ("addr", decide (m.hdr.id.addr < 2 ^ 64)),
      ("hdrs", m.childHdrs.all (validChildHdrB m.hdr.id.addr)),
      ("n16", decide (m.childHdrs.length < 65536)),
      ("sums", decide (m.countSum = MetaSlab.prefixSums m.childHdrs 0)),
      ("count", decide (m.hdr.count = m.countSum.getLastD 0)),
      ("total32", decide (MetaSlab.sumCounts m.childHdrs ≤ 4294967295)),
      ("size", decide (m.hdr.size = arrayMetaDataSlabPrefixSize + arraySlabHeaderSize * m.childHdrs.length)),
      ("noChildren", m.children.isEmpty),
      ("ty", !m.root || validTyB t),
      ("tyRoot", ty.isSome == m.root) ]
  | .storable _ e => [ ("validElem", validElemB e) ]
  | .adata a =>
    let xs := (encSts a.elems []).2
    [ ("rt", rtiStsB a.elems),
      ("nodupKeys", nodupKeysStsB a.elems),
      ("nest-exact", decide ((Slab.adata a).vdepth ≤ maxNestedLevels)),
      ("count", decide (a.elems.length < 65536)),
      ("inlined-or-wrapped", !xs.isEmpty || (noInlStsB a.elems && a.elems.any (fun s => !s.isFlat))),
      ("entries", decide (xs.length ≤ 256)),
      ("next", validNextB a.next),
      ("ty", optAllB validTyB a.ty),
      ("size", decide (a.size ≤ maxUint32)) ]
  | .mdata m =>
    [ ("rt", m.els.rtiB),
      ("nodupKeys", m.els.nodupKeysB),
      ("nest-exact", decide ((Slab.mdata m).vdepth ≤ maxNestedLevels)),
      ("entries", decide ((encMEls m.els []).2.length ≤ 256)),
      ("next", validNextB m.next),
      ("extra", optAllB validMapExtraB m.extra),
      ("size", decide (m.size ≤ maxUint32)) ]
  | .mindex m =>
    [ ("addr", decide (m.id.addr < 2 ^ 64)),
      ("hdrs", m.childHdrs.all (validMChildHdrB m.id.addr)),
      ("n16", decide (m.childHdrs.length < 65536)),
      ("extra", optAllB validMapExtraB m.extra) ]
  | .storableG _ s =>
    match s with
    | .some x =>
      [ ("wrapped", true),
        ("rt", x.rtB),
        ("noInl", x.noInlB),
        ("nest-vneed", decide (x.vneedB + 1 ≤ maxNestedLevels)) ]
    | _ => [ ("wrapped", false) ]

/-- INFORMATIVE entries (not hypotheses of the general theorems):
    `nest-vneed` (`.adata` / `.mdata`) — the older, non-tight nesting clause (`vneedI`, the clause of
    `MapDataOKC` / `ArrDataOKC` / `ArrDataOKW`; it implies the required `nest-exact`, real slabs with
    nested inlined children fail it and decode fine);
    `nest-exact` (the other kinds) — the exact validator depth (`Slab.vdepth`) is within the limit;
    `noCompact` — no inlined map is written in the compact form (then the `…OKI` theorems apply and
    the decoded slab is the encoded one); `noInl` — no inlined slab at all (`MapDataOK` / `ArrDataOKW`);
    `xokc` — the encoder's final extra-data list satisfies `XOKC` (it follows from `rt`). -/
def Slab.hypInfo (s : Slab) : List (String × Bool) :=
  match s with
  | .adata a =>
    [ ("nest-vneed", decide (vneedIStsB a.elems + 1 ≤ maxNestedLevels)),
      ("noCompact", noCompactStsB a.elems),
      ("noInl", noInlStsB a.elems),
      ("xokc", xokcB (encSts a.elems []).2) ]
  | .mdata m =>
    [ ("nest-vneed", decide (m.els.vneedIB ≤ maxNestedLevels)),
      ("noCompact", m.els.noCompactB),
      ("noInl", m.els.noInlB),
      ("xokc", xokcB (encMEls m.els []).2) ]
  | _ => [ ("nest-exact", decide (s.vdepth ≤ maxNestedLevels)) ]

/-- every clause with a stable name: the required ones, then the informative ones -/
def Slab.hypReport (s : Slab) : List (String × Bool) := s.hypReq ++ s.hypInfo

/-- all required clauses hold: the slab is in the domain of the general theorems (`SlabOKG`,
    `C07.hypOK_iff`) -/
def Slab.hypOK (s : Slab) : Bool := s.hypReq.all (fun p => p.2)

/-- names of the failed clauses of the report (for the replayer): every failed REQUIRED clause, and the
    failed informative ones except those listed in `optional`.  (`optional` never hides a required
    clause: the large-value slab's required nesting clause is called `nest-vneed` too.) -/
def Slab.hypFailed (s : Slab) (optional : List String := ["nest-vneed", "noCompact", "noInl", "xokc"]) : List String :=
  (s.hypReq.filter (fun p => !p.2)).map (fun p => p.1) ++
    (s.hypInfo.filter (fun p => !p.2 && !optional.contains p.1)).map (fun p => p.1)

end Atree.Codec
