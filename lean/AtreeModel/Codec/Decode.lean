import AtreeModel.Codec.Encode
/-
  Slab decoders, transcribed from decode.go, array_data_slab_decode.go (v0 and v1),
  array_metadata_slab_decode.go (v0 and v1), array_extradata.go, slab_id.go
  (`NewSlabIDFromRawBytes`), slab_id_storable.go (`DecodeSlabIDStorable`), flag.go, slab.go (the three
  header queries), and the caller-supplied decoders of the harness (`hx.DecodeStorable`,
  `hx.DecodeTypeInfo`, harness/hx/values.go).

  Result type: THREE outcomes.  Every Go slice expression `data[a:b]`, fixed-offset read
  (`binary.BigEndian.UintN(data[off:])`), index and `make(n)` of the transcribed functions appears
  here as a primitive that carries its bounds condition (`sliceTo`, `sliceFrom`, `be16`, `be32`,
  `alloc`); a violated condition yields `panic`, never `error`.  Go's slice upper bound is checked
  against the capacity; the model checks it against the length, which is stricter, so "the model
  does not panic" implies "the Go expression does not panic".  `make(n)` adds `n` to the allocation
  counter threaded through `DM`.

  NOT modelled (the model answers `error .unsupported`, the harness does not emit these cases for
  comparison but still runs its panic oracle on them): map slabs; a v1 array data slab whose head
  has the has-inlined-slabs bit (`newInlinedExtraDataFromData`); the harness's wrapper value
  (tag 165).  Inlined array/map/compact-map elements (tags 250–252) without an inlined-extra-data
  section are modelled as what they are in the library: an error (the index check
  `extraDataIndex >= len(inlinedExtraData)` fails at the latest).
-/
namespace Atree.Codec
open Atree Atree.Gen

inductive DErr where
  | decoding      -- any error returned by the decoder (DecodingError, SlabIDError, callback error)
  | unsupported   -- input outside the modelled fragment (see the header comment)
deriving DecidableEq, Repr

/-- Outcome of running a decoder: a value, an error, or a Go runtime panic; `allocs` is the number
    of slice elements allocated with `make` so far. -/
inductive Res (α : Type) where
  | ok (a : α) (allocs : Nat)
  | error (e : DErr) (allocs : Nat)
  | panic
deriving Repr

/-- decoder computations: the allocation counter goes in, an outcome comes out -/
def DM (α : Type) : Type := Nat → Res α

namespace DM
variable {α β : Type}

@[inline] def pure' (a : α) : DM α := fun n => .ok a n
@[inline] def bind' (m : DM α) (f : α → DM β) : DM β := fun n =>
  match m n with
  | .ok a n' => f a n'
  | .error e n' => .error e n'
  | .panic => .panic

instance : Monad DM where
  pure := pure'
  bind := bind'

/-- `return nil, err` -/
def fail (e : DErr := .decoding) : DM α := fun n => .error e n
/-- a Go runtime panic (index / slice bounds out of range) -/
def panic : DM α := fun _ => .panic
/-- `make([]T, k)` -/
def alloc (k : Nat) : DM Unit := fun n => .ok () (n + k)
/-- a call into the CBOR library or another error-returning helper -/
def liftOpt (o : Option α) : DM α :=
  match o with
  | some a => pure a
  | none => fail

/-- run with a fresh allocation counter -/
def run (m : DM α) : Res α := m 0

end DM
open DM

/-! ### Go slice expressions and fixed-offset reads, with their bounds conditions -/

/-- `data[:b]` -/
def sliceTo (data : Bytes) (b : Nat) : DM Bytes :=
  if b ≤ data.length then pure (data.take b) else panic
/-- `data[a:]` -/
def sliceFrom (data : Bytes) (a : Nat) : DM Bytes :=
  if a ≤ data.length then pure (data.drop a) else panic
/-- `binary.BigEndian.Uint16(b)` (`_ = b[1]`) -/
def be16 (b : Bytes) : DM Nat :=
  if 2 ≤ b.length then pure (beVal (b.take 2)) else panic
/-- `binary.BigEndian.Uint32(b)` (`_ = b[3]`) -/
def be32 (b : Bytes) : DM Nat :=
  if 4 ≤ b.length then pure (beVal (b.take 4)) else panic

/-! ### flag.go -/

/-- `head` -/
structure SlabHead where
  b0 : Nat
  b1 : Nat
deriving Repr, DecidableEq

/-- `newHeadFromData` -/
def newHeadFromData (d : Bytes) : DM SlabHead :=
  match d with
  | [a, b] => pure ⟨a, b⟩
  | _ => fail

inductive SlabType where | undefined | array | map | storable
deriving DecidableEq, Repr
inductive ArrayType where | undefined | data | index | largeImmutable
deriving DecidableEq, Repr

namespace SlabHead
def version (h : SlabHead) : Nat := (h.b0 &&& maskVersion) >>> 4
def isRoot (h : SlabHead) : Bool := decide (h.b1 &&& maskSlabRoot > 0)
def hasPointers (h : SlabHead) : Bool := decide (h.b1 &&& maskSlabHasPointers > 0)
def hasSizeLimit (h : SlabHead) : Bool := decide (h.b1 &&& maskSlabAnySize = 0)
def hasInlinedSlabs (h : SlabHead) : Bool := decide (h.b0 &&& maskHasInlinedSlabs > 0)
def hasNextSlabID (h : SlabHead) : Bool :=
  if h.version = 0 then !h.isRoot else decide (h.b0 &&& maskHasNextSlabID > 0)
/-- `getSlabType`: bits 4 and 5 (`f & 0b000_11000 >> 3`) -/
def slabType (h : SlabHead) : SlabType :=
  match (h.b1 &&& 0b00011000) >>> 3 with
  | 0 => .array
  | 1 => .map
  | 3 => .storable
  | _ => .undefined
/-- `getSlabArrayType`: the three low bits -/
def arrayType (h : SlabHead) : ArrayType :=
  if h.slabType ≠ .array then .undefined
  else
    match h.b1 &&& 0b00000111 with
    | 0 => .data
    | 1 => .index
    | 2 => .largeImmutable
    | _ => .undefined
end SlabHead

/-! ### slab.go: the three header queries -/

/-- common part of `IsRootOfAnObject` / `HasPointers` / `HasSizeLimit` -/
def headOf (slabData : Bytes) : DM SlabHead :=
  if slabData.length < versionAndFlagSize then fail
  else do
    let hb ← sliceTo slabData versionAndFlagSize
    newHeadFromData hb

/-- `IsRootOfAnObject` -/
def isRootOfAnObject (slabData : Bytes) : DM Bool := do let h ← headOf slabData; pure h.isRoot
/-- `HasPointers` -/
def hasPointers (slabData : Bytes) : DM Bool := do let h ← headOf slabData; pure h.hasPointers
/-- `HasSizeLimit` -/
def hasSizeLimit (slabData : Bytes) : DM Bool := do let h ← headOf slabData; pure h.hasSizeLimit

/-! ### slab_id.go -/

/-- `NewSlabIDFromRawBytes`: length check, `copy(address[:], b)`, `copy(index[:], b[SlabAddressLength:])` -/
def newSlabIDFromRawBytes (b : Bytes) : DM SlabID :=
  if b.length < SlabIDLength then fail
  else do
    let addr := copyN SlabAddressLength b
    let tail ← sliceFrom b SlabAddressLength
    let idx := copyN SlabIndexLength tail
    pure ⟨beVal addr, beVal idx⟩

/-! ### the harness's callbacks (hx/values.go) -/

/-- `hx.tvFromBytes` -/
def tvFromBytes (b : Bytes) (extra : Nat) : Elem :=
  let l := b.length
  let hd := if l < 24 then 1 else if l < 256 then 2 else if l < 65536 then 3 else 5
  { size := hd + l + extra, pay := .val (beVal (b.take 8)) }

/-- `DecodeSlabIDStorable` -/
def decodeSlabIDStorable (d : Dec) : DM (Elem × Dec) := do
  let (b, d) ← liftOpt d.decodeBytes
  let id ← newSlabIDFromRawBytes b
  pure ({ size := slabIDStorableSize, pay := .ref id }, d)

/-- `hx.DecodeStorable` called without inlined extra data (`inl = nil`) at depth 0. -/
def decodeElem (d : Dec) : DM (Elem × Dec) := do
  let (t, d) ← liftOpt d.nextType
  match t with
  | .bytes =>
    let (b, d) ← liftOpt d.decodeBytes
    pure (tvFromBytes b 0, d)
  | .tag =>
    let (n, d) ← liftOpt d.decodeTagNumber
    if n = CBORTagInlinedArray ∨ n = CBORTagInlinedMap ∨ n = CBORTagInlinedCompactMap then
      -- `DecodeInlined…Storable` with an empty `inlinedExtraData`: array head, count = 3, extra data
      -- index (a uint) and then `extraDataIndex >= 0` — an error on every path
      fail
    else if n = CBORTagSlabID then decodeSlabIDStorable d
    else if n = tagGapValue then do
      let (b, d) ← liftOpt d.decodeBytes
      pure (tvFromBytes b 2, d)
    else if n = tagSomeValue then fail .unsupported
    else fail
  | _ => fail

/-- `hx.DecodeTypeInfo` -/
def decodeTypeInfo (d : Dec) : DM (TyInfo × Dec) := do
  let (t, d) ← liftOpt d.nextType
  if t = .tag then do
    let (n, d) ← liftOpt d.decodeTagNumber
    if n ≠ tagCompositeTI then fail
    else do
      let (v, d) ← liftOpt d.decodeUint64
      pure (.composite v, d)
  else do
    let (v, d) ← liftOpt d.decodeUint64
    pure (.plain v, d)

/-! ### array_extradata.go -/

/-- `newArrayExtraData` -/
def newArrayExtraData (d : Dec) : DM (TyInfo × Dec) := do
  let (length, d) ← liftOpt d.decodeArrayHead
  if length ≠ arrayExtraDataLength then fail
  else decodeTypeInfo d

/-- `newArrayExtraDataFromData`: the extra data and `data[dec.NumBytesDecoded():]` -/
def newArrayExtraDataFromData (data : Bytes) : DM (TyInfo × Bytes) := do
  let (ty, d) ← newArrayExtraData (Dec.new data)
  let rest ← sliceFrom data d.numBytesDecoded
  pure (ty, rest)

/-! ### array_data_slab_decode.go -/

/-- the element loop shared by v0 and v1: `decodeStorable`, then `safeAdd2Uint32(slabSize, size)` -/
def decodeElems : Nat → Dec → Nat → DM (List Elem × Nat × Dec)
  | 0, d, size => pure ([], size, d)
  | n + 1, d, size => do
    let (e, d) ← decodeElem d
    if size + e.size > 4294967295 then fail
    else do
      let (es, size, d) ← decodeElems n d (size + e.size)
      pure (e :: es, size, d)

/-- the end of both versions: the v1-only "Check if data reached EOF", then the slab -/
def finishData (id : SlabID) (ty : Option TyInfo) (next : SlabID) (checkEOF : Bool) (dataLen : Nat)
    (elemCount : Nat) (elems : List Elem) (slabSize : Nat) (d : Dec) : DM Slab :=
  if checkEOF = true ∧ d.numBytesDecoded < dataLen then fail
  else
    pure (.data ty
      { hdr := { id := id, size := slabSize, count := elemCount }, next := next,
        elems := elems, root := ty.isSome, inlined := false })

/-- from "Check data length for array element head" to the end; `checkEOF` = v1 -/
def decodeDataContent (id : SlabID) (isRoot : Bool) (ty : Option TyInfo) (next : SlabID)
    (checkEOF : Bool) (data : Bytes) : DM Slab :=
  if data.length < arrayDataSlabElementHeadSize then fail
  else do
    let (elemCount, d) ← liftOpt (Dec.new data).decodeArrayHead
    if elemCount > 4294967295 then fail
    else do
      let slabSize := if isRoot then arrayRootDataSlabPrefixSize else arrayDataSlabPrefixSize
      alloc elemCount
      let r ← decodeElems elemCount d slabSize
      finishData id ty next checkEOF data.length elemCount r.1 r.2.1 r.2.2

/-- `newArrayDataSlabFromDataV0` (`data` without the two head bytes) -/
def newArrayDataSlabFromDataV0 (id : SlabID) (h : SlabHead) (data : Bytes) : DM Slab := do
  if h.isRoot then do
    let (ty, data) ← newArrayExtraDataFromData data
    -- skip the second head, present only in version-0 roots
    if data.length < versionAndFlagSize then fail
    else do
      let data ← sliceFrom data versionAndFlagSize
      decodeDataContent id true (some ty) SlabID.undef false data
  else
    if data.length < SlabIDLength then fail
    else do
      let next ← newSlabIDFromRawBytes data
      let data ← sliceFrom data SlabIDLength
      decodeDataContent id false none next false data

/-- the part of `newArrayDataSlabFromDataV1` after the extra data -/
def dataV1AfterExtra (id : SlabID) (h : SlabHead) (ty : Option TyInfo) (data : Bytes) : DM Slab :=
  if h.hasInlinedSlabs then fail .unsupported      -- `newInlinedExtraDataFromData`: not modelled
  else if h.hasNextSlabID then do
    let next ← newSlabIDFromRawBytes data
    let data ← sliceFrom data SlabIDLength
    decodeDataContent id h.isRoot ty next true data
  else decodeDataContent id h.isRoot ty SlabID.undef true data

/-- `newArrayDataSlabFromDataV1` (`data` without the two head bytes) -/
def newArrayDataSlabFromDataV1 (id : SlabID) (h : SlabHead) (data : Bytes) : DM Slab := do
  if h.isRoot then do
    let (ty, data) ← newArrayExtraDataFromData data
    dataV1AfterExtra id h (some ty) data
  else dataV1AfterExtra id h none data

/-- `newArrayDataSlabFromData` -/
def newArrayDataSlabFromData (id : SlabID) (data : Bytes) : DM Slab :=
  if data.length < versionAndFlagSize then fail
  else do
    let hb ← sliceTo data versionAndFlagSize
    let h ← newHeadFromData hb
    if h.arrayType ≠ .data then fail
    else do
      let data ← sliceFrom data versionAndFlagSize
      if h.version = 0 then newArrayDataSlabFromDataV0 id h data
      else if h.version = 1 then newArrayDataSlabFromDataV1 id h data
      else fail

/-! ### array_metadata_slab_decode.go -/

/-- the child-header loop of v0: 16-byte slab ID, 4-byte count, 4-byte size at `offset` -/
def metaLoopV0 (data : Bytes) : Nat → Nat → Nat → DM (List Hdr × List Nat)
  | 0, _, _ => pure ([], [])
  | n + 1, offset, total => do
    let b ← sliceFrom data offset
    let slabID ← newSlabIDFromRawBytes b
    let countOffset := offset + SlabIDLength
    let cb ← sliceFrom data countOffset
    let count ← be32 cb
    let sizeOffset := countOffset + 4
    let sb ← sliceFrom data sizeOffset
    let size ← be32 sb
    if total + count > 4294967295 then fail
    else do
      let total := total + count
      let (hs, sums) ← metaLoopV0 data n (offset + newArrayMetaDataSlabFromDataV0_arraySlabHeaderSizeV0) total
      pure ({ id := slabID, size := size, count := count } :: hs, total :: sums)

/-- result of both metadata decoders -/
def mkMeta (id : SlabID) (ty : Option TyInfo) (childHeaderCount : Nat) (hs : List Hdr) (sums : List Nat) : Slab :=
  .index ty
    { hdr := { id := id, size := arrayMetaDataSlabPrefixSize + arraySlabHeaderSize * childHeaderCount,
               count := sums.getLastD 0 },
      childHdrs := hs, countSum := sums, children := [], root := ty.isSome }

/-- `newArrayMetaDataSlabFromDataV0` after the optional extra data -/
def metaV0AfterExtra (id : SlabID) (ty : Option TyInfo) (data : Bytes) : DM Slab :=
  if data.length < newArrayMetaDataSlabFromDataV0_arrayMetaDataArrayHeadSizeV0 then fail
  else do
    let childHeaderCount ← be16 data
    let data ← sliceFrom data newArrayMetaDataSlabFromDataV0_arrayMetaDataArrayHeadSizeV0
    if data.length ≠ newArrayMetaDataSlabFromDataV0_arraySlabHeaderSizeV0 * childHeaderCount then fail
    else do
      alloc childHeaderCount    -- childrenHeaders
      alloc childHeaderCount    -- childrenCountSum
      let (hs, sums) ← metaLoopV0 data childHeaderCount 0 0
      pure (mkMeta id ty childHeaderCount hs sums)

/-- `newArrayMetaDataSlabFromDataV0` -/
def newArrayMetaDataSlabFromDataV0 (id : SlabID) (h : SlabHead) (data : Bytes) : DM Slab := do
  if h.isRoot then do
    let (ty, data) ← newArrayExtraDataFromData data
    if data.length < versionAndFlagSize then fail
    else do
      let data ← sliceFrom data versionAndFlagSize
      metaV0AfterExtra id (some ty) data
  else metaV0AfterExtra id none data

/-- the child-header loop of v1: 8-byte slab index, 4-byte count, 2-byte size at `offset` -/
def metaLoopV1 (data : Bytes) (addr : Nat) : Nat → Nat → Nat → DM (List Hdr × List Nat)
  | 0, _, _ => pure ([], [])
  | n + 1, offset, total => do
    let ib ← sliceFrom data offset
    let idx := beVal (copyN SlabIndexLength ib)
    let offset := offset + SlabIndexLength
    let cb ← sliceFrom data offset
    let count ← be32 cb
    let offset := offset + 4
    let sb ← sliceFrom data offset
    let size ← be16 sb
    let offset := offset + 2
    if total + count > 4294967295 then fail
    else do
      let total := total + count
      let (hs, sums) ← metaLoopV1 data addr n offset total
      pure ({ id := ⟨addr, idx⟩, size := size, count := count } :: hs, total :: sums)

/-- `newArrayMetaDataSlabFromDataV1` after the optional extra data -/
def metaV1AfterExtra (id : SlabID) (ty : Option TyInfo) (data : Bytes) : DM Slab :=
  if data.length < arrayMetaDataSlabPrefixSize - versionAndFlagSize then fail
  else do
    let ab ← sliceFrom data 0
    let addr := beVal (copyN SlabAddressLength ab)
    let offset := SlabAddressLength
    let cb ← sliceFrom data offset
    let childHeaderCount ← be16 cb
    let offset := offset + newArrayMetaDataSlabFromDataV1_arrayHeaderSize
    let tail ← sliceFrom data offset
    if tail.length ≠ arraySlabHeaderSize * childHeaderCount then fail
    else do
      alloc childHeaderCount
      alloc childHeaderCount
      let (hs, sums) ← metaLoopV1 data addr childHeaderCount offset 0
      pure (mkMeta id ty childHeaderCount hs sums)

/-- `newArrayMetaDataSlabFromDataV1` -/
def newArrayMetaDataSlabFromDataV1 (id : SlabID) (h : SlabHead) (data : Bytes) : DM Slab := do
  if h.isRoot then do
    let (ty, data) ← newArrayExtraDataFromData data
    metaV1AfterExtra id (some ty) data
  else metaV1AfterExtra id none data

/-- `newArrayMetaDataSlabFromData` -/
def newArrayMetaDataSlabFromData (id : SlabID) (data : Bytes) : DM Slab :=
  if data.length < versionAndFlagSize then fail
  else do
    let hb ← sliceTo data versionAndFlagSize
    let h ← newHeadFromData hb
    if h.arrayType ≠ .index then fail
    else do
      let data ← sliceFrom data versionAndFlagSize
      if h.version = 0 then newArrayMetaDataSlabFromDataV0 id h data
      else if h.version = 1 then newArrayMetaDataSlabFromDataV1 id h data
      else fail

/-! ### decode.go -/

/-- `DecodeSlab` with the harness's decoders -/
def decodeSlab (id : SlabID) (data : Bytes) : DM Slab :=
  if data.length < versionAndFlagSize then fail
  else do
    let hb ← sliceTo data versionAndFlagSize
    let h ← newHeadFromData hb
    match h.slabType with
    | .array =>
      match h.arrayType with
      | .data => newArrayDataSlabFromData id data
      | .index => newArrayMetaDataSlabFromData id data
      | _ => fail
    | .map => fail .unsupported
    | .storable => do
      let rest ← sliceFrom data versionAndFlagSize
      let (e, _) ← decodeElem (Dec.new rest)
      pure (.storable id e)
    | .undefined => fail

/-- `Slab.SlabID()` -/
def Slab.id : Slab → SlabID
  | .data _ s => s.hdr.id
  | .index _ m => m.hdr.id
  | .storable id _ => id

/-- `Slab.ChildStorables()` of a decoded slab -/
def Slab.childStorables : Slab → List Elem
  | .data _ s => s.elems
  | .index _ m => m.childHdrs.map (fun h => { size := slabIDStorableSize, pay := .ref h.id })
  | .storable _ e => [e]

end Atree.Codec
