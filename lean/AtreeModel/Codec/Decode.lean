import AtreeModel.Codec.Encode
/-
  Slab decoders, transcribed from decode.go, array_data_slab_decode.go (v0 and v1),
  array_metadata_slab_decode.go (v0 and v1), array_extradata.go, slab_id.go
  (`NewSlabIDFromRawBytes`), slab_id_storable.go (`DecodeSlabIDStorable`), flag.go, slab.go (the three
  header queries), and the caller-supplied decoders of the harness (`hx.DecodeStorable`,
  `hx.DecodeTypeInfo`, harness/hx/values.go).

  Result type: THREE outcomes.  Every Go slice expression `data[a:b]`, fixed-offset read
  (`binary.BigEndian.UintN(data[off:])`), index and `make(n)` of the transcribed functions appears
  here as a primitive that carries its bounds condition (`sliceTo`, `sliceFrom`, `be16`, `be32`,
  `alloc`); a violated condition yields `panic`, never `error`.  Go's slice upper bound is checked
  against the capacity; the model checks it against the length, which is stricter, so "the model
  does not panic" implies "the Go expression does not panic".  `make(n)` adds `n` to the allocation
  counter threaded through `DM`.

  The file has two parts.  The FIRST part is the decoder for slabs whose elements are plain values
  and slab references only (`decodeSlabFlat`): array data / index slabs and large-value slabs.  It
  answers `error .unsupported` as soon as it meets anything else: a map slab, a v1 array data slab
  whose head has the has-inlined-slabs bit, the harness's wrapper value (tag 165).  Inlined
  array/map/compact-map elements (tags 250–252) without an inlined-extra-data section are what they
  are in the library: an error (the index check `extraDataIndex >= len(inlinedExtraData)` fails at
  the latest).
  The SECOND part (`decodeSlabGen`) transcribes the same Go functions for general storables and
  adds map_data_slab_decode.go, map_metadata_slab_decode.go, map_elements_decode.go,
  map_element_decode.go, map_extradata.go, extradata.go (`newInlinedExtraDataFromData`),
  compactmap_extradata.go, typeinfo.go (`decodeTypeInfoRefIfNeeded`), `DecodeInlinedArrayStorable`,
  `DecodeInlinedMapStorable`, `DecodeInlinedCompactMapStorable` and the recursion of
  `hx.DecodeStorable`.  `decodeSlab` runs the first part and, if that answers `unsupported`, the
  second part on the same input; a slab decoded by the first part is a `Slab.data` / `.index` /
  `.storable`, a slab decoded by the second part a `Slab.adata` / `.mdata` / `.mindex` /
  `.storableG` (or again `.index`).

  Recursion of the second part: the Go decoders recurse on the nesting of the input (inlined slabs,
  wrappers, collision groups), which the CBOR library has validated to be at most 32 levels deep;
  the model recurses structurally on a fuel argument that `decodeSlabGen` sets to the input length
  plus one (every recursive call consumes at least one byte of input first).  Running out of fuel is
  an `error`.
-/
namespace Atree.Codec
open Atree Atree.Gen

inductive DErr where
  | decoding      -- any error returned by the decoder (DecodingError, SlabIDError, callback error)
  | unsupported   -- input outside the modelled fragment (see the header comment)
deriving DecidableEq, Repr

/-- Outcome of running a decoder: a value, an error, or a Go runtime panic; `allocs` is the number
    of slice elements allocated with `make` so far. -/
inductive Res (α : Type) where
  | ok (a : α) (allocs : Nat)
  | error (e : DErr) (allocs : Nat)
  | panic
deriving Repr

/-- decoder computations: the allocation counter goes in, an outcome comes out -/
def DM (α : Type) : Type := Nat → Res α

namespace DM
variable {α β : Type}

@[inline] def pure' (a : α) : DM α := fun n => .ok a n
@[inline] def bind' (m : DM α) (f : α → DM β) : DM β := fun n =>
  match m n with
  | .ok a n' => f a n'
  | .error e n' => .error e n'
  | .panic => .panic

instance : Monad DM where
  pure := pure'
  bind := bind'

/-- `return nil, err` -/
def fail (e : DErr := .decoding) : DM α := fun n => .error e n
/-- a Go runtime panic (index / slice bounds out of range) -/
def panic : DM α := fun _ => .panic
/-- `make([]T, k)` -/
def alloc (k : Nat) : DM Unit := fun n => .ok () (n + k)
/-- a call into the CBOR library or another error-returning helper -/
def liftOpt (o : Option α) : DM α :=
  match o with
  | some a => pure a
  | none => fail

/-- run with a fresh allocation counter -/
def run (m : DM α) : Res α := m 0

end DM
open DM

/-! ### Go slice expressions and fixed-offset reads, with their bounds conditions -/

/-- `data[:b]` -/
def sliceTo (data : Bytes) (b : Nat) : DM Bytes :=
  if b ≤ data.length then pure (data.take b) else panic
/-- `data[a:]` -/
def sliceFrom (data : Bytes) (a : Nat) : DM Bytes :=
  if a ≤ data.length then pure (data.drop a) else panic
/-- `binary.BigEndian.Uint16(b)` (`_ = b[1]`) -/
def be16 (b : Bytes) : DM Nat :=
  if 2 ≤ b.length then pure (beVal (b.take 2)) else panic
/-- `binary.BigEndian.Uint32(b)` (`_ = b[3]`) -/
def be32 (b : Bytes) : DM Nat :=
  if 4 ≤ b.length then pure (beVal (b.take 4)) else panic

/-! ### flag.go -/

/-- `head` -/
structure SlabHead where
  b0 : Nat
  b1 : Nat
deriving Repr, DecidableEq

/-- `newHeadFromData` -/
def newHeadFromData (d : Bytes) : DM SlabHead :=
  match d with
  | [a, b] => pure ⟨a, b⟩
  | _ => fail

inductive SlabType where | undefined | array | map | storable
deriving DecidableEq, Repr
inductive ArrayType where | undefined | data | index | largeImmutable
deriving DecidableEq, Repr
inductive MapType where | undefined | data | index | largeEntry | collisionGroup
deriving DecidableEq, Repr

namespace SlabHead
def version (h : SlabHead) : Nat := (h.b0 &&& maskVersion) >>> 4
def isRoot (h : SlabHead) : Bool := decide (h.b1 &&& maskSlabRoot > 0)
def hasPointers (h : SlabHead) : Bool := decide (h.b1 &&& maskSlabHasPointers > 0)
def hasSizeLimit (h : SlabHead) : Bool := decide (h.b1 &&& maskSlabAnySize = 0)
def hasInlinedSlabs (h : SlabHead) : Bool := decide (h.b0 &&& maskHasInlinedSlabs > 0)
def hasNextSlabID (h : SlabHead) : Bool :=
  if h.version = 0 then !h.isRoot else decide (h.b0 &&& maskHasNextSlabID > 0)
/-- `getSlabType`: bits 4 and 5 (`f & 0b000_11000 >> 3`) -/
def slabType (h : SlabHead) : SlabType :=
  match (h.b1 &&& 0b00011000) >>> 3 with
  | 0 => .array
  | 1 => .map
  | 3 => .storable
  | _ => .undefined
/-- `getSlabArrayType`: the three low bits -/
def arrayType (h : SlabHead) : ArrayType :=
  if h.slabType ≠ .array then .undefined
  else
    match h.b1 &&& 0b00000111 with
    | 0 => .data
    | 1 => .index
    | 2 => .largeImmutable
    | _ => .undefined
/-- `getSlabMapType`: the three low bits -/
def mapType (h : SlabHead) : MapType :=
  if h.slabType ≠ .map then .undefined
  else
    match h.b1 &&& 0b00000111 with
    | 0 => .data
    | 1 => .index
    | 2 => .largeEntry
    | 3 => .collisionGroup
    | _ => .undefined
end SlabHead

/-! ### slab.go: the three header queries -/

/-- common part of `IsRootOfAnObject` / `HasPointers` / `HasSizeLimit` -/
def headOf (slabData : Bytes) : DM SlabHead :=
  if slabData.length < versionAndFlagSize then fail
  else do
    let hb ← sliceTo slabData versionAndFlagSize
    newHeadFromData hb

/-- `IsRootOfAnObject` -/
def isRootOfAnObject (slabData : Bytes) : DM Bool := do let h ← headOf slabData; pure h.isRoot
/-- `HasPointers` -/
def hasPointers (slabData : Bytes) : DM Bool := do let h ← headOf slabData; pure h.hasPointers
/-- `HasSizeLimit` -/
def hasSizeLimit (slabData : Bytes) : DM Bool := do let h ← headOf slabData; pure h.hasSizeLimit

/-! ### slab_id.go -/

/-- `NewSlabIDFromRawBytes`: length check, `copy(address[:], b)`, `copy(index[:], b[SlabAddressLength:])` -/
def newSlabIDFromRawBytes (b : Bytes) : DM SlabID :=
  if b.length < SlabIDLength then fail
  else do
    let addr := copyN SlabAddressLength b
    let tail ← sliceFrom b SlabAddressLength
    let idx := copyN SlabIndexLength tail
    pure ⟨beVal addr, beVal idx⟩

/-! ### the harness's callbacks (hx/values.go) -/

/-- `hx.tvFromBytes` -/
def tvFromBytes (b : Bytes) (extra : Nat) : Elem :=
  let l := b.length
  let hd := if l < 24 then 1 else if l < 256 then 2 else if l < 65536 then 3 else 5
  { size := hd + l + extra, pay := .val (beVal (b.take 8)) }

/-- `DecodeSlabIDStorable` -/
def decodeSlabIDStorable (d : Dec) : DM (Elem × Dec) := do
  let (b, d) ← liftOpt d.decodeBytes
  let id ← newSlabIDFromRawBytes b
  pure ({ size := slabIDStorableSize, pay := .ref id }, d)

/-- `hx.DecodeStorable` called without inlined extra data (`inl = nil`) at depth 0. -/
def decodeElem (d : Dec) : DM (Elem × Dec) := do
  let (t, d) ← liftOpt d.nextType
  match t with
  | .bytes =>
    let (b, d) ← liftOpt d.decodeBytes
    pure (tvFromBytes b 0, d)
  | .tag =>
    let (n, d) ← liftOpt d.decodeTagNumber
    if n = CBORTagInlinedArray ∨ n = CBORTagInlinedMap ∨ n = CBORTagInlinedCompactMap then
      -- `DecodeInlined…Storable` with an empty `inlinedExtraData`: array head, count = 3, extra data
      -- index (a uint) and then `extraDataIndex >= 0` — an error on every path
      fail
    else if n = CBORTagSlabID then decodeSlabIDStorable d
    else if n = tagGapValue then do
      let (b, d) ← liftOpt d.decodeBytes
      pure (tvFromBytes b 2, d)
    else if n = tagSomeValue then fail .unsupported
    else fail
  | _ => fail

/-- `hx.DecodeTypeInfo` -/
def decodeTypeInfo (d : Dec) : DM (TyInfo × Dec) := do
  let (t, d) ← liftOpt d.nextType
  if t = .tag then do
    let (n, d) ← liftOpt d.decodeTagNumber
    if n ≠ tagCompositeTI then fail
    else do
      let (v, d) ← liftOpt d.decodeUint64
      pure (.composite v, d)
  else do
    let (v, d) ← liftOpt d.decodeUint64
    pure (.plain v, d)

/-! ### array_extradata.go -/

/-- `newArrayExtraData` -/
def newArrayExtraData (d : Dec) : DM (TyInfo × Dec) := do
  let (length, d) ← liftOpt d.decodeArrayHead
  if length ≠ arrayExtraDataLength then fail
  else decodeTypeInfo d

/-- `newArrayExtraDataFromData`: the extra data and `data[dec.NumBytesDecoded():]` -/
def newArrayExtraDataFromData (data : Bytes) : DM (TyInfo × Bytes) := do
  let (ty, d) ← newArrayExtraData (Dec.new data)
  let rest ← sliceFrom data d.numBytesDecoded
  pure (ty, rest)

/-! ### array_data_slab_decode.go -/

/-- the element loop shared by v0 and v1: `decodeStorable`, then `safeAdd2Uint32(slabSize, size)` -/
def decodeElems : Nat → Dec → Nat → DM (List Elem × Nat × Dec)
  | 0, d, size => pure ([], size, d)
  | n + 1, d, size => do
    let (e, d) ← decodeElem d
    if size + e.size > 4294967295 then fail
    else do
      let (es, size, d) ← decodeElems n d (size + e.size)
      pure (e :: es, size, d)

/-- the end of both versions: the v1-only "Check if data reached EOF", then the slab -/
def finishData (id : SlabID) (ty : Option TyInfo) (next : SlabID) (checkEOF : Bool) (dataLen : Nat)
    (elemCount : Nat) (elems : List Elem) (slabSize : Nat) (d : Dec) : DM Slab :=
  if checkEOF = true ∧ d.numBytesDecoded < dataLen then fail
  else
    pure (.data ty
      { hdr := { id := id, size := slabSize, count := elemCount }, next := next,
        elems := elems, root := ty.isSome, inlined := false })

/-- from "Check data length for array element head" to the end; `checkEOF` = v1 -/
def decodeDataContent (id : SlabID) (isRoot : Bool) (ty : Option TyInfo) (next : SlabID)
    (checkEOF : Bool) (data : Bytes) : DM Slab :=
  if data.length < arrayDataSlabElementHeadSize then fail
  else do
    let (elemCount, d) ← liftOpt (Dec.new data).decodeArrayHead
    if elemCount > 4294967295 then fail
    else do
      let slabSize := if isRoot then arrayRootDataSlabPrefixSize else arrayDataSlabPrefixSize
      alloc elemCount
      let r ← decodeElems elemCount d slabSize
      finishData id ty next checkEOF data.length elemCount r.1 r.2.1 r.2.2

/-- `newArrayDataSlabFromDataV0` (`data` without the two head bytes) -/
def newArrayDataSlabFromDataV0 (id : SlabID) (h : SlabHead) (data : Bytes) : DM Slab := do
  if h.isRoot then do
    let (ty, data) ← newArrayExtraDataFromData data
    -- skip the second head, present only in version-0 roots
    if data.length < versionAndFlagSize then fail
    else do
      let data ← sliceFrom data versionAndFlagSize
      decodeDataContent id true (some ty) SlabID.undef false data
  else
    if data.length < SlabIDLength then fail
    else do
      let next ← newSlabIDFromRawBytes data
      let data ← sliceFrom data SlabIDLength
      decodeDataContent id false none next false data

/-- the part of `newArrayDataSlabFromDataV1` after the extra data -/
def dataV1AfterExtra (id : SlabID) (h : SlabHead) (ty : Option TyInfo) (data : Bytes) : DM Slab :=
  if h.hasInlinedSlabs then fail .unsupported      -- `newInlinedExtraDataFromData`: not modelled
  else if h.hasNextSlabID then do
    let next ← newSlabIDFromRawBytes data
    let data ← sliceFrom data SlabIDLength
    decodeDataContent id h.isRoot ty next true data
  else decodeDataContent id h.isRoot ty SlabID.undef true data

/-- `newArrayDataSlabFromDataV1` (`data` without the two head bytes) -/
def newArrayDataSlabFromDataV1 (id : SlabID) (h : SlabHead) (data : Bytes) : DM Slab := do
  if h.isRoot then do
    let (ty, data) ← newArrayExtraDataFromData data
    dataV1AfterExtra id h (some ty) data
  else dataV1AfterExtra id h none data

/-- `newArrayDataSlabFromData` -/
def newArrayDataSlabFromData (id : SlabID) (data : Bytes) : DM Slab :=
  if data.length < versionAndFlagSize then fail
  else do
    let hb ← sliceTo data versionAndFlagSize
    let h ← newHeadFromData hb
    if h.arrayType ≠ .data then fail
    else do
      let data ← sliceFrom data versionAndFlagSize
      if h.version = 0 then newArrayDataSlabFromDataV0 id h data
      else if h.version = 1 then newArrayDataSlabFromDataV1 id h data
      else fail

/-! ### array_metadata_slab_decode.go -/

/-- the child-header loop of v0: 16-byte slab ID, 4-byte count, 4-byte size at `offset` -/
def metaLoopV0 (data : Bytes) : Nat → Nat → Nat → DM (List Hdr × List Nat)
  | 0, _, _ => pure ([], [])
  | n + 1, offset, total => do
    let b ← sliceFrom data offset
    let slabID ← newSlabIDFromRawBytes b
    let countOffset := offset + SlabIDLength
    let cb ← sliceFrom data countOffset
    let count ← be32 cb
    let sizeOffset := countOffset + 4
    let sb ← sliceFrom data sizeOffset
    let size ← be32 sb
    if total + count > 4294967295 then fail
    else do
      let total := total + count
      let (hs, sums) ← metaLoopV0 data n (offset + newArrayMetaDataSlabFromDataV0_arraySlabHeaderSizeV0) total
      pure ({ id := slabID, size := size, count := count } :: hs, total :: sums)

/-- result of both metadata decoders -/
def mkMeta (id : SlabID) (ty : Option TyInfo) (childHeaderCount : Nat) (hs : List Hdr) (sums : List Nat) : Slab :=
  .index ty
    { hdr := { id := id, size := arrayMetaDataSlabPrefixSize + arraySlabHeaderSize * childHeaderCount,
               count := sums.getLastD 0 },
      childHdrs := hs, countSum := sums, children := [], root := ty.isSome }

/-- `newArrayMetaDataSlabFromDataV0` after the optional extra data -/
def metaV0AfterExtra (id : SlabID) (ty : Option TyInfo) (data : Bytes) : DM Slab :=
  if data.length < newArrayMetaDataSlabFromDataV0_arrayMetaDataArrayHeadSizeV0 then fail
  else do
    let childHeaderCount ← be16 data
    let data ← sliceFrom data newArrayMetaDataSlabFromDataV0_arrayMetaDataArrayHeadSizeV0
    if data.length ≠ newArrayMetaDataSlabFromDataV0_arraySlabHeaderSizeV0 * childHeaderCount then fail
    else do
      alloc childHeaderCount    -- childrenHeaders
      alloc childHeaderCount    -- childrenCountSum
      let (hs, sums) ← metaLoopV0 data childHeaderCount 0 0
      pure (mkMeta id ty childHeaderCount hs sums)

/-- `newArrayMetaDataSlabFromDataV0` -/
def newArrayMetaDataSlabFromDataV0 (id : SlabID) (h : SlabHead) (data : Bytes) : DM Slab := do
  if h.isRoot then do
    let (ty, data) ← newArrayExtraDataFromData data
    if data.length < versionAndFlagSize then fail
    else do
      let data ← sliceFrom data versionAndFlagSize
      metaV0AfterExtra id (some ty) data
  else metaV0AfterExtra id none data

/-- the child-header loop of v1: 8-byte slab index, 4-byte count, 2-byte size at `offset` -/
def metaLoopV1 (data : Bytes) (addr : Nat) : Nat → Nat → Nat → DM (List Hdr × List Nat)
  | 0, _, _ => pure ([], [])
  | n + 1, offset, total => do
    let ib ← sliceFrom data offset
    let idx := beVal (copyN SlabIndexLength ib)
    let offset := offset + SlabIndexLength
    let cb ← sliceFrom data offset
    let count ← be32 cb
    let offset := offset + 4
    let sb ← sliceFrom data offset
    let size ← be16 sb
    let offset := offset + 2
    if total + count > 4294967295 then fail
    else do
      let total := total + count
      let (hs, sums) ← metaLoopV1 data addr n offset total
      pure ({ id := ⟨addr, idx⟩, size := size, count := count } :: hs, total :: sums)

/-- `newArrayMetaDataSlabFromDataV1` after the optional extra data -/
def metaV1AfterExtra (id : SlabID) (ty : Option TyInfo) (data : Bytes) : DM Slab :=
  if data.length < arrayMetaDataSlabPrefixSize - versionAndFlagSize then fail
  else do
    let ab ← sliceFrom data 0
    let addr := beVal (copyN SlabAddressLength ab)
    let offset := SlabAddressLength
    let cb ← sliceFrom data offset
    let childHeaderCount ← be16 cb
    let offset := offset + newArrayMetaDataSlabFromDataV1_arrayHeaderSize
    let tail ← sliceFrom data offset
    if tail.length ≠ arraySlabHeaderSize * childHeaderCount then fail
    else do
      alloc childHeaderCount
      alloc childHeaderCount
      let (hs, sums) ← metaLoopV1 data addr childHeaderCount offset 0
      pure (mkMeta id ty childHeaderCount hs sums)

/-- `newArrayMetaDataSlabFromDataV1` -/
def newArrayMetaDataSlabFromDataV1 (id : SlabID) (h : SlabHead) (data : Bytes) : DM Slab := do
  if h.isRoot then do
    let (ty, data) ← newArrayExtraDataFromData data
    metaV1AfterExtra id (some ty) data
  else metaV1AfterExtra id none data

/-- `newArrayMetaDataSlabFromData` -/
def newArrayMetaDataSlabFromData (id : SlabID) (data : Bytes) : DM Slab :=
  if data.length < versionAndFlagSize then fail
  else do
    let hb ← sliceTo data versionAndFlagSize
    let h ← newHeadFromData hb
    if h.arrayType ≠ .index then fail
    else do
      let data ← sliceFrom data versionAndFlagSize
      if h.version = 0 then newArrayMetaDataSlabFromDataV0 id h data
      else if h.version = 1 then newArrayMetaDataSlabFromDataV1 id h data
      else fail

/-! ### decode.go -/

/-- `DecodeSlab` with the harness's decoders, first part (see the header comment) -/
def decodeSlabFlat (id : SlabID) (data : Bytes) : DM Slab :=
  if data.length < versionAndFlagSize then fail
  else do
    let hb ← sliceTo data versionAndFlagSize
    let h ← newHeadFromData hb
    match h.slabType with
    | .array =>
      match h.arrayType with
      | .data => newArrayDataSlabFromData id data
      | .index => newArrayMetaDataSlabFromData id data
      | _ => fail
    | .map => fail .unsupported
    | .storable => do
      let rest ← sliceFrom data versionAndFlagSize
      let (e, _) ← decodeElem (Dec.new rest)
      pure (.storable id e)
    | .undefined => fail

/-! ## Second part: general storables, map slabs, inlined slabs -/

/-- `math.MaxUint32` -/
def maxUint32 : Nat := 4294967295

/-- `hx.maxDecodeDepth` -/
def maxDecodeDepth : Nat := 64

/-- the value the harness builds from a byte string (`hx.tvFromBytes`) -/
def stFromBytes (b : Bytes) (extra : Nat) : Stor :=
  let e := tvFromBytes b extra
  match e.pay with
  | .val p => .val e.size p
  | .ref id => .ref id

/-- `inlinedExtraData[i]` after the check `extraDataIndex >= uint64(len(inlinedExtraData))` -/
def getXD (xs : List XD) (i : Nat) : DM XD :=
  if i ≥ xs.length then fail
  else
    match xs[i]? with
    | some x => pure x
    | none => panic

/-- `binary.BigEndian.Uint64(digestBytes[i*digestSize:])` for `i < len(digestBytes)/digestSize` -/
def digestsOf : Nat → Bytes → List Nat
  | 0, _ => []
  | n + 1, b => beVal (b.take digestSize) :: digestsOf n (b.drop digestSize)

/-- `DecodeBytes` of the slab index, the length check, `copy(index[:], b)` -/
def decodeIdx (d : Dec) : DM (Nat × Dec) := do
  let (b, d) ← liftOpt d.decodeBytes
  if b.length ≠ SlabIndexLength then fail
  else pure (beVal (copyN SlabIndexLength b), d)

mutual
/-- `hx.decodeStorable(d, id, inl, depth)`; `addr` is the address of `id` -/
def decStG : Nat → Nat → Dec → Nat → List XD → DM (Stor × Dec)
  | 0, _, _, _, _ => fail
  | fuel + 1, depth, d, addr, xs =>
    if depth > maxDecodeDepth then fail
    else do
      let (t, d) ← liftOpt d.nextType
      match t with
      | .bytes =>
        let (b, d) ← liftOpt d.decodeBytes
        pure (stFromBytes b 0, d)
      | .tag =>
        let (n, d) ← liftOpt d.decodeTagNumber
        if n = CBORTagInlinedArray then decInlArr fuel (depth + 1) d addr xs
        else if n = CBORTagInlinedMap then decInlMap fuel (depth + 1) d addr xs
        else if n = CBORTagInlinedCompactMap then decInlCMap fuel (depth + 1) d addr xs
        else if n = CBORTagSlabID then do
          let (e, d) ← decodeSlabIDStorable d
          pure (Stor.ofElem e, d)
        else if n = tagGapValue then do
          let (b, d) ← liftOpt d.decodeBytes
          pure (stFromBytes b 2, d)
        else if n = tagSomeValue then do
          let (s, d) ← decStG fuel (depth + 1) d addr xs
          pure (.some s, d)
        else fail
      | _ => fail
/-- the element loop of the array decoders: `decodeStorable`, then `safeAdd2Uint32(size, ByteSize)`;
    `cdepth` is the depth at which the callback handed down decodes -/
def decStsG : Nat → Nat → Nat → Dec → Nat → List XD → Nat → DM (List Stor × Nat × Dec)
  | _, 0, _, d, _, _, size => pure ([], size, d)
  | 0, _ + 1, _, _, _, _, _ => fail
  | fuel + 1, n + 1, cdepth, d, addr, xs, size => do
    let (e, d) ← decStG fuel cdepth d addr xs
    if size + e.size > maxUint32 then fail
    else do
      let (es, size, d) ← decStsG fuel n cdepth d addr xs (size + e.size)
      pure (e :: es, size, d)
/-- `DecodeInlinedArrayStorable` (the tag number has been read) -/
def decInlArr : Nat → Nat → Dec → Nat → List XD → DM (Stor × Dec)
  | 0, _, _, _, _ => fail
  | fuel + 1, cdepth, d, addr, xs => do
    let (c, d) ← liftOpt d.decodeArrayHead
    if c ≠ DecodeInlinedArrayStorable_inlinedArrayDataSlabArrayCount then fail
    else do
      let (i, d) ← liftOpt d.decodeUint64
      let x ← getXD xs i
      match x with
      | .arr ty => do
        let (idx, d) ← decodeIdx d
        let (n, d) ← liftOpt d.decodeArrayHead
        if n > maxUint32 then fail
        else do
          alloc n
          let (es, _, d) ← decStsG fuel n cdepth d addr xs inlinedArrayDataSlabPrefixSize
          pure (.arr ty idx es, d)
      | _ => fail
/-- `DecodeInlinedMapStorable` -/
def decInlMap : Nat → Nat → Dec → Nat → List XD → DM (Stor × Dec)
  | 0, _, _, _, _ => fail
  | fuel + 1, cdepth, d, addr, xs => do
    let (c, d) ← liftOpt d.decodeArrayHead
    if c ≠ DecodeInlinedMapStorable_inlinedMapDataSlabArrayCount then fail
    else do
      let (i, d) ← liftOpt d.decodeUint64
      let x ← getXD xs i
      match x with
      | .map mx => do
        let (idx, d) ← decodeIdx d
        let (els, d) ← decMElsG fuel cdepth d addr xs
        if inlinedMapDataSlabPrefixSize + els.size > maxUint32 then fail
        else pure (.map mx idx els, d)
      | _ => fail
/-- `DecodeInlinedCompactMapStorable` -/
def decInlCMap : Nat → Nat → Dec → Nat → List XD → DM (Stor × Dec)
  | 0, _, _, _, _ => fail
  | fuel + 1, cdepth, d, addr, xs => do
    let (c, d) ← liftOpt d.decodeArrayHead
    if c ≠ DecodeInlinedCompactMapStorable_inlinedMapDataSlabArrayCount then fail
    else do
      let (i, d) ← liftOpt d.decodeUint64
      let x ← getXD xs i
      match x with
      | .cmap mx hkeys keys => do
        let (idx, d) ← decodeIdx d
        let (n, d) ← liftOpt d.decodeArrayHead
        if n ≠ keys.length then fail
        else do
          alloc hkeys.length     -- the copy of the digests
          alloc n                -- elems
          let (es, size, d) ← decCVals fuel keys cdepth d addr xs hkeyElementsPrefixSize
          if inlinedMapDataSlabPrefixSize + size > maxUint32 then fail
          else pure (.map mx idx (.hkey 0 hkeys es), d)
      | _ => fail
/-- the value loop of `DecodeInlinedCompactMapStorable`: one value per cached key -/
def decCVals : Nat → List (Nat × Nat) → Nat → Dec → Nat → List XD → Nat → DM (List MEl × Nat × Dec)
  | _, [], _, d, _, _, size => pure ([], size, d)
  | 0, _ :: _, _, _, _, _, _ => fail
  | fuel + 1, k :: ks, cdepth, d, addr, xs, size => do
    let (v, d) ← decStG fuel cdepth d addr xs
    let elemSize := singleElementPrefixSize + k.1 + v.size
    if elemSize > maxUint32 then fail
    else if size + digestSize + elemSize > maxUint32 then fail
    else do
      let (es, size, d) ← decCVals fuel ks cdepth d addr xs (size + digestSize + elemSize)
      pure (.single (.mk (.val k.1 k.2) v) :: es, size, d)
/-- `newElementsFromData` -/
def decMElsG : Nat → Nat → Dec → Nat → List XD → DM (MEls × Dec)
  | 0, _, _, _, _ => fail
  | fuel + 1, cdepth, d, addr, xs => do
    let (c, d) ← liftOpt d.decodeArrayHead
    if c ≠ 3 then fail
    else do
      let (level, d) ← liftOpt d.decodeUint64
      let (digestBytes, d) ← liftOpt d.decodeBytes
      if digestBytes.length % digestSize ≠ 0 then fail
      else do
        let digestCount := digestBytes.length / digestSize
        alloc digestCount
        let hkeys := digestsOf digestCount digestBytes
        let (elemCount, d) ← liftOpt d.decodeArrayHead
        if elemCount > maxUint32 then fail
        else if digestCount ≠ 0 ∧ digestCount ≠ elemCount then fail
        else if digestCount = 0 ∧ elemCount > 0 then do
          alloc elemCount
          let (es, _, d) ← decSElsG fuel elemCount cdepth d addr xs singleElementsPrefixSize
          pure (.single level es, d)
        else do
          alloc elemCount
          let (es, _, d) ← decMElListG fuel elemCount cdepth d addr xs hkeyElementsPrefixSize
          pure (.hkey level hkeys es, d)
/-- `newSingleElementFromData` -/
def decSElG : Nat → Nat → Dec → Nat → List XD → DM (SEl × Dec)
  | 0, _, _, _, _ => fail
  | fuel + 1, cdepth, d, addr, xs => do
    let (c, d) ← liftOpt d.decodeArrayHead
    if c ≠ 2 then fail
    else do
      let (k, d) ← decStG fuel cdepth d addr xs
      let (v, d) ← decStG fuel cdepth d addr xs
      if singleElementPrefixSize + k.size + v.size > maxUint32 then fail
      else pure (.mk k v, d)
/-- the loop over `newSingleElementFromData` in `newElementsFromData` -/
def decSElsG : Nat → Nat → Nat → Dec → Nat → List XD → Nat → DM (List SEl × Nat × Dec)
  | _, 0, _, d, _, _, size => pure ([], size, d)
  | 0, _ + 1, _, _, _, _, _ => fail
  | fuel + 1, n + 1, cdepth, d, addr, xs, size => do
    let (e, d) ← decSElG fuel cdepth d addr xs
    if size + e.size > maxUint32 then fail
    else do
      let (es, size, d) ← decSElsG fuel n cdepth d addr xs (size + e.size)
      pure (e :: es, size, d)
/-- `newElementFromData` -/
def decMElG : Nat → Nat → Dec → Nat → List XD → DM (MEl × Dec)
  | 0, _, _, _, _ => fail
  | fuel + 1, cdepth, d, addr, xs => do
    let (t, d) ← liftOpt d.nextType
    match t with
    | .array => do
      let (e, d) ← decSElG fuel cdepth d addr xs
      pure (.single e, d)
    | .tag => do
      let (n, d) ← liftOpt d.decodeTagNumber
      if n = CBORTagInlineCollisionGroup then do
        let (els, d) ← decMElsG fuel cdepth d addr xs
        pure (.inl els, d)
      else if n = CBORTagExternalCollisionGroup then do
        -- `newExternalCollisionGroupFromData`: the storable must be a `SlabIDStorable`
        let (s, d) ← decStG fuel cdepth d addr xs
        match s with
        | .ref id => pure (.ext id, d)
        | _ => fail
      else fail
    | _ => fail
/-- the loop over `newElementFromData`: `safeAdd3Uint32(size, digestSize, elem.Size())` -/
def decMElListG : Nat → Nat → Nat → Dec → Nat → List XD → Nat → DM (List MEl × Nat × Dec)
  | _, 0, _, d, _, _, size => pure ([], size, d)
  | 0, _ + 1, _, _, _, _, _ => fail
  | fuel + 1, n + 1, cdepth, d, addr, xs, size => do
    let (e, d) ← decMElG fuel cdepth d addr xs
    if size + digestSize + e.size > maxUint32 then fail
    else do
      let (es, size, d) ← decMElListG fuel n cdepth d addr xs (size + digestSize + e.size)
      pure (e :: es, size, d)
end

/-! ### map_extradata.go, typeinfo.go, extradata.go, compactmap_extradata.go -/

/-- "Type info is encoded as type info ref": `cbor.Unmarshal(rawTypeInfo[2:], &index)`, the range
    check, `inlinedTypeInfo[int(index)]` -/
def typeInfoByRef (tis : List TyInfo) (raw : Bytes) : DM TyInfo := do
  let r ← sliceFrom raw 2
  let index ← liftOpt (unmarshalUint64 r)
  if index ≥ tis.length then fail
  else
    match tis[index]? with
    | some t => pure t
    | none => panic

/-- "Decode type info as is": `cbor.NewByteStreamDecoder(rawTypeInfo)`, then the default decoder -/
def typeInfoAsIs (raw : Bytes) : DM TyInfo := do
  let (t, _) ← decodeTypeInfo (Dec.new raw)
  pure t

/-- what the closure of `decodeTypeInfoRefIfNeeded` does with the raw bytes of the next item:
    `len(raw) > 2 && bytes.Equal(raw[:2], typeInfoRefTagHeadAndTagNumber)` selects the reference form -/
def typeInfoOfRaw (tis : List TyInfo) (raw : Bytes) : DM TyInfo :=
  if raw.length > 2 then do
    let p ← sliceTo raw 2
    if p = [0xd8, CBORTagTypeInfoRef] then typeInfoByRef tis raw else typeInfoAsIs raw
  else typeInfoAsIs raw

/-- the `TypeInfoDecoder` returned by `decodeTypeInfoRefIfNeeded(inlinedTypeInfo, hx.DecodeTypeInfo)` -/
def decodeTypeInfoRef (tis : List TyInfo) (d : Dec) : DM (TyInfo × Dec) :=
  if tis.length = 0 then decodeTypeInfo d
  else do
    let (raw, d) ← liftOpt d.decodeRawBytes
    let t ← typeInfoOfRaw tis raw
    pure (t, d)

/-- `newMapExtraData` -/
def newMapExtraData (tis : List TyInfo) (d : Dec) : DM (MapExtra × Dec) := do
  let (length, d) ← liftOpt d.decodeArrayHead
  if length ≠ mapExtraDataLength then fail
  else do
    let (ty, d) ← decodeTypeInfoRef tis d
    let (count, d) ← liftOpt d.decodeUint64
    let (seed, d) ← liftOpt d.decodeUint64
    pure ({ ty := ty, count := count, seed := seed }, d)

/-- `newMapExtraDataFromData` -/
def newMapExtraDataFromData (data : Bytes) : DM (MapExtra × Bytes) := do
  let (x, d) ← newMapExtraData [] (Dec.new data)
  let rest ← sliceFrom data d.numBytesDecoded
  pure (x, rest)

/-- `newArrayExtraData` with the type-info decoder of the inlined-extra-data section -/
def newArrayExtraDataRef (tis : List TyInfo) (d : Dec) : DM (TyInfo × Dec) := do
  let (length, d) ← liftOpt d.decodeArrayHead
  if length ≠ arrayExtraDataLength then fail
  else decodeTypeInfoRef tis d

/-- the key loop of `newCompactMapExtraData`: `decodeStorable(dec, SlabIDUndefined, nil)`, which must
    give a `ComparableStorable` (with the harness's values: a `TV`) -/
def decCompactKeys (fuel : Nat) : Nat → Dec → DM (List (Nat × Nat) × Dec)
  | 0, d => pure ([], d)
  | n + 1, d => do
    let (k, d) ← decStG fuel 0 d 0 []
    match k with
    | .val s p => do
      let (ks, d) ← decCompactKeys fuel n d
      pure ((s, p) :: ks, d)
    | _ => fail

/-- `newCompactMapExtraData` -/
def newCompactMapExtraData (fuel : Nat) (tis : List TyInfo) (d : Dec) : DM (XD × Dec) := do
  let (length, d) ← liftOpt d.decodeArrayHead
  if length ≠ compactMapExtraDataLength then fail
  else do
    let (x, d) ← newMapExtraData tis d
    let (digestBytes, d) ← liftOpt d.decodeBytes
    if digestBytes.length % digestSize ≠ 0 then fail
    else do
      let digestCount := digestBytes.length / digestSize
      if digestCount > maxUint32 then fail
      else do
        let (keyCount, d) ← liftOpt d.decodeArrayHead
        if keyCount ≠ digestCount then fail
        else do
          alloc digestCount
          let hkeys := digestsOf digestCount digestBytes
          alloc keyCount
          let (keys, d) ← decCompactKeys fuel keyCount d
          pure (.cmap x hkeys keys, d)

/-- the loop decoding the duplicated type infos -/
def decTypeInfos : Nat → Dec → DM (List TyInfo × Dec)
  | 0, d => pure ([], d)
  | n + 1, d => do
    let (t, d) ← decodeTypeInfo d
    let (ts, d) ← decTypeInfos n d
    pure (t :: ts, d)

/-- one extra-data entry: tag number, then the decoder for that kind -/
def decXD (fuel : Nat) (tis : List TyInfo) (d : Dec) : DM (XD × Dec) := do
  let (tagNum, d) ← liftOpt d.decodeTagNumber
  if tagNum = CBORTagInlinedArrayExtraData then do
    let (ty, d) ← newArrayExtraDataRef tis d
    pure (XD.arr ty, d)
  else if tagNum = CBORTagInlinedMapExtraData then do
    let (mx, d) ← newMapExtraData tis d
    pure (XD.map mx, d)
  else if tagNum = CBORTagInlinedCompactMapExtraData then newCompactMapExtraData fuel tis d
  else fail

/-- the loop decoding the extra-data entries -/
def decXDs (fuel : Nat) (tis : List TyInfo) : Nat → Dec → DM (List XD × Dec)
  | 0, d => pure ([], d)
  | n + 1, d => do
    let (x, d) ← decXD fuel tis d
    let (rest, d) ← decXDs fuel tis n d
    pure (x :: rest, d)

/-- `newInlinedExtraDataFromData`: the entries and `data[dec.NumBytesDecoded():]` -/
def newInlinedExtraDataFromData (data : Bytes) : DM (List XD × Bytes) := do
  let d := Dec.new data
  let (count, d) ← liftOpt d.decodeArrayHead
  if count ≠ inlinedExtraDataArrayCount then fail
  else do
    let (typeInfoCount, d) ← liftOpt d.decodeArrayHead
    if typeInfoCount > data.length then fail
    else do
      alloc typeInfoCount
      let (tis, d) ← decTypeInfos typeInfoCount d
      let (extraDataCount, d) ← liftOpt d.decodeArrayHead
      if extraDataCount = 0 then fail
      else if extraDataCount > data.length then fail
      else do
        alloc extraDataCount
        let (xs, d) ← decXDs (data.length + 1) tis extraDataCount d
        let rest ← sliceFrom data d.numBytesDecoded
        pure (xs, rest)

/-! ### map_data_slab_decode.go -/

/-- both versions from "Decode elements" on -/
def mapDataContent (id : SlabID) (h : SlabHead) (extra : Option MapExtra) (next : SlabID)
    (xs : List XD) (data : Bytes) : DM Slab := do
  let (els, _) ← decMElsG (data.length + 1) 0 (Dec.new data) id.addr xs
  if versionAndFlagSize + els.size > maxUint32 then fail
  else if ¬ h.isRoot ∧ versionAndFlagSize + els.size + SlabIDLength > maxUint32 then fail
  else
    pure (.mdata { id := id, next := next, extra := extra, els := els,
                   anySize := !h.hasSizeLimit, group := decide (h.mapType = .collisionGroup) })

/-- `newMapDataSlabFromDataV0` (`data` without the two head bytes) -/
def newMapDataSlabFromDataV0 (id : SlabID) (h : SlabHead) (data : Bytes) : DM Slab := do
  if h.isRoot then do
    let (x, data) ← newMapExtraDataFromData data
    if data.length < versionAndFlagSize then fail
    else do
      let data ← sliceFrom data versionAndFlagSize
      mapDataContent id h (some x) SlabID.undef [] data
  else
    if data.length < SlabIDLength then fail
    else do
      let next ← newSlabIDFromRawBytes data
      let data ← sliceFrom data SlabIDLength
      mapDataContent id h none next [] data

/-- `newMapDataSlabFromDataV1` after the optional extra data and the optional inlined extra data -/
def mapDataV1AfterIED (id : SlabID) (h : SlabHead) (extra : Option MapExtra) (xs : List XD) (data : Bytes) : DM Slab :=
  if h.hasNextSlabID then
    if data.length < SlabIDLength then fail
    else do
      let next ← newSlabIDFromRawBytes data
      let data ← sliceFrom data SlabIDLength
      mapDataContent id h extra next xs data
  else mapDataContent id h extra SlabID.undef xs data

/-- `newMapDataSlabFromDataV1` after the optional extra data -/
def mapDataV1AfterExtra (id : SlabID) (h : SlabHead) (extra : Option MapExtra) (data : Bytes) : DM Slab :=
  if h.hasInlinedSlabs then do
    let (xs, data) ← newInlinedExtraDataFromData data
    mapDataV1AfterIED id h extra xs data
  else mapDataV1AfterIED id h extra [] data

/-- `newMapDataSlabFromDataV1` -/
def newMapDataSlabFromDataV1 (id : SlabID) (h : SlabHead) (data : Bytes) : DM Slab := do
  if h.isRoot then do
    let (x, data) ← newMapExtraDataFromData data
    mapDataV1AfterExtra id h (some x) data
  else mapDataV1AfterExtra id h none data

/-- `newMapDataSlabFromData` -/
def newMapDataSlabFromData (id : SlabID) (data : Bytes) : DM Slab :=
  if data.length < versionAndFlagSize then fail
  else do
    let hb ← sliceTo data versionAndFlagSize
    let h ← newHeadFromData hb
    if h.mapType ≠ .data ∧ h.mapType ≠ .collisionGroup then fail
    else do
      let data ← sliceFrom data versionAndFlagSize
      if h.version = 0 then newMapDataSlabFromDataV0 id h data
      else if h.version = 1 then newMapDataSlabFromDataV1 id h data
      else fail

/-! ### map_metadata_slab_decode.go -/

/-- `binary.BigEndian.Uint64(b)` (`_ = b[7]`) -/
def be64 (b : Bytes) : DM Nat :=
  if 8 ≤ b.length then pure (beVal (b.take 8)) else panic

/-- the child-header loop of v0: 16-byte slab ID, 8-byte first key, 4-byte size at `offset` -/
def mapMetaLoopV0 (data : Bytes) : Nat → Nat → DM (List MChildHdr)
  | 0, _ => pure []
  | n + 1, offset => do
    let b ← sliceFrom data offset
    let slabID ← newSlabIDFromRawBytes b
    let firstKeyOffset := offset + SlabIDLength
    let fb ← sliceFrom data firstKeyOffset
    let firstKey ← be64 fb
    let sizeOffset := firstKeyOffset + digestSize
    let sb ← sliceFrom data sizeOffset
    let size ← be32 sb
    let hs ← mapMetaLoopV0 data n (offset + newMapMetaDataSlabFromDataV0_mapSlabHeaderSizeV0)
    pure ({ id := slabID, size := size, firstKey := firstKey } :: hs)

/-- `newMapMetaDataSlabFromDataV0` after the optional extra data -/
def mapMetaV0AfterExtra (id : SlabID) (extra : Option MapExtra) (data : Bytes) : DM Slab :=
  if data.length < newMapMetaDataSlabFromDataV0_mapMetaDataArrayHeadSizeV0 then fail
  else do
    let childHeaderCount ← be16 data
    let data ← sliceFrom data newMapMetaDataSlabFromDataV0_mapMetaDataArrayHeadSizeV0
    if data.length ≠ newMapMetaDataSlabFromDataV0_mapSlabHeaderSizeV0 * childHeaderCount then fail
    else do
      alloc childHeaderCount
      let hs ← mapMetaLoopV0 data childHeaderCount 0
      pure (.mindex { id := id, extra := extra, childHdrs := hs })

/-- `newMapMetaDataSlabFromDataV0` -/
def newMapMetaDataSlabFromDataV0 (id : SlabID) (h : SlabHead) (data : Bytes) : DM Slab := do
  if h.isRoot then do
    let (x, data) ← newMapExtraDataFromData data
    if data.length < versionAndFlagSize then fail
    else do
      let data ← sliceFrom data versionAndFlagSize
      mapMetaV0AfterExtra id (some x) data
  else mapMetaV0AfterExtra id none data

/-- the child-header loop of v1: 8-byte slab index, 8-byte first key, 2-byte size at `offset` -/
def mapMetaLoopV1 (data : Bytes) (addr : Nat) : Nat → Nat → DM (List MChildHdr)
  | 0, _ => pure []
  | n + 1, offset => do
    let ib ← sliceFrom data offset
    let idx := beVal (copyN SlabIndexLength ib)
    let offset := offset + SlabIndexLength
    let fb ← sliceFrom data offset
    let firstKey ← be64 fb
    let offset := offset + digestSize
    let sb ← sliceFrom data offset
    let size ← be16 sb
    let offset := offset + 2
    let hs ← mapMetaLoopV1 data addr n offset
    pure ({ id := ⟨addr, idx⟩, size := size, firstKey := firstKey } :: hs)

/-- `newMapMetaDataSlabFromDataV1` after the optional extra data -/
def mapMetaV1AfterExtra (id : SlabID) (extra : Option MapExtra) (data : Bytes) : DM Slab :=
  if data.length < mapMetaDataSlabPrefixSize - versionAndFlagSize then fail
  else do
    let ab ← sliceFrom data 0
    let addr := beVal (copyN SlabAddressLength ab)
    let offset := SlabAddressLength
    let cb ← sliceFrom data offset
    let childHeaderCount ← be16 cb
    let offset := offset + newMapMetaDataSlabFromDataV1_arrayHeaderSize
    let tail ← sliceFrom data offset
    if tail.length ≠ mapSlabHeaderSize * childHeaderCount then fail
    else do
      alloc childHeaderCount
      let hs ← mapMetaLoopV1 data addr childHeaderCount offset
      pure (.mindex { id := id, extra := extra, childHdrs := hs })

/-- `newMapMetaDataSlabFromDataV1` -/
def newMapMetaDataSlabFromDataV1 (id : SlabID) (h : SlabHead) (data : Bytes) : DM Slab := do
  if h.isRoot then do
    let (x, data) ← newMapExtraDataFromData data
    mapMetaV1AfterExtra id (some x) data
  else mapMetaV1AfterExtra id none data

/-- `newMapMetaDataSlabFromData` -/
def newMapMetaDataSlabFromData (id : SlabID) (data : Bytes) : DM Slab :=
  if data.length < versionAndFlagSize then fail
  else do
    let hb ← sliceTo data versionAndFlagSize
    let h ← newHeadFromData hb
    if h.mapType ≠ .index then fail
    else do
      let data ← sliceFrom data versionAndFlagSize
      if h.version = 0 then newMapMetaDataSlabFromDataV0 id h data
      else if h.version = 1 then newMapMetaDataSlabFromDataV1 id h data
      else fail

/-! ### array_data_slab_decode.go with general elements -/

/-- from "Check data length for array element head" to the end; `checkEOF` = v1 -/
def arrDataContentG (id : SlabID) (isRoot : Bool) (ty : Option TyInfo) (next : SlabID)
    (checkEOF : Bool) (xs : List XD) (data : Bytes) : DM Slab :=
  if data.length < arrayDataSlabElementHeadSize then fail
  else do
    let (elemCount, d) ← liftOpt (Dec.new data).decodeArrayHead
    if elemCount > maxUint32 then fail
    else do
      let slabSize := if isRoot then arrayRootDataSlabPrefixSize else arrayDataSlabPrefixSize
      alloc elemCount
      let (es, _, d) ← decStsG (data.length + 1) elemCount 0 d id.addr xs slabSize
      if checkEOF = true ∧ d.numBytesDecoded < data.length then fail
      else pure (.adata { id := id, next := next, ty := ty, elems := es })

/-- `newArrayDataSlabFromDataV0` -/
def newArrayDataSlabFromDataV0G (id : SlabID) (h : SlabHead) (data : Bytes) : DM Slab := do
  if h.isRoot then do
    let (ty, data) ← newArrayExtraDataFromData data
    if data.length < versionAndFlagSize then fail
    else do
      let data ← sliceFrom data versionAndFlagSize
      arrDataContentG id true (some ty) SlabID.undef false [] data
  else
    if data.length < SlabIDLength then fail
    else do
      let next ← newSlabIDFromRawBytes data
      let data ← sliceFrom data SlabIDLength
      arrDataContentG id false none next false [] data

/-- the part of `newArrayDataSlabFromDataV1` after the extra data and the inlined extra data -/
def arrDataV1AfterIEDG (id : SlabID) (h : SlabHead) (ty : Option TyInfo) (xs : List XD) (data : Bytes) : DM Slab :=
  if h.hasNextSlabID then do
    let next ← newSlabIDFromRawBytes data
    let data ← sliceFrom data SlabIDLength
    arrDataContentG id h.isRoot ty next true xs data
  else arrDataContentG id h.isRoot ty SlabID.undef true xs data

/-- the part of `newArrayDataSlabFromDataV1` after the extra data -/
def arrDataV1AfterExtraG (id : SlabID) (h : SlabHead) (ty : Option TyInfo) (data : Bytes) : DM Slab :=
  if h.hasInlinedSlabs then do
    let (xs, data) ← newInlinedExtraDataFromData data
    arrDataV1AfterIEDG id h ty xs data
  else arrDataV1AfterIEDG id h ty [] data

/-- `newArrayDataSlabFromDataV1` -/
def newArrayDataSlabFromDataV1G (id : SlabID) (h : SlabHead) (data : Bytes) : DM Slab := do
  if h.isRoot then do
    let (ty, data) ← newArrayExtraDataFromData data
    arrDataV1AfterExtraG id h (some ty) data
  else arrDataV1AfterExtraG id h none data

/-- `newArrayDataSlabFromData` -/
def newArrayDataSlabFromDataG (id : SlabID) (data : Bytes) : DM Slab :=
  if data.length < versionAndFlagSize then fail
  else do
    let hb ← sliceTo data versionAndFlagSize
    let h ← newHeadFromData hb
    if h.arrayType ≠ .data then fail
    else do
      let data ← sliceFrom data versionAndFlagSize
      if h.version = 0 then newArrayDataSlabFromDataV0G id h data
      else if h.version = 1 then newArrayDataSlabFromDataV1G id h data
      else fail

/-- `DecodeSlab` with the harness's decoders, second part (see the header comment) -/
def decodeSlabGen (id : SlabID) (data : Bytes) : DM Slab :=
  if data.length < versionAndFlagSize then fail
  else do
    let hb ← sliceTo data versionAndFlagSize
    let h ← newHeadFromData hb
    match h.slabType with
    | .array =>
      match h.arrayType with
      | .data => newArrayDataSlabFromDataG id data
      | .index => newArrayMetaDataSlabFromData id data
      | _ => fail
    | .map =>
      match h.mapType with
      | .data => newMapDataSlabFromData id data
      | .index => newMapMetaDataSlabFromData id data
      | .collisionGroup => newMapDataSlabFromData id data
      | _ => fail
    | .storable => do
      let rest ← sliceFrom data versionAndFlagSize
      let (s, _) ← decStG (rest.length + 1) 0 (Dec.new rest) id.addr []
      pure (.storableG id s)
    | .undefined => fail

/-- `DecodeSlab` with the harness's decoders -/
def decodeSlab (id : SlabID) (data : Bytes) : DM Slab := fun n =>
  match decodeSlabFlat id data n with
  | .error .unsupported _ => decodeSlabGen id data n
  | r => r

/-- `Slab.SlabID()` -/
def Slab.id : Slab → SlabID
  | .data _ s => s.hdr.id
  | .index _ m => m.hdr.id
  | .storable id _ => id
  | .adata a => a.id
  | .mdata s => s.id
  | .mindex m => m.id
  | .storableG id _ => id

mutual
/-- `elementsStorables` -/
def MEls.storables : MEls → List Stor
  | .hkey _ _ es => melListStorables es
  | .single _ es => selListStorables es
/-- `elementStorables` -/
def MEl.storables : MEl → List Stor
  | .single (.mk k v) => [k, v]
  | .inl els => els.storables
  | .ext id => [.ref id]
def melListStorables : List MEl → List Stor
  | [] => []
  | e :: es => e.storables ++ melListStorables es
def selListStorables : List SEl → List Stor
  | [] => []
  | .mk k v :: es => k :: v :: selListStorables es
end

/-- `Slab.ChildStorables()` of a decoded slab -/
def Slab.childStorables : Slab → List Stor
  | .data _ s => s.elems.map Stor.ofElem
  | .index _ m => m.childHdrs.map (fun h => .ref h.id)
  | .storable _ e => [Stor.ofElem e]
  | .adata a => a.elems
  | .mdata s => s.els.storables
  | .mindex m => m.childHdrs.map (fun h => .ref h.id)
  | .storableG _ s => [s]

end Atree.Codec
