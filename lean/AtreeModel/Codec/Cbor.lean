import AtreeModel.Basic
/-
  Byte strings, big-endian integers, CBOR heads, and a model of the part of
  `github.com/fxamacker/cbor/v2` that atree's slab decoders call on `cbor.StreamDecoder`
  (stream_decode.go, valid.go of the version pinned in /repo/go.mod).

  * A byte string is a `List Nat`; the encoders only ever produce numbers below 256 (`% 256`), the
    decoders are total on any list, and the trace replayer feeds them parsed hex (so < 256).
  * `wfNext` transcribes `decoder.wellformed(allowExtraData = true, checkBuiltinTags = false)` with
    the limits of the default `DecMode` the harness uses (`cbor.DecOptions{}.DecMode()`): nesting
    ≤ 32, array elements ≤ 131072, map pairs ≤ 131072, indefinite lengths / tags / NaN / Inf /
    bignum tags allowed.  The recursive Go validator is written as an explicit-stack machine that
    handles one item head (or one "break") per step; every step consumes at least one byte, so the
    input length is enough fuel.  Validity is all that is modelled, not which error is reported.
  * `Dec` models the `StreamDecoder` state that matters to callers: the unread input, the number of
    bytes left in the current *validated* top-level item (`remainingBytes`), and
    `NumBytesDecoded()`.  The library's contract used by atree — `prepareNext` validates the
    complete next data item before any `Decode*` call returns, so an array head of `n` is only
    returned when `n` well-formed items follow — is what `prepareNext` below does.
    The sticky error (`sd.err`) is not modelled: every caller in atree and in the harness's
    `DecodeStorable` / `DecodeTypeInfo` gives up at the first error of a decoder.
  * Panics *inside* the CBOR library are out of scope (DESIGN.md §7 C19, "Partial"); library calls
    are `Option`-valued (`none` = the call returns an error).
-/
namespace Atree.Codec

abbrev Bytes := List Nat

/-- `binary.BigEndian.PutUintN`: the `k` low-order bytes of `n`, most significant first. -/
def beBytes : Nat → Nat → Bytes
  | 0, _ => []
  | k + 1, n => (n / 256 ^ k % 256) :: beBytes k n

/-- `binary.BigEndian.UintN` over exactly the bytes given. -/
def beVal : Bytes → Nat
  | [] => 0
  | x :: xs => x * 256 ^ xs.length + beVal xs

/-- `copy(dst[:k], src)` into a zeroed array of `k` bytes: the first `k` bytes of `src`, zero padded. -/
def copyN (k : Nat) (src : Bytes) : Bytes :=
  src.take k ++ List.replicate (k - src.length) 0

/-- Minimal-length CBOR head of major type `major` with argument `n`
    (`encodeHead`, encode.go of the cbor library). -/
def head (major n : Nat) : Bytes :=
  if n < 24 then [major * 32 + n]
  else if n < 256 then [major * 32 + 24, n]
  else if n < 65536 then (major * 32 + 25) :: beBytes 2 n
  else if n < 4294967296 then (major * 32 + 26) :: beBytes 4 n
  else (major * 32 + 27) :: beBytes 8 n

/-- length of `head major n` -/
def headLen (n : Nat) : Nat :=
  if n < 24 then 1 else if n < 256 then 2 else if n < 65536 then 3
  else if n < 4294967296 then 5 else 9

/-- `0x99 hi lo`: the fixed-width array head atree writes for element arrays. -/
def arrayHead16 (n : Nat) : Bytes := 0x99 :: beBytes 2 n
/-- `0x59 hi lo`: fixed-width byte-string head. -/
def bytesHead16 (n : Nat) : Bytes := 0x59 :: beBytes 2 n
/-- `0x18 n`: fixed-width one-byte unsigned integer. -/
def uint8Fixed (n : Nat) : Bytes := [0x18, n % 256]
/-- `0xd8 n`: tag head with one-byte tag number (how atree and the harness write their tags). -/
def tagHead8 (n : Nat) : Bytes := [0xd8, n]

/-! ### Limits of the default `DecMode` (cbor decode.go `defaultMax…`) -/
def maxNestedLevels : Nat := 32
def maxArrayElements : Nat := 131072
def maxMapPairs : Nat := 131072

/-- A decoded CBOR head: major type, additional information, argument. -/
structure Head where
  t   : Nat
  ai  : Nat
  val : Nat
deriving Repr, DecidableEq

/-- `decoder.wellformedHead` (valid.go): `none` = any error (`io.ErrUnexpectedEOF`, `SyntaxError`).
    On well-formed input `decoder.getHead` (decode.go) returns the same triple. -/
def wfHead : Bytes → Option (Head × Bytes)
  | [] => none
  | b :: rest =>
    let t := b / 32 % 8
    let ai := b % 32
    if ai ≤ 23 then some (⟨t, ai, ai⟩, rest)
    else if ai = 24 then
      match rest with
      | [] => none
      | v :: rest' => if t = 7 ∧ v < 32 then none else some (⟨t, ai, v⟩, rest')
    else if ai = 25 then
      if rest.length < 2 then none else some (⟨t, ai, beVal (rest.take 2)⟩, rest.drop 2)
    else if ai = 26 then
      if rest.length < 4 then none else some (⟨t, ai, beVal (rest.take 4)⟩, rest.drop 4)
    else if ai = 27 then
      if rest.length < 8 then none else some (⟨t, ai, beVal (rest.take 8)⟩, rest.drop 8)
    else if ai = 31 then
      -- indefinite-length marker: invalid for integers and tags; 0xff outside an
      -- indefinite-length item is an unexpected "break"
      if t = 0 ∨ t = 1 ∨ t = 6 ∨ t = 7 then none else some (⟨t, ai, ai⟩, rest)
    else none   -- ai = 28, 29, 30

/-- What the validator still expects, innermost first. -/
inductive Frame where
  /-- `n + 1` more items of a definite-length array/map (or the top-level item), checked at `depth` -/
  | items (n depth : Nat)
  /-- inside an indefinite-length array after `i` items -/
  | indefArr (i depth : Nat)
  /-- inside an indefinite-length map after `i` keys and values -/
  | indefMap (i depth : Nat)
  /-- inside an indefinite-length string of major type `t` -/
  | indefStr (t depth : Nat)
  /-- a tag number has been read; its content (or a further tag number) follows -/
  | tag (depth : Nat)
deriving Repr, DecidableEq

/-- push `c` items at `depth` -/
def pushItems (c depth : Nat) (stk : List Frame) : List Frame :=
  match c with
  | 0 => stk
  | n + 1 => .items n depth :: stk

/-- one of the `n + 1` items a frame `items n depth` stands for is being started -/
def popItem (n depth : Nat) (stk : List Frame) : List Frame :=
  match n with
  | 0 => stk
  | n + 1 => .items n depth :: stk

/-- One `wellformedInternal(depth)` up to the point where it recurses: reads the head of the next
    item, skips string content, and pushes what the item still needs.  `inTag` = this head directly
    follows a tag number (the loop "scan nested tag numbers to avoid recursion": only nested tag
    numbers increase the depth). -/
def wfItemStep (depth : Nat) (inTag : Bool) (stk : List Frame) (data : Bytes) : Option (List Frame × Bytes) :=
  match wfHead data with
  | none => none
  | some (h, rest) =>
    if h.t = 2 ∨ h.t = 3 then
      if h.ai = 31 then some (.indefStr h.t depth :: stk, rest)
      else if h.val ≥ 2 ^ 63 then none                    -- int(val) < 0
      else if rest.length < h.val then none               -- io.ErrUnexpectedEOF
      else some (stk, rest.drop h.val)
    else if h.t = 4 ∨ h.t = 5 then
      if depth + 1 > maxNestedLevels then none
      else if h.ai = 31 then
        some ((if h.t = 4 then Frame.indefArr 0 (depth + 1) else Frame.indefMap 0 (depth + 1)) :: stk, rest)
      else if h.val ≥ 2 ^ 63 then none
      else if h.t = 4 then
        if h.val > maxArrayElements then none else some (pushItems h.val (depth + 1) stk, rest)
      else
        if h.val > maxMapPairs then none else some (pushItems (2 * h.val) (depth + 1) stk, rest)
    else if h.t = 6 then
      if inTag then
        if depth + 1 > maxNestedLevels then none else some (.tag (depth + 1) :: stk, rest)
      else some (.tag depth :: stk, rest)
    else some (stk, rest)

/-- The validator as a machine over the stack of expectations; returns the input left after the
    stack has emptied.  One step per item head / break code, each consuming at least one byte. -/
def wfRun : Nat → List Frame → Bytes → Option Bytes
  | _, [], data => some data
  | 0, _ :: _, _ => none
  | fuel + 1, f :: stk, data =>
    match data with
    | [] => none                                          -- io.ErrUnexpectedEOF
    | b :: rest =>
      match f with
      | .items n depth =>
        match wfItemStep depth false (popItem n depth stk) data with
        | none => none
        | some (stk', rest') => wfRun fuel stk' rest'
      | .tag depth =>
        match wfItemStep depth true stk data with
        | none => none
        | some (stk', rest') => wfRun fuel stk' rest'
      | .indefArr i depth =>
        if b = 255 then wfRun fuel stk rest
        else if i + 1 > maxArrayElements then none
        else
          match wfItemStep depth false (.indefArr (i + 1) depth :: stk) data with
          | none => none
          | some (stk', rest') => wfRun fuel stk' rest'
      | .indefMap i depth =>
        if b = 255 then (if i % 2 = 1 then none else wfRun fuel stk rest)
        else if (i + 1) % 2 = 0 ∧ (i + 1) / 2 > maxMapPairs then none
        else
          match wfItemStep depth false (.indefMap (i + 1) depth :: stk) data with
          | none => none
          | some (stk', rest') => wfRun fuel stk' rest'
      | .indefStr t depth =>
        if b = 255 then wfRun fuel stk rest
        else if b / 32 % 8 ≠ t then none                  -- wrong chunk type
        else if b % 32 = 31 then none                     -- chunk is not definite-length
        else
          match wfItemStep depth false (.indefStr t depth :: stk) data with
          | none => none
          | some (stk', rest') => wfRun fuel stk' rest'

/-- `StreamDecoder._readAndValidateNext` on a byte-slice decoder: the input after the next complete,
    well-formed data item; `none` if there is none (EOF, truncated or malformed). -/
def wfNext (data : Bytes) : Option Bytes :=
  wfRun data.length [.items 0 0] data

/-- `cbor.Type` as far as the callers distinguish it (`StreamDecoder.NextType`). -/
inductive CType where
  | uint | int | bytes | text | array | map | tag | bignum | other
deriving Repr, DecidableEq

def ctypeOf (b : Nat) : CType :=
  match b / 32 % 8 with
  | 0 => .uint | 1 => .int | 2 => .bytes | 3 => .text | 4 => .array | 5 => .map
  | 6 => if b = 0xc2 ∨ b = 0xc3 then .bignum else .tag
  | _ => .other

/-- `cbor.StreamDecoder` over a byte slice. -/
structure Dec where
  data      : Bytes       -- input not yet consumed
  remaining : Nat := 0    -- `remainingBytes` of the current validated item
  consumed  : Nat := 0    -- `NumBytesDecoded()`
deriving Repr

namespace Dec

/-- `decMode.NewByteStreamDecoder(data)` -/
def new (data : Bytes) : Dec := { data := data }

/-- `prepareNext` -/
def prepareNext (d : Dec) : Option Dec :=
  if d.remaining > 0 then some d
  else
    match wfNext d.data with
    | none => none
    | some rest => some { d with remaining := d.data.length - rest.length }

/-- `updateState(k)` after moving the offset to `rest`; running past the validated item puts the
    decoder into its "out of sync" error state. -/
def advance (d : Dec) (rest : Bytes) : Option Dec :=
  let k := d.data.length - rest.length
  if k > d.remaining then none
  else some { data := rest, remaining := d.remaining - k, consumed := d.consumed + k }

/-- `NextType` -/
def nextType (d : Dec) : Option (CType × Dec) :=
  match d.prepareNext with
  | none => none
  | some d =>
    match d.data with
    | [] => none
    | b :: _ => some (ctypeOf b, d)

/-- shared body of `DecodeUint64` (major 0), `DecodeTagNumber` (6) and `DecodeArrayHead` (4):
    the argument of the next head, which must have major type `major`. -/
def decodeHeadOf (major : Nat) (d : Dec) : Option (Nat × Dec) :=
  match d.prepareNext with
  | none => none
  | some d =>
    match d.data with
    | [] => none
    | b :: _ =>
      if b / 32 % 8 ≠ major then none                     -- WrongTypeError
      else
        match wfHead d.data with
        | none => none
        | some (h, rest) =>
          if h.ai = 31 then none                          -- indefinite length isn't supported
          else
            match d.advance rest with
            | none => none
            | some d' => some (h.val, d')

/-- `DecodeUint64` -/
def decodeUint64 (d : Dec) : Option (Nat × Dec) := decodeHeadOf 0 d
/-- `DecodeTagNumber` -/
def decodeTagNumber (d : Dec) : Option (Nat × Dec) := decodeHeadOf 6 d
/-- `DecodeArrayHead` -/
def decodeArrayHead (d : Dec) : Option (Nat × Dec) := decodeHeadOf 4 d

/-- `DecodeBytes`: a copy of the content of the next definite-length byte string. -/
def decodeBytes (d : Dec) : Option (Bytes × Dec) :=
  match d.prepareNext with
  | none => none
  | some d =>
    match d.data with
    | [] => none
    | b :: _ =>
      if b / 32 % 8 ≠ 2 then none
      else
        match wfHead d.data with
        | none => none
        | some (h, rest) =>
          if h.ai = 31 then none
          else if rest.length < h.val then none
          else
            match d.advance (rest.drop h.val) with
            | none => none
            | some d' => some (rest.take h.val, d')


/-- `DecodeRawBytes`: a copy of the next complete data item (`d.skip()` over data that
    `prepareNext` has validated: the extent of the next well-formed item). -/
def decodeRawBytes (d : Dec) : Option (Bytes × Dec) :=
  match d.prepareNext with
  | none => none
  | some d =>
    match wfNext d.data with
    | none => none
    | some rest =>
      match d.advance rest with
      | none => none
      | some d' => some (d.data.take (d.data.length - rest.length), d')

/-- `NumBytesDecoded` -/
def numBytesDecoded (d : Dec) : Nat := d.consumed

end Dec

/-! ### `cbor.Unmarshal(data, &index)` with `var index uint64` (decode.go `decMode.Unmarshal`,
    `decoder.parseToValue` for a destination of kind `reflect.Uint64`, default `DecMode`, no
    registered tags), as called by `decodeTypeInfoRefIfNeeded` (typeinfo.go).  `none` = an error. -/

/-- "Strip self-described CBOR tag number": leading tags 55799 -/
def stripSelfDescribed : Nat → Bytes → Bytes
  | 0, data => data
  | fuel + 1, data =>
    match wfHead data with
    | some (h, rest) => if h.t = 6 ∧ h.val = 55799 then stripSelfDescribed fuel rest else data
    | none => data

/-- "Check validity of supported built-in tags": every tag number of the leading chain of tags
    against the initial byte of what follows it (`validBuiltinTag`, common.go) -/
def builtinTagsOK : Nat → Bytes → Bool
  | 0, _ => true
  | fuel + 1, data =>
    match wfHead data with
    | some (h, rest) =>
      if h.t = 6 then
        match rest with
        | [] => false
        | c :: _ =>
          let t := c / 32 % 8
          let ok : Bool :=
            if h.val = 0 then decide (t = 3)
            else if h.val = 1 then decide (t = 0 ∨ t = 1 ∨ (0xf9 ≤ c ∧ c ≤ 0xfb))
            else if h.val = 2 ∨ h.val = 3 then decide (t = 2)
            else true
          ok && builtinTagsOK fuel rest
      else true
    | none => true

/-- the chunks of an indefinite-length byte string up to the break code, concatenated -/
def indefChunks : Nat → Bytes → Option Bytes
  | 0, _ => none
  | fuel + 1, data =>
    match data with
    | [] => none
    | b :: _ =>
      if b = 255 then some []
      else
        match wfHead data with
        | none => none
        | some (h, rest) =>
          match indefChunks fuel (rest.drop h.val) with
          | none => none
          | some more => some (rest.take h.val ++ more)

/-- `decoder.parseByteString`: the content of the byte string at the head of `data` -/
def parseByteString (data : Bytes) : Option Bytes :=
  match wfHead data with
  | none => none
  | some (h, rest) =>
    if h.ai = 31 then indefChunks data.length rest else some (rest.take h.val)

/-- `parseToValue` into a `uint64` -/
def parseToUint64 : Nat → Bytes → Option Nat
  | 0, _ => none
  | fuel + 1, data =>
    let data := stripSelfDescribed data.length data
    if !builtinTagsOK data.length data then none
    else
      match wfHead data with
      | none => none
      | some (h, rest) =>
        if h.t = 0 then some h.val                          -- fillPositiveInt
        else if h.t = 7 then
          if h.ai = 25 ∨ h.ai = 26 ∨ h.ai = 27 then none    -- fillFloat: UnmarshalTypeError
          else if h.ai = 20 ∨ h.ai = 21 then none           -- fillBool: UnmarshalTypeError
          else if h.ai = 22 ∨ h.ai = 23 then some 0         -- fillNil: no-op, the variable keeps its zero value
          else some h.val                                   -- other simple values: fillPositiveInt
        else if h.t = 6 then
          if h.val = 2 then                                 -- unsigned bignum
            match parseByteString rest with
            | none => none
            | some b => if beVal b < 2 ^ 64 then some (beVal b) else none
          else if h.val = 3 then none                       -- negative bignum into an unsigned kind
          else parseToUint64 fuel rest
        else none                                           -- negative int, strings, arrays, maps

/-- `cbor.Unmarshal(data, &index)`: exactly one well-formed item, then `parseToValue` -/
def unmarshalUint64 (data : Bytes) : Option Nat :=
  match wfNext data with
  | some [] => parseToUint64 data.length data
  | _ => none

namespace Dec

end Dec

end Atree.Codec
