import AtreeModel.World
import AtreeModel.Codec.Encode
/-
  FROM THE WORLD MODEL TO THE CODEC MODEL: the slab the byte-level codec (`AtreeModel/Codec`) sees
  for a slab a World of nested containers keeps in storage.

  In `World.lean` a parent element that refers to a child container is `{size, pay := .ref vid}`
  whether the child is inlined or not; in the implementation (and in `Codec.Stor`) an INLINED child
  is embedded in the slab of its parent: `ArrayDataSlab.Encode` / `MapDataSlab.Encode` call
  `Storable.Encode` of every element, which for an inlined `*ArrayDataSlab` / `*MapDataSlab` is
  `encodeAsInlined` (array_data_slab_encode.go, map_data_slab_encode.go), recursively; a standalone
  child is a `SlabIDStorable`; the harness's wrapper `hx.SomeStorable` adds one CBOR tag (2 bytes)
  per level around either.  `World.storOf` is that embedding: the `Codec.Stor` for one stored
  element, `World.toCodec` the `Codec.Slab` for one stored slab (array data / index slabs, map data
  / index slabs, external collision-group slabs - those of inlined maps included).

  Fuel.  The recursion descends only into INLINED children, and an inlined child is strictly smaller
  than the element that embeds it (its size is the element's size minus the wrappers), whose size
  in turn is part of the size of the embedding slab: the element's own size is enough fuel
  (`World.stor`).  Nothing depends on the acyclicity of the containment relation.

  The trace replayer (`Replay/World.lean`) compares, on every `SLB` line of the nested stream, the
  translation of the replayed world with the slab parsed from the implementation's dump.
-/
namespace Atree
open Gen

namespace Codec

/-- `n` layers of the harness's wrapper `hx.SomeStorable` -/
def wrapN : Nat → Stor → Stor
  | 0, s => s
  | n + 1, s => .some (wrapN n s)

/-- the flat element (plain value / slab reference), if the storable is one -/
def Stor.toElem? : Stor → Option Elem
  | .val s p => Option.some { size := s, pay := .val p }
  | .ref id => Option.some { size := slabIDStorableSize, pay := .ref id }
  | _ => Option.none

/-- a map key as the codec sees it: a plain value of the harness -/
def keyStor (k : MKey) : Stor := .val k.size k.pay

/-- `singleElement` with the value rendered by `re` -/
def selOf (re : Elem → Stor) (x : SElem) : SEl := .mk (keyStor x.key) (re x.val)

/-- `element` -/
def melOf {α : Type} (re : Elem → Stor) (f : α → MEls) : MElemF α → MEl
  | .single x => .single (selOf re x)
  | .inl g => .inl (f g)
  | .ext id _ _ => .ext id

/-- `elements` (`hkeyElements` / `singleElements`) -/
def melsOf (re : Elem → Stor) : (r : Nat) → MElems r → MEls
  | 0, (se : SingleElems) => .single se.level (se.elems.map (selOf re))
  | r + 1, (he : HkeyElems (MElems r)) => .hkey he.level he.hkeys (he.elems.map (melOf re (melsOf re r)))

/-- the root slab of a single-slab container as the storable its parent embeds
    (`encodeAsInlined`: type info / map extra data, slab index, elements) -/
def contStor (re : Elem → Stor) : Cont → Stor
  | .arr ⟨0, (s : DataSlab), ty⟩ => .arr (.plain ty) s.hdr.id.idx (s.elems.map re)
  | .map ⟨0, (s : MDataSlab 3), ty, cnt, seed⟩ =>
    .map { ty := .plain ty, count := cnt, seed := seed } s.hdr.id.idx (melsOf re 4 s.elems)
  | _ => .val 0 0     -- a multi-slab tree is never inlined

/-- an array data slab: the flat kind `data` when every element is a plain value or a bare slab
    reference, `adata` as soon as one element is wrapped or an inlined child (the split of
    `Codec.Slab`) -/
def dataSlabOf (re : Elem → Stor) (ty : Option TyInfo) (s : DataSlab) : Slab :=
  let es := s.elems.map re
  match es.mapM Stor.toElem? with
  | some _ => .data ty s
  | none => .adata { id := s.hdr.id, next := s.next, ty := ty, elems := es }

def mchildHdrOf (h : MHdr) : MChildHdr := { id := h.id, size := h.size, firstKey := h.firstKey }

/-- a map data slab of the slab tree -/
def mdataOf (re : Elem → Stor) {r : Nat} (x : Option MapExtra) (s : MDataSlab r) : Slab :=
  .mdata { id := s.hdr.id, next := s.next, extra := x, els := melsOf re (r + 1) s.elems,
           anySize := false, group := false }

/-- the slab of an external collision group -/
def groupOf (re : Elem → Stor) {r : Nat} (x : Option MapExtra) (g : GroupSlab (MElems r)) : Slab :=
  .mdata { id := g.hdr.id, next := SlabID.undef, extra := x, els := melsOf re r g.elems,
           anySize := true, group := true }

/-- every slab of an array tree, keyed by slab ID (pre-order, as `HeapSpec.ATree.slabs`); `ty id` is
    the extra data of slab `id` (present for the root) -/
def atreeSlabs (re : Elem → Stor) (ty : SlabID → Option TyInfo) : (d : Nat) → ATree d → List (SlabID × Slab)
  | 0, (s : DataSlab) => [(s.hdr.id, dataSlabOf re (ty s.hdr.id) s)]
  | d + 1, (m : MetaSlab (ATree d)) =>
    (m.hdr.id, .index (ty m.hdr.id)
      { hdr := m.hdr, childHdrs := m.childHdrs, countSum := m.countSum, children := [], root := m.root }) ::
      m.children.flatMap (atreeSlabs re ty d)

/-- the external collision-group slabs referenced from the first-level elements of a data slab -/
def groupSlabsOf (re : Elem → Stor) {r : Nat} (x : SlabID → Option MapExtra) (s : MDataSlab r) : List (SlabID × Slab) :=
  s.elems.elems.filterMap (fun el =>
    match el with
    | .ext id _ g => some (id, groupOf re (x id) g)
    | _ => none)

/-- every slab of a map tree (pre-order, group slabs right after their data slab, as
    `MapHeapSpec.MTree.slabs`) -/
def mtreeSlabs (re : Elem → Stor) {r : Nat} (x : SlabID → Option MapExtra) : (d : Nat) → MTree r d → List (SlabID × Slab)
  | 0, (s : MDataSlab r) => (s.hdr.id, mdataOf re (x s.hdr.id) s) :: groupSlabsOf re x s
  | d + 1, (m : MMetaSlab (MTree r d)) =>
    (m.hdr.id, .mindex { id := m.hdr.id, extra := x m.hdr.id, childHdrs := m.childHdrs.map mchildHdrOf }) ::
      m.children.flatMap (mtreeSlabs re x d)

end Codec

open Codec

namespace Cont

/-- every slab of the container's tree as the codec sees it, root slab first -/
def codecTree (re : Elem → Stor) : Cont → List (SlabID × Slab)
  | .arr a => atreeSlabs re (fun id => if id = a.rootID then some (.plain a.ty) else none) a.d a.root
  | .map m =>
    mtreeSlabs re (fun id => if id = m.rootID then some { ty := .plain m.ty, count := m.count, seed := m.seed } else none)
      m.d m.root

/-- the slabs the container owns in storage: its whole tree when standalone, its tree without the
    root slab when inlined (an inlined map keeps its external collision-group slabs) -/
def codecSlabs (re : Elem → Stor) (c : Cont) : List (SlabID × Slab) :=
  if c.isInlined then (c.codecTree re).tail else c.codecTree re

end Cont

namespace World

/-- THE STORABLE FOR ONE STORED ELEMENT: a plain value; a reference to a large-value slab; for a
    child container `wrap` layers of the harness's wrapper around the bare slab reference
    (standalone child) or around the embedded root slab of the child (inlined child), the wrapper
    depth being what the element's size accounts for beyond the child's own size. -/
def storOf : Nat → World → Elem → Stor
  | fuel, w, e =>
    match e.pay with
    | .val p => .val e.size p
    | .ref vid =>
      match w.cont? vid with
      | none => .ref vid
      | some c =>
        if c.isInlined then
          match fuel with
          | 0 => .ref vid          -- out of fuel (never with `stor`, see the header)
          | fuel + 1 => wrapN ((e.size - c.rootSize) / 2) (contStor (storOf fuel w) c)
        else wrapN ((e.size - slabIDStorableSize) / 2) (.ref vid)

/-- the storable for a stored element, with the element's size as fuel -/
def stor (w : World) (e : Elem) : Stor := storOf e.size w e

/-- THE HEAP OF THE WORLD AS THE CODEC SEES IT: every slab the live containers own in storage
    (the shape of `World.heapOf`, `AtreeProofs/WorldHeap.lean`) -/
def codecHeap (w : World) : List (SlabID × Slab) :=
  (AList.keys w.conts).eraseDups.flatMap (fun x =>
    match w.cont? x with
    | some c => c.codecSlabs w.stor
    | none => [])

/-- THE CODEC-LEVEL SLAB stored under `id` -/
def toCodec (w : World) (id : SlabID) : Option Slab := AList.find? w.codecHeap id

end World
end Atree
