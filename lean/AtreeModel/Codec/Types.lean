import AtreeModel.Codec.Cbor
import AtreeModel.Gen.Consts
import AtreeModel.Array.Slab
/-
  Storables and map elements as the codec sees them, with nesting: harness values (`hx.TV`), slab
  references (`SlabIDStorable`), the harness's one-level wrapper (`hx.SomeStorable`, tag 165),
  inlined array data slabs and inlined map data slabs (array_data_slab.go / map_data_slab.go with
  `inlined = true`), and the `elements` / `element` hierarchy of map_elements_hashkey.go,
  map_elements_nokey.go, map_element.go.

  Sizes are FUNCTIONS of the content here (`Stor.size`, `MEls.size`, …): they are what the decoders
  compute (`DecodeInlinedArrayStorable`, `newElementsFromData`, …).  The implementation keeps them
  in header fields; the trace replayer compares every stored size printed by `VerifDumpSlab` with
  the computed one (the dump of the parsed slab must reproduce the dump string).

  The address of an inlined slab's ID is its parent's address (only the 8-byte index is encoded), so
  only the index is kept.
-/
namespace Atree.Codec
open Atree Atree.Gen

/-- Type info of the harness: `hx.TI` (a CBOR unsigned integer) or `hx.CTI` (tag 160 + unsigned). -/
inductive TyInfo where
  | plain (n : Nat)
  | composite (n : Nat)
deriving DecidableEq, Repr, Inhabited

/-- `TypeInfo.IsComposite()` -/
def TyInfo.isComposite : TyInfo → Bool
  | .plain _ => false
  | .composite _ => true

/-- `MapExtraData` -/
structure MapExtra where
  ty    : TyInfo
  count : Nat
  seed  : Nat
deriving DecidableEq, Repr, Inhabited

mutual
/-- `Storable` -/
inductive Stor where
  /-- `hx.TV{Size, Pay}` -/
  | val (size pay : Nat)
  /-- `SlabIDStorable` -/
  | ref (id : SlabID)
  /-- `hx.SomeStorable{S}` -/
  | some (s : Stor)
  /-- inlined `*ArrayDataSlab`: type info of its extra data, slab index, elements -/
  | arr (ty : TyInfo) (idx : Nat) (elems : List Stor)
  /-- inlined `*MapDataSlab`: extra data, slab index, elements -/
  | map (x : MapExtra) (idx : Nat) (els : MEls)
/-- `singleElement` -/
inductive SEl where
  | mk (k v : Stor)
/-- `element` -/
inductive MEl where
  | single (e : SEl)
  /-- `inlineCollisionGroup` -/
  | inl (els : MEls)
  /-- `externalCollisionGroup` -/
  | ext (id : SlabID)
/-- `elements` -/
inductive MEls where
  /-- `hkeyElements` -/
  | hkey (level : Nat) (hkeys : List Nat) (elems : List MEl)
  /-- `singleElements` -/
  | single (level : Nat) (elems : List SEl)
end

instance : Inhabited Stor := ⟨.val 0 0⟩
instance : Inhabited MEls := ⟨.single 0 []⟩

/-- `hx.someOverhead` -/
def someOverhead : Nat := 2

mutual
/-- `Storable.ByteSize()` -/
def Stor.size : Stor → Nat
  | .val s _ => s
  | .ref _ => slabIDStorableSize
  | .some s => someOverhead + s.size
  | .arr _ _ es => inlinedArrayDataSlabPrefixSize + sizeSts es
  | .map _ _ els => inlinedMapDataSlabPrefixSize + els.size
/-- sum of the sizes -/
def sizeSts : List Stor → Nat
  | [] => 0
  | s :: ss => s.size + sizeSts ss
/-- `singleElement.Size()` -/
def SEl.size : SEl → Nat
  | .mk k v => singleElementPrefixSize + k.size + v.size
/-- `element.Size()` -/
def MEl.size : MEl → Nat
  | .single e => e.size
  | .inl els => inlineCollisionGroupPrefixSize + els.size
  | .ext _ => externalCollisionGroupPrefixSize + slabIDStorableSize
/-- `elements.Size()` -/
def MEls.size : MEls → Nat
  | .hkey _ _ es => hkeyElementsPrefixSize + sizeMEl es
  | .single _ es => singleElementsPrefixSize + sizeSEl es
/-- digest + element, summed -/
def sizeMEl : List MEl → Nat
  | [] => 0
  | e :: es => digestSize + e.size + sizeMEl es
def sizeSEl : List SEl → Nat
  | [] => 0
  | e :: es => e.size + sizeSEl es
end

mutual
/-- `hasPointer(storable)`: `ContainerStorable.HasPointer()` of slab references, wrappers, inlined
    slabs; `false` for plain values -/
def Stor.hasPtr : Stor → Bool
  | .val _ _ => false
  | .ref _ => true
  | .some s => s.hasPtr
  | .arr _ _ es => anyPtrSts es
  | .map _ _ els => els.hasPtr
def anyPtrSts : List Stor → Bool
  | [] => false
  | s :: ss => s.hasPtr || anyPtrSts ss
def SEl.hasPtr : SEl → Bool
  | .mk k v => k.hasPtr || v.hasPtr
def MEl.hasPtr : MEl → Bool
  | .single e => e.hasPtr
  | .inl els => els.hasPtr
  | .ext _ => true
def MEls.hasPtr : MEls → Bool
  | .hkey _ _ es => anyPtrMEl es
  | .single _ es => anyPtrSEl es
def anyPtrMEl : List MEl → Bool
  | [] => false
  | e :: es => e.hasPtr || anyPtrMEl es
def anyPtrSEl : List SEl → Bool
  | [] => false
  | e :: es => e.hasPtr || anyPtrSEl es
end

/-- `elements.firstKey()` -/
def MEls.firstKey : MEls → Nat
  | .hkey _ hkeys _ => hkeys.headD 0
  | .single _ _ => 0

/-- is the storable a plain value or a slab reference (an `Elem` of the array model) -/
def Stor.isFlat : Stor → Bool
  | .val _ _ => true
  | .ref _ => true
  | _ => false

/-- the flat element as a storable -/
def Stor.ofElem (e : Elem) : Stor :=
  match e.pay with
  | .val p => .val e.size p
  | .ref id => .ref id

/-- One entry of the shared inlined-extra-data section (`ExtraData`): `*ArrayExtraData`,
    `*MapExtraData`, `*compactMapExtraData` (whose keys are `hx.TV`s — the only
    `ComparableStorable` of the harness — kept as `(size, pay)`). -/
inductive XD where
  | arr (ty : TyInfo)
  | map (x : MapExtra)
  | cmap (x : MapExtra) (hkeys : List Nat) (keys : List (Nat × Nat))
deriving Repr, DecidableEq, Inhabited

/-- `ExtraData.Type()` -/
def XD.ty : XD → TyInfo
  | .arr t => t
  | .map x => x.ty
  | .cmap x _ _ => x.ty

/-- `MapSlabHeader` of a child as an index slab keeps it -/
structure MChildHdr where
  id       : SlabID
  size     : Nat
  firstKey : Nat
deriving DecidableEq, Repr, Inhabited

/-- a standalone `MapDataSlab` (`inlined = false`) -/
structure MapData where
  id      : SlabID
  next    : SlabID
  extra   : Option MapExtra
  els     : MEls
  anySize : Bool
  group   : Bool      -- `collisionGroup`

/-- `MapMetaDataSlab` -/
structure MapMeta where
  id        : SlabID
  extra     : Option MapExtra
  childHdrs : List MChildHdr
deriving Repr

/-- a standalone `ArrayDataSlab` whose elements are general storables -/
structure ArrData where
  id    : SlabID
  next  : SlabID
  ty    : Option TyInfo
  elems : List Stor

/-- `MapDataSlab.header.size` as the decoders compute it -/
def MapData.size (s : MapData) : Nat :=
  versionAndFlagSize + s.els.size + (if s.extra.isSome then 0 else SlabIDLength)

/-- `MapMetaDataSlab.header.size` -/
def MapMeta.size (m : MapMeta) : Nat := mapMetaDataSlabPrefixSize + mapSlabHeaderSize * m.childHdrs.length

/-- `MapMetaDataSlab.header.firstKey` -/
def MapMeta.firstKey (m : MapMeta) : Nat :=
  match m.childHdrs with
  | [] => 0
  | h :: _ => h.firstKey

/-- `ArrayDataSlab.header.size` -/
def ArrData.size (a : ArrData) : Nat :=
  (if a.ty.isSome then arrayRootDataSlabPrefixSize else arrayDataSlabPrefixSize) + sizeSts a.elems

end Atree.Codec
