import AtreeModel.Codec.Types
/-
  Byte-exact encoders for the array slab kinds and the large-value slab, transcribed from
  array_data_slab_encode.go, array_metadata_slab_encode.go, storable_slab.go, flag.go,
  array_extradata.go, slab_id_storable.go, slab_id.go, encode.go, and — for the element and type
  info values the harness uses — harness/hx/values.go (`TV.Encode`, `TI.Encode`, `CTI.Encode`).

  Second part: map slabs (map_data_slab_encode.go, map_metadata_slab_encode.go,
  map_elements_encode.go, map_element_encode.go, map_extradata.go), inlined array / map / compact
  map children (`encodeAsInlined`, `encodeAsInlinedMap`, `encodeAsInlinedCompactMap`), the shared
  inlined-extra-data section (extradata.go, compactmap_extradata.go) and the harness's wrapper.

  Where the Go encoder returns an ERROR (extra-data index above 255, digest level above
  `maxDigestLevel`, a compact-map key missing from the cached key list) the bytes of the model are
  unspecified; such slabs never occur in the traces and are excluded by the hypotheses of the theorems.
-/
namespace Atree.Codec
open Atree Atree.Gen

/-- `hx.tagCompositeTI` -/
def tagCompositeTI : Nat := 160
/-- `hx.tagGapValue`: marks a `TV` whose size is not reachable by a plain byte string. -/
def tagGapValue : Nat := 161
/-- `hx.TagSomeValue` (the one-level wrapper) -/
def tagSomeValue : Nat := 165

/-- `TI.Encode` = `EncodeUint64`; `CTI.Encode` = `EncodeTagHead(160)` then `EncodeUint64`. -/
def encodeTy : TyInfo → Bytes
  | .plain n => head 0 n
  | .composite n => head 6 tagCompositeTI ++ head 0 n

/-- `hx.isGap` -/
def isGap (size : Nat) : Bool := size == 25 || size == 258 || size == 65539

/-- `hx.bsLen`: content length of a byte string whose total encoded size is `total` (≥ 1). -/
def bsLen (total : Nat) : Nat :=
  if total - 1 < 24 then total - 1
  else if total - 2 < 256 then total - 2
  else if total - 3 < 65536 then total - 3
  else total - 5

/-- content length of the `TV` of encoded size `size` -/
def tvLen (size : Nat) : Nat := bsLen (if isGap size then size - 2 else size)

/-- `TV.content`: `pay` big-endian in the first `min l 8` bytes, then zeros. -/
def tvContent (l pay : Nat) : Bytes :=
  beBytes (min l 8) pay ++ List.replicate (l - min l 8) 0

/-- `SlabID.ToRawBytes` -/
def encodeSlabID (id : SlabID) : Bytes :=
  beBytes SlabAddressLength id.addr ++ beBytes SlabIndexLength id.idx

/-- `Storable.Encode` for the two element kinds of the model:
    `hx.TV.Encode` (`[0xd8, 161]` for the gap sizes, then `EncodeBytes(content)`) and
    `SlabIDStorable.Encode` (`[0xd8, CBORTagSlabID]`, then `EncodeBytes` of the 16 raw bytes). -/
def encodeElem (e : Elem) : Bytes :=
  match e.pay with
  | .ref id => tagHead8 CBORTagSlabID ++ head 2 SlabIDLength ++ encodeSlabID id
  | .val p =>
    (if isGap e.size then tagHead8 tagGapValue else []) ++
      head 2 (tvLen e.size) ++ tvContent (tvLen e.size) p

/-- What makes `(size, pay)` a value of the harness (`hx.ValidTV`, `TV.Size : uint32`), resp. a slab
    reference as the library builds it.  Size 65540 is not the size of any byte string
    (65535 content bytes take a 3-byte head, 65536 a 5-byte head) and is not one of the harness's
    gap sizes. -/
def validElem (e : Elem) : Prop :=
  match e.pay with
  | .ref id => e.size = slabIDStorableSize ∧ id.addr < 2 ^ 64 ∧ id.idx < 2 ^ 64
  | .val p => 1 ≤ e.size ∧ e.size ≠ 65540 ∧ e.size < 2 ^ 32 ∧ p < 256 ^ (min (tvLen e.size) 8)

instance (e : Elem) : Decidable (validElem e) := by
  unfold validElem; cases e.pay <;> infer_instance

/-- `hasPointer(storable)` -/
def elemIsRef (e : Elem) : Bool :=
  match e.pay with
  | .ref _ => true
  | .val _ => false

/-- `ArrayExtraData.Encode` with `defaultEncodeTypeInfo`: `EncodeArrayHead(1)` then the type info. -/
def encodeExtraData (ty : TyInfo) : Bytes :=
  head 4 arrayExtraDataLength ++ encodeTy ty

/-- `head` bytes (flag.go): `h[0] = version << 4 | …`, `h[1] = type mask | …`. -/
def flagIf (b : Bool) (mask : Nat) : Nat := if b then mask else 0

/-- `ArrayDataSlab.encodeElements`: `0x99`, count as `uint16`, the elements. -/
def encodeElements (elems : List Elem) : Bytes :=
  arrayHead16 elems.length ++ elems.flatMap encodeElem

/-- `ArrayDataSlab.Encode` for a standalone (not inlined) slab without inlined children. -/
def encodeDataSlab (ty : TyInfo) (s : DataSlab) : Bytes :=
  let hasNext := decide (s.next ≠ SlabID.undef)
  [ ArrayDataSlab_Encode_version * 16 ||| flagIf hasNext maskHasNextSlabID,
    maskArrayData ||| flagIf (s.elems.any elemIsRef) maskSlabHasPointers ||| flagIf s.root maskSlabRoot ] ++
  (if s.root then encodeExtraData ty else []) ++
  (if hasNext then encodeSlabID s.next else []) ++
  encodeElements s.elems

/-- one child header: slab index (8), count (4), size (2) -/
def encodeChildHdr (h : Hdr) : Bytes :=
  beBytes SlabIndexLength h.id.idx ++ beBytes 4 h.count ++ beBytes 2 h.size

/-- `ArrayMetaDataSlab.Encode` -/
def encodeMetaSlab {α : Type} (ty : TyInfo) (m : MetaSlab α) : Bytes :=
  [ ArrayMetaDataSlab_Encode_version * 16,
    maskArrayMeta ||| flagIf m.root maskSlabRoot ] ++
  (if m.root then encodeExtraData ty else []) ++
  beBytes SlabAddressLength m.hdr.id.addr ++ beBytes 2 m.childHdrs.length ++
  m.childHdrs.flatMap encodeChildHdr

/-- `StorableSlab.Encode` -/
def encodeStorableSlab (e : Elem) : Bytes :=
  [ StorableSlab_Encode_version * 16,
    maskStorable ||| maskSlabAnySize ||| flagIf (elemIsRef e) maskSlabHasPointers ] ++
  encodeElem e


/-! ## Map slabs, inlined children, the inlined-extra-data section -/

/-- `MapExtraData.Encode`: `EncodeArrayHead(3)`, the type info as `encTy` writes it, count, seed -/
def encodeMapExtraWith (encTy : TyInfo → Bytes) (x : MapExtra) : Bytes :=
  head 4 mapExtraDataLength ++ encTy x.ty ++ head 0 x.count ++ head 0 x.seed

/-- `MapExtraData.Encode(enc, defaultEncodeTypeInfo)` -/
def encodeMapExtra (x : MapExtra) : Bytes := encodeMapExtraWith encodeTy x

/-- the eight digest bytes of each hkey -/
def encodeHkeys (hkeys : List Nat) : Bytes := hkeys.flatMap (beBytes digestSize)

/-! ### `InlinedExtraData` (the encoder's state) -/

/-- `TV.Less`: payload first, then size -/
def keyLess (a b : Nat × Nat) : Bool := a.2 < b.2 || (a.2 == b.2 && a.1 < b.1)

/-- insertion into a list sorted by `keyLess` -/
def insertKey (k : Nat × Nat) : List (Nat × Nat) → List (Nat × Nat)
  | [] => [k]
  | x :: xs => if keyLess x k then x :: insertKey k xs else k :: x :: xs

/-- the keys in the order of `fieldNameSorter` (what `makeCompactMapTypeID` joins) -/
def sortKeys (ks : List (Nat × Nat)) : List (Nat × Nat) := ks.foldr insertKey []

/-- first index satisfying `p` -/
def findIdxFrom {α : Type} (p : α → Bool) : List α → Nat → Option Nat
  | [], _ => none
  | x :: xs, i => if p x then some i else findIdxFrom p xs (i + 1)

/-- `addArrayExtraData`: array extra data is deduplicated by its encoded type info -/
def addArrayXD (xs : List XD) (ty : TyInfo) : Nat × List XD :=
  match findIdxFrom (fun x => match x with | .arr t => encodeTy t == encodeTy ty | _ => false) xs 0 with
  | some i => (i, xs)
  | none => (xs.length, xs ++ [.arr ty])

/-- `addMapExtraData`: never deduplicated -/
def addMapXD (xs : List XD) (x : MapExtra) : Nat × List XD := (xs.length, xs ++ [.map x])

/-- `makeCompactMapTypeID` compared for equality: encoded type info and the sorted key IDs -/
def sameCompactType (ty : TyInfo) (keys : List (Nat × Nat)) : XD → Bool
  | .cmap x' _ keys' => encodeTy x'.ty == encodeTy ty && sortKeys keys' == sortKeys keys
  | _ => false

/-- `addCompactMapExtraData`: `(index, cached keys, state)` -/
def addCompactXD (xs : List XD) (x : MapExtra) (hkeys : List Nat) (keys : List (Nat × Nat)) :
    Nat × List (Nat × Nat) × List XD :=
  match findIdxFrom (sameCompactType x.ty keys) xs 0 with
  | some i =>
    match xs[i]? with
    | some (.cmap _ _ cached) => (i, cached, xs)
    | _ => (i, keys, xs)
  | none => (xs.length, keys, xs ++ [.cmap x hkeys keys])

/-- the key of a single element that `canBeEncodedAsCompactMap` accepts: a `ComparableStorable`
    that is not a slab reference — with the harness's values, a `TV` -/
def compactKey : MEl → Option (Nat × Nat)
  | .single (.mk (.val s p) _) => some (s, p)
  | _ => none

/-- `canBeEncodedAsCompactMap` for an inlined map with `hkeyElements`: composite type, only single
    elements with comparable keys (the Go code sizes its key slice by `extraData.Count`: a count
    that differs from the number of elements is outside the model, see the findings) -/
def compactKeys (x : MapExtra) (elems : List MEl) : Option (List (Nat × Nat)) :=
  if x.ty.isComposite ∧ x.count = elems.length then elems.mapM compactKey else none

/-- the five fixed bytes after which an inlined slab writes its slab index: tag number, array head
    of 3 elements, extra data index as a fixed-size `uint8` -/
def inlinedHead (tag i : Nat) : Bytes := [0xd8, tag, 0x83, 0x18, i % 256]

/-- `enc.CBOR.EncodeBytes(slabID.index[:])` -/
def encodeIdx (idx : Nat) : Bytes := head 2 SlabIndexLength ++ beBytes SlabIndexLength idx

mutual
/-- `Storable.Encode(enc)`: the bytes written and the encoder's `InlinedExtraData` afterwards -/
def encSt : Stor → List XD → Bytes × List XD
  | .val size pay, xs => (encodeElem { size := size, pay := .val pay }, xs)
  | .ref id, xs => (encodeElem { size := slabIDStorableSize, pay := .ref id }, xs)
  | .some s, xs =>
    let r := encSt s xs
    (tagHead8 tagSomeValue ++ r.1, r.2)
  | .arr ty idx es, xs =>
    -- `ArrayDataSlab.encodeAsInlined`
    let a := addArrayXD xs ty
    let r := encSts es a.2
    (inlinedHead CBORTagInlinedArray a.1 ++ encodeIdx idx ++ arrayHead16 es.length ++ r.1, r.2)
  | .map x idx (.hkey level hkeys elems), xs =>
    match compactKeys x elems with
    | some keys =>
      -- `encodeAsInlinedCompactMap`: the values in the order of the cached keys
      let a := addCompactXD xs x hkeys keys
      let r := a.2.1.foldl (fun (acc : Bytes × List XD) k =>
                  let v := encFind k elems acc.2
                  (acc.1 ++ v.1, v.2)) ([], a.2.2)
      (inlinedHead CBORTagInlinedCompactMap a.1 ++ encodeIdx idx ++ head 4 a.2.1.length ++ r.1, r.2)
    | none =>
      -- `encodeAsInlinedMap`
      let a := addMapXD xs x
      let r := encMElList elems a.2
      (inlinedHead CBORTagInlinedMap a.1 ++ encodeIdx idx ++
        [0x83, level % 256] ++ bytesHead16 (hkeys.length * 8) ++ encodeHkeys hkeys ++
        arrayHead16 elems.length ++ r.1, r.2)
  | .map x idx (.single level elems), xs =>
    let a := addMapXD xs x
    let r := encSElList elems a.2
    (inlinedHead CBORTagInlinedMap a.1 ++ encodeIdx idx ++
      [0x83, level % 256, 0x40] ++ arrayHead16 elems.length ++ r.1, r.2)
/-- the elements of an array, in order -/
def encSts : List Stor → List XD → Bytes × List XD
  | [], xs => ([], xs)
  | s :: ss, xs =>
    let r := encSt s xs
    let r' := encSts ss r.2
    (r.1 ++ r'.1, r'.2)
/-- `encodeCompactMapValues`, one cached key: the value stored under the first equal key
    (the keys of a map are distinct) -/
def encFind (k : Nat × Nat) : List MEl → List XD → Bytes × List XD
  | [], xs => ([], xs)
  | .single (.mk (.val s p) v) :: rest, xs =>
    if (s, p) = k then encSt v xs else encFind k rest xs
  | _ :: rest, xs => encFind k rest xs
/-- `singleElement.Encode` -/
def encSEl : SEl → List XD → Bytes × List XD
  | .mk k v, xs =>
    let r := encSt k xs
    let r' := encSt v r.2
    (0x82 :: (r.1 ++ r'.1), r'.2)
/-- `element.Encode` -/
def encMEl : MEl → List XD → Bytes × List XD
  | .single e, xs => encSEl e xs
  | .inl els, xs =>
    let r := encMEls els xs
    (tagHead8 CBORTagInlineCollisionGroup ++ r.1, r.2)
  | .ext id, xs =>
    (tagHead8 CBORTagExternalCollisionGroup ++ encodeElem { size := slabIDStorableSize, pay := .ref id }, xs)
/-- `hkeyElements.Encode` / `singleElements.Encode` -/
def encMEls : MEls → List XD → Bytes × List XD
  | .hkey level hkeys elems, xs =>
    let r := encMElList elems xs
    ([0x83, level % 256] ++ bytesHead16 (hkeys.length * 8) ++ encodeHkeys hkeys ++
      arrayHead16 elems.length ++ r.1, r.2)
  | .single level elems, xs =>
    let r := encSElList elems xs
    ([0x83, level % 256, 0x40] ++ arrayHead16 elems.length ++ r.1, r.2)
def encMElList : List MEl → List XD → Bytes × List XD
  | [], xs => ([], xs)
  | e :: es, xs =>
    let r := encMEl e xs
    let r' := encMElList es r.2
    (r.1 ++ r'.1, r'.2)
def encSElList : List SEl → List XD → Bytes × List XD
  | [], xs => ([], xs)
  | e :: es, xs =>
    let r := encSEl e xs
    let r' := encSElList es r.2
    (r.1 ++ r'.1, r'.2)
end

/-! ### `InlinedExtraData.Encode` -/

/-- Go's string comparison on the encoded type infos: bytewise lexicographic -/
def bytesLt : Bytes → Bytes → Bool
  | [], [] => false
  | [], _ :: _ => true
  | _ :: _, [] => false
  | a :: as, b :: bs => a < b || (a == b && bytesLt as bs)

def insertBytes (k : Bytes) : List Bytes → List Bytes
  | [] => [k]
  | x :: xs => if bytesLt k x then k :: x :: xs else x :: insertBytes k xs

/-- `sort.Strings` -/
def sortBytes (l : List Bytes) : List Bytes := l.foldr insertBytes []

/-- the scan of `findDuplicateTypeInfo` over the sorted list, `prev` being the previous string and
    `emitted` whether it has been recorded as a duplicate: every string that occurs more than once,
    once, in sorted order -/
def dupScan (prev : Bytes) (emitted : Bool) : List Bytes → List Bytes
  | [] => []
  | x :: rest =>
    if x == prev then (if emitted then dupScan prev true rest else prev :: dupScan prev true rest)
    else dupScan x false rest

/-- `findDuplicateTypeInfo`: the encoded type infos that occur more than once -/
def findDuplicateTypeInfo (xs : List XD) : List Bytes :=
  if xs.length < 2 then []
  else
    match sortBytes (xs.map (fun x => encodeTy x.ty)) with
    | [] => []
    | a :: rest => dupScan a false rest

/-- the type info of an extra-data entry as the closure inside `InlinedExtraData.Encode` writes it:
    as is, or as a reference into the duplicate list -/
def encodeTyRef (dups : List Bytes) (ty : TyInfo) : Bytes :=
  match findIdxFrom (· == encodeTy ty) dups 0 with
  | some i => tagHead8 CBORTagTypeInfoRef ++ head 0 i
  | none => encodeTy ty

/-- `TV.Encode` of a compact-map key -/
def encodeKey (k : Nat × Nat) : Bytes := encodeElem { size := k.1, pay := .val k.2 }

/-- one entry: tag number, then `ExtraData.Encode(enc, encodeTypeInfo)` -/
def encodeXD (dups : List Bytes) : XD → Bytes
  | .arr ty => head 6 CBORTagInlinedArrayExtraData ++ head 4 arrayExtraDataLength ++ encodeTyRef dups ty
  | .map x => head 6 CBORTagInlinedMapExtraData ++ encodeMapExtraWith (encodeTyRef dups) x
  | .cmap x hkeys keys =>
    head 6 CBORTagInlinedCompactMapExtraData ++ head 4 compactMapExtraDataLength ++
      encodeMapExtraWith (encodeTyRef dups) x ++
      head 2 (hkeys.length * digestSize) ++ encodeHkeys hkeys ++
      head 4 keys.length ++ keys.flatMap encodeKey

/-- `InlinedExtraData.Encode` -/
def encodeIED (xs : List XD) : Bytes :=
  let dups := findDuplicateTypeInfo xs
  head 4 inlinedExtraDataArrayCount ++
    head 4 dups.length ++ dups.flatten ++
    head 4 xs.length ++ xs.flatMap (encodeXD dups)

/-- the inlined-extra-data section of a slab: present iff the element encoder collected anything -/
def encodeIEDSection (xs : List XD) : Bytes := if xs.isEmpty then [] else encodeIED xs

/-! ### standalone slabs -/

/-- `ArrayDataSlab.Encode` with general elements -/
def encodeArrData (a : ArrData) : Bytes :=
  let r := encSts a.elems []
  let hasNext := decide (a.next ≠ SlabID.undef)
  [ ArrayDataSlab_Encode_version * 16 ||| flagIf hasNext maskHasNextSlabID ||| flagIf (!r.2.isEmpty) maskHasInlinedSlabs,
    maskArrayData ||| flagIf (anyPtrSts a.elems) maskSlabHasPointers ||| flagIf a.ty.isSome maskSlabRoot ] ++
  (match a.ty with | some t => encodeExtraData t | none => []) ++
  encodeIEDSection r.2 ++
  (if hasNext then encodeSlabID a.next else []) ++
  arrayHead16 a.elems.length ++ r.1

/-- `MapDataSlab.Encode` (standalone) -/
def encodeMapData (s : MapData) : Bytes :=
  let r := encMEls s.els []
  let hasNext := decide (s.next ≠ SlabID.undef)
  [ MapDataSlab_Encode_version * 16 ||| flagIf hasNext maskHasNextSlabID ||| flagIf (!r.2.isEmpty) maskHasInlinedSlabs,
    (if s.group then maskCollisionGroup else maskMapData) ||| flagIf s.els.hasPtr maskSlabHasPointers |||
      flagIf s.anySize maskSlabAnySize ||| flagIf s.extra.isSome maskSlabRoot ] ++
  (match s.extra with | some x => encodeMapExtra x | none => []) ++
  encodeIEDSection r.2 ++
  (if hasNext then encodeSlabID s.next else []) ++
  r.1

/-- one child header of a map index slab: slab index (8), first key (8), size (2) -/
def encodeMChildHdr (h : MChildHdr) : Bytes :=
  beBytes SlabIndexLength h.id.idx ++ beBytes digestSize h.firstKey ++ beBytes 2 h.size

/-- `MapMetaDataSlab.Encode` -/
def encodeMapMeta (m : MapMeta) : Bytes :=
  [ MapMetaDataSlab_Encode_version * 16,
    maskMapMeta ||| flagIf m.extra.isSome maskSlabRoot ] ++
  (match m.extra with | some x => encodeMapExtra x | none => []) ++
  beBytes SlabAddressLength m.id.addr ++ beBytes 2 m.childHdrs.length ++
  m.childHdrs.flatMap encodeMChildHdr

/-- `StorableSlab.Encode` with a general storable (the Go encoder fails if the storable contains an
    inlined slab: `enc.hasInlinedExtraData()`) -/
def encodeStorableSlabG (s : Stor) : Bytes :=
  [ StorableSlab_Encode_version * 16,
    maskStorable ||| maskSlabAnySize ||| flagIf s.hasPtr maskSlabHasPointers ] ++
  (encSt s []).1

/-- A slab as the codec sees it (what `DecodeSlab` returns / `EncodeSlab` takes). -/
inductive Slab where
  | data (ty : Option TyInfo) (s : DataSlab)
  | index (ty : Option TyInfo) (m : MetaSlab Unit)
  | storable (id : SlabID) (e : Elem)
  /-- array data slab with at least one element that is not a plain value / slab reference -/
  | adata (a : ArrData)
  | mdata (s : MapData)
  | mindex (m : MapMeta)
  /-- large-value slab whose storable is not a plain value / slab reference -/
  | storableG (id : SlabID) (s : Stor)

/-- `EncodeSlab` -/
def encodeSlab : Slab → Bytes
  | .data ty s => encodeDataSlab (ty.getD default) s
  | .index ty m => encodeMetaSlab (ty.getD default) m
  | .storable _ e => encodeStorableSlab e
  | .adata a => encodeArrData a
  | .mdata m => encodeMapData m
  | .mindex m => encodeMapMeta m
  | .storableG _ s => encodeStorableSlabG s

/-- `Slab.ByteSize()` -/
def Slab.byteSize : Slab → Nat
  | .data _ s => s.hdr.size
  | .index _ m => m.hdr.size
  | .storable _ e => versionAndFlagSize + e.size
  | .adata a => a.size
  | .mdata m => m.size
  | .mindex m => m.size
  | .storableG _ s => versionAndFlagSize + s.size

/-- length of the root's extra-data section (0 for non-roots) plus, for the kinds that can have
    one, the inlined-extra-data section -/
def Slab.extraDataLen : Slab → Nat
  | .data ty s => if s.root then (encodeExtraData (ty.getD default)).length else 0
  | .index ty m => if m.root then (encodeExtraData (ty.getD default)).length else 0
  | .storable _ _ => 0
  | .adata a =>
    (match a.ty with | some t => (encodeExtraData t).length | none => 0) +
      (encodeIEDSection (encSts a.elems []).2).length
  | .mdata s =>
    (match s.extra with | some x => (encodeMapExtra x).length | none => 0) +
      (encodeIEDSection (encMEls s.els []).2).length
  | .mindex m => match m.extra with | some x => (encodeMapExtra x).length | none => 0
  | .storableG _ _ => 0

end Atree.Codec
