import AtreeModel.Codec.Cbor
import AtreeModel.Gen.Consts
import AtreeModel.Array.Slab
/-
  Byte-exact encoders for the array slab kinds and the large-value slab, transcribed from
  array_data_slab_encode.go, array_metadata_slab_encode.go, storable_slab.go, flag.go,
  array_extradata.go, slab_id_storable.go, slab_id.go, encode.go, and — for the element and type
  info values the harness uses — harness/hx/values.go (`TV.Encode`, `TI.Encode`, `CTI.Encode`).

  Not modelled here: inlined array/map children (`encodeAsInlined`), the shared inlined-extra-data
  section, and all map slabs.
-/
namespace Atree.Codec
open Atree Atree.Gen

/-- Type info of the harness: `hx.TI` (a CBOR unsigned integer) or `hx.CTI` (tag 160 + unsigned). -/
inductive TyInfo where
  | plain (n : Nat)
  | composite (n : Nat)
deriving DecidableEq, Repr, Inhabited

/-- `hx.tagCompositeTI` -/
def tagCompositeTI : Nat := 160
/-- `hx.tagGapValue`: marks a `TV` whose size is not reachable by a plain byte string. -/
def tagGapValue : Nat := 161
/-- `hx.TagSomeValue` (the one-level wrapper; not modelled, see Decode.lean) -/
def tagSomeValue : Nat := 165

/-- `TI.Encode` = `EncodeUint64`; `CTI.Encode` = `EncodeTagHead(160)` then `EncodeUint64`. -/
def encodeTy : TyInfo → Bytes
  | .plain n => head 0 n
  | .composite n => head 6 tagCompositeTI ++ head 0 n

/-- `hx.isGap` -/
def isGap (size : Nat) : Bool := size == 25 || size == 258 || size == 65539

/-- `hx.bsLen`: content length of a byte string whose total encoded size is `total` (≥ 1). -/
def bsLen (total : Nat) : Nat :=
  if total - 1 < 24 then total - 1
  else if total - 2 < 256 then total - 2
  else if total - 3 < 65536 then total - 3
  else total - 5

/-- content length of the `TV` of encoded size `size` -/
def tvLen (size : Nat) : Nat := bsLen (if isGap size then size - 2 else size)

/-- `TV.content`: `pay` big-endian in the first `min l 8` bytes, then zeros. -/
def tvContent (l pay : Nat) : Bytes :=
  beBytes (min l 8) pay ++ List.replicate (l - min l 8) 0

/-- `SlabID.ToRawBytes` -/
def encodeSlabID (id : SlabID) : Bytes :=
  beBytes SlabAddressLength id.addr ++ beBytes SlabIndexLength id.idx

/-- `Storable.Encode` for the two element kinds of the model:
    `hx.TV.Encode` (`[0xd8, 161]` for the gap sizes, then `EncodeBytes(content)`) and
    `SlabIDStorable.Encode` (`[0xd8, CBORTagSlabID]`, then `EncodeBytes` of the 16 raw bytes). -/
def encodeElem (e : Elem) : Bytes :=
  match e.pay with
  | .ref id => tagHead8 CBORTagSlabID ++ head 2 SlabIDLength ++ encodeSlabID id
  | .val p =>
    (if isGap e.size then tagHead8 tagGapValue else []) ++
      head 2 (tvLen e.size) ++ tvContent (tvLen e.size) p

/-- What makes `(size, pay)` a value of the harness (`hx.ValidTV`, `TV.Size : uint32`), resp. a slab
    reference as the library builds it.  Size 65540 is not the size of any byte string
    (65535 content bytes take a 3-byte head, 65536 a 5-byte head) and is not one of the harness's
    gap sizes. -/
def validElem (e : Elem) : Prop :=
  match e.pay with
  | .ref id => e.size = slabIDStorableSize ∧ id.addr < 2 ^ 64 ∧ id.idx < 2 ^ 64
  | .val p => 1 ≤ e.size ∧ e.size ≠ 65540 ∧ e.size < 2 ^ 32 ∧ p < 256 ^ (min (tvLen e.size) 8)

instance (e : Elem) : Decidable (validElem e) := by
  unfold validElem; cases e.pay <;> infer_instance

/-- `hasPointer(storable)` -/
def elemIsRef (e : Elem) : Bool :=
  match e.pay with
  | .ref _ => true
  | .val _ => false

/-- `ArrayExtraData.Encode` with `defaultEncodeTypeInfo`: `EncodeArrayHead(1)` then the type info. -/
def encodeExtraData (ty : TyInfo) : Bytes :=
  head 4 arrayExtraDataLength ++ encodeTy ty

/-- `head` bytes (flag.go): `h[0] = version << 4 | …`, `h[1] = type mask | …`. -/
def flagIf (b : Bool) (mask : Nat) : Nat := if b then mask else 0

/-- `ArrayDataSlab.encodeElements`: `0x99`, count as `uint16`, the elements. -/
def encodeElements (elems : List Elem) : Bytes :=
  arrayHead16 elems.length ++ elems.flatMap encodeElem

/-- `ArrayDataSlab.Encode` for a standalone (not inlined) slab without inlined children. -/
def encodeDataSlab (ty : TyInfo) (s : DataSlab) : Bytes :=
  let hasNext := decide (s.next ≠ SlabID.undef)
  [ ArrayDataSlab_Encode_version * 16 ||| flagIf hasNext maskHasNextSlabID,
    maskArrayData ||| flagIf (s.elems.any elemIsRef) maskSlabHasPointers ||| flagIf s.root maskSlabRoot ] ++
  (if s.root then encodeExtraData ty else []) ++
  (if hasNext then encodeSlabID s.next else []) ++
  encodeElements s.elems

/-- one child header: slab index (8), count (4), size (2) -/
def encodeChildHdr (h : Hdr) : Bytes :=
  beBytes SlabIndexLength h.id.idx ++ beBytes 4 h.count ++ beBytes 2 h.size

/-- `ArrayMetaDataSlab.Encode` -/
def encodeMetaSlab {α : Type} (ty : TyInfo) (m : MetaSlab α) : Bytes :=
  [ ArrayMetaDataSlab_Encode_version * 16,
    maskArrayMeta ||| flagIf m.root maskSlabRoot ] ++
  (if m.root then encodeExtraData ty else []) ++
  beBytes SlabAddressLength m.hdr.id.addr ++ beBytes 2 m.childHdrs.length ++
  m.childHdrs.flatMap encodeChildHdr

/-- `StorableSlab.Encode` -/
def encodeStorableSlab (e : Elem) : Bytes :=
  [ StorableSlab_Encode_version * 16,
    maskStorable ||| maskSlabAnySize ||| flagIf (elemIsRef e) maskSlabHasPointers ] ++
  encodeElem e

/-- A slab as the codec sees it (what `DecodeSlab` returns / `EncodeSlab` takes). -/
inductive Slab where
  | data (ty : Option TyInfo) (s : DataSlab)
  | index (ty : Option TyInfo) (m : MetaSlab Unit)
  | storable (id : SlabID) (e : Elem)
deriving Repr

/-- `EncodeSlab` -/
def encodeSlab : Slab → Bytes
  | .data ty s => encodeDataSlab (ty.getD default) s
  | .index ty m => encodeMetaSlab (ty.getD default) m
  | .storable _ e => encodeStorableSlab e

/-- `Slab.ByteSize()` -/
def Slab.byteSize : Slab → Nat
  | .data _ s => s.hdr.size
  | .index _ m => m.hdr.size
  | .storable _ e => versionAndFlagSize + e.size

/-- length of the root's extra-data section (0 for non-roots) -/
def Slab.extraDataLen : Slab → Nat
  | .data ty s => if s.root then (encodeExtraData (ty.getD default)).length else 0
  | .index ty m => if m.root then (encodeExtraData (ty.getD default)).length else 0
  | .storable _ _ => 0

end Atree.Codec
