import AtreeModel.Codec.Encode
/-
  Three limits of the codec that the byte-level model of `Encode.lean` leaves implicit, made explicit
  and executable (the trace replayer evaluates them on every `ENC` line of the `codec` stream):

  * `encodeSlabE` — `EncodeSlab` as an `Except`-valued function: the Go encoder returns an ERROR
    (and writes nothing) when an inlined child would get an extra-data index above
    `maxInlinedExtraDataIndex` (array_data_slab_encode.go:50, map_data_slab_encode.go:193,259), when
    an `elements` group it writes has a digest level above `maxDigestLevel`
    (map_elements_encode.go:35,120), and when a large-value slab's storable contains an inlined slab
    (storable_slab.go:115).  In every other case the bytes are those of `encodeSlab`.
  * `Slab.vdepth` — the EXACT number of nesting levels the CBOR library's validator
    (`wellformedInternal`, transcribed as `wfRun` in Cbor.lean) needs for the encoding: one per
    definite-length array, one per tag number that DIRECTLY follows another tag number, nothing for
    a tag number that follows an array head or starts a top-level item.  The register decodes under
    a `DecMode` with `MaxNestedLevels = L` exactly when `vdepth ≤ L` (the harness and the default
    `DecOptions{}` use 32).
  * `Slab.hoisted` — the bytes the compact form of same-typed inlined composite maps does not write
    in place (keys, digests, the `hkeyElements` head): the second documented saving of C06, as an
    exact term: `written + omitted sibling link + hoisted = reported size + extra-data sections`.
-/
namespace Atree.Codec
open Atree Atree.Gen

/-! ### `EncodeSlab` with its error exits -/

inductive EncErr where
  /-- "extra data index … exceeds limit 255" -/
  | extraDataIndex
  /-- "hash level / digest level … exceeds max digest level" -/
  | digestLevel
  /-- "failed to encode storable slab because storable contains inlined array/map" -/
  | storableInlined
deriving DecidableEq, Repr

mutual
/-- every `hkeyElements.Encode` / `singleElements.Encode` the encoder calls while writing the
    storable sees a level within `maxDigestLevel` (the compact form of an inlined map writes values
    only: its own level is not looked at) -/
def Stor.levelsOK : Stor → Bool
  | .val _ _ => true
  | .ref _ => true
  | .some s => s.levelsOK
  | .arr _ _ es => levelsOKSts es
  | .map x _ (.hkey level hkeys elems) =>
    match compactKeys x elems with
    | some _ => levelsOKMElList elems
    | none => (MEls.hkey level hkeys elems).levelsOK
  | .map _ _ (.single level elems) => (MEls.single level elems).levelsOK
def levelsOKSts : List Stor → Bool
  | [] => true
  | s :: ss => s.levelsOK && levelsOKSts ss
def SEl.levelsOK : SEl → Bool
  | .mk k v => k.levelsOK && v.levelsOK
def MEl.levelsOK : MEl → Bool
  | .single e => e.levelsOK
  | .inl els => els.levelsOK
  | .ext _ => true
def MEls.levelsOK : MEls → Bool
  | .hkey level _ es => decide (level ≤ maxDigestLevel) && levelsOKMElList es
  | .single level es => decide (level ≤ maxDigestLevel) && levelsOKSElList es
def levelsOKMElList : List MEl → Bool
  | [] => true
  | e :: es => e.levelsOK && levelsOKMElList es
def levelsOKSElList : List SEl → Bool
  | [] => true
  | e :: es => e.levelsOK && levelsOKSElList es
end

/-- number of entries the encoder collects in the slab's shared inlined-extra-data section -/
def Slab.xdCount : Slab → Nat
  | .adata a => (encSts a.elems []).2.length
  | .mdata m => (encMEls m.els []).2.length
  | .storableG _ s => (encSt s []).2.length
  | _ => 0

/-- the levels the encoder checks -/
def Slab.levelsOK : Slab → Bool
  | .adata a => levelsOKSts a.elems
  | .mdata m => m.els.levelsOK
  | .storableG _ s => s.levelsOK
  | _ => true

/-- `EncodeSlab`: the error exits of the Go encoder, else the bytes of `encodeSlab`.  An extra-data
    index is the position of an entry in the list the encoder is collecting, so some index exceeds
    255 exactly when the final list has more than 256 entries. -/
def encodeSlabE (s : Slab) : Except EncErr Bytes :=
  if !s.levelsOK then .error .digestLevel
  else if s.xdCount > maxInlinedExtraDataIndex + 1 then .error .extraDataIndex
  else
    match s with
    | .storableG _ _ => if s.xdCount > 0 then .error .storableInlined else .ok (encodeSlab s)
    | _ => .ok (encodeSlab s)

/-! ### exact validator depth -/

mutual
/-- levels the validator needs below the current one for `(encSt s xs).1`; `inTag` = the item
    directly follows a tag number -/
def Stor.vd : Stor → Bool → Nat
  | .val size _, inTag => if isGap size && inTag then 1 else 0
  | .ref _, inTag => if inTag then 1 else 0
  | .some s, inTag => (if inTag then 1 else 0) + s.vd true
  -- tag 250, [index, slab index, [elements]]
  | .arr _ _ es, inTag => (if inTag then 1 else 0) + 2 + vdSts es
  -- tag 252, [index, slab index, [values]]  /  tag 251, [index, slab index, elements]
  | .map x _ (.hkey level hkeys elems), inTag =>
    match compactKeys x elems with
    | some _ => (if inTag then 1 else 0) + 2 + vdMElVals elems
    | none => (if inTag then 1 else 0) + 1 + (MEls.hkey level hkeys elems).vd
  | .map _ _ (.single level elems), inTag => (if inTag then 1 else 0) + 1 + (MEls.single level elems).vd
/-- the items of an array: the deepest one -/
def vdSts : List Stor → Nat
  | [] => 0
  | s :: ss => max (s.vd false) (vdSts ss)
/-- `[key, value]` -/
def SEl.vd : SEl → Nat
  | .mk k v => 1 + max (k.vd false) (v.vd false)
def MEl.vd : MEl → Nat
  | .single e => e.vd
  -- tag 253, elements
  | .inl els => els.vd
  -- tag 254, tag 255, byte string
  | .ext _ => 1
/-- `[level, digests, [elements]]` -/
def MEls.vd : MEls → Nat
  | .hkey _ _ es => 2 + vdMElList es
  | .single _ es => 2 + vdSElList es
def vdMElList : List MEl → Nat
  | [] => 0
  | e :: es => max e.vd (vdMElList es)
def vdSElList : List SEl → Nat
  | [] => 0
  | e :: es => max e.vd (vdSElList es)
/-- the values of the single elements (what the compact form writes) -/
def vdMElVals : List MEl → Nat
  | [] => 0
  | .single (.mk _ v) :: es => max (v.vd false) (vdMElVals es)
  | _ :: es => vdMElVals es
end

/-- one entry of the shared section: `tag, [type info]`, `tag, [type info, count, seed]`,
    `tag, [[type info, count, seed], digests, [keys]]` -/
def XD.vd : XD → Nat
  | .arr _ => 1
  | .map _ => 1
  | .cmap _ _ _ => 2

/-- `[[type infos], [entries]]` (absent when there is no entry) -/
def vdIED (xs : List XD) : Nat :=
  if xs.isEmpty then 0 else 2 + xs.foldl (fun m x => max m x.vd) 0

/-- Nesting levels the validator needs for the register of the slab: the deepest of its top-level
    CBOR items (root extra data, shared inlined extra data, the element array / the elements / the
    storable); index slabs and the sibling link are not CBOR. -/
def Slab.vdepth : Slab → Nat
  | .data _ _ => 1
  | .index ty _ => if ty.isSome then 1 else 0
  | .storable _ _ => 0
  | .adata a => max (max (if a.ty.isSome then 1 else 0) (vdIED (encSts a.elems []).2)) (1 + vdSts a.elems)
  | .mdata m => max (max (if m.extra.isSome then 1 else 0) (vdIED (encMEls m.els []).2)) m.els.vd
  | .mindex m => if m.extra.isSome then 1 else 0
  | .storableG _ s => s.vd false

/-! ### the bytes the compact form hoists into the shared section -/

mutual
/-- reported size minus bytes written in place, for a storable: per compact-encoded map the
    `hkeyElements` head that is replaced by a plain array head, and per key its digest, the
    single-element head and the key itself; recursively for the values -/
def Stor.hoisted : Stor → Nat
  | .val _ _ => 0
  | .ref _ => 0
  | .some s => s.hoisted
  | .arr _ _ es => hoistedSts es
  | .map x _ (.hkey _ _ elems) =>
    match compactKeys x elems with
    | some keys =>
      (hkeyElementsPrefixSize + (keys.map (fun k => digestSize + singleElementPrefixSize + k.1)).sum
          - headLen keys.length) + hoistedMElList elems
    | none => hoistedMElList elems
  | .map _ _ (.single _ elems) => hoistedSElList elems
def hoistedSts : List Stor → Nat
  | [] => 0
  | s :: ss => s.hoisted + hoistedSts ss
def SEl.hoisted : SEl → Nat
  | .mk k v => k.hoisted + v.hoisted
def MEl.hoisted : MEl → Nat
  | .single e => e.hoisted
  | .inl els => els.hoisted
  | .ext _ => 0
def MEls.hoisted : MEls → Nat
  | .hkey _ _ es => hoistedMElList es
  | .single _ es => hoistedSElList es
def hoistedMElList : List MEl → Nat
  | [] => 0
  | e :: es => e.hoisted + hoistedMElList es
def hoistedSElList : List SEl → Nat
  | [] => 0
  | e :: es => e.hoisted + hoistedSElList es
end

/-- the compact-form saving of a whole slab -/
def Slab.hoisted : Slab → Nat
  | .adata a => hoistedSts a.elems
  | .mdata m => m.els.hoisted
  | .storableG _ s => s.hoisted
  | _ => 0

end Atree.Codec
