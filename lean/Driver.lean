import AtreeModel
def main : IO Unit := IO.println "atree_model"
