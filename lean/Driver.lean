import AtreeModel
import AtreeModel.Replay.Array
import AtreeModel.Replay.Storage
import AtreeModel.Replay.Health
import AtreeModel.Replay.Map
import AtreeModel.Replay.Batch
import AtreeModel.Replay.World
import AtreeModel.Replay.Settings
import AtreeModel.Replay.Codec
import AtreeModel.Replay.Iter
import AtreeModel.Replay.SlabId
import AtreeModel.Replay.Digester
/-
  atree_model: replays a trace (stdin) on the Lean model and compares every line the
  implementation produced with the model's own rendering.

    atree_model array   < array-1.trace

  Output: `RESULT {json}`; exit status 0 = all lines agree, 1 = disagreement, 2 = usage.
-/
open Atree Atree.Replay

def jsonStr (s : String) : String :=
  "\"" ++ (s.foldl (fun acc c =>
    if c == '"' then acc ++ "\\\""
    else if c == '\\' then acc ++ "\\\\"
    else if c == '\n' then acc ++ "\\n"
    else acc.push c) "") ++ "\""

def reportJson (kind : String) (r : Report) : String :=
  "{\"stream\":" ++ jsonStr kind ++
  ",\"lines\":" ++ toString r.lines ++
  ",\"ops\":" ++ toString r.ops ++
  ",\"compared\":" ++ toString r.compared ++
  ",\"mismatches\":" ++ toString r.nMismatch ++
  ",\"first\":[" ++ ",".intercalate (r.mismatches.reverse.map jsonStr) ++ "]" ++
  ",\"tags\":{" ++ ",".intercalate (r.tags.map (fun p => jsonStr p.1 ++ ":" ++ toString p.2)) ++ "}}"

partial def loopArray (h : IO.FS.Stream) (s : ArrState) (n : Nat) : IO ArrState := do
  let line ← h.getLine
  if line.isEmpty then return s
  let line := (line.dropRightWhile (fun c => c == '\n' || c == '\r'))
  loopArray h (s.stepLine line n) (n + 1)

partial def loopStorage (h : IO.FS.Stream) (s : StorState) (n : Nat) : IO StorState := do
  let line ← h.getLine
  if line.isEmpty then return s
  let line := (line.dropRightWhile (fun c => c == '\n' || c == '\r'))
  loopStorage h (s.stepLine line n) (n + 1)

partial def loopHealth (h : IO.FS.Stream) (s : HealthState) (n : Nat) : IO HealthState := do
  let line ← h.getLine
  if line.isEmpty then return s
  let line := (line.dropRightWhile (fun c => c == '\n' || c == '\r'))
  loopHealth h (s.stepLine line n) (n + 1)

partial def loopMap (h : IO.FS.Stream) (s : MapState) (n : Nat) : IO MapState := do
  let line ← h.getLine
  if line.isEmpty then return s
  let line := (line.dropRightWhile (fun c => c == '\n' || c == '\r'))
  loopMap h (s.stepLine line n) (n + 1)

partial def loopWorld (h : IO.FS.Stream) (s : WState) (n : Nat) : IO WState := do
  let line ← h.getLine
  if line.isEmpty then return s
  let line := (line.dropRightWhile (fun c => c == '\n' || c == '\r'))
  loopWorld h (s.stepLine line n) (n + 1)

partial def loopSettings (h : IO.FS.Stream) (s : SetState) (n : Nat) : IO SetState := do
  let line ← h.getLine
  if line.isEmpty then return s
  let line := (line.dropRightWhile (fun c => c == '\n' || c == '\r'))
  loopSettings h (s.stepLine line n) (n + 1)

partial def loopCodec (h : IO.FS.Stream) (s : CodecState) (n : Nat) : IO CodecState := do
  let line ← h.getLine
  if line.isEmpty then return s
  let line := (line.dropRightWhile (fun c => c == '\n' || c == '\r'))
  loopCodec h (s.stepLine line n) (n + 1)

partial def loopIter (h : IO.FS.Stream) (s : IterState) (n : Nat) : IO IterState := do
  let line ← h.getLine
  if line.isEmpty then return s
  let line := (line.dropRightWhile (fun c => c == '\n' || c == '\r'))
  loopIter h (s.stepLine line n) (n + 1)

partial def loopBatch (h : IO.FS.Stream) (s : BatchState) (n : Nat) : IO BatchState := do
  let line ← h.getLine
  if line.isEmpty then return s
  let line := (line.dropRightWhile (fun c => c == '\n' || c == '\r'))
  loopBatch h (s.stepLine line n) (n + 1)

partial def loopSlabId (h : IO.FS.Stream) (s : SidState) (n : Nat) : IO SidState := do
  let line ← h.getLine
  if line.isEmpty then return s
  let line := (line.dropRightWhile (fun c => c == '\n' || c == '\r'))
  loopSlabId h (s.stepLine line n) (n + 1)

partial def loopDigester (h : IO.FS.Stream) (s : DigState) (n : Nat) : IO DigState := do
  let line ← h.getLine
  if line.isEmpty then return s
  let line := (line.dropRightWhile (fun c => c == '\n' || c == '\r'))
  loopDigester h (s.stepLine line n) (n + 1)

def main (args : List String) : IO UInt32 := do
  let stdin ← IO.getStdin
  match args with
  | ["array"] =>
    let s ← loopArray stdin {} 1
    let s := if s.pending.isEmpty then s else s.note s!"end of trace: model expected further lines: {s.pending}"
    IO.println ("RESULT " ++ reportJson "array" s.rep)
    return (if s.rep.nMismatch == 0 then 0 else 1)
  | ["storage"] =>
    let s ← loopStorage stdin {} 1
    let s := if s.pending.isEmpty then s else s.note s!"end of trace: model expected further lines: {s.pending}"
    IO.println ("RESULT " ++ reportJson "storage" s.rep)
    return (if s.rep.nMismatch == 0 then 0 else 1)
  | ["map"] =>
    let s ← loopMap stdin {} 1
    let s := if s.pending.isEmpty then s else s.note s!"end of trace: model expected further lines: {s.pending}"
    IO.println ("RESULT " ++ reportJson "map" s.rep)
    return (if s.rep.nMismatch == 0 then 0 else 1)
  | ["world"] =>
    let s ← loopWorld stdin {} 1
    let s := if s.pending.isEmpty then s else s.note s!"end of trace: model expected further lines: {s.pending}"
    IO.println ("RESULT " ++ reportJson "world" s.rep)
    return (if s.rep.nMismatch == 0 then 0 else 1)
  | ["settings"] =>
    let s ← loopSettings stdin {} 1
    IO.println ("RESULT " ++ reportJson "settings" s.rep)
    return (if s.rep.nMismatch == 0 then 0 else 1)
  | ["codec"] =>
    let s ← loopCodec stdin {} 1
    let s := if s.pending.isEmpty then s else s.note s!"end of trace: model expected further lines: {s.pending}"
    IO.println ("RESULT " ++ reportJson "codec" s.rep)
    return (if s.rep.nMismatch == 0 then 0 else 1)
  | ["iter"] =>
    let s ← loopIter stdin {} 1
    let r := s.finish.report
    IO.println ("RESULT " ++ reportJson "iter" r)
    return (if r.nMismatch == 0 then 0 else 1)
  | ["batch"] =>
    let s ← loopBatch stdin {} 1
    let s := if s.pending.isEmpty then s else s.note s!"end of trace: model expected further lines: {s.pending}"
    IO.println ("RESULT " ++ reportJson "batch" s.rep)
    return (if s.rep.nMismatch == 0 then 0 else 1)
  | ["slabid"] =>
    let s ← loopSlabId stdin {} 1
    let s := if s.pending.isEmpty then s else s.note s!"end of trace: model expected a further line: OBS {s.pending}"
    IO.println ("RESULT " ++ reportJson "slabid" s.rep)
    return (if s.rep.nMismatch == 0 then 0 else 1)
  | ["health"] =>
    let s ← loopHealth stdin {} 1
    let s := if s.pending.isEmpty then s else s.note s!"end of trace: model expected further lines: {s.pending}"
    IO.println ("RESULT " ++ reportJson "health" s.rep)
    return (if s.rep.nMismatch == 0 then 0 else 1)
  | ["digester"] =>
    let s ← loopDigester stdin {} 1
    IO.println ("RESULT " ++ reportJson "digester" s.rep)
    return (if s.rep.nMismatch == 0 then 0 else 1)
  | _ =>
    IO.eprintln "usage: atree_model <array|storage|health|map|world|settings|codec|iter|batch|slabid|digester> < trace"
    return 2
