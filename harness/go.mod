module verifharness

go 1.24

require (
	github.com/fxamacker/cbor/v2 v2.9.2-0.20260331174317-a78e92ec038e
	github.com/fxamacker/circlehash v0.3.0
	github.com/onflow/atree v0.0.0
	github.com/zeebo/blake3 v0.2.4
)

require (
	github.com/klauspost/cpuid/v2 v2.0.12 // indirect
	github.com/x448/float16 v0.8.4 // indirect
)

replace github.com/onflow/atree => /repo
