package hx

import (
	"errors"
	"fmt"
	"regexp"
	"strings"

	"github.com/onflow/atree"
)

// Error FIELDS (C18: a rejected request "returns an error NAMING that cause"; sweep s2, mutant ROe1: the
// read-only-iterator refusal named container and element the wrong way round and no oracle noticed,
// because ErrKind reduces an error to type + category).
//
// The identifiers, indexes, bounds, keys and limits an atree error carries are unexported; what the
// caller can observe of them is the message of the SPECIFIC error (the typed error the category wraps).
// ErrFields extracts them from that message, kind by kind; ErrNames compares them with what the request
// was about.

var errFieldRe = map[string]*regexp.Regexp{
	"IndexOutOfBounds":                regexp.MustCompile(`^index (\d+) is outside required range \((\d+)-(\d+)\)$`),
	"SliceOutOfBounds":                regexp.MustCompile(`^slice \[(\d+):(\d+)\] is out of bounds with range (\d+)-(\d+)$`),
	"InvalidSliceIndex":               regexp.MustCompile(`^invalid slice index: (\d+) > (\d+)$`),
	"KeyNotFound":                     regexp.MustCompile(`(?s)^key \((.*)\) not found$`),
	"DuplicateKey":                    regexp.MustCompile(`(?s)^duplicate key \((.*)\)$`),
	"SlabNotFound":                    regexp.MustCompile(`(?s)^slab \((0x[0-9a-f]+\.\d+)\) not found: `),
	"NotValue":                        regexp.MustCompile(`^slab \((0x[0-9a-f]+\.\d+)\) cannot be used to create Value object$`),
	"CollisionLimit":                  regexp.MustCompile(`^collision limit per digest (\d+) already reached$`),
	"MaxElementCount":                 regexp.MustCompile(`array already has max number of elements (\d+)$`),
	"ReadOnlyIteratorElementMutation": regexp.MustCompile(`^element \((0x[0-9a-f]+\.\d+)\) cannot be mutated because it is from readonly iterator of container \((0x[0-9a-f]+\.\d+)\)$`),
}

// specific returns the message of the typed atree error inside err whose kind ErrKind reports.
func specific(err error) (string, bool) {
	var (
		e1  *atree.IndexOutOfBoundsError
		e2  *atree.SliceOutOfBoundsError
		e3  *atree.InvalidSliceIndexError
		e4  *atree.KeyNotFoundError
		e5  *atree.DuplicateKeyError
		e6  *atree.SlabNotFoundError
		e7  *atree.NotValueError
		e8  *atree.CollisionLimitError
		e9  *atree.ArrayElementCannotExceedMaxElementCountError
		e10 *atree.ReadOnlyIteratorElementMutationError
	)
	switch {
	case errors.As(err, &e1):
		return e1.Error(), true
	case errors.As(err, &e2):
		return e2.Error(), true
	case errors.As(err, &e3):
		return e3.Error(), true
	case errors.As(err, &e4):
		return e4.Error(), true
	case errors.As(err, &e5):
		return e5.Error(), true
	case errors.As(err, &e6):
		return e6.Error(), true
	case errors.As(err, &e7):
		return e7.Error(), true
	case errors.As(err, &e8):
		return e8.Error(), true
	case errors.As(err, &e9):
		return e9.Error(), true
	case errors.As(err, &e10):
		return e10.Error(), true
	}
	return "", false
}

// ErrFields returns what the error names, in the order of its message:
//
//	IndexOutOfBounds: index, lower bound, upper bound     SliceOutOfBounds: start, end, lower, upper
//	InvalidSliceIndex: start, end                         KeyNotFound / DuplicateKey: the key as rendered by %s
//	SlabNotFound / NotValue: the slab ID ("0x<addr>.<idx>")   CollisionLimit: the limit   MaxElementCount: the maximum
//	ReadOnlyIteratorElementMutation: ELEMENT value ID, then CONTAINER value ID
//
// ok is false if err holds no error of a kind that carries fields, or if its message has not the form
// the kind's fields are rendered in.
func ErrFields(err error) (kind string, fields []string, ok bool) {
	kind = strings.SplitN(ErrKind(err), ":", 2)[0]
	re := errFieldRe[kind]
	if re == nil {
		return kind, nil, false
	}
	msg, found := specific(err)
	if !found {
		return kind, nil, false
	}
	m := re.FindStringSubmatch(msg)
	if m == nil {
		return kind, nil, false
	}
	return kind, m[1:], true
}

// ErrNames checks that err is of the given kind and names exactly the given things (see ErrFields for the
// order; numbers as decimal strings, identifiers as "0x<addr>.<idx>", keys as fmt renders them with %s).
// It returns "" or a description of the difference.
func ErrNames(err error, kind string, want ...any) string {
	k, got, ok := ErrFields(err)
	if k != kind {
		return fmt.Sprintf("the error is a %s, not a %s", k, kind)
	}
	if !ok {
		msg, _ := specific(err)
		return fmt.Sprintf("the %s error does not name what it is about in the form the library renders it (%q)", kind, clipMsg(msg))
	}
	w := make([]string, len(want))
	for i, x := range want {
		w[i] = fmt.Sprint(x)
	}
	if len(got) != len(w) {
		return fmt.Sprintf("the %s error names %v, the request was about %v", kind, got, w)
	}
	for i := range w {
		if got[i] != w[i] {
			msg, _ := specific(err)
			return fmt.Sprintf("the %s error names %v, the request was about %v (%q)", kind, got, w, clipMsg(msg))
		}
	}
	return ""
}

func clipMsg(s string) string {
	if len(s) > 160 {
		return s[:160] + "..."
	}
	return s
}

// VIDStr renders a value ID the way atree renders slab and value IDs in messages ("0x<addr>.<idx>").
func VIDStr(v atree.ValueID) string { return v.String() }
