package hx

import (
	"bufio"
	"encoding/json"
	"fmt"
	"os"
	"path/filepath"
	"runtime"
	"runtime/debug"
	"sort"
	"strings"
	"sync/atomic"
	"syscall"
	"time"

	"github.com/onflow/atree"
)

// W writes one trace file.
type W struct {
	f     *os.File
	bw    *bufio.Writer
	Path  string
	Lines int
	// LastOp is the last request line ("OP ...") written: the request a stream was executing when an
	// oracle fired or the library panicked.
	LastOp string
}

func NewW(path string) *W {
	if err := os.MkdirAll(filepath.Dir(path), 0o755); err != nil {
		panic(err)
	}
	f, err := os.Create(path)
	if err != nil {
		panic(err)
	}
	return &W{f: f, bw: bufio.NewWriterSize(f, 1<<20), Path: path}
}

func (w *W) L(format string, args ...any) {
	if strings.HasPrefix(format, "OP ") {
		w.LastOp = fmt.Sprintf(format, args...)
	}
	fmt.Fprintf(w.bw, format, args...)
	w.bw.WriteByte('\n')
	w.Lines++
	curW.Store(w)
	progress()
}

// Watchdog state: the last moment the running stream made progress (wrote a trace line, counted a
// branch, created its statistics), and the objects needed to report where it got stuck.
var (
	lastProgress atomic.Int64
	curW         atomic.Pointer[W]
	curStats     atomic.Pointer[Stats]
)

func progress() { lastProgress.Store(time.Now().UnixNano()) }

// CurrentStats is the Stats object the running stream created last (nil before the first one).
func CurrentStats() *Stats { return curStats.Load() }

// CurrentTracePos flushes the trace being written and returns its path and the number of lines written.
func CurrentTracePos() (string, int) {
	w := curW.Load()
	if w == nil {
		return "", 0
	}
	w.bw.Flush()
	return w.Path, w.Lines
}

// PanicFrames renders the innermost n frames of the panicking goroutine (called from a deferred function).
func PanicFrames(n int) string {
	pc := make([]uintptr, 64)
	k := runtime.Callers(3, pc)
	frames := runtime.CallersFrames(pc[:k])
	var out []string
	for len(out) < n {
		f, more := frames.Next()
		if !strings.HasPrefix(f.Function, "runtime.") {
			out = append(out, fmt.Sprintf("%s (%s:%d)", f.Function, filepath.Base(f.File), f.Line))
		}
		if !more {
			break
		}
	}
	return strings.Join(out, " <- ")
}

// StartWatchdog makes the process report a violation and exit when the stream makes no progress
// for `limit`: the library did not return from a call (or crawls).  The violation carries the trace
// position, so the replay file shows the history up to the call that never returned.  Property "*":
// a call that does not return fails whatever property the stream was run for.
func StartWatchdog(limit time.Duration) {
	progress()
	go func() {
		cpuAt, seen := cpuTime(), lastProgress.Load()
		for {
			time.Sleep(time.Second)
			lp := lastProgress.Load()
			if lp != seen {
				seen, cpuAt = lp, cpuTime()
				continue
			}
			// The library is looping if the PROCESS burned `limit` of CPU time without progress; it is
			// blocked (deadlock) if nothing happened for five times that in wall-clock time.  Plain
			// wall-clock time would misfire when the machine is overloaded and the process starved.
			wall := time.Duration(time.Now().UnixNano() - lp)
			if cpuTime()-cpuAt < limit && wall < 5*limit {
				continue
			}
			st := curStats.Load()
			if st == nil {
				st = NewStats("?", 0)
			}
			v := Violation{Property: "*", Stream: st.Stream, Seed: st.Seed, Program: st.Programs,
				What: fmt.Sprintf("the library did not return: no progress of stream %s for %v of CPU time / %v of wall-clock time", st.Stream, (cpuTime() - cpuAt).Round(time.Second), wall.Round(time.Second))}
			if w := curW.Load(); w != nil {
				w.bw.Flush()
				v.Trace, v.Line = w.Path, w.Lines
			}
			st.Violations = append(st.Violations, v)
			st.Emit()
			os.Exit(3)
		}
	}()
}

// Guarded runs one stream.  A panic that escapes from it while the LIBRARY was executing (the innermost
// frame that is not the Go runtime's or a third-party package's belongs to atree, not to the harness)
// is a verdict about the tree, like a call that never returns: the stream's statistics are returned with
// a violation of property "*" that names the request being executed and the trace position, so the
// replay file shows the history up to the call that panicked (sweep s2: mutants AS2, AS5, MSV1 killed the
// harness process, and `./check` could only say "could not be completed").  A panic raised by the
// harness's own code (also inside a callback the library called) is a harness error.
func Guarded(fn func() *Stats) (st *Stats) {
	defer func() {
		r := recover()
		if r == nil {
			return
		}
		stack := string(debug.Stack())
		st = curStats.Load()
		if st == nil {
			st = NewStats("?", 0)
		}
		frame, lib := panicOrigin(stack)
		msg := fmt.Sprintf("%v", r)
		if i := strings.IndexByte(msg, '\n'); i >= 0 {
			msg = msg[:i]
		}
		if !lib {
			st.HarnessErr = fmt.Sprintf("harness panic in %s: %s", frame, msg)
			return
		}
		v := Violation{Property: "*", Stream: st.Stream, Seed: st.Seed, Program: st.Programs,
			What: fmt.Sprintf("the library panicked in %s: %s", frame, msg)}
		if w := curW.Load(); w != nil {
			if w.LastOp != "" {
				v.What += fmt.Sprintf(" (while executing request %q)", w.LastOp)
			}
			v.Trace, v.Line = w.Path, w.Lines
		}
		st.Violations = append(st.Violations, v)
	}()
	return fn()
}

// panicOrigin finds, in a stack dump taken inside a deferred function while panicking, the innermost
// frame below the panic that belongs to the library or to the harness.
func panicOrigin(stack string) (frame string, library bool) {
	lines := strings.Split(stack, "\n")
	start := 0
	for i, l := range lines {
		if strings.HasPrefix(l, "panic(") {
			start = i + 1 // (the last one: a re-panic shows several)
		}
	}
	for _, l := range lines[start:] {
		if l == "" || l[0] == '\t' || l[0] == ' ' {
			continue // file:line of the frame above
		}
		fn := l
		if i := strings.LastIndexByte(fn, '('); i > 0 {
			fn = fn[:i]
		}
		switch {
		case strings.HasPrefix(fn, "github.com/onflow/atree"):
			return fn, true
		case strings.HasPrefix(fn, "main.") || strings.HasPrefix(fn, "verifharness/"):
			return fn, false
		}
	}
	return "?", false
}

// cpuTime is the CPU time (user + system) this process has consumed.
func cpuTime() time.Duration {
	var ru syscall.Rusage
	if err := syscall.Getrusage(syscall.RUSAGE_SELF, &ru); err != nil {
		return 0
	}
	return time.Duration(ru.Utime.Nano() + ru.Stime.Nano())
}

func (w *W) Close() {
	if err := w.bw.Flush(); err != nil {
		ioError.Store("writing " + w.Path + ": " + err.Error())
	}
	if err := w.f.Close(); err != nil {
		ioError.Store("closing " + w.Path + ": " + err.Error())
	}
}

// ioError records a failed trace write (disk full ...): the run is then a TOOL failure, not a verdict.
var ioError atomic.Value

// Violation is a property violation found on the IMPLEMENTATION by a model-free oracle.
type Violation struct {
	Property string `json:"property"`
	Stream   string `json:"stream"`
	Seed     int64  `json:"seed"`
	Program  int    `json:"program"`
	Step     int    `json:"step"`
	What     string `json:"what"`
	Trace    string `json:"trace,omitempty"`
	Line     int    `json:"line,omitempty"` // number of trace lines written when the oracle fired
	Sig      string `json:"signature,omitempty"`
}

// Stats is what a stream reports to the check script (JSON on stdout).
type Stats struct {
	Stream     string         `json:"stream"`
	Seed       int64          `json:"seed"`
	Programs   int            `json:"programs"`
	Ops        int            `json:"ops"`
	TraceFiles []string       `json:"trace_files"`
	TraceLines int            `json:"trace_lines"`
	Dist       map[string]int `json:"distribution"`
	Distinct   int            `json:"distinct_nontrivial"`
	Samples    []string       `json:"samples"`
	Violations []Violation    `json:"violations"`
	Known      []Violation    `json:"known_findings"`
	HarnessErr string         `json:"harness_error,omitempty"`
	IOErr      string         `json:"io_error,omitempty"` // a trace could not be written completely (disk full): tool failure
	Exhaustive bool           `json:"exhaustive,omitempty"`
}

func NewStats(stream string, seed int64) *Stats {
	st := &Stats{Stream: stream, Seed: seed, Dist: map[string]int{}}
	curStats.Store(st)
	progress()
	return st
}

func (s *Stats) Hit(tag string) { s.Dist[tag]++; progress() }

func (s *Stats) Emit() {
	if e, _ := ioError.Load().(string); e != "" {
		s.IOErr = e
	}
	drainRegFindings(s)
	b, _ := json.Marshal(s)
	fmt.Println("STATS " + string(b))
}

// DumpTree renders every slab reachable from root through tree links (children of index slabs,
// external collision groups) in pre-order, separated by single spaces.
func DumpTree(st atree.SlabStorage, root atree.Slab) string {
	var parts []string
	var rec func(s atree.Slab)
	rec = func(s atree.Slab) {
		parts = append(parts, atree.VerifDumpSlab(s, Describe))
		for _, id := range atree.VerifChildSlabIDs(s) {
			c, ok, err := st.Retrieve(id)
			if err != nil || !ok {
				parts = append(parts, "MISSING("+IDStr(id)+")")
				continue
			}
			rec(c)
		}
	}
	rec(root)
	return strings.Join(parts, " ")
}

// SortedKeys returns the keys of a string-keyed map in order.
func SortedKeys[V any](m map[string]V) []string {
	k := make([]string, 0, len(m))
	for s := range m {
		k = append(k, s)
	}
	sort.Strings(k)
	return k
}

// ArraySizeBand is the model-free size-band oracle of C05 for an array tree: every slab reachable
// from root through tree links is at most maxThreshold, every non-root one at least minThreshold
// (array slabs are all size-limited).  It returns a description of the first offender, or "".
func ArraySizeBand(st atree.SlabStorage, root atree.Slab) string {
	_, minT, maxT, _, _, _ := atree.VerifThresholds()
	var bad string
	var rec func(s atree.Slab, isRoot bool)
	rec = func(s atree.Slab, isRoot bool) {
		if bad != "" {
			return
		}
		sz := s.ByteSize()
		if sz > maxT {
			bad = fmt.Sprintf("slab %s has %d bytes, more than the maximum %d", IDStr(s.SlabID()), sz, maxT)
			return
		}
		if !isRoot && sz < minT {
			bad = fmt.Sprintf("non-root slab %s has %d bytes, fewer than the minimum %d", IDStr(s.SlabID()), sz, minT)
			return
		}
		for _, id := range atree.VerifChildSlabIDs(s) {
			c, ok, err := st.Retrieve(id)
			if err != nil || !ok {
				continue
			}
			rec(c, false)
		}
	}
	rec(root, true)
	return bad
}
