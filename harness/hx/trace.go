package hx

import (
	"bufio"
	"encoding/json"
	"fmt"
	"os"
	"path/filepath"
	"sort"
	"strings"

	"github.com/onflow/atree"
)

// W writes one trace file.
type W struct {
	f     *os.File
	bw    *bufio.Writer
	Path  string
	Lines int
}

func NewW(path string) *W {
	if err := os.MkdirAll(filepath.Dir(path), 0o755); err != nil {
		panic(err)
	}
	f, err := os.Create(path)
	if err != nil {
		panic(err)
	}
	return &W{f: f, bw: bufio.NewWriterSize(f, 1<<20), Path: path}
}

func (w *W) L(format string, args ...any) {
	fmt.Fprintf(w.bw, format, args...)
	w.bw.WriteByte('\n')
	w.Lines++
}

func (w *W) Close() {
	w.bw.Flush()
	w.f.Close()
}

// Violation is a property violation found on the IMPLEMENTATION by a model-free oracle.
type Violation struct {
	Property string `json:"property"`
	Stream   string `json:"stream"`
	Seed     int64  `json:"seed"`
	Program  int    `json:"program"`
	Step     int    `json:"step"`
	What     string `json:"what"`
	Trace    string `json:"trace,omitempty"`
	Line     int    `json:"line,omitempty"` // number of trace lines written when the oracle fired
	Sig      string `json:"signature,omitempty"`
}

// Stats is what a stream reports to the check script (JSON on stdout).
type Stats struct {
	Stream     string         `json:"stream"`
	Seed       int64          `json:"seed"`
	Programs   int            `json:"programs"`
	Ops        int            `json:"ops"`
	TraceFiles []string       `json:"trace_files"`
	TraceLines int            `json:"trace_lines"`
	Dist       map[string]int `json:"distribution"`
	Distinct   int            `json:"distinct_nontrivial"`
	Samples    []string       `json:"samples"`
	Violations []Violation    `json:"violations"`
	Known      []Violation    `json:"known_findings"`
	HarnessErr string         `json:"harness_error,omitempty"`
	Exhaustive bool           `json:"exhaustive,omitempty"`
}

func NewStats(stream string, seed int64) *Stats {
	return &Stats{Stream: stream, Seed: seed, Dist: map[string]int{}}
}

func (s *Stats) Hit(tag string) { s.Dist[tag]++ }

func (s *Stats) Emit() {
	b, _ := json.Marshal(s)
	fmt.Println("STATS " + string(b))
}

// DumpTree renders every slab reachable from root through tree links (children of index slabs,
// external collision groups) in pre-order, separated by single spaces.
func DumpTree(st atree.SlabStorage, root atree.Slab) string {
	var parts []string
	var rec func(s atree.Slab)
	rec = func(s atree.Slab) {
		parts = append(parts, atree.VerifDumpSlab(s, Describe))
		for _, id := range atree.VerifChildSlabIDs(s) {
			c, ok, err := st.Retrieve(id)
			if err != nil || !ok {
				parts = append(parts, "MISSING("+IDStr(id)+")")
				continue
			}
			rec(c)
		}
	}
	rec(root)
	return strings.Join(parts, " ")
}

// SortedKeys returns the keys of a string-keyed map in order.
func SortedKeys[V any](m map[string]V) []string {
	k := make([]string, 0, len(m))
	for s := range m {
		k = append(k, s)
	}
	sort.Strings(k)
	return k
}
