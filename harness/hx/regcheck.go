package hx

// Oracles on ONE register the library wrote, decided on the register alone (sweep s5, section 4 b / c):
//
//	(b) Encode(Decode(reg)) == reg                 (C07: canonical, round-trips exactly)
//	(c) the shared inlined-extra-data section is canonical: the type-info table is sorted and free of
//	    duplicates, holds exactly the type infos that occur at least twice among the entries and every such
//	    occurrence is a reference into it; no two array entries with the same type info; no two compact-map
//	    entries with the same type info and the same key SET (InlinedExtraData.Encode / findDuplicateTypeInfo /
//	    addArrayExtraData / addCompactMapExtraData, extradata.go).  An encoder that stops deduplicating still
//	    round-trips and keeps the length law; only the bytes differ from what the format prescribes.
//
// The harness's Ledger applies both to every register a commit hands to BaseStorage.Store, in every stream
// (Ledger.Store); the findings are appended to the stream's violations by Stats.Emit (property C07; a panic
// of the decoder / encoder on a register the library wrote: "*").  The codec stream applies (c) to every
// in-memory slab it encodes as well.

import (
	"bytes"
	"encoding/hex"
	"fmt"
	"sort"
	"strings"
	"sync"

	"github.com/fxamacker/cbor/v2"

	"github.com/onflow/atree"
)

var (
	regMu       sync.Mutex
	regFindings []Violation
	regChecked  int
	regSkipped  int
	// RegCheckOff disables the register oracle of Ledger.Store (streams that write foreign bytes through it).
	RegCheckOff bool
)

func regFinding(prop, what string) {
	regMu.Lock()
	defer regMu.Unlock()
	if len(regFindings) < 5 {
		regFindings = append(regFindings, Violation{Property: prop, What: what})
	}
}

// drainRegFindings hands the findings (and the counters) to the stream that is reporting.
func drainRegFindings(s *Stats) {
	regMu.Lock()
	defer regMu.Unlock()
	for _, v := range regFindings {
		v.Stream, v.Seed, v.Program = s.Stream, s.Seed, s.Programs
		if w := curW.Load(); w != nil {
			v.Trace, v.Line = w.Path, w.Lines
		}
		s.Violations = append(s.Violations, v)
	}
	if regChecked > 0 {
		s.Dist["ledger-register-oracle:checked"] += regChecked
	}
	if regSkipped > 0 {
		s.Dist["ledger-register-oracle:not-decodable-with-the-harness-codecs"] += regSkipped
	}
	regFindings, regChecked, regSkipped = nil, 0, 0
}

// CheckRegister applies (b) and (c) to a register stored under id.
func CheckRegister(id atree.SlabID, data []byte) {
	if RegCheckOff {
		return
	}
	defer func() {
		if r := recover(); r != nil {
			regFinding("*", fmt.Sprintf("DecodeSlab / EncodeSlab panicked (%v) on the register the commit wrote for slab %s: %s", r, IDStr(id), hex.EncodeToString(data)))
		}
	}()
	s, err := atree.DecodeSlab(id, data, DecMode(), DecodeStorable, DecodeTypeInfo)
	if err != nil {
		// not a verdict here: other value types than the harness's, the nesting bound of the DecMode (an
		// observation of the codec stream), foreign bytes; the streams that own a register decide
		regMu.Lock()
		regSkipped++
		regMu.Unlock()
		return
	}
	regMu.Lock()
	regChecked++
	regMu.Unlock()
	re, err := atree.EncodeSlab(s, EncMode())
	if err != nil || !bytes.Equal(re, data) {
		regFinding("C07", fmt.Sprintf("Encode(Decode(reg)) != reg for the register the commit wrote for slab %s: register %s, re-encoded %s (%v)",
			IDStr(id), hex.EncodeToString(data), hex.EncodeToString(re), err))
	}
	if bad := SharedSectionCanonical(data); bad != "" {
		regFinding("C07", fmt.Sprintf("the shared extra-data section of the register the commit wrote for slab %s is not canonical: %s: %s", IDStr(id), bad, hex.EncodeToString(data)))
	}
}

type xdEntry struct {
	tag  uint64
	ty   string // resolved type info (raw CBOR)
	ref  bool   // written as a reference into the table
	keys string // compact maps: the sorted raw keys, joined
}

func rawItem(d *cbor.StreamDecoder) ([]byte, error) {
	raw, err := d.DecodeRawBytes()
	if err != nil {
		return nil, err
	}
	return []byte(raw), nil
}

// typeItem reads a type info or a reference to the table.
func typeItem(d *cbor.StreamDecoder, tis [][]byte) (string, bool, error) {
	raw, err := rawItem(d)
	if err != nil {
		return "", false, err
	}
	if len(raw) > 2 && raw[0] == 0xd8 && raw[1] == atree.CBORTagTypeInfoRef {
		var idx uint64
		if err := cbor.Unmarshal(raw[2:], &idx); err != nil {
			return "", true, err
		}
		if idx >= uint64(len(tis)) {
			return "", true, fmt.Errorf("type-info reference %d beyond the table of %d", idx, len(tis))
		}
		return string(tis[idx]), true, nil
	}
	return string(raw), false, nil
}

// SharedSectionCanonical returns "" when the register has no shared section or a canonical one, and a
// description of the first deviation otherwise (a section that does not parse is a deviation).
func SharedSectionCanonical(reg []byte) string {
	if len(reg) < 2 {
		return ""
	}
	b0, b1 := reg[0], reg[1]
	low := b1 & 0x1f
	isData := low == 0x00 || low == 0x08 || low == 0x0b
	if !(isData && b0>>4 == 1 && b0&0x01 != 0) {
		return ""
	}
	d := cbor.NewByteStreamDecoder(reg[2:])
	if b1&0x80 != 0 {
		if _, err := d.DecodeRawBytes(); err != nil {
			return "root extra data does not parse: " + err.Error()
		}
	}
	fail := func(err error) string { return "section does not parse: " + err.Error() }
	if n, err := d.DecodeArrayHead(); err != nil || n != 2 {
		return fmt.Sprintf("section is not an array of 2 (%d, %v)", n, err)
	}
	nTis, err := d.DecodeArrayHead()
	if err != nil {
		return fail(err)
	}
	var tis [][]byte
	for i := uint64(0); i < nTis; i++ {
		raw, err := rawItem(d)
		if err != nil {
			return fail(err)
		}
		tis = append(tis, raw)
	}
	for i := 1; i < len(tis); i++ {
		if bytes.Compare(tis[i-1], tis[i]) >= 0 {
			return fmt.Sprintf("type-info table is not strictly ascending at %d (%x, %x)", i, tis[i-1], tis[i])
		}
	}
	nXD, err := d.DecodeArrayHead()
	if err != nil {
		return fail(err)
	}
	var entries []xdEntry
	for i := uint64(0); i < nXD; i++ {
		tag, err := d.DecodeTagNumber()
		if err != nil {
			return fail(err)
		}
		e := xdEntry{tag: tag}
		switch tag {
		case atree.CBORTagInlinedArrayExtraData:
			if n, err := d.DecodeArrayHead(); err != nil || n != 1 {
				return fmt.Sprintf("array extra data %d is not an array of 1", i)
			}
			if e.ty, e.ref, err = typeItem(d, tis); err != nil {
				return fail(err)
			}
		case atree.CBORTagInlinedMapExtraData, atree.CBORTagInlinedCompactMapExtraData:
			if tag == atree.CBORTagInlinedCompactMapExtraData {
				if n, err := d.DecodeArrayHead(); err != nil || n != 3 {
					return fmt.Sprintf("compact-map extra data %d is not an array of 3", i)
				}
			}
			if n, err := d.DecodeArrayHead(); err != nil || n != 3 {
				return fmt.Sprintf("map extra data %d is not an array of 3", i)
			}
			if e.ty, e.ref, err = typeItem(d, tis); err != nil {
				return fail(err)
			}
			for k := 0; k < 2; k++ { // count, seed
				if err := d.Skip(); err != nil {
					return fail(err)
				}
			}
			if tag == atree.CBORTagInlinedCompactMapExtraData {
				if err := d.Skip(); err != nil { // digests
					return fail(err)
				}
				nk, err := d.DecodeArrayHead()
				if err != nil {
					return fail(err)
				}
				var keys []string
				for k := uint64(0); k < nk; k++ {
					raw, err := rawItem(d)
					if err != nil {
						return fail(err)
					}
					keys = append(keys, hex.EncodeToString(raw))
				}
				sort.Strings(keys)
				e.keys = strings.Join(keys, ",")
			}
		default:
			return fmt.Sprintf("entry %d has the tag %d", i, tag)
		}
		entries = append(entries, e)
	}
	occ := map[string]int{}
	for _, e := range entries {
		occ[e.ty]++
	}
	inTable := map[string]bool{}
	for i, t := range tis {
		inTable[string(t)] = true
		if occ[string(t)] < 2 {
			return fmt.Sprintf("type info %x (table index %d) occurs %d time(s) among the entries: only repeated type infos are tabled", t, i, occ[string(t)])
		}
	}
	seenArr := map[string]int{}
	seenCmp := map[string]int{}
	for i, e := range entries {
		if occ[e.ty] >= 2 && !e.ref {
			return fmt.Sprintf("type info %x occurs %d times among the entries, entry %d writes it in place instead of a table reference (tabled: %v)", e.ty, occ[e.ty], i, inTable[e.ty])
		}
		switch e.tag {
		case atree.CBORTagInlinedArrayExtraData:
			if j, dup := seenArr[e.ty]; dup {
				return fmt.Sprintf("array extra data %d and %d have the same type info %x: array extra data is deduplicated by its type info", j, i, e.ty)
			}
			seenArr[e.ty] = i
		case atree.CBORTagInlinedCompactMapExtraData:
			k := e.ty + "|" + e.keys
			if j, dup := seenCmp[k]; dup {
				return fmt.Sprintf("compact-map extra data %d and %d have the same type info %x and the same key set [%s]: one compact type, one entry", j, i, e.ty, e.keys)
			}
			seenCmp[k] = i
		}
	}
	return ""
}
