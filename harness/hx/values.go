package hx

import (
	"fmt"

	"github.com/fxamacker/cbor/v2"

	"github.com/onflow/atree"
)

const (
	tagGapValue  = 161 // TV whose size is not reachable by a plain byte string (25, 258, 65539)
	TagSomeValue = 165 // Some(x) wrapper
)

// TV is a plain value with an exactly controllable encoded size: a CBOR byte string whose
// content is Pay (big endian, low-order bytes first truncated to the content length) padded with
// zeros.  The encoding is a function of (Size, Pay).
type TV struct {
	Size uint32
	Pay  uint64
}

var _ atree.Value = TV{}
var _ atree.Storable = TV{}

func isGap(size uint32) bool { return size == 25 || size == 258 || size == 65539 }

// bsLen returns the content length of a byte string whose total encoded size is total.
func bsLen(total uint32) uint32 {
	switch {
	case total-1 < 24:
		return total - 1
	case total-2 < 256:
		return total - 2
	case total-3 < 65536:
		return total - 3
	default:
		return total - 5
	}
}

// ValidTV reports whether (size, pay) is encodable: size ≥ 1 and pay fits the content.
func ValidTV(size uint32, pay uint64) bool {
	if size == 0 {
		return false
	}
	t := size
	if isGap(size) {
		t -= 2
	}
	l := bsLen(t)
	if l >= 8 {
		return true
	}
	return pay < (uint64(1) << (8 * l))
}

func (v TV) content() []byte {
	t := v.Size
	if isGap(v.Size) {
		t -= 2
	}
	l := bsLen(t)
	b := make([]byte, l)
	n := l
	if n > 8 {
		n = 8
	}
	p := v.Pay
	for i := int(n) - 1; i >= 0; i-- {
		b[i] = byte(p)
		p >>= 8
	}
	return b
}

func (v TV) Encode(e *atree.Encoder) error {
	if isGap(v.Size) {
		if err := e.CBOR.EncodeRawBytes([]byte{0xd8, tagGapValue}); err != nil {
			return err
		}
	}
	return e.CBOR.EncodeBytes(v.content())
}

func (v TV) ByteSize() uint32 { return v.Size }

func (v TV) StoredValue(atree.SlabStorage) (atree.Value, error) { return v, nil }

func (v TV) ChildStorables() []atree.Storable { return nil }

func (v TV) CanCopyNonRefSimple() bool { return true }

func (v TV) CopyNonRefSimple() (atree.Storable, error) { return v, nil }

func (v TV) Storable(storage atree.SlabStorage, addr atree.Address, maxInline uint32) (atree.Storable, error) {
	if v.Size > maxInline {
		return atree.NewStorableSlab(storage, addr, v, v.Size)
	}
	return v, nil
}

func (v TV) String() string { return fmt.Sprintf("v%d", v.Pay) }

func tvFromBytes(b []byte, extra uint32) TV {
	l := uint32(len(b))
	var head uint32
	switch {
	case l < 24:
		head = 1
	case l < 256:
		head = 2
	case l < 65536:
		head = 3
	default:
		head = 5
	}
	var p uint64
	n := len(b)
	if n > 8 {
		n = 8
	}
	for i := 0; i < n; i++ {
		p = p<<8 | uint64(b[i])
	}
	return TV{Size: head + l + extra, Pay: p}
}

// TI is the harness's type info: a number encoded as a CBOR unsigned integer.
type TI uint64

var _ atree.TypeInfo = TI(0)

func (t TI) Encode(e *cbor.StreamEncoder) error { return e.EncodeUint64(uint64(t)) }
func (t TI) IsComposite() bool                  { return false }
func (t TI) Copy() atree.TypeInfo               { return t }
func (t TI) Identifier() string                 { return fmt.Sprintf("ti%d", uint64(t)) }
func (t TI) String() string                     { return fmt.Sprintf("%d", uint64(t)) }

// CTI is a composite type info (enables the compact encoding of same-typed inlined maps).
type CTI uint64

var _ atree.TypeInfo = CTI(0)

const tagCompositeTI = 160

func (t CTI) Encode(e *cbor.StreamEncoder) error {
	if err := e.EncodeTagHead(tagCompositeTI); err != nil {
		return err
	}
	return e.EncodeUint64(uint64(t))
}
func (t CTI) IsComposite() bool    { return true }
func (t CTI) Copy() atree.TypeInfo { return t }
func (t CTI) Identifier() string   { return fmt.Sprintf("cti%d", uint64(t)) }
func (t CTI) String() string       { return fmt.Sprintf("c%d", uint64(t)) }

func DecodeTypeInfo(d *cbor.StreamDecoder) (atree.TypeInfo, error) {
	t, err := d.NextType()
	if err != nil {
		return nil, err
	}
	if t == cbor.TagType {
		n, err := d.DecodeTagNumber()
		if err != nil {
			return nil, err
		}
		if n != tagCompositeTI {
			return nil, fmt.Errorf("unknown type info tag %d", n)
		}
		v, err := d.DecodeUint64()
		if err != nil {
			return nil, err
		}
		return CTI(v), nil
	}
	v, err := d.DecodeUint64()
	if err != nil {
		return nil, err
	}
	return TI(v), nil
}

// SomeValue / SomeStorable: a one-level wrapper (like Cadence's optional), 2 bytes of overhead.
type SomeValue struct{ V atree.Value }

var _ atree.Value = SomeValue{}
var _ atree.WrapperValue = SomeValue{}

const someOverhead = 2

func (s SomeValue) Storable(storage atree.SlabStorage, addr atree.Address, maxInline uint32) (atree.Storable, error) {
	// the wrapper itself is never externalised; the wrapped value gets the remaining budget
	inner, err := s.V.Storable(storage, addr, maxInline-someOverhead)
	if err != nil {
		return nil, err
	}
	return SomeStorable{inner}, nil
}

func (s SomeValue) UnwrapAtreeValue() (atree.Value, uint32) {
	v := s.V
	size := uint32(someOverhead)
	for {
		w, ok := v.(SomeValue)
		if !ok {
			return v, size
		}
		v = w.V
		size += someOverhead
	}
}

type SomeStorable struct{ S atree.Storable }

var _ atree.ContainerStorable = SomeStorable{}
var _ atree.WrapperStorable = SomeStorable{}

func (s SomeStorable) Encode(e *atree.Encoder) error {
	if err := e.CBOR.EncodeRawBytes([]byte{0xd8, TagSomeValue}); err != nil {
		return err
	}
	return s.S.Encode(e)
}
func (s SomeStorable) ByteSize() uint32 { return someOverhead + s.S.ByteSize() }
func (s SomeStorable) StoredValue(st atree.SlabStorage) (atree.Value, error) {
	v, err := s.S.StoredValue(st)
	if err != nil {
		return nil, err
	}
	return SomeValue{v}, nil
}
func (s SomeStorable) ChildStorables() []atree.Storable { return []atree.Storable{s.S} }
func (s SomeStorable) CanCopyNonRefSimple() bool {
	return s.UnwrapAtreeStorable().CanCopyNonRefSimple()
}
func (s SomeStorable) CopyNonRefSimple() (atree.Storable, error) {
	c, err := s.UnwrapAtreeStorable().CopyNonRefSimple()
	if err != nil {
		return nil, err
	}
	return s.WrapAtreeStorable(c), nil
}
func (s SomeStorable) HasPointer() bool {
	if c, ok := s.S.(atree.ContainerStorable); ok {
		return c.HasPointer()
	}
	return false
}
func (s SomeStorable) UnwrapAtreeStorable() atree.Storable {
	x := s.S
	for {
		w, ok := x.(atree.WrapperStorable)
		if !ok {
			return x
		}
		x = w.UnwrapAtreeStorable()
	}
}
func (s SomeStorable) levels() int {
	n := 1
	x := s.S
	for {
		w, ok := x.(SomeStorable)
		if !ok {
			return n
		}
		n++
		x = w.S
	}
}
func (s SomeStorable) WrapAtreeStorable(x atree.Storable) atree.Storable {
	r := SomeStorable{x}
	for i := 1; i < s.levels(); i++ {
		r = SomeStorable{r}
	}
	return r
}

const maxDecodeDepth = 64

// DecodeStorable is the harness's bounded StorableDecoder.
func DecodeStorable(d *cbor.StreamDecoder, id atree.SlabID, inl []atree.ExtraData) (atree.Storable, error) {
	return decodeStorable(d, id, inl, 0)
}

func decodeStorable(d *cbor.StreamDecoder, id atree.SlabID, inl []atree.ExtraData, depth int) (atree.Storable, error) {
	if depth > maxDecodeDepth {
		return nil, fmt.Errorf("nesting too deep")
	}
	t, err := d.NextType()
	if err != nil {
		return nil, err
	}
	switch t {
	case cbor.ByteStringType:
		b, err := d.DecodeBytes()
		if err != nil {
			return nil, err
		}
		return tvFromBytes(b, 0), nil
	case cbor.TagType:
		n, err := d.DecodeTagNumber()
		if err != nil {
			return nil, err
		}
		rec := func(d *cbor.StreamDecoder, id atree.SlabID, inl []atree.ExtraData) (atree.Storable, error) {
			return decodeStorable(d, id, inl, depth+1)
		}
		switch n {
		case atree.CBORTagInlinedArray:
			return atree.DecodeInlinedArrayStorable(d, rec, id, inl)
		case atree.CBORTagInlinedMap:
			return atree.DecodeInlinedMapStorable(d, rec, id, inl)
		case atree.CBORTagInlinedCompactMap:
			return atree.DecodeInlinedCompactMapStorable(d, rec, id, inl)
		case atree.CBORTagSlabID:
			return atree.DecodeSlabIDStorable(d)
		case tagGapValue:
			b, err := d.DecodeBytes()
			if err != nil {
				return nil, err
			}
			return tvFromBytes(b, 2), nil
		case TagSomeValue:
			s, err := decodeStorable(d, id, inl, depth+1)
			if err != nil {
				return nil, err
			}
			return SomeStorable{s}, nil
		}
		return nil, fmt.Errorf("unknown tag %d", n)
	}
	return nil, fmt.Errorf("unexpected CBOR type %v", t)
}

// Describe renders harness storables and type infos inside slab dumps.
var Describe = &atree.VerifDescribe{
	Storable: func(s atree.Storable) string {
		switch x := s.(type) {
		case TV:
			return fmt.Sprintf("v%d", x.Pay)
		case FS:
			return fmt.Sprintf("f%d", x.Pay)
		case NK:
			return fmt.Sprintf("v%d", x.TV().Pay)
		}
		return fmt.Sprintf("?%T", s)
	},
	TypeInfo: func(t atree.TypeInfo) string { return fmt.Sprintf("%v", t) },
}

// NewStorage builds a PersistentSlabStorage over the ledger with the harness codecs.
func NewStorage(l atree.BaseStorage) *atree.PersistentSlabStorage {
	em, err := cbor.EncOptions{}.EncMode()
	if err != nil {
		panic(err)
	}
	dm, err := cbor.DecOptions{MaxNestedLevels: DecNesting}.DecMode()
	if err != nil {
		panic(err)
	}
	return atree.NewPersistentSlabStorage(l, em, dm, DecodeStorable, DecodeTypeInfo)
}

// DecNesting is the CBOR nesting bound of the harness's decoders (0 = the cbor library's default, 32).
// A stream whose registers legitimately nest deeper (containers nested in maps whose keys collide on
// every digest level: about 13 CBOR levels per map) raises it for its own duration.
var DecNesting int

func EncMode() cbor.EncMode {
	em, _ := cbor.EncOptions{}.EncMode()
	return em
}
func DecMode() cbor.DecMode {
	dm, _ := cbor.DecOptions{MaxNestedLevels: DecNesting}.DecMode()
	return dm
}

// TV keys can be compared and identified, which lets same-typed inlined composite maps use the
// compact encoding (atree.ComparableStorable).
var _ atree.ComparableStorable = TV{}

func (v TV) Equal(o atree.Storable) bool {
	t, ok := AsTVStorable(o)
	return ok && t == v
}
func (v TV) Less(o atree.Storable) bool {
	t, ok := o.(TV)
	if !ok {
		return false
	}
	if v.Pay != t.Pay {
		return v.Pay < t.Pay
	}
	return v.Size < t.Size
}
func (v TV) ID() string { return fmt.Sprintf("tv%d.%d", v.Size, v.Pay) }

// NK ("named key") is the harness's SECOND comparable key type.  It is written exactly like the TV with
// the same content (a CBOR byte string holding the name, at most 8 bytes: TV() gives that value, the
// decoder hands it back as a TV and the dumps render it as one), but its ComparableStorable.ID() is the
// BARE NAME: unlike TV's "tv<size>.<pay>" it is not self-delimiting - names may be prefixes of each
// other, concatenate to the same string ({"ab","c"} / {"a","bc"}), be empty - so whatever the library
// builds out of the IDs of several keys (compactmap_extradata.go: makeCompactMapTypeID) has to keep
// them apart by itself.  Less is the lexicographic order of the names.
type NK struct{ Name string }

var _ atree.Value = NK{}
var _ atree.ComparableStorable = NK{}

// ValidNK: the name is representable as a TV (content = the first 8 bytes).
func ValidNK(name string) bool { return len(name) <= 8 }

func (k NK) TV() TV { return tvFromBytes([]byte(k.Name), 0) }

func (k NK) Encode(e *atree.Encoder) error                      { return e.CBOR.EncodeBytes([]byte(k.Name)) }
func (k NK) ByteSize() uint32                                   { return k.TV().Size }
func (k NK) StoredValue(atree.SlabStorage) (atree.Value, error) { return k, nil }
func (k NK) ChildStorables() []atree.Storable                   { return nil }
func (k NK) CanCopyNonRefSimple() bool                          { return true }
func (k NK) CopyNonRefSimple() (atree.Storable, error)          { return k, nil }
func (k NK) Storable(storage atree.SlabStorage, addr atree.Address, maxInline uint32) (atree.Storable, error) {
	return k, nil
}
func (k NK) String() string { return k.TV().String() }
func (k NK) Equal(o atree.Storable) bool {
	t, ok := AsTVStorable(o)
	return ok && t == k.TV()
}
func (k NK) Less(o atree.Storable) bool {
	if n, ok := o.(NK); ok {
		return k.Name < n.Name
	}
	return false
}
func (k NK) ID() string { return k.Name }

// AsTV reads a key value of either key type as the TV it is written as.
func AsTV(v atree.Value) (TV, bool) {
	switch x := v.(type) {
	case TV:
		return x, true
	case NK:
		return x.TV(), true
	case FV: // failing.go: a TV whose Storable() can fail
		return x.TV, true
	}
	return TV{}, false
}

// AsTVStorable is AsTV for storables.
func AsTVStorable(s atree.Storable) (TV, bool) {
	switch x := s.(type) {
	case TV:
		return x, true
	case NK:
		return x.TV(), true
	case FS: // failing.go: read WITHOUT calling its StoredValue()
		return x.TV, true
	}
	return TV{}, false
}
