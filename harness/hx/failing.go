package hx

import (
	"fmt"

	"github.com/onflow/atree"
)

// Failing caller-supplied components (C18, last sentence): a value whose Storable() fails on demand, a
// storable whose StoredValue() fails on demand.  All of them fail with the RAW error ErrInjected (no
// category): the library has to put the External category on it.

// FailSwitch is a "fail at the n-th call" counter.  A nil switch never fails.
type FailSwitch struct {
	At    int  // 1-based position of the call that fails (0 = never)
	Calls int  // calls seen since Arm
	Fired bool // the failing call was made
	After int  // calls seen AFTER the one that failed (a component that failed must not be asked again by the same request)
}

// Hit counts one call and reports whether it is the one that has to fail.
func (s *FailSwitch) Hit() bool {
	if s == nil {
		return false
	}
	if s.Fired {
		s.After++
	}
	s.Calls++
	if s.At != 0 && s.Calls == s.At {
		s.Fired = true
		return true
	}
	return false
}

// Arm resets the counter and makes the at-th call from now fail (0 = none).
func (s *FailSwitch) Arm(at int) { s.At, s.Calls, s.Fired, s.After = at, 0, false, 0 }

// FV is a TV whose Storable() consults OnStorable, and whose storable (when OnStored is set) is an FS
// consulting OnStored in StoredValue().  With both switches nil it behaves exactly like its TV.
type FV struct {
	TV
	OnStorable *FailSwitch
	OnStored   *FailSwitch
	OnCopy     *FailSwitch // handed to the FS: its CopyNonRefSimple() consults it
}

var _ atree.Value = FV{}

func (v FV) Storable(storage atree.SlabStorage, addr atree.Address, maxInline uint32) (atree.Storable, error) {
	if v.OnStorable.Hit() {
		return nil, ErrInjected
	}
	if v.OnStored == nil && v.OnCopy == nil {
		return v.TV.Storable(storage, addr, maxInline)
	}
	fs := FS{TV: v.TV, On: v.OnStored, OnCopy: v.OnCopy}
	if v.Size > maxInline {
		return atree.NewStorableSlab(storage, addr, fs, v.Size)
	}
	return fs, nil
}

func (v FV) String() string { return fmt.Sprintf("fv%d", v.Pay) }

// FS encodes exactly like its TV (a committed and reloaded FS comes back as a plain TV); its
// StoredValue() fails when the switch says so and otherwise yields the TV.
type FS struct {
	TV
	On     *FailSwitch
	OnCopy *FailSwitch
}

var _ atree.Storable = FS{}

func (s FS) StoredValue(atree.SlabStorage) (atree.Value, error) {
	if s.On.Hit() {
		return nil, ErrInjected
	}
	return s.TV, nil
}

func (s FS) CopyNonRefSimple() (atree.Storable, error) {
	if s.OnCopy.Hit() {
		return nil, ErrInjected
	}
	return s, nil
}

func (s FS) String() string { return fmt.Sprintf("fs%d", s.Pay) }

// AsTV / AsTVStorable (values.go) read FV / FS as the TV they are written as, without calling StoredValue.
