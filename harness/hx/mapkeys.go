package hx

import (
	"encoding/binary"
	"fmt"

	"github.com/onflow/atree"
)

// KeyFaults is a fault plan for the harness's comparator and hash-input providers (CompareKey,
// HashInput, HashInputBucket): the CompareFailAt-th comparison / HashFailAt-th hash-input request made
// while the plan is armed fails with ErrInjected (0 = never).  It lets a stream fail the callbacks that a
// parent map CAPTURED when a child was fetched or inserted (the parent notification looks the child up
// again with them), which the stream cannot replace afterwards.
var KeyFaults struct {
	CompareFailAt, HashFailAt int
	compares, hashes          int
	Hits                      int
}

// ArmKeyFaults arms (or, with 0, 0, disarms) the fault plan and resets its counters.
func ArmKeyFaults(compareFailAt, hashFailAt int) {
	KeyFaults.CompareFailAt, KeyFaults.HashFailAt = compareFailAt, hashFailAt
	KeyFaults.compares, KeyFaults.hashes, KeyFaults.Hits = 0, 0, 0
}

func hashFault() bool {
	if KeyFaults.HashFailAt == 0 {
		return false
	}
	KeyFaults.hashes++
	if KeyFaults.hashes == KeyFaults.HashFailAt {
		KeyFaults.Hits++
		return true
	}
	return false
}

// HashInput is the harness's HashInputProvider for TV keys.
func HashInput(v atree.Value, buf []byte) ([]byte, error) {
	if hashFault() {
		return nil, ErrInjected
	}
	tv, ok := AsTV(v)
	if !ok {
		return nil, fmt.Errorf("hash input: not a TV: %T", v)
	}
	b := make([]byte, 12)
	binary.BigEndian.PutUint32(b, tv.Size)
	binary.BigEndian.PutUint64(b[4:], tv.Pay)
	return b, nil
}

// CompareKey is the harness's ValueComparator: equality of (size, payload).
func CompareKey(st atree.SlabStorage, v atree.Value, s atree.Storable) (bool, error) {
	if KeyFaults.CompareFailAt != 0 {
		KeyFaults.compares++
		if KeyFaults.compares == KeyFaults.CompareFailAt {
			KeyFaults.Hits++
			return false, ErrInjected
		}
	}
	tv, ok := AsTV(v)
	if !ok {
		return false, fmt.Errorf("compare: key is %T", v)
	}
	switch x := s.(type) {
	case TV:
		return x == tv, nil
	case FS: // a key storable whose StoredValue() can fail: compared without calling it
		return x.TV == tv, nil
	case NK:
		return x.TV() == tv, nil
	case atree.SlabIDStorable:
		sv, err := x.StoredValue(st)
		if err != nil {
			return false, err
		}
		o, ok := sv.(TV)
		return ok && o == tv, nil
	}
	return false, nil
}

// TableDigesterBuilder produces digests from a caller-chosen function of the key (adversarial
// digest assignments with tiny alphabets per level).
type TableDigesterBuilder struct {
	L  uint
	Fn func(key TV, level uint) uint64
	// CallHip makes the builder consult the hash-input provider like the library's own builder does
	// (its result is not used): a failing provider then fails the request on collision-table maps too.
	CallHip bool
	// FailDigest makes Digest(hip, v) fail, FailLevel makes Digester.Digest(level) of the digesters handed
	// out fail (in-range levels only), both with the RAW error ErrInjected: a caller-supplied DigesterBuilder
	// / Digester, unlike atree.NewDefaultDigesterBuilder, which wraps the provider's error itself (C18).
	FailDigest *FailSwitch
	FailLevel  *FailSwitch
	// FailedAtLevel / FailedKey: level and key of the Digester.Digest call that FailLevel made fail.
	FailedAtLevel uint
	FailedKey     TV
}

var _ atree.DigesterBuilder = &TableDigesterBuilder{}

func (b *TableDigesterBuilder) SetSeed(uint64, uint64) {}

func (b *TableDigesterBuilder) Digest(hip atree.HashInputProvider, v atree.Value) (atree.Digester, error) {
	tv, ok := AsTV(v)
	if !ok {
		return nil, fmt.Errorf("digest: key is %T", v)
	}
	if b.CallHip && hip != nil {
		if _, err := hip(v, nil); err != nil {
			return nil, err
		}
	}
	if b.FailDigest.Hit() {
		return nil, ErrInjected
	}
	d := &tableDigester{b: b, key: tv}
	for l := uint(0); l < b.L; l++ {
		d.digs = append(d.digs, atree.Digest(b.Fn(tv, l)))
	}
	return d, nil
}

type tableDigester struct {
	digs []atree.Digest
	b    *TableDigesterBuilder
	key  TV
}

func (d *tableDigester) DigestPrefix(level uint) ([]atree.Digest, error) {
	if level > uint(len(d.digs)) {
		return nil, fmt.Errorf("level %d out of range", level)
	}
	return d.digs[:level], nil
}
func (d *tableDigester) Digest(level uint) (atree.Digest, error) {
	if level >= uint(len(d.digs)) {
		return 0, fmt.Errorf("level %d out of range", level)
	}
	if d.b != nil && d.b.FailLevel.Hit() {
		d.b.FailedAtLevel, d.b.FailedKey = level, d.key
		return 0, ErrInjected
	}
	return d.digs[level], nil
}
func (d *tableDigester) Reset()       {}
func (d *tableDigester) Levels() uint { return uint(len(d.digs)) }

// Digests returns the digest of key at every level, as the given builder computes them.
func Digests(b atree.DigesterBuilder, key TV) ([]uint64, error) {
	d, err := b.Digest(HashInput, key)
	if err != nil {
		return nil, err
	}
	var out []uint64
	for l := uint(0); l < d.Levels(); l++ {
		x, err := d.Digest(l)
		if err != nil {
			return nil, err
		}
		out = append(out, uint64(x))
	}
	return out, nil
}

// HashInputBucket is a NON-injective hash-input provider (keys with equal Pay%7 hash alike): with the
// default digester this produces genuine collisions on every level between keys of one bucket, and
// exercises the library's pooled digesters beyond level 0.
func HashInputBucket(v atree.Value, buf []byte) ([]byte, error) {
	if hashFault() {
		return nil, ErrInjected
	}
	tv, ok := AsTV(v)
	if !ok {
		return nil, fmt.Errorf("hash input: not a TV: %T", v)
	}
	return []byte{byte(tv.Pay % 7), 0xAB}, nil
}

// DigestsWith is Digests with an explicit hash-input provider.
func DigestsWith(b atree.DigesterBuilder, hip atree.HashInputProvider, key TV) ([]uint64, error) {
	d, err := b.Digest(hip, key)
	if err != nil {
		return nil, err
	}
	var out []uint64
	for l := uint(0); l < d.Levels(); l++ {
		x, err := d.Digest(l)
		if err != nil {
			return nil, err
		}
		out = append(out, uint64(x))
	}
	return out, nil
}

// HashInputScratch produces the same message as HashInput but WRITES IT INTO the scratch buffer the
// library supplies and returns a sub-slice of it: the digester's message then aliases the pooled
// digester's own scratch space, so a digester handed back to its pool too early, or reused without
// being reset, corrupts digests that are computed lazily (levels 1..3).
func HashInputScratch(v atree.Value, buf []byte) ([]byte, error) {
	tv, ok := AsTV(v)
	if !ok {
		return nil, fmt.Errorf("hash input: not a TV: %T", v)
	}
	if len(buf) < 12 {
		buf = make([]byte, 12)
	}
	binary.BigEndian.PutUint32(buf, tv.Size)
	binary.BigEndian.PutUint64(buf[4:], tv.Pay)
	return buf[:12], nil
}

// HashInputBucketScratch: HashInputBucket's message (non-injective: genuine collisions on every
// level), written into the supplied scratch buffer and returned as a sub-slice of it.
func HashInputBucketScratch(v atree.Value, buf []byte) ([]byte, error) {
	tv, ok := AsTV(v)
	if !ok {
		return nil, fmt.Errorf("hash input: not a TV: %T", v)
	}
	if len(buf) < 2 {
		buf = make([]byte, 2)
	}
	buf[0], buf[1] = byte(tv.Pay%7), 0xAB
	return buf[:2], nil
}
