package hx

import (
	"fmt"
	"reflect"
	"regexp"
	"unsafe"

	"github.com/onflow/atree"
)

// verifyClasses maps the messages of array_verify.go / map_verify.go to the keys of the error
// enums of the Lean transcription (AtreeModel/Verify/Array.lean `AVErr.key`,
// AtreeModel/Verify/Map.lean `MVErr.key`).  First match wins; more specific patterns come first.
var verifyClasses = []struct {
	re  *regexp.Regexp
	key string
}{
	// shared by both verifiers (the model uses the same key in both enums)
	{regexp.MustCompile(`found duplicate slab ID`), "duplicateSlabID"},
	{regexp.MustCompile(`(array|map) slab address`), "slabAddress"},
	{regexp.MustCompile(`^(array|map) address|: (array|map) address`), "address"},
	{regexp.MustCompile(`expect non-empty slab ID for not-inlined array`), "slabIDUndefined"},
	{regexp.MustCompile(`inlined slab .* doesn't have extra data`), "inlinedNoExtraData"},
	{regexp.MustCompile(`root slab .* doesn't have extra data`), "rootNoExtraData"},
	{regexp.MustCompile(`type information`), "typeInfoWrong"},
	{regexp.MustCompile(`seed is uninitialized`), "seedUninitialized"},
	{regexp.MustCompile(`is in storage`), "inlinedSlabInStorage"},
	{regexp.MustCompile(`non-root slab .* has extra data`), "nonRootHasExtraData"},
	{regexp.MustCompile(`underflows by`), "underflow"},
	{regexp.MustCompile(`overflows`), "overflow"},
	{regexp.MustCompile(`is different from header`), "headerMismatch"},
	{regexp.MustCompile(`non-root slab .* is inlined`), "nonRootInlined"},
	{regexp.MustCompile(`has next slab ID`), "inlinedHasNext"},
	{regexp.MustCompile(`root metadata slab .* children, want at least 2`), "rootMetaTooFewChildren"},
	{regexp.MustCompile(`chained next data slab ids`), "nextChainWrong"},
	{regexp.MustCompile(`root slab .* count .* is wrong`), "rootCountWrong"},
	// arrays
	{regexp.MustCompile(`\bdata slab .* header count`), "dataHeaderCountWrong"},
	{regexp.MustCompile(`metadata slab .* header size`), "metaHeaderSizeWrong"},
	{regexp.MustCompile(`\bdata slab .* header size`), "dataHeaderSizeWrong"},
	{regexp.MustCompile(`childrenCountSum, want`), "countSumLength"},
	{regexp.MustCompile(`childrenCountSum\[`), "countSumWrong"},
	{regexp.MustCompile(`metadata slab .* header count`), "metaHeaderCountWrong"},
	// maps
	{regexp.MustCompile(`metadata slab .* header first key`), "metaFirstKeyWrong"},
	{regexp.MustCompile(`\bdata slab .* header first key`), "dataFirstKeyWrong"},
	{regexp.MustCompile(`child slab's first key isn't sorted`), "childFirstKeysNotSorted"},
	{regexp.MustCompile(`child header first key isn't unique`), "childFirstKeysNotUnique"},
	{regexp.MustCompile(`chained first keys .* are not sorted`), "firstKeysNotSorted"},
	{regexp.MustCompile(`chained first keys .* are not unique`), "firstKeysNotUnique"},
	{regexp.MustCompile(`anySize .* is wrong`), "anySizeWrong"},
	{regexp.MustCompile(`collisionGroup .* is wrong`), "collisionGroupWrong"},
	{regexp.MustCompile(`elements digest level .* is wrong`), "hkeyLevelWrong"},
	{regexp.MustCompile(`elements level .* is wrong`), "singleLevelWrong"},
	{regexp.MustCompile(`hkeys count .* is wrong`), "hkeysCountWrong"},
	{regexp.MustCompile(`hkeys is not sorted`), "hkeysNotSorted"},
	{regexp.MustCompile(`hkeys is not unique`), "hkeysNotUnique"},
	{regexp.MustCompile(`hkey elements .*: digest level .* is wrong, want <`), "hkeyDigestLevelWrong"},
	{regexp.MustCompile(`single elements .* digest level .* is wrong`), "singleDigestLevelWrong"},
	{regexp.MustCompile(`map element key .* exceeds size limit`), "keyTooLarge"},
	{regexp.MustCompile(`map element value .* exceeds size limit`), "valueTooLarge"},
	{regexp.MustCompile(`digest .* is wrong, want`), "digestWrong"},
	{regexp.MustCompile(`\bdata slab .* elements size .* is wrong`), "hkeyElementsSizeWrong"},
	{regexp.MustCompile(`slab .* elements size .* is wrong`), "singleElementsSizeWrong"},
	{regexp.MustCompile(`\bdata slab [^:]* element .* is too large`), "elementTooLarge"},
	{regexp.MustCompile(`\bdata slab [^:]* element .* size .* is wrong`), "groupSizeWrong"},
	{regexp.MustCompile(`element .* size .* is wrong, want`), "singleElementSizeWrong"},
}

// VerifyClass reduces the verdict of VerifyArray / VerifyMap to "ok" or "err:<key>".
func VerifyClass(err error) string {
	if err == nil {
		return "ok"
	}
	if as[*atree.SlabNotFoundError](err) {
		return "err:slabNotFound"
	}
	msg := err.Error()
	for _, c := range verifyClasses {
		if c.re.MatchString(msg) {
			return "err:" + c.key
		}
	}
	return "err:UNCLASSIFIED(" + msg + ")"
}

// RunVerify calls f and turns a Go runtime panic into the verdict "err:PANIC".
func RunVerify(f func() error) (verdict string, msg string) {
	defer func() {
		if r := recover(); r != nil {
			verdict, msg = "err:PANIC", fmt.Sprint(r)
		}
	}()
	err := f()
	if err != nil {
		msg = err.Error()
	}
	return VerifyClass(err), msg
}

// Field returns a SETTABLE view of the (possibly unexported) field path of the struct that v
// points to.  Test tooling for the verifybad streams: it lets the harness overwrite one field of a
// live slab object without adding anything to the package under test.
func Field(v reflect.Value, names ...string) reflect.Value {
	for _, n := range names {
		for v.Kind() == reflect.Ptr || v.Kind() == reflect.Interface {
			v = v.Elem()
		}
		f := v.FieldByName(n)
		if !f.IsValid() {
			panic("hx.Field: no field " + n + " in " + v.Type().String())
		}
		v = reflect.NewAt(f.Type(), unsafe.Pointer(f.UnsafeAddr())).Elem()
	}
	return v
}

// Undo is a stack of restore actions.
type Undo struct{ fs []func() }

func (u *Undo) Add(f func()) { u.fs = append(u.fs, f) }
func (u *Undo) Run() {
	for i := len(u.fs) - 1; i >= 0; i-- {
		u.fs[i]()
	}
	u.fs = nil
}

// SetField overwrites a settable reflect value and records how to restore it.
func (u *Undo) SetField(f reflect.Value, nv reflect.Value) {
	old := reflect.New(f.Type()).Elem()
	old.Set(f)
	u.Add(func() { f.Set(old) })
	f.Set(nv)
}

func (u *Undo) SetUint(f reflect.Value, x uint64) {
	nv := reflect.New(f.Type()).Elem()
	nv.SetUint(x)
	u.SetField(f, nv)
}

func (u *Undo) SetBool(f reflect.Value, b bool) {
	nv := reflect.New(f.Type()).Elem()
	nv.SetBool(b)
	u.SetField(f, nv)
}

// DropLast shortens a slice field by one (the backing array is untouched).
func (u *Undo) DropLast(f reflect.Value) {
	u.SetField(f, f.Slice(0, f.Len()-1))
}
