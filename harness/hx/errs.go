package hx

import (
	"errors"

	"github.com/onflow/atree"
)

// ErrKind reduces an error to "<Kind>:<Category>" (messages and addresses never reach a trace).
func ErrKind(err error) string {
	if err == nil {
		return "ok"
	}
	kind := "Other"
	switch {
	case as[*atree.IndexOutOfBoundsError](err):
		kind = "IndexOutOfBounds"
	case as[*atree.SliceOutOfBoundsError](err):
		kind = "SliceOutOfBounds"
	case as[*atree.InvalidSliceIndexError](err):
		kind = "InvalidSliceIndex"
	case as[*atree.KeyNotFoundError](err):
		kind = "KeyNotFound"
	case as[*atree.CollisionLimitError](err):
		kind = "CollisionLimit"
	case as[*atree.SlabIDError](err):
		kind = "SlabIDUndefined"
	case as[*atree.SlabNotFoundError](err):
		kind = "SlabNotFound"
	case as[*atree.NotValueError](err):
		kind = "NotValue"
	case as[*atree.HashLevelError](err):
		kind = "HashLevel"
	case as[*atree.SlabSplitError](err):
		kind = "SlabSplit"
	case as[*atree.SlabMergeError](err):
		kind = "SlabMerge"
	case as[*atree.SlabRebalanceError](err):
		kind = "SlabRebalance"
	case as[*atree.SlabDataError](err):
		kind = "SlabData"
	case as[*atree.EncodingError](err):
		kind = "Encoding"
	case as[*atree.DecodingError](err):
		kind = "Decoding"
	case as[*atree.DuplicateKeyError](err):
		kind = "DuplicateKey"
	case as[*atree.ArrayElementCannotExceedMaxElementCountError](err):
		kind = "MaxElementCount"
	case as[*atree.ReadOnlyIteratorElementMutationError](err):
		kind = "ReadOnlyIteratorElementMutation"
	case as[*atree.MapElementCountError](err):
		kind = "MapElementCount"
	case as[*atree.UnreachableError](err):
		kind = "Unreachable"
	case errors.Is(err, ErrInjected):
		kind = "Injected"
	}
	return kind + ":" + ErrCategory(err)
}

// ErrCategory returns User / Fatal / External / None.
func ErrCategory(err error) string {
	switch {
	case as[*atree.UserError](err):
		return "User"
	case as[*atree.FatalError](err):
		return "Fatal"
	case as[*atree.ExternalError](err):
		return "External"
	}
	return "None"
}

func as[T error](err error) bool {
	var t T
	return errors.As(err, &t)
}
