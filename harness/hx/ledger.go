// Package hx holds the pieces shared by the harness commands: a ledger with call log and fault
// plan, value types with exactly controllable encoded sizes, a recording SlabStorage wrapper and
// trace helpers.
package hx

import (
	"errors"
	"fmt"
	"runtime"
	"sort"

	"github.com/onflow/atree"
)

// Call is one Store/Remove issued against the ledger.
type Call struct {
	Kind byte // 'S' or 'R'
	ID   atree.SlabID
	Data []byte
	OK   bool
}

// Ledger is the harness's BaseStorage: a map, a per-address index counter ("counter + 1"),
// a call log and a fault plan (positions of failing Store/Remove calls since ResetCalls).
type Ledger struct {
	Seg               map[atree.SlabID][]byte
	Idx               map[atree.Address]uint64
	Log               []Call
	FailAt            map[int]bool
	ReadFail          map[atree.SlabID]bool
	ReadFailHits      int // number of reads that failed because of ReadFail
	ReadFailFound     bool // the found flag a failing read returns next to its error (BaseStorage.Retrieve returns three values)
	LastReadFail      atree.SlabID // the last register whose read failed because of ReadFail
	AllocFail         bool // GenerateSlabID fails (and allocates nothing)
	Jitter            bool
	n                 int
	retrieved, stored int
}

var _ atree.BaseStorage = &Ledger{}

var ErrInjected = errors.New("injected ledger failure")

func NewLedger() *Ledger {
	return &Ledger{Seg: map[atree.SlabID][]byte{}, Idx: map[atree.Address]uint64{}, FailAt: map[int]bool{}, ReadFail: map[atree.SlabID]bool{}}
}

// Clone copies registers and counters (not the log or fault plan).
func (l *Ledger) Clone() *Ledger {
	c := NewLedger()
	for k, v := range l.Seg {
		c.Seg[k] = append([]byte(nil), v...)
	}
	for k, v := range l.Idx {
		c.Idx[k] = v
	}
	return c
}

func (l *Ledger) ResetCalls() { l.Log = nil; l.n = 0; l.FailAt = map[int]bool{} }

func (l *Ledger) jitter() {
	if l.Jitter {
		runtime.Gosched()
	}
}

func (l *Ledger) Store(id atree.SlabID, data []byte) error {
	l.jitter()
	pos := l.n
	l.n++
	if l.FailAt[pos] {
		l.Log = append(l.Log, Call{'S', id, append([]byte(nil), data...), false})
		return ErrInjected
	}
	l.Log = append(l.Log, Call{'S', id, append([]byte(nil), data...), true})
	CheckRegister(id, data) // register-level oracles on what the commit writes (regcheck.go)
	l.Seg[id] = append([]byte(nil), data...)
	l.stored += len(data)
	return nil
}

func (l *Ledger) Remove(id atree.SlabID) error {
	l.jitter()
	pos := l.n
	l.n++
	if l.FailAt[pos] {
		l.Log = append(l.Log, Call{'R', id, nil, false})
		return ErrInjected
	}
	l.Log = append(l.Log, Call{'R', id, nil, true})
	delete(l.Seg, id)
	return nil
}

func (l *Ledger) Retrieve(id atree.SlabID) ([]byte, bool, error) {
	l.jitter()
	if l.ReadFail[id] {
		l.ReadFailHits++
		l.LastReadFail = id
		return nil, l.ReadFailFound, ErrInjected
	}
	d, ok := l.Seg[id]
	l.retrieved += len(d)
	return d, ok, nil
}

func (l *Ledger) GenerateSlabID(a atree.Address) (atree.SlabID, error) {
	if l.AllocFail {
		return atree.SlabID{}, ErrInjected
	}
	l.Idx[a]++
	return MkID(a, l.Idx[a]), nil
}

func (l *Ledger) SegmentCounts() int { return len(l.Seg) }
func (l *Ledger) Size() int {
	n := 0
	for _, v := range l.Seg {
		n += len(v)
	}
	return n
}
func (l *Ledger) BytesRetrieved() int   { return l.retrieved }
func (l *Ledger) BytesStored() int      { return l.stored }
func (l *Ledger) SegmentsReturned() int { return 0 }
func (l *Ledger) SegmentsUpdated() int  { return 0 }
func (l *Ledger) SegmentsTouched() int  { return 0 }
func (l *Ledger) ResetReporter()        { l.retrieved, l.stored = 0, 0 }

// SortedIDs returns the register IDs in (address, index) order.
func (l *Ledger) SortedIDs() []atree.SlabID {
	ids := make([]atree.SlabID, 0, len(l.Seg))
	for id := range l.Seg {
		ids = append(ids, id)
	}
	SortIDs(ids)
	return ids
}

func SortIDs(ids []atree.SlabID) {
	sort.Slice(ids, func(i, j int) bool { return IDLess(ids[i], ids[j]) })
}

func IDLess(a, b atree.SlabID) bool {
	if a.AddressAsUint64() != b.AddressAsUint64() {
		return a.AddressAsUint64() < b.AddressAsUint64()
	}
	return a.IndexAsUint64() < b.IndexAsUint64()
}

// MkAddr builds an address from a number (big endian).
func MkAddr(n uint64) atree.Address {
	var a atree.Address
	for i := 7; i >= 0; i-- {
		a[i] = byte(n)
		n >>= 8
	}
	return a
}

// MkID builds a slab ID from address and index numbers.
func MkID(a atree.Address, idx uint64) atree.SlabID {
	var x atree.SlabIndex
	for i := 7; i >= 0; i-- {
		x[i] = byte(idx)
		idx >>= 8
	}
	return atree.NewSlabID(a, x)
}

func MkIDn(addr, idx uint64) atree.SlabID { return MkID(MkAddr(addr), idx) }

// IDStr renders "<addr>.<idx>" as numbers (same as atree.VerifSlabIDString).
func IDStr(id atree.SlabID) string {
	return fmt.Sprintf("%d.%d", id.AddressAsUint64(), id.IndexAsUint64())
}
