package hx

import (
	"fmt"
	"sort"
	"strings"

	"github.com/onflow/atree"
)

// Eff is one call made by container code on SlabStorage.
type Eff struct {
	Kind byte // 'a' alloc, 's' store, 'r' remove
	ID   atree.SlabID
}

// RecStorage wraps a SlabStorage and records every mutating call (the real call sequence of the
// container code), so it can be compared with the model's effect log.
type RecStorage struct {
	Inner atree.SlabStorage
	Effs  []Eff
	// FailRetrieve makes Retrieve of the given slab fail (caller-supplied-component failure, C18).
	FailRetrieve   map[atree.SlabID]bool
	Retrieves      int
	FailRetrieveAt int // 1-based position of the Retrieve call to fail (0 = none)
	// EffsAtFail is the number of mutating calls recorded when the last injected Retrieve failure
	// fired (0 = the request had not touched storage yet: the failure hit its lookup phase).
	EffsAtFail int
	// FailGenerateAt / FailRemoveAt / FailStoreAt: 1-based position of the GenerateSlabID / Remove / Store
	// call that fails with the RAW error ErrInjected, nothing forwarded to Inner (0 = none).  RecStorage is
	// a caller-implemented SlabStorage: the container code has to categorise its errors (C18).
	Generates, FailGenerateAt int
	Removes, FailRemoveAt     int
	Stores, FailStoreAt       int
	// FailFired: an injected Generate / Remove / Store / positional Retrieve failure was delivered.
	FailFired bool
	// HideLargeValues makes the storage answer ABSENT (found=false, err=nil; RetrieveIfLoaded: nil) for every
	// large-value slab (*atree.StorableSlab) while the container slabs that refer to them stay readable: the
	// view of a storage from which a referenced slab has disappeared.  Hidden lists the slabs asked for.
	HideLargeValues bool
	Hidden          []atree.SlabID
	// FailHits counts the injected Retrieve failures that fired.
	FailHits   int
	LastFailID atree.SlabID
}

var _ atree.SlabStorage = &RecStorage{}

func NewRecStorage(inner atree.SlabStorage) *RecStorage {
	return &RecStorage{Inner: inner, FailRetrieve: map[atree.SlabID]bool{}}
}

func (r *RecStorage) Reset() { r.Effs = r.Effs[:0] }

// ResetFail clears every positional fault and call counter (not FailRetrieve, not the effect list).
func (r *RecStorage) ResetFail() {
	r.Retrieves, r.FailRetrieveAt, r.EffsAtFail = 0, 0, 0
	r.Generates, r.FailGenerateAt, r.Removes, r.FailRemoveAt, r.Stores, r.FailStoreAt = 0, 0, 0, 0, 0, 0
	r.FailFired = false
}

func (r *RecStorage) Store(id atree.SlabID, s atree.Slab) error {
	r.Stores++
	if r.FailStoreAt != 0 && r.Stores == r.FailStoreAt {
		r.FailFired, r.EffsAtFail = true, len(r.Effs)
		return ErrInjected
	}
	r.Effs = append(r.Effs, Eff{'s', id})
	return r.Inner.Store(id, s)
}
func (r *RecStorage) Remove(id atree.SlabID) error {
	r.Removes++
	if r.FailRemoveAt != 0 && r.Removes == r.FailRemoveAt {
		r.FailFired, r.EffsAtFail = true, len(r.Effs)
		return ErrInjected
	}
	r.Effs = append(r.Effs, Eff{'r', id})
	return r.Inner.Remove(id)
}
func (r *RecStorage) GenerateSlabID(a atree.Address) (atree.SlabID, error) {
	r.Generates++
	if r.FailGenerateAt != 0 && r.Generates == r.FailGenerateAt {
		r.FailFired, r.EffsAtFail = true, len(r.Effs)
		return atree.SlabID{}, ErrInjected
	}
	id, err := r.Inner.GenerateSlabID(a)
	if err == nil {
		r.Effs = append(r.Effs, Eff{'a', id})
	}
	return id, err
}
func (r *RecStorage) Retrieve(id atree.SlabID) (atree.Slab, bool, error) {
	r.Retrieves++
	if r.FailRetrieve[id] || (r.FailRetrieveAt != 0 && r.Retrieves == r.FailRetrieveAt) {
		r.FailFired, r.EffsAtFail = true, len(r.Effs)
		r.FailHits++
		r.LastFailID = id
		return nil, false, ErrInjected
	}
	s, ok, err := r.Inner.Retrieve(id)
	if r.HideLargeValues && ok && err == nil {
		if _, is := s.(*atree.StorableSlab); is {
			r.Hidden = append(r.Hidden, id)
			return nil, false, nil
		}
	}
	return s, ok, err
}
func (r *RecStorage) RetrieveIfLoaded(id atree.SlabID) atree.Slab {
	s := r.Inner.RetrieveIfLoaded(id)
	if r.HideLargeValues {
		if _, is := s.(*atree.StorableSlab); is {
			return nil
		}
	}
	return s
}
func (r *RecStorage) Count() int                                { return r.Inner.Count() }
func (r *RecStorage) SlabIterator() (atree.SlabIterator, error) { return r.Inner.SlabIterator() }

// NetEffect canonicalises an effect list: allocations in order, then for every touched ID its
// last store/remove, sorted by ID.
func NetEffect(effs []Eff) string {
	var parts []string
	last := map[atree.SlabID]byte{}
	for _, e := range effs {
		if e.Kind == 'a' {
			parts = append(parts, "a:"+IDStr(e.ID))
		} else {
			last[e.ID] = e.Kind
		}
	}
	ids := make([]atree.SlabID, 0, len(last))
	for id := range last {
		ids = append(ids, id)
	}
	SortIDs(ids)
	for _, id := range ids {
		parts = append(parts, fmt.Sprintf("%c:%s", last[id], IDStr(id)))
	}
	if len(parts) == 0 {
		return "-"
	}
	return strings.Join(parts, " ")
}

// StoredIDs returns the IDs whose last action in effs is a store, sorted.
func StoredIDs(effs []Eff) []atree.SlabID {
	last := map[atree.SlabID]byte{}
	for _, e := range effs {
		if e.Kind != 'a' {
			last[e.ID] = e.Kind
		}
	}
	var ids []atree.SlabID
	for id, k := range last {
		if k == 's' {
			ids = append(ids, id)
		}
	}
	sort.Slice(ids, func(i, j int) bool { return IDLess(ids[i], ids[j]) })
	return ids
}
