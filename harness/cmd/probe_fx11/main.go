// What the real code does when a caller-supplied component fails INSIDE the parent notification of a
// nested container (fixer fx11; run: go run -tags verif ./cmd/probe_fx11).  Observation O5b, not a
// violation: C18 asks for an External error, which is what the request returns.
//
//	A  G (array with an index root) holds C (array, inlined in a leaf of G).  C.Append fails because the leaf
//	   cannot be read while C looks itself up in G: External error, but C HAS the element (C's own change comes
//	   first); G's leaf carries a stale size until the NEXT mutation through C, which is propagated and
//	   repairs everything (the stream nestfail demands exactly this).
//	B  G holds P (array, inlined in a leaf of G), P holds C (array, inlined in P).  C.Append(large value) makes C
//	   outgrow its slot in P: P re-sets C as a reference (P shrinks), then P looks itself up in G and the read
//	   fails.  C is now a separate slab that does not fit its slot: its later mutations have nothing to tell P,
//	   so G's leaf keeps the stale size of P for good, and - the leaf is not in the write set - a commit persists
//	   C's slab but NOT the leaf: after reload P still holds the old inlined C, the served second append is gone.
package main

import (
	"fmt"

	"github.com/onflow/atree"

	"verifharness/hx"
)

func tic(a, b atree.TypeInfo) bool { return a == b }

func main() {
	atree.VerifSetThreshold(256)
	addr := hx.MkAddr(1)
	for _, scenario := range []string{"A", "B"} {
		ledger := hx.NewLedger()
		ps := hx.NewStorage(ledger)
		rec := hx.NewRecStorage(ps)
		g, _ := atree.NewArray(rec, addr, hx.TI(1))
		for i := 0; g.IsWithinSingleSlab() || i < 40; i++ {
			_ = g.Append(hx.TV{Size: 20, Pay: uint64(i)})
		}
		c, _ := atree.NewArray(rec, addr, hx.TI(3))
		var p *atree.Array
		if scenario == "A" {
			_ = g.Append(c)
		} else {
			p, _ = atree.NewArray(rec, addr, hx.TI(2))
			_ = g.Append(p)
			_ = p.Append(c)
			for i := 0; i < 6; i++ {
				_ = c.Append(hx.TV{Size: 12, Pay: uint64(100 + i)}) // C: 17 + 72 = 89 bytes inlined, P: 17 + 89
			}
		}
		pos := g.Count() - 1
		fmt.Printf("scenario %s: G has %d elements (index root), C inlined=%v count=%d", scenario, g.Count(), c.Inlined(), c.Count())
		if p != nil {
			fmt.Printf(", P inlined=%v", p.Inlined())
		}
		fmt.Println()
		_ = ps.FastCommit(2) // everything so far is committed: the write set is empty
		// every non-root slab of G fails to be read
		for _, id := range atree.VerifChildSlabIDs(atree.VerifArrayRoot(g)) {
			rec.FailRetrieve[id] = true
		}
		size := uint32(5)
		if scenario == "B" {
			size = 40 // 89 + 40 > 117: C leaves P's slab
		}
		err := c.Append(hx.TV{Size: size, Pay: 1})
		rec.FailRetrieve = map[atree.SlabID]bool{}
		fmt.Printf("  failing request : C.Append -> %s; C count=%d inlined=%v callback=%v\n", hx.ErrKind(err), c.Count(), c.Inlined(), atree.VerifArrayHasParentUpdater(c))
		fmt.Printf("    VerifyArray(G) : %v\n", short(atree.VerifyArray(g, addr, hx.TI(1), tic, hx.HashInput, true)))
		err = c.Append(hx.TV{Size: 5, Pay: 2})
		fmt.Printf("  next request    : C.Append -> %s; C count=%d inlined=%v callback=%v\n", hx.ErrKind(err), c.Count(), c.Inlined(), atree.VerifArrayHasParentUpdater(c))
		fmt.Printf("    VerifyArray(G) : %v\n", short(atree.VerifyArray(g, addr, hx.TI(1), tic, hx.HashInput, true)))
		if err := ps.FastCommit(2); err != nil {
			fmt.Println("    commit:", err)
			continue
		}
		fresh := hx.NewStorage(ledger)
		g2, _ := atree.NewArrayWithRootID(fresh, g.SlabID())
		v, _ := g2.Get(pos)
		c2, _ := v.(*atree.Array)
		if scenario == "B" {
			v, _ = c2.Get(0)
			c2, _ = v.(*atree.Array)
		}
		fmt.Printf("    after commit + reload: C read through G has %d elements (live handle: %d)", c2.Count(), c.Count())
		for _, id := range ledger.SortedIDs() {
			_, _, _ = fresh.Retrieve(id)
		}
		_, herr := atree.CheckStorageHealth(fresh, 1)
		fmt.Printf("; CheckStorageHealth(1 root): %v\n", short(herr))
	}
}

func short(err error) string {
	if err == nil {
		return "ok"
	}
	s := err.Error()
	if len(s) > 150 {
		s = "..." + s[len(s)-150:]
	}
	return s
}
