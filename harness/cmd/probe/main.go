// probe: ad-hoc reproduction of PopIterate observations on the real code.  Development helper.
package main

import (
	"fmt"

	"github.com/onflow/atree"
	"verifharness/hx"
)

func tic(a, b atree.TypeInfo) bool { return a == b }

func main() {
	atree.VerifSetThreshold(1024)
	addr := hx.MkAddr(1)
	// --- A: PopIterate on a parent that tracks a child, then reuse the parent
	{
		ps := hx.NewStorage(hx.NewLedger())
		parent, _ := atree.NewArray(ps, addr, hx.TI(1))
		child, _ := atree.NewArray(ps, addr, hx.TI(2))
		_ = child.Append(hx.TV{Size: 5, Pay: 1})
		fmt.Println("A append child:", parent.Append(child))
		_ = parent.Append(hx.TV{Size: 5, Pay: 2})
		err := parent.PopIterate(func(s atree.Storable) {})
		fmt.Println("A pop:", err, "count", parent.Count())
		err = parent.Append(hx.TV{Size: 5, Pay: 3})
		fmt.Println("A append after pop:", err)
		err = parent.Insert(0, hx.TV{Size: 5, Pay: 4})
		fmt.Println("A insert(0) after pop:", err, "count", parent.Count())
	}
	// --- B: PopIterate through the handle of an inlined child
	{
		ps := hx.NewStorage(hx.NewLedger())
		parent, _ := atree.NewArray(ps, addr, hx.TI(1))
		child, _ := atree.NewArray(ps, addr, hx.TI(2))
		for i := 0; i < 3; i++ {
			_ = child.Append(hx.TV{Size: 5, Pay: uint64(i)})
		}
		_ = parent.Append(child)
		fmt.Println("B child inlined:", child.Inlined(), "verify before:", atree.VerifyArray(parent, addr, hx.TI(1), tic, hx.HashInput, true))
		_ = ps.FastCommit(1)
		err := child.PopIterate(func(s atree.Storable) {})
		fmt.Println("B child pop:", err, "child count", child.Count(), "deltas", len(atree.VerifDeltas(ps)))
		fmt.Println("B verify parent after child pop:", atree.VerifyArray(parent, addr, hx.TI(1), tic, hx.HashInput, true))
		v, _ := parent.Get(0)
		fmt.Println("B read through parent: count", v.(*atree.Array).Count())
		_ = ps.FastCommit(1)
	}
	// --- C: same for a map child in a map parent
	{
		ps := hx.NewStorage(hx.NewLedger())
		parent, _ := atree.NewMap(ps, addr, atree.NewDefaultDigesterBuilder(), hx.TI(1))
		child, _ := atree.NewMap(ps, addr, atree.NewDefaultDigesterBuilder(), hx.TI(2))
		for i := 0; i < 3; i++ {
			_, _ = child.Set(hx.CompareKey, hx.HashInput, hx.TV{Size: 5, Pay: uint64(i)}, hx.TV{Size: 5, Pay: uint64(i)})
		}
		_, _ = parent.Set(hx.CompareKey, hx.HashInput, hx.TV{Size: 5, Pay: 9}, child)
		fmt.Println("C child inlined:", child.Inlined(), "verify before:", atree.VerifyMap(parent, addr, hx.TI(1), tic, hx.HashInput, true))
		err := child.PopIterate(func(k, v atree.Storable) {})
		fmt.Println("C child pop:", err, "child count", child.Count())
		fmt.Println("C verify parent after child pop:", atree.VerifyMap(parent, addr, hx.TI(1), tic, hx.HashInput, true))
	}
}
