// probe: ad-hoc reproduction of observations on the real code.  Development helper.
package main

import (
	"fmt"

	"github.com/onflow/atree"
	"verifharness/hx"
)

func tic(a, b atree.TypeInfo) bool { return a == b }

func main() {
	atree.VerifSetThreshold(1024)
	addr := hx.MkAddr(1)
	for _, big := range []bool{false, true} {
		ps := hx.NewStorage(hx.NewLedger())
		parent, _ := atree.NewArray(ps, addr, hx.TI(1))
		child, _ := atree.NewArray(ps, addr, hx.TI(2))
		n := 3
		if big {
			n = 200
		}
		for i := 0; i < n; i++ {
			_ = child.Append(hx.TV{Size: 5, Pay: uint64(i)})
		}
		_ = parent.Append(hx.TV{Size: 5, Pay: 77})
		_ = parent.Append(child)
		fmt.Println("big", big, "child inlined:", child.Inlined(), "verify:", atree.VerifyArray(parent, addr, hx.TI(1), tic, hx.HashInput, true))
		old, err := parent.Set(1, child)
		fmt.Printf("re-set same child: old=%T %v err=%v\n", old, old, err)
		fmt.Println("  child inlined:", child.Inlined(), "verify:", atree.VerifyArray(parent, addr, hx.TI(1), tic, hx.HashInput, true))
		err = child.Append(hx.TV{Size: 5, Pay: 1000})
		fmt.Println("  append to child after re-set:", err)
		fmt.Println("  verify:", atree.VerifyArray(parent, addr, hx.TI(1), tic, hx.HashInput, true))
		v, err := parent.Get(1)
		if err == nil {
			fmt.Println("  read through parent count:", v.(*atree.Array).Count(), "child count", child.Count())
		} else {
			fmt.Println("  get err", err)
		}
		_, herr := atree.CheckStorageHealth(ps, 1)
		fmt.Println("  health:", herr)
	}
}
