package main

// statements, loops, whole functions and dispatchers of the object engine (see obj.go)

import (
	"fmt"
	"go/ast"
	"go/parser"
	"go/token"
	"strings"
)

type okont func(en oenv) string

// mutated roots in result order, as Lean types / current values
func (x *otrans) mutRoots(en oenv) (types, vals []string) {
	for _, v := range en.vars {
		if v.role != oRoot || v.depth != 0 {
			continue
		}
		if i, ok := x.rootIdx[v.lean]; ok && x.shape.mut[i] {
			types = append(types, x.ti(v.typ).Lean)
			vals = append(vals, v.lean)
		}
	}
	return
}

func (x *otrans) finish(parts []string, en oenv) string {
	_, vals := x.mutRoots(en)
	all := append(append([]string{}, parts...), vals...)
	out := ""
	switch len(all) {
	case 0:
		out = "()"
	case 1:
		out = all[0]
	default:
		out = "(" + strings.Join(all, ", ") + ")"
	}
	if x.shape.panics {
		out = "some " + paren(out)
	}
	return out
}

func (x *otrans) resultType(en oenv) string {
	types, _ := x.mutRoots(en)
	t := x.tupleOf(x.shape.res, types)
	if x.shape.panics {
		t = "Option " + paren(t)
	}
	return t
}

// applyEffect: emit the call, write the new states back, return the projections of the results
func (x *otrans) applyEffect(eff *oeffect, en oenv) (pre string, res []string) {
	r := x.tmp("r")
	if eff.panics {
		x.guards = append(x.guards, oguard{kind: "opt", e: eff.call, bind: r})
	} else {
		pre = "let " + r + " := " + eff.call + "\n"
	}
	total := len(eff.results) + len(eff.muts)
	for i := range eff.results {
		res = append(res, proj(r, i, total))
	}
	for k, lv := range eff.muts {
		pre += x.store(en, lv, proj(r, len(eff.results)+k, total))
	}
	return
}

func (x *otrans) lvalue(e ast.Expr, en oenv) (olval, string) {
	switch l := e.(type) {
	case *ast.ParenExpr:
		return x.lvalue(l.X, en)
	case *ast.Ident:
		v := en.lookup(l.Name)
		if v == nil {
			fail("assignment to unknown variable %s", l.Name)
		}
		x.useVar(v)
		if v.dead {
			x.guards = append(x.guards, oguard{kind: "never"})
		}
		return olval{base: v.lean}, v.typ
	case *ast.SelectorExpr:
		b, bt := x.lvalue(l.X, en)
		bi := x.ti(bt)
		if bi.Kind != "obj" && bi.Kind != "struct" {
			fail("assignment to a field of %s", bt)
		}
		ft, ok := x.u.fieldType(bi.Struct, l.Sel.Name)
		if !ok {
			fail("%s has no (kept) field %s", bi.Struct, l.Sel.Name)
		}
		return olval{b.base, append(append([]ostep{}, b.steps...), ostep{kind: "field", name: l.Sel.Name})}, ft
	case *ast.IndexExpr:
		b, bt := x.lvalue(l.X, en)
		bi := x.ti(bt)
		if bi.Kind != "list" {
			fail("assignment to an element of %s", bt)
		}
		i := x.intExpr(l.Index, en)
		x.guards = append(x.guards, oguard{kind: "cond", e: "goInRange " + paren(x.readPath(b.base, b.steps)) + " " + paren(i)})
		return olval{b.base, append(append([]ostep{}, b.steps...), ostep{kind: "index", idx: i})}, bi.Elem
	}
	fail("unsupported assignment target %s", norm(src(e)))
	return olval{}, ""
}

// assignTo: `lhs = val` / `lhs := val`; aliasOf = the path val may be a second reference to (call results)
func (x *otrans) assignTo(lhs ast.Expr, define bool, val oval, aliasOf *olval, en oenv) (string, oenv) {
	if val.view && !isIdent(lhs, "_") {
		fail("%s would share the backing array of the slice it is a re-slice of (aliasing); copy it (slices.Clone)", norm(src(lhs)))
	}
	switch l := lhs.(type) {
	case *ast.ParenExpr:
		return x.assignTo(l.X, define, val, aliasOf, en)
	case *ast.Ident:
		if l.Name == "_" {
			return "", en
		}
		v := en.lookup(l.Name)
		if define && (v == nil || v.depth < en.depth) {
			switch val.typ {
			case "untyped":
				val = x.coerce(val, "int")
			case "nil":
				fail("`%s := nil`", l.Name)
			}
			if strings.HasPrefix(val.typ, "tuple:") {
				fail("multi-value in single-value context")
			}
			ti := x.ti(val.typ)
			if ti.Kind == "drop" {
				fail("local %s of dropped type %s", l.Name, val.typ)
			}
			nv := ovar{goName: l.Name, typ: val.typ}
			en2 := en
			if x.u.isObjKind(ti.Kind) {
				if val.lv != nil && !val.fresh {
					nv.role, nv.parent, nv.steps = oAlias, val.lv.base, val.lv.steps
				} else if aliasOf != nil {
					nv.frozen = true
					en2 = en.clone()
					en2.frozen = append(en2.frozen, x.absPath(en, *aliasOf))
				}
			} else if ti.Kind == "list" && val.lv != nil && !val.fresh {
				fail("local %s would alias the slice %s (shared backing array)", l.Name, val.lean)
			}
			en3, lean := en2.declare(nv)
			return "let " + lean + " : " + ti.Lean + " := " + val.lean + "\n", en3
		}
		if v == nil {
			fail("assignment to unknown variable %s", l.Name)
		}
		val = x.coerce(val, v.typ)
		ti := x.ti(v.typ)
		if x.u.isObjKind(ti.Kind) {
			if v.role == oRoot {
				fail("assignment to the receiver / parameter %s", l.Name)
			}
			en2 := en.clone()
			w := en2.lookup(l.Name)
			if val.lv != nil && !val.fresh {
				if val.lv.base == v.lean {
					fail("%s assigned from itself", l.Name)
				}
				w.role, w.parent, w.steps = oAlias, val.lv.base, val.lv.steps
			} else {
				w.role, w.parent, w.steps = oValue, "", nil
			}
			w.moved, w.dead, w.frozen = false, false, false
			if aliasOf != nil && w.role == oValue {
				w.frozen = true
				en2.frozen = append(en2.frozen, x.absPath(en, *aliasOf))
			}
			x.noteAssigned(v)
			return "let " + v.lean + " : " + ti.Lean + " := " + val.lean + "\n", en2
		}
		if ti.Kind == "list" && val.lv != nil && !val.fresh && !(len(val.lv.steps) == 0 && val.lv.base == v.lean) {
			fail("assignment to %s would alias a slice (shared backing array)", l.Name)
		}
		return x.rebind(en, v, val.lean), en
	case *ast.SelectorExpr, *ast.IndexExpr:
		lv, lt := x.lvalue(lhs, en)
		val = x.coerce(val, lt)
		ti := x.ti(lt)
		en2 := en
		if x.u.isObjKind(ti.Kind) {
			if val.lv != nil && !val.fresh && samePath(x.absPath(en, *val.lv), x.absPath(en, lv)) {
				return "", en // `p.f = alias of p.f`
			}
			// the pointer at lv is replaced: a read-only copy taken from lv becomes the only reference to the old object
			abs := x.absPath(en, lv)
			var keep []olval
			for _, f := range en.frozen {
				if !samePath(f, abs) {
					keep = append(keep, f)
				}
			}
			unfroze := len(keep) != len(en.frozen)
			en2 = en.clone()
			en2.frozen = keep
			if val.lv != nil && !val.fresh {
				b := en.lookupLean(val.lv.base)
				if b == nil || b.role != oValue || len(val.lv.steps) != 0 {
					fail("object %s would be reachable under a second path (aliasing)", val.lean)
				}
				// an owned object moves into the field; a frozen copy may only go back to where it was taken from
				if b.frozen && !unfroze {
					fail("the read-only copy %s is stored under a path it was not taken from (aliasing)", b.goName)
				}
				en2.lookupLean(b.lean).moved = true
			}
			return x.store(en2, lv, val.lean), en2
		}
		if ti.Kind == "list" && val.lv != nil && !val.fresh && !samePath(x.absPath(en, *val.lv), x.absPath(en, lv)) {
			fail("assignment would alias a slice (shared backing array)")
		}
		return x.store(en2, lv, val.lean), en2
	}
	fail("unsupported assignment target %s", norm(src(lhs)))
	return "", en
}

func (x *otrans) applyMoves(en oenv) oenv { return x.applyMovesTo(en, nil) }

// applyMovesTo: the objects stored elsewhere by the statement just translated.  With a known destination (the slice
// of `l = append(l, obj)`) the local stays readable: it becomes a read-only copy and the destination is frozen.
func (x *otrans) applyMovesTo(en oenv, dest *olval) oenv {
	if len(x.moves) == 0 {
		return en
	}
	en2 := en.clone()
	for _, m := range x.moves {
		if w := en2.lookupLean(m); w != nil {
			if dest != nil {
				w.frozen = true
				en2.frozen = append(en2.frozen, x.absPath(en, *dest))
			} else {
				w.moved = true
			}
		}
	}
	x.moves = nil
	return en2
}

func (x *otrans) bindMany(lhs []ast.Expr, define bool, vals []oval, aliases []*olval, en oenv) (string, oenv) {
	if len(lhs) != len(vals) {
		fail("assignment mismatch: %d targets, %d values", len(lhs), len(vals))
	}
	out := ""
	for i := range lhs {
		var a *olval
		if i < len(aliases) {
			a = aliases[i]
		}
		t, e2 := x.assignTo(lhs[i], define, vals[i], a, en)
		out += t
		en = e2
	}
	return out, en
}

// typeAssert: `v := p.(*T)`, `v, ok := p.(*T)` as a statement
func (x *otrans) typeAssert(s *ast.AssignStmt, ta *ast.TypeAssertExpr, en oenv, fc *ofctx, next okont) string {
	g0 := len(x.guards)
	p := x.expr(ta.X, en, "")
	to := goTypeOf(ta.Type)
	pi := x.ti(p.typ)
	if pi.Kind != "sum" {
		fail("type assertion on %s", p.typ)
	}
	if ctors, ok := x.u.SubSums[to]; ok {
		// `_, ok := x.(J)`: is the dynamic type one of the listed implementations of J?
		if len(s.Lhs) != 2 || !isIdent(s.Lhs[0], "_") {
			fail("type assertion to %s is supported as `_, ok := x.(%s)` only", to, to)
		}
		pats := ""
		for _, c := range ctors {
			pats += " | ." + c + " _"
		}
		text, en2 := x.assignTo(s.Lhs[1], s.Tok == token.DEFINE, oval{lean: "(match " + p.lean + " with" + pats + " => true | _ => false)", typ: "bool"}, nil, en)
		return x.withGuards(g0, fc, text+next(en2))
	}
	ti := x.ti(to)
	if ti.Kind == "sum" && len(s.Lhs) == 2 && ti.Sum == pi.Sum {
		// `v, ok := s.(I)` inside one closed world: ok = (s != nil), v = s
		p.typ = to
		text, en2 := x.assignTo(s.Lhs[0], s.Tok == token.DEFINE, p, nil, en)
		t2, en3 := x.assignTo(s.Lhs[1], s.Tok == token.DEFINE, oval{lean: "(!" + paren(p.lean) + ".isNil)", typ: "bool"}, nil, en2)
		return x.withGuards(g0, fc, text+t2+next(en3))
	}
	if ti.Kind == "sum" {
		if len(s.Lhs) != 1 || ti.Sum != pi.Sum {
			fail("unsupported type assertion %s", norm(src(s)))
		}
		x.guards = append(x.guards, oguard{kind: "cond", e: "(!" + paren(p.lean) + ".isNil)"})
		p.typ = to
		text, en2 := x.assignTo(s.Lhs[0], s.Tok == token.DEFINE, p, nil, en)
		return x.withGuards(g0, fc, text+next(en2))
	}
	ctor := ""
	for _, im := range x.u.Sums[pi.Sum].Impls {
		if im.Go == to {
			ctor = im.Ctor
		}
	}
	if ctor == "" || s.Tok != token.DEFINE || p.lv == nil {
		fail("unsupported type assertion %s", norm(src(s)))
	}
	name := idName(s.Lhs[0])
	if name == "" || name == "_" {
		fail("unsupported type assertion target in %s", norm(src(s)))
	}
	okName := ""
	if len(s.Lhs) == 2 {
		okName = idName(s.Lhs[1])
	}
	steps := append(append([]ostep{}, p.lv.steps...), ostep{kind: "variant", name: ctor})
	enS, lean := en.declare(ovar{goName: name, typ: to, role: oAlias, parent: p.lv.base, steps: steps})
	okText := ""
	if okName != "" && okName != "_" {
		var ol string
		enS, ol = enS.declare(ovar{goName: okName, typ: "bool"})
		okText = "let " + ol + " : Bool := true\n"
	}
	succ := okText + next(enS)
	var failT string
	if len(s.Lhs) == 1 {
		x.needPnc = true
		failT = fc.pnc()
	} else {
		enF, _ := en.declare(ovar{goName: name, typ: to, dead: true})
		ft := ""
		if okName != "" && okName != "_" {
			var ol string
			enF, ol = enF.declare(ovar{goName: okName, typ: "bool"})
			ft = "let " + ol + " : Bool := false\n"
		}
		failT = ft + next(enF)
	}
	text := "match " + p.lean + " with\n| ." + ctor + " " + lean + " =>\n  " + indent(succ, 2) + "\n| _ =>\n  " + indent(failT, 2)
	return x.withGuards(g0, fc, text)
}

func (x *otrans) assign(s *ast.AssignStmt, en oenv, fc *ofctx, next okont) string {
	g0 := len(x.guards)
	define := s.Tok == token.DEFINE
	if s.Tok != token.DEFINE && s.Tok != token.ASSIGN {
		ops := map[token.Token]token.Token{token.ADD_ASSIGN: token.ADD, token.SUB_ASSIGN: token.SUB, token.MUL_ASSIGN: token.MUL}
		op, ok := ops[s.Tok]
		if !ok || len(s.Lhs) != 1 || len(s.Rhs) != 1 {
			fail("unsupported assignment %s", norm(src(s)))
		}
		v := x.binary(&ast.BinaryExpr{X: s.Lhs[0], Op: op, Y: s.Rhs[0]}, en)
		text, en2 := x.assignTo(s.Lhs[0], false, v, nil, en)
		return x.withGuards(g0, fc, text+next(x.applyMoves(en2)))
	}
	if len(s.Rhs) == 1 {
		rhs := s.Rhs[0]
		if ta, ok := rhs.(*ast.TypeAssertExpr); ok {
			return x.typeAssert(s, ta, en, fc, next)
		}
		if c, ok := rhs.(*ast.CallExpr); ok {
			if len(s.Lhs) == 1 && !define {
				x.appendTo = norm(src(s.Lhs[0]))
			}
			v, eff := x.callT(c, en, s.Lhs)
			x.appendTo = ""
			if eff != nil && (len(eff.muts) > 0) {
				pre, res := x.applyEffect(eff, en)
				vals := make([]oval, len(res))
				for i := range res {
					vals[i] = oval{lean: res[i], typ: eff.results[i], fresh: true}
				}
				text, en2 := x.bindMany(s.Lhs, define, vals, eff.aliasLv, en)
				return x.withGuards(g0, fc, pre+text+next(x.applyMoves(en2)))
			}
			aliases := v.aliasLv
			parts := tupleParts(v.typ)
			if len(parts) != 1 {
				r := x.tmp("r")
				pre := "let " + r + " := " + v.lean + "\n"
				vals := make([]oval, len(parts))
				for i := range parts {
					vals[i] = oval{lean: proj(r, i, len(parts)), typ: parts[i], fresh: true}
				}
				text, en2 := x.bindMany(s.Lhs, define, vals, aliases, en)
				return x.withGuards(g0, fc, pre+text+next(x.applyMoves(en2)))
			}
			if len(s.Lhs) != 1 {
				fail("assignment mismatch in %s", norm(src(s)))
			}
			var a *olval
			if len(aliases) == 1 {
				a = aliases[0]
			}
			var dest *olval
			if isIdent(c.Fun, "append") && len(x.moves) > 0 {
				gsave := len(x.guards)
				d, _ := x.lvalue(s.Lhs[0], en)
				x.guards = x.guards[:gsave]
				dest = &d
			}
			pending := x.moves
			x.moves = nil
			text, en2 := x.assignTo(s.Lhs[0], define, v, a, en)
			x.moves = append(pending, x.moves...)
			return x.withGuards(g0, fc, text+next(x.applyMovesTo(en2, dest)))
		}
		if len(s.Lhs) != 1 {
			fail("assignment mismatch in %s", norm(src(s)))
		}
		if sel, ok := s.Lhs[0].(*ast.SelectorExpr); ok && !define && s.Tok == token.ASSIGN {
			if b := x.expr(sel.X, en, ""); x.ti(b.typ).Kind == "optopaque" {
				// `p.f = v` for a pointer p to an OPAQUE struct: written through an env function; a nil pointer is a panic
				ft, ok := x.u.EnvFields[strings.TrimSpace(b.typ)+"."+sel.Sel.Name]
				if !ok || b.lv == nil {
					fail("assignment to %s", norm(src(s.Lhs[0])))
				}
				bi := x.ti(b.typ)
				name := strings.TrimPrefix(strings.TrimSpace(b.typ), "*") + "_set_" + sel.Sel.Name
				x.envFn(name, bi.Payload+" → "+x.ti(ft).Lean+" → "+bi.Payload, fmt.Sprintf("field `%s` of `%s` (write)", sel.Sel.Name, strings.TrimSpace(b.typ)))
				v := x.coerce(x.expr(rhs, en, ft), ft)
				bind := x.tmp("p")
				x.guards = append(x.guards, oguard{kind: "opt", e: b.lean, bind: bind})
				text := x.store(en, *b.lv, "(some (env."+name+" "+bind+" "+paren(v.lean)+"))")
				return x.withGuards(g0, fc, text+next(en))
			}
			x.guards = x.guards[:g0]
		}
		want := ""
		if !define {
			if id, ok := s.Lhs[0].(*ast.Ident); ok && id.Name != "_" {
				if v := en.lookup(id.Name); v != nil {
					want = v.typ
				}
			}
		}
		v := x.expr(rhs, en, want)
		text, en2 := x.assignTo(s.Lhs[0], define, v, nil, en)
		return x.withGuards(g0, fc, text+next(x.applyMoves(en2)))
	}
	if len(s.Lhs) != len(s.Rhs) {
		fail("assignment mismatch in %s", norm(src(s)))
	}
	// parallel assignment: all right-hand sides first; scalars through temporaries, objects as paths
	pre := ""
	vals := make([]oval, len(s.Rhs))
	lhsNames := map[string]bool{}
	for _, l := range s.Lhs {
		lhsNames[idName(l)] = true
	}
	for i, r := range s.Rhs {
		want := ""
		if id, ok := s.Lhs[i].(*ast.Ident); ok && !define && id.Name != "_" {
			if v := en.lookup(id.Name); v != nil {
				want = v.typ
			}
		}
		v := x.expr(r, en, want)
		if want != "" {
			v = x.coerce(v, want)
		}
		if v.typ == "untyped" {
			v = x.coerce(v, "int")
		}
		if v.typ == "nil" {
			fail("nil in a parallel assignment")
		}
		if x.u.isObjKind(x.ti(v.typ).Kind) {
			if v.lv != nil {
				if b := en.lookupLean(v.lv.base); b != nil && lhsNames[b.goName] && !define {
					fail("parallel assignment of objects that mention their own targets")
				}
			}
			vals[i] = v
			continue
		}
		t := x.tmp("t")
		pre += "let " + t + " : " + x.ti(v.typ).Lean + " := " + v.lean + "\n"
		vals[i] = oval{lean: t, typ: v.typ, fresh: true}
	}
	text, en2 := x.bindMany(s.Lhs, define, vals, nil, en)
	return x.withGuards(g0, fc, pre+text+next(x.applyMoves(en2)))
}

func (x *otrans) stmts(list []ast.Stmt, en oenv, fc *ofctx, k okont) string {
	if len(list) == 0 {
		return k(en)
	}
	s, rest := list[0], list[1:]
	next := func(en oenv) string { return x.stmts(rest, en, fc, k) }
	g0 := len(x.guards)
	switch s := s.(type) {
	case *ast.EmptyStmt:
		return next(en)
	case *ast.BlockStmt:
		return x.stmts(s.List, en.push(), fc, func(en2 oenv) string { return next(en2.popTo(en)) })
	case *ast.ReturnStmt:
		return fc.ret(en, s.Results)
	case *ast.BranchStmt:
		if s.Label != nil {
			fail("labelled %s", s.Tok)
		}
		switch {
		case s.Tok == token.BREAK && fc.brk != nil:
			return fc.brk(en)
		case s.Tok == token.CONTINUE && fc.cont != nil:
			return fc.cont(en)
		}
		fail("unsupported %s", s.Tok)
	case *ast.DeclStmt:
		gd, ok := s.Decl.(*ast.GenDecl)
		if !ok || gd.Tok != token.VAR {
			fail("unsupported declaration %s", norm(src(s)))
		}
		out := ""
		cur := en
		for _, sp := range gd.Specs {
			vs := sp.(*ast.ValueSpec)
			if len(vs.Values) != 0 || vs.Type == nil {
				fail("unsupported declaration %s", norm(src(s)))
			}
			t := goTypeOf(vs.Type)
			if x.isDropped(t) {
				// `var knfe *KeyNotFoundError`: only ever the target of errors.As
				if x.droppedLocals == nil {
					x.droppedLocals = map[string]string{}
				}
				for _, n := range vs.Names {
					x.droppedLocals[n.Name] = t
				}
				continue
			}
			ti := x.ti(t)
			if ti.Zero == "" {
				fail("`var _ %s`: no zero value known", t)
			}
			for _, n := range vs.Names {
				var lean string
				cur, lean = cur.declare(ovar{goName: n.Name, typ: t})
				out += "let " + lean + " : " + ti.Lean + " := " + ti.Zero + "\n"
			}
		}
		return out + next(cur)
	case *ast.IncDecStmt:
		op := token.ADD
		if s.Tok == token.DEC {
			op = token.SUB
		}
		v := x.binary(&ast.BinaryExpr{X: s.X, Op: op, Y: &ast.BasicLit{Kind: token.INT, Value: "1"}}, en)
		text, en2 := x.assignTo(s.X, false, v, nil, en)
		return x.withGuards(g0, fc, text+next(en2))
	case *ast.AssignStmt:
		return x.assign(s, en, fc, next)
	case *ast.ExprStmt:
		c, ok := s.X.(*ast.CallExpr)
		if !ok {
			fail("unsupported statement %s", norm(src(s)))
		}
		if isIdent(c.Fun, "panic") {
			x.needPnc = true
			return fc.pnc()
		}
		if isIdent(c.Fun, "clear") && len(c.Args) == 1 {
			// clear(s) zeroes elements of a backing array nobody reads again (see obj.go): evaluated for its bounds only
			v := x.clearArg(c.Args[0], en)
			_ = v
			return x.withGuards(g0, fc, next(en))
		}
		v, eff := x.call(c, en)
		_ = v
		if eff != nil && len(eff.muts) > 0 {
			pre, _ := x.applyEffect(eff, en)
			return x.withGuards(g0, fc, pre+next(x.applyMoves(en)))
		}
		fail("call statement without effect %s", norm(src(s)))
	case *ast.IfStmt:
		return x.ifStmt(s, en, fc, next)
	case *ast.RangeStmt:
		return x.rangeStmt(s, en, fc, next)
	case *ast.ForStmt:
		if s.Init == nil && s.Post == nil && s.Cond != nil {
			return x.forCondStmt(s, en, fc, next)
		}
		return x.forStmt(s, en, fc, next)
	case *ast.SwitchStmt:
		return x.stmts([]ast.Stmt{oSwitchToIf(s)}, en, fc, next)
	case *ast.DeferStmt:
		if id, ok := s.Call.Fun.(*ast.Ident); ok && x.u.SkipDefers[id.Name] {
			covPat(covNS(x.u.Namespace), "SkipDefers: "+id.Name)
			covSkip(covNS(x.u.Namespace)+"."+x.t.Lean, s, "SkipDefers")
			// releases a pooled object when the function returns: no effect on any value
			for _, a := range s.Call.Args {
				x.dropArg(a, en)
			}
			return next(en)
		}
		fail("unsupported defer %s", norm(src(s)))
	}
	fail("unsupported statement %s", norm(src(s)))
	return ""
}

// oSwitchToIf: a tag-less `switch { case c1: .. case c2: .. default: .. }` without `break` / `fallthrough` is an if-chain
func oSwitchToIf(s *ast.SwitchStmt) ast.Stmt {
	if s.Tag != nil || s.Init != nil {
		fail("unsupported switch statement (only the tag-less form)")
	}
	var deflt *ast.CaseClause
	var cases []*ast.CaseClause
	for _, st := range s.Body.List {
		cc := st.(*ast.CaseClause)
		ast.Inspect(cc, func(n ast.Node) bool {
			if b, ok := n.(*ast.BranchStmt); ok && (b.Tok == token.BREAK || b.Tok == token.FALLTHROUGH) {
				fail("%s inside a switch", b.Tok)
			}
			return true
		})
		if cc.List == nil {
			deflt = cc
			continue
		}
		if len(cc.List) != 1 {
			fail("switch case with %d expressions", len(cc.List))
		}
		cases = append(cases, cc)
	}
	if len(cases) == 0 {
		fail("switch without cases")
	}
	var tail ast.Stmt
	if deflt != nil {
		tail = &ast.BlockStmt{List: deflt.Body}
	}
	for i := len(cases) - 1; i >= 0; i-- {
		tail = &ast.IfStmt{Cond: cases[i].List[0], Body: &ast.BlockStmt{List: cases[i].Body}, Else: tail}
	}
	return tail
}

// oCanPanic: an index / slice expression inside e
func oCanPanic(e ast.Expr) bool {
	found := false
	ast.Inspect(e, func(n ast.Node) bool {
		switch n.(type) {
		case *ast.IndexExpr, *ast.SliceExpr:
			found = true
		}
		return true
	})
	return found
}

// clearArg: `clear(x)`, `clear(x[a:b])`, `clear(x[len(x):cap(x)])`
func (x *otrans) clearArg(a ast.Expr, en oenv) string {
	if se, ok := a.(*ast.SliceExpr); ok {
		if c, ok := se.High.(*ast.CallExpr); ok && isIdent(c.Fun, "cap") {
			// the spare capacity: not part of any value
			l := x.expr(se.X, en, "")
			if x.ti(l.typ).Kind != "list" {
				fail("clear of %s", l.typ)
			}
			return ""
		}
	}
	v := x.expr(a, en, "")
	if x.ti(v.typ).Kind != "list" {
		fail("clear of %s", v.typ)
	}
	return v.lean
}

// escapes: does the statement list `break` / `continue` an enclosing loop (or use an unsupported statement)?
func oEscapes(list []ast.Stmt, inLoop bool) bool {
	esc := false
	var walk func(n ast.Node, inLoop bool)
	walk = func(n ast.Node, inLoop bool) {
		if n == nil || esc {
			return
		}
		switch t := n.(type) {
		case *ast.BranchStmt:
			if !inLoop || t.Label != nil || (t.Tok != token.BREAK && t.Tok != token.CONTINUE) {
				esc = true
			}
		case *ast.BlockStmt:
			for _, st := range t.List {
				walk(st, inLoop)
			}
		case *ast.IfStmt:
			walk(t.Body, inLoop)
			if t.Else != nil {
				walk(t.Else, inLoop)
			}
		case *ast.RangeStmt:
			walk(t.Body, true)
		case *ast.ForStmt:
			walk(t.Body, true)
		case *ast.SwitchStmt, *ast.TypeSwitchStmt, *ast.SelectStmt, *ast.LabeledStmt, *ast.GoStmt, *ast.DeferStmt:
			esc = true
		}
	}
	for _, st := range list {
		walk(st, inLoop)
	}
	return esc
}

func sameEnvShape(a, b oenv) bool {
	if len(a.vars) != len(b.vars) || len(a.frozen) != len(b.frozen) {
		return false
	}
	for i := range a.vars {
		v, w := a.vars[i], b.vars[i]
		if v.lean != w.lean || v.role != w.role || v.parent != w.parent || len(v.steps) != len(w.steps) ||
			v.moved != w.moved || v.frozen != w.frozen || v.dead != w.dead {
			return false
		}
		for k := range v.steps {
			if v.steps[k] != w.steps[k] {
				return false
			}
		}
	}
	for i := range a.frozen {
		if !samePath(a.frozen[i], b.frozen[i]) {
			return false
		}
	}
	return true
}

func (x *otrans) ifStmt(s *ast.IfStmt, en oenv, fc *ofctx, next okont) string {
	if be, ok := s.Cond.(*ast.BinaryExpr); ok && (be.Op == token.LOR || be.Op == token.LAND) && oCanPanic(be.Y) && s.Init == nil {
		// `if A || B {S} else {T}` with an index expression in B: B is evaluated (and can panic) only when A is false
		var elseS ast.Stmt = s.Else
		if be.Op == token.LOR {
			inner := &ast.IfStmt{Cond: be.Y, Body: s.Body, Else: elseS}
			return x.ifStmt(&ast.IfStmt{Cond: be.X, Body: s.Body, Else: inner}, en, fc, next)
		}
		inner := &ast.IfStmt{Cond: be.Y, Body: s.Body, Else: elseS}
		outer := &ast.IfStmt{Cond: be.X, Body: &ast.BlockStmt{List: []ast.Stmt{inner}}, Else: elseS}
		return x.ifStmt(outer, en, fc, next)
	}
	after := func(en2 oenv) string { return next(en2.popTo(en)) }
	elseList := func() ([]ast.Stmt, bool) {
		switch e := s.Else.(type) {
		case nil:
			return nil, true
		case *ast.BlockStmt:
			return e.List, true
		case *ast.IfStmt:
			return []ast.Stmt{e}, true
		}
		return nil, false
	}
	body := func(inner oenv) string {
		g0 := len(x.guards)
		c := x.coerce(x.expr(s.Cond, inner, "bool"), "bool")
		el, elOK := elseList()
		if !elOK {
			fail("unsupported else part")
		}
		// JOIN: neither branch leaves the block and neither changes what the variables stand for
		if !oEscapes(s.Body.List, false) && !oEscapes(el, false) {
			sameShape := true
			leaves := false // a branch can end the function (return / panic)
			jf := &ofctx{}
			jf.pnc = func() string { leaves = true; x.needPnc = true; return ".ret none" }
			jf.final = func(v string) string { leaves = true; return ".ret " + paren(v) }
			jf.ret = func(en2 oenv, rs []ast.Expr) string { return x.retCore(en2, rs, jf) }
			var vars []ovar
			branch := func(list []ast.Stmt, tail func() string) string {
				return x.stmts(list, inner.push(), jf, func(en2 oenv) string {
					if !sameEnvShape(en2.popTo(inner), inner) {
						sameShape = false
					}
					return tail()
				})
			}
			fallsT, fallsE := 0, 0
			vars = x.carriedVars(inner, func() {
				branch(s.Body.List, func() string { fallsT++; return "" })
				branch(el, func() string { fallsE++; return "" })
			})
			// when at most one branch reaches the end, copying the continuation into it duplicates nothing
			if sameShape && fallsT > 0 && fallsE > 0 {
				names := make([]string, len(vars))
				types := make([]string, len(vars))
				for i, v := range vars {
					names[i], types[i] = v.lean, x.ti(v.typ).Lean
				}
				tup, tupT := "()", "Unit"
				if len(vars) == 1 {
					tup, tupT = names[0], types[0]
				} else if len(vars) > 1 {
					tup, tupT = "("+strings.Join(names, ", ")+")", "("+strings.Join(types, " × ")+")"
				}
				tail := func() string {
					if leaves {
						return ".done " + paren(tup)
					}
					return tup
				}
				// the trial run told whether a branch can end the function; translate for real
				thenT := branch(s.Body.List, tail)
				elseT := branch(el, tail)
				ifT := "if " + c.lean + " then\n  " + indent(thenT, 2) + "\nelse\n  " + indent(elseT, 2)
				var text string
				switch {
				case len(vars) == 0 && !leaves:
					text = after(inner)
				case leaves:
					text = "match (" + indent(ifT, 2) + " : Loop " + paren(x.resultType(inner)) + " " + paren(tupT) + ") with\n| .ret r_ => " + fc.final("r_") + "\n| .done " + tup + " =>\n  " + indent(after(inner), 2)
				case len(vars) == 1:
					text = "let " + tup + " : " + tupT + " :=\n  " + indent(ifT, 2) + "\n" + after(inner)
				default:
					text = "match (" + indent(ifT, 2) + " : " + tupT + ") with\n| " + tup + " =>\n  " + indent(after(inner), 2)
				}
				return x.withGuards(g0, fc, text)
			}
		}
		thenT := x.stmts(s.Body.List, inner.push(), fc, after)
		var elseT string
		switch e := s.Else.(type) {
		case nil:
			elseT = after(inner)
		case *ast.BlockStmt:
			elseT = x.stmts(e.List, inner.push(), fc, after)
		case *ast.IfStmt:
			elseT = x.ifStmt(e, inner.push(), fc, after)
		}
		return x.withGuards(g0, fc, "if "+c.lean+" then\n  "+indent(thenT, 2)+"\nelse\n  "+indent(elseT, 2))
	}
	if s.Init != nil {
		return x.stmts([]ast.Stmt{s.Init}, en.push(), fc, body)
	}
	return body(en)
}

// ---------------------------------------------------------------------------------------------
// loops

type osnap struct {
	naux, nloop, ntmp, nguards, nmoves int
}

func (x *otrans) snap() osnap { return osnap{len(x.aux), x.nloop, x.ntmp, len(x.guards), len(x.moves)} }
func (x *otrans) restore(s osnap) {
	x.aux, x.nloop, x.ntmp, x.guards, x.moves = x.aux[:s.naux], s.nloop, s.ntmp, x.guards[:s.nguards], x.moves[:s.nmoves]
}

// carriedVars: the variables declared outside the loop that its body assigns
func (x *otrans) carriedVars(en oenv, run func()) []ovar {
	sn := x.snap()
	rec := map[string]bool{}
	x.record = append(x.record, rec)
	run()
	x.record = x.record[:len(x.record)-1]
	x.restore(sn)
	var out []ovar
	for _, v := range en.vars {
		if rec[v.lean] && en.lookupLean(v.lean) != nil {
			out = append(out, v)
		}
	}
	return out
}

type oloop struct {
	name     string
	doc      string
	firstPat string // pattern of the recursion argument in the step case
	firstNil string // pattern in the base case
	firstT   string
	extraP   string // further patterns (the index)
	extraT   string
	extraNil string
	start    string // call arguments for the recursion argument(s)
	recArgs  string // arguments of the recursive call for the recursion argument(s)
	nilRet   string // value of the base case when it is not "the loop is over" (fuel loops)
}

// emitLoop: the shared part of every loop scheme
func (x *otrans) emitLoop(lp oloop, bodyOf func(lf *ofctx) string, en oenv, fc *ofctx, next okont, carried []ovar) string {
	hasRet := true // a loop body can always reach a panic or a return in this engine's targets; keep one scheme
	cnames := make([]string, len(carried))
	ctypes := make([]string, len(carried))
	for i, v := range carried {
		cnames[i] = v.lean
		ctypes[i] = x.ti(v.typ).Lean
	}
	ctuple, ctupleT := "()", "Unit"
	if len(carried) == 1 {
		ctuple, ctupleT = cnames[0], ctypes[0]
	} else if len(carried) > 1 {
		ctuple, ctupleT = "("+strings.Join(cnames, ", ")+")", "("+strings.Join(ctypes, " × ")+")"
	}
	resT := "Loop " + paren(x.resultType(en)) + " " + paren(ctupleT)
	done := ".done " + ctuple
	recur := fmt.Sprintf("RECUR_%s_", strings.ReplaceAll(lp.name, ".", "_"))
	lf := &ofctx{
		brk:  func(oenv) string { return done },
		cont: func(oenv) string { return recur },
	}
	// `.ret` carries the FUNCTION's final value; whoever consumes the loop re-wraps it for its own context
	lf.final = func(v string) string { return ".ret " + paren(v) }
	lf.pnc = func() string { x.needPnc = true; return ".ret none" }
	lf.ret = func(en2 oenv, rs []ast.Expr) string { return x.retCore(en2, rs, lf) }
	bodyText := bodyOf(lf)
	_ = hasRet
	toks := map[string]bool{}
	for _, t := range identRe.FindAllString(bodyText, -1) {
		toks[t] = true
	}
	var frees []ovar
	seen := map[string]bool{}
	for i := len(en.vars) - 1; i >= 0; i-- {
		v := en.vars[i]
		if seen[v.lean] {
			continue
		}
		seen[v.lean] = true
		isC := false
		for _, c := range carried {
			isC = isC || c.lean == v.lean
		}
		if !isC && toks[v.lean] {
			frees = append([]ovar{v}, frees...)
		}
	}
	fdecl, fargs := "", ""
	for _, v := range frees {
		fdecl += " (" + v.lean + " : " + x.ti(v.typ).Lean + ")"
		fargs += " " + v.lean
	}
	// `rec_` / `depth_` of a Rec / Fuel target are pseudo-variables of the environment
	if toks["rec_"] {
		fdecl += " (rec_ : " + oShapes[x.t.Func].recType + ")"
		fargs += " rec_"
	}
	if toks["depth_"] {
		fdecl += " (depth_ : Nat)"
		fargs += " depth_"
	}
	cargs := ""
	for _, c := range cnames {
		cargs += " " + c
	}
	envArg, envDecl := " env", " (env : "+x.u.envType()+")"
	if x.t.NoEnv {
		envArg, envDecl = "", ""
	}
	callHead := lp.name + envArg + fargs
	bodyText = strings.ReplaceAll(bodyText, recur, callHead+" "+lp.recArgs+cargs)
	sig := lp.firstT + lp.extraT
	for _, t := range ctypes {
		sig += " → " + t
	}
	pats := ""
	for _, c := range cnames {
		pats += ", " + c
	}
	def := fmt.Sprintf("/-- %s -/\ndef %s%s%s :\n    %s → %s\n", lp.doc, lp.name, envDecl, fdecl, sig, resT)
	if lp.nilRet != "" {
		def += "  | " + lp.firstNil + lp.extraNil + pats + " => " + lp.nilRet + "\n"
	} else {
		def += "  | " + lp.firstNil + lp.extraNil + pats + " => " + done + "\n"
	}
	def += "  | " + lp.firstPat + lp.extraP + pats + " =>\n    " + indent(bodyText, 4) + "\n"
	x.aux = append(x.aux, def)
	call := callHead + " " + lp.start + cargs
	return "match " + call + " with\n| .ret r_ => " + fc.final("r_") + "\n| .done " + ctuple + " =>\n  " + indent(next(en), 2)
}

func (x *otrans) rangeStmt(s *ast.RangeStmt, en oenv, fc *ofctx, next okont) string {
	if s.Tok != token.DEFINE && (s.Key != nil || s.Value != nil) {
		fail("range with assignment to existing variables")
	}
	g0 := len(x.guards)
	coll := x.expr(s.X, en, "")
	ci := x.ti(coll.typ)
	if ci.Kind != "list" {
		fail("range over %s", coll.typ)
	}
	name2 := func(e ast.Expr) string {
		if e == nil {
			return "_"
		}
		return idName(e)
	}
	x.nloop++
	n := x.nloop
	lname := fmt.Sprintf("%s.loop%d", x.t.Lean, n)
	body := en.push()
	il, vl := "i_", "_"
	if kn := name2(s.Key); kn != "_" {
		body, il = body.declare(ovar{goName: kn, typ: "int"})
	}
	if vn := name2(s.Value); vn != "_" {
		nv := ovar{goName: vn, typ: ci.Elem}
		if x.u.isObjKind(x.ti(ci.Elem).Kind) {
			nv.frozen = true // a read-only copy of the element
		}
		body, vl = body.declare(nv)
	}
	run := func(lf *ofctx) string {
		return x.stmts(s.Body.List, body, lf, func(en2 oenv) string { return lf.cont(en2) })
	}
	carried := x.carriedVars(en, func() {
		dummy := &ofctx{brk: func(oenv) string { return "" }, cont: func(oenv) string { return "" }, pnc: func() string { return "" }}
		dummy.final = func(v string) string { return v }
		dummy.ret = func(en2 oenv, rs []ast.Expr) string { return x.retCore(en2, rs, dummy) }
		run(dummy)
	})
	lp := oloop{name: lname,
		doc:      fmt.Sprintf("loop %d of `%s`: `for %s` (structural recursion over the list, index counted up)", n, x.t.Func, norm(rangeHeader(s))),
		firstPat: vl + " :: rest_", firstNil: "[]", firstT: "List " + paren(x.ti(ci.Elem).Lean),
		extraP: ", " + il, extraNil: ", _", extraT: " → Int",
		start: paren(coll.lean) + " 0", recArgs: "rest_ (" + il + " + 1)"}
	text := x.emitLoop(lp, run, en, fc, next, carried)
	return x.withGuards(g0, fc, text)
}

// forStmt: `for i := E; i >= 0; i--` (descending over indexes): recursion on the number of iterations left
func (x *otrans) forStmt(s *ast.ForStmt, en oenv, fc *ofctx, next okont) string {
	init, ok := s.Init.(*ast.AssignStmt)
	post, ok2 := s.Post.(*ast.IncDecStmt)
	cond, ok3 := s.Cond.(*ast.BinaryExpr)
	if !ok || !ok2 || !ok3 || init.Tok != token.DEFINE || len(init.Lhs) != 1 || len(init.Rhs) != 1 {
		fail("unsupported for statement `for %s; %s; %s`", nodeOr(s.Init), nodeOr(s.Cond), nodeOr(s.Post))
	}
	iv := idName(init.Lhs[0])
	if iv == "" || post.Tok != token.DEC || !isIdent(post.X, iv) || cond.Op != token.GEQ || !isIdent(cond.X, iv) || !isZero(cond.Y) {
		fail("unsupported for statement `for %s; %s; %s` (only `for i := E; i >= 0; i--`)", nodeOr(s.Init), nodeOr(s.Cond), nodeOr(s.Post))
	}
	g0 := len(x.guards)
	start := x.intExpr(init.Rhs[0], en)
	x.nloop++
	n := x.nloop
	lname := fmt.Sprintf("%s.loop%d", x.t.Lean, n)
	body, il := en.push().declare(ovar{goName: iv, typ: "int"})
	// the body must not assign the loop variable
	ast.Inspect(s.Body, func(nd ast.Node) bool {
		switch t := nd.(type) {
		case *ast.AssignStmt:
			for _, l := range t.Lhs {
				if isIdent(l, iv) {
					fail("the loop body assigns the loop variable %s", iv)
				}
			}
		case *ast.IncDecStmt:
			if isIdent(t.X, iv) {
				fail("the loop body assigns the loop variable %s", iv)
			}
		}
		return true
	})
	run := func(lf *ofctx) string {
		return "let " + il + " : Int := Int.ofNat n_\n" + x.stmts(s.Body.List, body, lf, func(en2 oenv) string { return lf.cont(en2) })
	}
	carried := x.carriedVars(en, func() {
		dummy := &ofctx{brk: func(oenv) string { return "" }, cont: func(oenv) string { return "" }, pnc: func() string { return "" }}
		dummy.final = func(v string) string { return v }
		dummy.ret = func(en2 oenv, rs []ast.Expr) string { return x.retCore(en2, rs, dummy) }
		run(dummy)
	})
	lp := oloop{name: lname,
		doc:      fmt.Sprintf("loop %d of `%s`: `for %s; %s; %s` (`n_` = iterations left, `%s = n_ - 1` in the step case)", n, x.t.Func, nodeOr(s.Init), nodeOr(s.Cond), nodeOr(s.Post), iv),
		firstPat: "n_ + 1", firstNil: "0", firstT: "Nat",
		start: "(" + paren(start) + " + 1).toNat", recArgs: "n_"}
	text := x.emitLoop(lp, run, en, fc, next, carried)
	return x.withGuards(g0, fc, text)
}

// forCondStmt: `for a < b { .. }` over ints (the binary searches): recursion on a fuel of `b - a` iterations, taken at loop
// entry.  Running out of fuel is reported like a panic (`none`): the equivalence theorems show it never happens.
func (x *otrans) forCondStmt(s *ast.ForStmt, en oenv, fc *ofctx, next okont) string {
	cond, ok := s.Cond.(*ast.BinaryExpr)
	if !ok || cond.Op != token.LSS || idName(cond.X) == "" || idName(cond.Y) == "" {
		fail("unsupported for statement `for %s` (only `for a < b` over int variables)", nodeOr(s.Cond))
	}
	g0 := len(x.guards)
	lo, hi := x.intExpr(cond.X, en), x.intExpr(cond.Y, en)
	x.nloop++
	n := x.nloop
	lname := fmt.Sprintf("%s.loop%d", x.t.Lean, n)
	body := en.push()
	run := func(lf *ofctx) string {
		c := x.coerce(x.expr(s.Cond, body, "bool"), "bool")
		x.needPnc = true
		return "if " + c.lean + " then\n  " + indent(x.stmts(s.Body.List, body, lf, func(en2 oenv) string { return lf.cont(en2) }), 2) + "\nelse\n  " + lf.brk(body)
	}
	carried := x.carriedVars(en, func() {
		dummy := &ofctx{brk: func(oenv) string { return "" }, cont: func(oenv) string { return "" }, pnc: func() string { return "" }}
		dummy.final = func(v string) string { return v }
		dummy.ret = func(en2 oenv, rs []ast.Expr) string { return x.retCore(en2, rs, dummy) }
		run(dummy)
	})
	lp := oloop{name: lname,
		doc:      fmt.Sprintf("loop %d of `%s`: `for %s` (`n_` = fuel, %s - %s at loop entry; out of fuel = `none`)", n, x.t.Func, nodeOr(s.Cond), norm(src(cond.Y)), norm(src(cond.X))),
		firstPat: "n_ + 1", firstNil: "0", firstT: "Nat",
		start: "(" + paren(hi) + " - " + paren(lo) + " + 1).toNat", recArgs: "n_", nilRet: ".ret none"}
	text := x.emitLoop(lp, run, en, fc, next, carried)
	return x.withGuards(g0, fc, text)
}

// ---------------------------------------------------------------------------------------------
// return

// rootOf: the receiver / parameter position an object expression IS (not a part of it), or -1
func (x *otrans) rootOf(v oval, en oenv) int {
	if v.lv == nil {
		return -1
	}
	abs := x.absPath(en, *v.lv)
	for _, st := range abs.steps {
		if st.kind != "variant" {
			return -1
		}
	}
	if i, ok := x.rootIdx[abs.base]; ok {
		return i
	}
	return -1
}

func (x *otrans) retCore(en oenv, rs []ast.Expr, fc *ofctx) string {
	g0 := len(x.guards)
	res := x.shape.res
	if len(rs) == 0 && len(res) > 0 {
		// named results
		for _, r := range x.namedRes {
			rs = append(rs, &ast.Ident{Name: r})
		}
	}
	if len(rs) == 1 {
		if c, ok := rs[0].(*ast.CallExpr); ok {
			v, eff := x.call(c, en)
			if eff != nil && len(eff.muts) > 0 {
				if tupleTyp(eff.results) != tupleTyp(res) && x.tupleOf(eff.results, nil) != x.tupleOf(res, nil) {
					// (Go types that are the same Lean type - `MapKey` / `Storable`, both interfaces over V - may differ by name)
					fail("return of a call with results %v, function returns %v", eff.results, res)
				}
				pre, r := x.applyEffect(eff, en)
				return x.withGuards(g0, fc, pre+fc.final(x.finish(r, en)))
			}
			if len(res) > 1 {
				if v.typ != tupleTyp(res) && x.tupleOf(tupleParts(v.typ), nil) != x.tupleOf(res, nil) {
					fail("return of a call of type %s, function returns %v", v.typ, res)
				}
				r := x.tmp("r")
				var parts []string
				for i := range res {
					parts = append(parts, proj(r, i, len(res)))
				}
				return x.withGuards(g0, fc, "let "+r+" := "+v.lean+"\n"+fc.final(x.finish(parts, en)))
			}
			if len(res) == 1 {
				v = x.coerce(v, res[0])
				return x.withGuards(g0, fc, fc.final(x.finish([]string{v.lean}, en)))
			}
		}
	}
	if len(rs) != len(res) {
		fail("return with %d values, function has %d results", len(rs), len(res))
	}
	var parts []string
	for i, r := range rs {
		v0 := x.expr(r, en, res[i])
		if v0.view {
			fail("return of the re-slice %s (it shares a backing array)", norm(src(r)))
		}
		if v0.typ != "nil" && v0.typ != "untyped" && x.u.isObjKind(x.ti(v0.typ).Kind) {
			if k := x.rootOf(v0, en); k >= 0 && x.shape.aliasRes[i] != k {
				if x.shape.aliasRes[i] >= 0 {
					fail("result %d is the receiver / a parameter in one return and another one elsewhere", i)
				}
				x.shape.aliasRes[i] = k
				x.grew = true
			}
		}
		v := x.coerce(v0, res[i])
		parts = append(parts, v.lean)
	}
	return x.withGuards(g0, fc, fc.final(x.finish(parts, en)))
}

// ---------------------------------------------------------------------------------------------
// one target

func (u *oUnit) envType() string {
	return strings.TrimSpace("Env " + strings.Join(u.TypeVars, " "))
}

func (x *otrans) run() string {
	fd := x.fd
	en := oenv{}
	x.rootIdx = map[string]int{}
	x.guards, x.aux, x.nloop, x.ntmp, x.moves, x.needPnc, x.grew = nil, nil, 0, 0, nil, false, false
	params := ""
	if fd.Recv != nil {
		rt := goTypeOf(fd.Recv.List[0].Type)
		if !strings.HasPrefix(rt, "*") {
			// a value receiver is a copy: fine as long as the method does not assign it (checked after the pass)
			rt = "*" + rt
			x.valueRecv = true
		}
		if len(fd.Recv.List[0].Names) == 1 {
			x.recv = fd.Recv.List[0].Names[0].Name
		} else {
			x.recv = "recv"
		}
		var lean string
		en, lean = en.declare(ovar{goName: x.recv, typ: rt, role: oRoot, param: true})
		x.rootIdx[lean] = 0
		params = " (" + lean + " : " + x.ti(rt).Lean + ")"
	}
	pn, pt := fieldNames(fd.Type.Params)
	x.funcParams = map[string]string{}
	x.droppedParams = map[string]string{}
	for i := range pn {
		if ts := typeSpecs[pt[i]]; ts != nil {
			if _, isF := ts.Type.(*ast.FuncType); isF && !x.isDropped(pt[i]) {
				if _, listed := x.u.EnvFuncs[pt[i]]; !listed {
					fail("callback type %s is not listed as an env function", pt[i])
				}
				x.funcParams[pn[i]] = pt[i]
				continue
			}
		}
		if x.isDropped(pt[i]) {
			x.droppedParams[pn[i]] = pt[i]
			continue
		}
		ti := x.ti(pt[i])
		if pn[i] == "" || pn[i] == "_" {
			pn[i] = fmt.Sprintf("arg%d", i)
		}
		nv := ovar{goName: pn[i], typ: pt[i], param: true}
		if x.u.isObjKind(ti.Kind) {
			nv.role = oRoot
		}
		var lean string
		en, lean = en.declare(nv)
		if nv.role == oRoot {
			x.rootIdx[lean] = i + 1
		}
		params += " (" + lean + " : " + ti.Lean + ")"
	}
	body := en.push()
	pre := ""
	x.namedRes = nil
	rn, rt := fieldNames(fd.Type.Results)
	for i, n := range rn {
		if n != "" && n != "_" {
			ti := x.ti(rt[i])
			if ti.Zero == "" {
				fail("named result %s: no zero value for %s", n, rt[i])
			}
			var lean string
			body, lean = body.declare(ovar{goName: n, typ: rt[i]})
			pre += "let " + lean + " : " + ti.Lean + " := " + ti.Zero + "\n"
			x.namedRes = append(x.namedRes, n)
		}
	}
	fc := &ofctx{}
	fc.final = func(v string) string { return v }
	fc.pnc = func() string {
		x.needPnc = true
		return "none"
	}
	fc.ret = func(en2 oenv, rs []ast.Expr) string { return x.retCore(en2, rs, fc) }
	text := x.stmts(fd.Body.List, body, fc, func(en2 oenv) string {
		if len(rt) != 0 {
			fail("function body can end without return")
		}
		return x.finish(nil, en2)
	})
	doc := fmt.Sprintf("/-- `%s` (%s)", x.t.Func, funcFile[x.t.Func])
	types, _ := x.mutRoots(en)
	if len(types) > 0 {
		doc += "; the result ends with the new state of: "
		var names []string
		for _, v := range en.vars {
			if i, ok := x.rootIdx[v.lean]; ok && x.shape.mut[i] {
				names = append(names, "`"+v.goName+"`")
			}
		}
		doc += strings.Join(names, ", ")
	}
	if x.shape.panics {
		doc += "; `none` = run-time panic"
	}
	doc += " -/\n"
	out := strings.Join(x.aux, "\n")
	if out != "" {
		out += "\n"
	}
	envDecl := " (env : " + x.u.envType() + ")"
	tp := ""
	if x.t.NoEnv {
		envDecl = ""
		for _, k := range oSortedKeys(x.tlocal) {
			if x.tlocal[k].Kind == "opaque" {
				tp += " {" + x.tlocal[k].Lean + " : Type}"
			}
		}
	}
	if x.usesDepth && !x.t.Rec && !x.t.Fuel {
		fail("%s calls a dispatcher with a recursive implementation and is not listed with Rec / Fuel", x.t.Func)
	}
	if x.t.Rec || x.t.Fuel {
		envDecl += " (depth_ : Nat)"
	}
	if x.t.Rec {
		// structural recursion on the depth argument: at depth 0 the tree is deeper than the argument (`none`)
		text = "match depth_ with\n| 0 => none\n| depth_ + 1 =>\n  let rec_ : " + oShapes[x.t.Func].recType + " := " + x.t.Lean + " env depth_\n  " + indent(pre+text, 2)
		pre = ""
	}
	return out + doc + "def " + x.t.Lean + tp + envDecl + params + " :\n    " + x.resultType(en) + " :=\n  " + indent(pre+text, 2) + "\n"
}

func oTranslate(u *oUnit, t *oTarget, dead *[]string) (text string, reason string) {
	key := t.Func
	defer func() {
		if r := recover(); r != nil {
			te, ok := r.(transErr)
			if !ok {
				te = transErr{fmt.Sprintf("internal error of the translator: %v", r)}
			}
			reason = te.msg
			oShapes[key] = oshape{}
			text = fmt.Sprintf("/-- `%s`: NOT TRANSLATED (%s) -/\ndef %s : Untranslatable :=\n  ⟨%q⟩\n", t.Func, oneLine(te.msg), t.Lean, oneLine(te.msg))
		}
	}()
	if t.Kind == "dispatch" {
		text = oDispatch(u, t)
		return text, ""
	}
	if t.Promote != "" && funcs[t.Func] == nil {
		oPromote(u, t)
	}
	fd := funcs[t.Func]
	if fd == nil {
		fail("function %s not found in the package", t.Func)
	}
	if fd.Body == nil {
		fail("function %s has no body", t.Func)
	}
	x := &otrans{u: u, t: t, fd: fd, dead: dead}
	// type parameters of a generic helper: `S ~[]E` -> List α, `E any` -> α
	if fd.Type.TypeParams != nil {
		x.tlocal = map[string]oType{}
		var elems []string
		for _, f := range fd.Type.TypeParams.List {
			ct := goTypeOf(f.Type)
			for _, n := range f.Names {
				if ct == "any" {
					x.tlocal[n.Name] = oType{Kind: "opaque", Lean: "α" + strings.Repeat("'", len(elems))}
					elems = append(elems, n.Name)
				}
			}
		}
		for _, f := range fd.Type.TypeParams.List {
			ct := goTypeOf(f.Type)
			for _, n := range f.Names {
				if strings.HasPrefix(ct, "~[]") {
					el, ok := x.tlocal[ct[3:]]
					if !ok {
						fail("type parameter %s %s", n.Name, ct)
					}
					x.tlocal[n.Name] = oType{Kind: "list", Lean: "List " + el.Lean, Zero: "[]", Elem: ct[3:]}
				} else if ct != "any" {
					fail("type parameter %s %s", n.Name, ct)
				}
			}
		}
		if !t.NoEnv {
			fail("generic function %s must be listed with NoEnv", t.Func)
		}
	}
	_, pt := fieldNames(fd.Type.Params)
	_, rt := fieldNames(fd.Type.Results)
	x.shape = oshape{lean: t.Lean, params: pt, res: rt, mut: make([]bool, len(pt)+1), aliasRes: make([]int, len(rt)), noEnv: t.NoEnv,
		consumes: t.Consumes, tparams: x.tlocal}
	for i := range x.shape.aliasRes {
		x.shape.aliasRes[i] = -1
	}
	if fd.Recv != nil {
		x.shape.recv = goTypeOf(fd.Recv.List[0].Type)
		if !strings.HasPrefix(x.shape.recv, "*") {
			x.shape.recv = "*" + x.shape.recv
		}
	}
	x.shape.fuel = t.Fuel
	if t.Rec {
		// the shape was DECLARED (the dispatcher is generated before the implementation): start from it, check it at the end
		decl := oRecShape(u, t)
		x.shape.mut, x.shape.panics, x.shape.rec, x.shape.recType = append([]bool{}, decl.mut...), true, true, decl.recType
	}
	for pass := 0; ; pass++ {
		if pass > 6 {
			fail("the shape of %s does not stabilise", t.Func)
		}
		// recursion / self calls see the shape of the previous pass
		sh := x.shape
		sh.ok = true
		oShapes[key] = sh
		text = x.run()
		if x.needPnc && !x.shape.panics {
			x.shape.panics = true
			x.grew = true
		}
		if !x.grew {
			break
		}
	}
	if x.valueRecv && x.shape.mut[0] {
		fail("%s has a value receiver and assigns it", t.Func)
	}
	if t.Rec {
		decl := oRecShape(u, t)
		for i := range decl.mut {
			if x.shape.mut[i] != decl.mut[i] {
				fail("%s: the declared list of changed arguments (Mut) differs from the computed one at position %d", t.Func, i)
			}
		}
	}
	sh := x.shape
	sh.ok = true
	oShapes[key] = sh
	return text, ""
}

// oPromote: `T.M` is not declared: T embeds the interface field f and M is promoted through it.  The method set of T then
// holds `func (m *T) M(args) results { return m.f.M(args) }` (Go specification, "Struct types"): that wrapper is what is translated.
func oPromote(u *oUnit, t *oTarget) {
	parts := strings.SplitN(t.Func, ".", 2)
	found := false
	for _, emb := range u.embedded(parts[0]) {
		found = found || emb == t.Promote
	}
	if !found {
		fail("%s: %s has no embedded field %s", t.Func, parts[0], t.Promote)
	}
	mt := ifaceMethod(oIfaceOf(t.Promote), parts[1])
	if mt == nil {
		fail("%s: interface %s has no method %s", t.Func, t.Promote, parts[1])
	}
	var decl, args []string
	k := 0
	for _, f := range mt.Params.List {
		ns := f.Names
		if len(ns) == 0 {
			ns = []*ast.Ident{ast.NewIdent(fmt.Sprintf("a%d", k))}
		}
		for _, n := range ns {
			decl = append(decl, n.Name+" "+norm(src(f.Type)))
			args = append(args, n.Name)
			k++
		}
	}
	var res []string
	if mt.Results != nil {
		for _, f := range mt.Results.List {
			res = append(res, norm(src(f.Type)))
		}
	}
	text := fmt.Sprintf("package atree\nfunc (m *%s) %s(%s) (%s) {\n\treturn m.%s.%s(%s)\n}\n", parts[0], parts[1], strings.Join(decl, ", "),
		strings.Join(res, ", "), t.Promote, parts[1], strings.Join(args, ", "))
	f, err := parser.ParseFile(fset, "promoted_"+strings.ReplaceAll(t.Func, ".", "_")+".go", text, 0)
	if err != nil {
		fail("%s: the promotion wrapper does not parse: %v", t.Func, err)
	}
	funcs[t.Func] = f.Decls[0].(*ast.FuncDecl)
	funcFile[t.Func] = "promoted through the embedded field `" + t.Promote + "`"
}

// oRecShape: the DECLARED shape of a Rec target (registered before its dispatcher is generated)
func oRecShape(u *oUnit, t *oTarget) oshape {
	fd := funcs[t.Func]
	if fd == nil || fd.Recv == nil {
		fail("Rec target %s: method not found", t.Func)
	}
	_, pt := fieldNames(fd.Type.Params)
	_, rt := fieldNames(fd.Type.Results)
	sh := oshape{ok: true, lean: t.Lean, params: pt, res: rt, mut: make([]bool, len(pt)+1), aliasRes: make([]int, len(rt)), panics: true, rec: true}
	for i := range sh.aliasRes {
		sh.aliasRes[i] = -1
	}
	sh.recv = goTypeOf(fd.Recv.List[0].Type)
	if !strings.HasPrefix(sh.recv, "*") {
		sh.recv = "*" + sh.recv
	}
	for _, m := range t.Mut {
		sh.mut[m] = true
	}
	x := &otrans{u: u, t: t}
	typ := u.ti(sh.recv).Lean + " → "
	var mutT []string
	if sh.mut[0] {
		mutT = append(mutT, u.ti(sh.recv).Lean)
	}
	for i, p := range pt {
		if v, ok := u.Types[strings.TrimSpace(p)]; ok && v.Kind == "drop" {
			continue
		}
		if ts := typeSpecs[strings.TrimSpace(p)]; ts != nil {
			if _, isF := ts.Type.(*ast.FuncType); isF {
				continue
			}
		}
		typ += paren(u.ti(p).Lean) + " → "
		if sh.mut[i+1] {
			mutT = append(mutT, u.ti(p).Lean)
		}
	}
	sh.recType = typ + "Option " + paren(x.tupleOf(rt, mutT))
	return sh
}

// oDispatch: the method M of a closed interface = match on the implementation
func oDispatch(u *oUnit, t *oTarget) string {
	parts := strings.SplitN(t.Func, ".", 2)
	sumKey, m := parts[0], parts[1]
	sum := u.Sums[sumKey]
	if sum == nil {
		fail("%s is not a closed interface of the table", sumKey)
	}
	mt := ifaceMethod(sumKey, m)
	if mt == nil {
		fail("interface %s has no method %s", sumKey, m)
	}
	x := &otrans{u: u, t: t}
	pts := oParamTypes(mt)
	rts := fieldTypes(mt.Results)
	sh := oshape{lean: t.Lean, recv: sumKey, params: pts, res: rts, mut: make([]bool, len(pts)+1), panics: true, aliasRes: make([]int, len(rts))}
	for i := range sh.aliasRes {
		sh.aliasRes[i] = -1
	}
	var impls []oshape
	for _, im := range sum.Impls {
		is, ok := oShapes[strings.TrimPrefix(im.Go, "*")+"."+m]
		if !ok || !is.ok {
			fail("%s.%s is not translated before the dispatcher %s", strings.TrimPrefix(im.Go, "*"), m, t.Func)
		}
		if len(is.params) != len(pts) {
			fail("%s.%s has another signature than %s", im.Go, m, t.Func)
		}
		for i := range is.mut {
			sh.mut[i] = sh.mut[i] || is.mut[i]
		}
		for i, a := range is.aliasRes {
			if a >= 0 {
				if sh.aliasRes[i] >= 0 && sh.aliasRes[i] != a {
					fail("implementations of %s disagree on which argument result %d may be", t.Func, i)
				}
				sh.aliasRes[i] = a
			}
		}
		if is.rec {
			if sh.recDisp != "" {
				fail("%s has two recursive implementations", t.Func)
			}
			sh.recDisp, sh.recType = is.lean, is.recType
		}
		impls = append(impls, is)
	}
	// parameters
	decl := " (env : " + u.envType() + ")"
	if sh.recDisp != "" {
		decl += " (rec_ : " + sh.recType + ")"
	}
	decl += " (recv_ : " + u.ti(sumKey).Lean + ")"
	var anames []string
	for i, p := range pts {
		if v, ok := u.Types[strings.TrimSpace(p)]; ok && v.Kind == "drop" {
			anames = append(anames, "")
			continue
		}
		if ts := typeSpecs[strings.TrimSpace(p)]; ts != nil {
			if _, isF := ts.Type.(*ast.FuncType); isF {
				// a callback: called through env under the name of its type by every implementation
				anames = append(anames, "")
				continue
			}
		}
		n := fmt.Sprintf("a%d_", i+1)
		anames = append(anames, n)
		decl += " (" + n + " : " + u.ti(p).Lean + ")"
	}
	var mutT []string
	if sh.mut[0] {
		mutT = append(mutT, u.ti(sumKey).Lean)
	}
	for i, p := range pts {
		if sh.mut[i+1] {
			mutT = append(mutT, u.ti(p).Lean)
		}
	}
	resT := "Option " + paren(x.tupleOf(rts, mutT))
	body := "match recv_ with\n| .nil => none\n"
	for k, im := range sum.Impls {
		is := impls[k]
		call := is.lean + " env o_"
		if is.rec {
			call = "rec_ o_"
		}
		for _, a := range anames {
			if a != "" {
				call += " " + a
			}
		}
		// the implementation's tuple -> the dispatcher's tuple
		var implMut []int
		for i, mu := range is.mut {
			if mu {
				implMut = append(implMut, i)
			}
		}
		ni := len(rts) + len(implMut)
		var outs []string
		for i := range rts {
			outs = append(outs, proj("r_", i, ni))
		}
		for i, mu := range sh.mut {
			if !mu {
				continue
			}
			pos := -1
			for k2, j := range implMut {
				if j == i {
					pos = k2
				}
			}
			switch {
			case pos >= 0 && i == 0:
				outs = append(outs, "(."+im.Ctor+" "+paren(proj("r_", len(rts)+pos, ni))+")")
			case pos >= 0:
				outs = append(outs, proj("r_", len(rts)+pos, ni))
			case i == 0:
				outs = append(outs, "recv_")
			default:
				outs = append(outs, anames[i-1])
			}
		}
		val := outs[0]
		if len(outs) > 1 {
			val = "(" + strings.Join(outs, ", ") + ")"
		}
		if is.panics {
			body += "| ." + im.Ctor + " o_ =>\n  match " + call + " with\n  | none => none\n  | some r_ => some " + paren(val) + "\n"
		} else {
			body += "| ." + im.Ctor + " o_ =>\n  let r_ := " + call + "\n  some " + paren(val) + "\n"
		}
	}
	sh.ok = true
	oShapes[t.Func] = sh
	doc := fmt.Sprintf("/-- `%s.%s`: dynamic dispatch over the listed implementations; a nil receiver is a panic -/\n", sumKey, m)
	return doc + "def " + t.Lean + decl + " :\n    " + resT + " :=\n  " + indent(strings.TrimRight(body, "\n"), 2) + "\n"
}
