package main

// Third translation engine of gotrans ("object engine"): the slab-level RESTRUCTURING code of the maps - slice surgery
// and header updates of split / merge / lend / borrow on `hkeyElements`, `MapDataSlab`, `MapMetaDataSlab`, the
// child-slab table of `MapMetaDataSlab`, `OrderedMap.splitRoot / promoteChildAsNewRoot`, the last-level list
// `singleElements` -> lean/AtreeModel/Gen/TransMapSlabs.lean, namespace Atree.Gen.TransMap.  Equivalence with the
// hand-written model (AtreeModel/Map/Elems.lean, Tree.lean): lean/AtreeProofs/Props/TransMapSlabs.lean.
//
// go/ast only; expression types come from the DECLARATIONS (struct fields, function and interface method signatures).
//
// # Data
//
//	struct types          -> Lean structures generated from the Go declaration (every field; zero values as defaults)
//	*T (pointer to struct)-> the structure itself; the variable is an OBJECT (see "Objects and aliasing")
//	closed interfaces     -> an inductive with one constructor per listed implementation plus `nil`
//	                         (`elements` = nil | hkey | single; `MapSlab` = `Slab` = nil | data | meta).  A method call
//	                         is a generated DISPATCHER (`match`; nil -> panic); `x.(*T)` is a `match` on the constructor.
//	open interfaces       -> a type parameter (`element` -> E, `MapKey` -> K, `MapValue` -> V) with its methods in `env`
//	                         (values of these types are taken to be non-nil); `SlabStorage` -> an opaque STATE Σ whose
//	                         methods (and the package functions taking it) are `env` functions returning the new state
//	[]T                   -> List T' (value semantics, see below);  uintN -> UIntN (wrap-around), int -> Int
//	error                 -> Option ε; error constructors `New...Error..(..)` are `env` constants (arguments dropped)
//	package variables     -> `env.minThreshold` ...; untyped constants -> `Gen.c : Nat` (Gen/Consts.lean)
//
// # Functions
//
//	func (r *T) M(a A, o *U) (R, error)  ->  def T_M (env) (r : T) (a : A') (o : U) : [Option] (R' × Option ε [× T] [× U])
//
// The receiver / an object or state parameter is appended to the result iff the function (transitively) mutates it;
// the value is the state Go leaves, also next to an error.  `Option` (none = run-time panic) iff the function can
// reach a panic the engine models: index / slice bounds, failed type assertion, method call on a nil closed
// interface, `panic(..)`.  Both facts are computed (fixpoint over passes), not declared.
//
// # Objects and aliasing (what makes value semantics sound)
//
//	* a local bound to an object PATH (`rightSlab := slab.(*MapDataSlab)`, `rightElements := rightSlab.elements`,
//	  `oldRoot := m.root`, `elem := e.elems[i]`) is an ALIAS: it has a mirror variable, and every write through it
//	  is written through to the path it stands for, up to the root (receiver / parameter).
//	* assigning an alias back to its own path (`rightSlab.elements = rightElements`) is the identity; storing an
//	  object under a second path is rejected, except a FRESH object (composite literal, call result) that is MOVED:
//	  any later use of the moved local is rejected.
//	* a call result that may be the callee's receiver / argument itself (`return e, rightElements, nil`) is bound as a
//	  read-only copy and the aliased path is frozen: a later write to either is rejected.
//	* slices: `x := y` is rejected; an argument of the slice helpers of slice_utils.go (they re-use / clear the
//	  backing array) must be overwritten by the call's results (`a, b = f(a, b, n)`); where it is not (the right
//	  operand of `merge`, which is only cleared) the call site is listed in `deadAfterCall` - the explicit trusted
//	  assumption "nobody reads that slice afterwards" (the merged-away right slab is removed by the caller).
//	  `clear(s)` itself has no effect on values.  `slices.Clone/Delete/Insert`, `append` by their specification.
//	* receiver and object arguments of one call are assumed to be distinct objects.
//
// Anything outside the subset makes the function "untranslatable" (listed in `untranslatedFunctions`).

import (
	"fmt"
	"go/ast"
	"go/token"
	"sort"
	"strings"
)

// ---------------------------------------------------------------------------------------------
// tables

type oType struct {
	Kind    string // bool uint int nat eq err opaque optopaque struct obj sum state list drop
	Lean    string
	Zero    string
	Width   int
	Elem    string // list: Go element type
	Struct  string // struct / obj
	Sum     string // sum: key in Sums
	Prefix  string // opaque / state / sum: prefix of env method names
	Payload string // optopaque: Lean type of the non-nil payload
}

type oImpl struct{ Go, Ctor string }

type oSum struct {
	Lean  string
	Impls []oImpl
}

type oTarget struct {
	Func     string // "hkeyElements.Split", "split"; Kind dispatch: "elements.Split"
	Lean     string
	Kind     string // "" | "dispatch"
	NoEnv    bool   // generic helpers: no env parameter
	Consumes bool   // slice parameters are consumed (re-used backing array): call sites must overwrite them
	// the DESCENT (obj_descent.go)
	Rec     bool   // recursion over the slab tree through a dispatcher: structural recursion on an extra argument `depth_`
	Fuel    bool   // calls a dispatcher with a Rec implementation: takes `depth_` and passes it on
	Mut     []int  // Rec: the positions (0 = receiver) the function changes - DECLARED (the dispatcher is generated first), checked after
	Promote string // the method is promoted through this embedded interface field: translated from the wrapper Go's promotion stands for
}

type oEnvSpec struct {
	Mut     []int // positions (0 = receiver of a method, then the parameters from 1) of object arguments it mutates
	DropAll bool  // every argument is dropped (error constructors)
}

type oUnit struct {
	File       string
	Namespace  string
	Doc        string
	TypeVars   []string
	Types      map[string]oType
	Sums       map[string]*oSum
	Structs    []string
	Fields     map[string]sView
	PkgVars    map[string]string
	PkgConsts  map[string]sPkgVar
	EnvMethods map[string]oEnvSpec
	EnvFuncs   map[string]oEnvSpec
	Targets    []oTarget
	// optional (element layer, obj_elems.go)
	Header     string              // replaces the first comment block of the generated file
	Inject     map[string]string   // "*T->I": env function that turns the object *T into a value of the open interface I
	SubSums    map[string][]string // interface J implemented by some constructors of a closed interface: `_, ok := x.(J)`
	SkipDefers map[string]bool     // `defer f(..)` of a function without effect on values (pool release): left out
	EnvConsts  map[string]string   // source text of a call -> env constant (its Go type after `:`), e.g. "SlabIDStorable(id).ByteSize()"
	// optional (descent, obj_descent.go)
	Accessors map[string]string // "I.M": the method M of the closed interface I returns the pointer field of this name of every implementation: the call is an ALIAS of that field
	NilOf     map[string]string // open interface (opaque) -> env constant that stands for its nil value
	EnvFields map[string]string // "*T.f": field f (Go type after `:`) of the opaque struct T, read / written through env functions `T_f` / `T_set_f`
}

// ---------------------------------------------------------------------------------------------
// types

func (u *oUnit) ti(t string) oType {
	t = strings.TrimSpace(t)
	if v, ok := u.Types[t]; ok {
		switch v.Kind {
		case "struct", "obj":
			v.Lean = u.structLean(v.Struct)
			if v.Kind == "struct" {
				v.Zero = "({} : " + v.Lean + ")"
			}
		case "sum":
			v.Lean = u.sumLean(v.Sum)
			v.Zero = "." + "nil"
		}
		return v
	}
	if strings.HasPrefix(t, "[]") {
		ei := u.ti(t[2:])
		return oType{Kind: "list", Lean: "List " + paren(ei.Lean), Zero: "[]", Elem: t[2:]}
	}
	fail("Go type %s is not in the type table of %s", t, u.File)
	return oType{}
}

func (u *oUnit) known(t string) (ok bool) {
	defer func() {
		if r := recover(); r != nil {
			if _, is := r.(transErr); !is {
				panic(r)
			}
			ok = false
		}
	}()
	u.ti(t)
	return true
}

func (u *oUnit) isObjKind(k string) bool { return k == "obj" || k == "sum" || k == "state" }

// type variables a Go type needs, in the order of TypeVars
func (u *oUnit) tvars(t string, seen map[string]bool) map[string]bool {
	out := map[string]bool{}
	t = strings.TrimSpace(t)
	if seen[t] {
		return out
	}
	seen[t] = true
	defer delete(seen, t)
	if strings.HasPrefix(t, "[]") {
		return u.tvars(t[2:], seen)
	}
	v, ok := u.Types[t]
	if !ok {
		fail("Go type %s is not in the type table of %s", t, u.File)
	}
	switch v.Kind {
	case "struct", "obj":
		_, gts := u.structFields(v.Struct)
		for _, ft := range gts {
			for k := range u.tvars(ft, seen) {
				out[k] = true
			}
		}
	case "sum":
		for _, im := range u.Sums[v.Sum].Impls {
			for k := range u.tvars(im.Go, seen) {
				out[k] = true
			}
		}
	default:
		for _, tv := range u.TypeVars {
			if containsTok(v.Lean, tv) {
				out[tv] = true
			}
		}
	}
	return out
}

func (u *oUnit) tvarList(t string) []string {
	m := u.tvars(t, map[string]bool{})
	var out []string
	for _, tv := range u.TypeVars {
		if m[tv] {
			out = append(out, tv)
		}
	}
	return out
}

func (u *oUnit) structLean(name string) string {
	return strings.TrimSpace(name + " " + strings.Join(u.tvarList(u.structGoType(name)), " "))
}

// the Go type under which the struct is in the table ("*T" for objects, "T" for values)
func (u *oUnit) structGoType(name string) string {
	if _, ok := u.Types["*"+name]; ok {
		return "*" + name
	}
	return name
}

func (u *oUnit) sumLean(key string) string {
	s := u.Sums[key]
	vars := map[string]bool{}
	for _, im := range s.Impls {
		for k := range u.tvars(im.Go, map[string]bool{}) {
			vars[k] = true
		}
	}
	var l []string
	for _, tv := range u.TypeVars {
		if vars[tv] {
			l = append(l, tv)
		}
	}
	return strings.TrimSpace(s.Lean + " " + strings.Join(l, " "))
}

// fields of a struct, embedded ones under their type name; dropped ones left out
func (u *oUnit) structFields(name string) (names, goTypes []string) {
	ts := typeSpecs[name]
	if ts == nil {
		fail("type %s not found", name)
	}
	stt, ok := ts.Type.(*ast.StructType)
	if !ok {
		fail("type %s is not a struct", name)
	}
	for _, f := range stt.Fields.List {
		t := goTypeOf(f.Type)
		if !u.known(t) {
			fail("field of %s has type %s, which is not in the type table", name, t)
		}
		if u.Types[strings.TrimSpace(t)].Kind == "drop" {
			continue
		}
		if len(f.Names) == 0 {
			names = append(names, strings.TrimPrefix(t, "*"))
			goTypes = append(goTypes, t)
			continue
		}
		for _, n := range f.Names {
			names = append(names, n.Name)
			goTypes = append(goTypes, t)
		}
	}
	return
}

func (u *oUnit) embedded(name string) []string {
	ts := typeSpecs[name]
	var out []string
	if ts == nil {
		return out
	}
	if stt, ok := ts.Type.(*ast.StructType); ok {
		for _, f := range stt.Fields.List {
			if len(f.Names) == 0 {
				out = append(out, strings.TrimPrefix(goTypeOf(f.Type), "*"))
			}
		}
	}
	return out
}

func (u *oUnit) fieldType(structName, field string) (string, bool) {
	ns, ts := u.structFields(structName)
	for i, n := range ns {
		if n == field {
			return ts[i], true
		}
	}
	return "", false
}

// ---------------------------------------------------------------------------------------------
// variables

const (
	oValue = iota // scalars, struct values, lists, owned objects
	oRoot         // receiver, object / state parameter
	oAlias        // stands for a path below another variable
)

type ostep struct {
	kind string // field | variant | index
	name string // field name / constructor
	idx  string // Lean Int expression (bounds already checked)
}

type olval struct {
	base  string // Lean name of the base variable
	steps []ostep
}

type ovar struct {
	goName, lean, typ string
	depth             int
	role              int
	parent            string // alias: Lean name of the variable it lives in
	steps             []ostep
	moved             bool // an owned object that was stored somewhere else
	frozen            bool // a read-only copy of an object that lives elsewhere
	dead              bool // nil pointer after a failed comma-ok assertion / stale alias
	param             bool
}

type oenv struct {
	vars   []ovar
	depth  int
	frozen []olval // paths that must not be written (a read-only copy of them is live)
}

func (e oenv) lookup(n string) *ovar {
	for i := len(e.vars) - 1; i >= 0; i-- {
		if e.vars[i].goName == n {
			return &e.vars[i]
		}
	}
	return nil
}

func (e oenv) lookupLean(n string) *ovar {
	for i := len(e.vars) - 1; i >= 0; i-- {
		if e.vars[i].lean == n {
			return &e.vars[i]
		}
	}
	return nil
}

func (e oenv) clone() oenv {
	n := make([]ovar, len(e.vars))
	copy(n, e.vars)
	f := make([]olval, len(e.frozen))
	copy(f, e.frozen)
	return oenv{n, e.depth, f}
}

func (e oenv) push() oenv { c := e.clone(); c.depth++; return c }

// back to the scope of outer, keeping the flags of the variables that survive
func (e oenv) popTo(outer oenv) oenv {
	c := e.clone()
	c.vars = c.vars[:len(outer.vars)]
	c.depth = outer.depth
	return c
}

func (e oenv) declare(v ovar) (oenv, string) {
	if strings.HasSuffix(v.goName, "_") {
		fail("Go identifier %s ends with an underscore (reserved for generated names)", v.goName)
	}
	lean := v.goName
	if leanReserved[lean] || oReserved[lean] {
		lean += "_v"
	}
	base := lean
	for k := 1; ; k++ {
		clash := false
		for _, w := range e.vars {
			if w.lean == lean {
				clash = true
			}
		}
		if !clash {
			break
		}
		lean = fmt.Sprintf("%s_%d", base, k)
	}
	c := e.clone()
	v.lean = lean
	v.depth = e.depth
	c.vars = append(c.vars, v)
	return c, lean
}

var oReserved = map[string]bool{"env": true, "Env": true, "Loop": true, "Nat": true, "Int": true, "Bool": true, "List": true,
	"Option": true, "SlabID": true, "E": true, "K": true, "V": true, "W": true, "X": true, "S": true, "ε": true, "Gen": true, "some": true,
	"none": true, "match": true, "with": true, "default": true, "size": true}

// ---------------------------------------------------------------------------------------------
// translator state

type oval struct {
	lean  string
	typ   string // Go type; "nil", "untyped", "tuple:.."
	lv    *olval
	fresh bool // a new object (composite literal / call result): may be moved
	view  bool // a re-slice `s[a:b]`: shares the backing array of s; may only be copied (Clone, `...` spread), cleared, discarded
	// call results: per result the path (receiver / argument of the call) it may be a second reference to
	aliasLv []*olval
}

type oguard struct {
	kind string // opt: match e with none => panic | some bind => ..; cond: if e then .. else panic
	e    string
	bind string
}

type ofctx struct {
	ret   func(en oenv, results []ast.Expr) string
	pnc   func() string
	brk   func(en oenv) string
	cont  func(en oenv) string
	final func(string) string
}

type oshape struct {
	ok       bool
	lean     string
	recv     string   // Go type of the receiver ("" = none)
	params   []string // Go types
	res      []string
	mut      []bool // [0] receiver, [k] k-th parameter
	panics   bool
	aliasRes []int
	noEnv    bool
	consumes bool
	tparams  map[string]oType
	fuel     bool   // a Fuel target: takes `depth_` after env
	rec      bool   // a Rec target: `lean env depth_` is the function
	recDisp  string // a dispatcher with a Rec implementation: Lean name of that implementation (the dispatcher takes it as `rec_`)
	recType  string // Lean type of the `rec_` parameter
}

type otrans struct {
	u         *oUnit
	t         *oTarget
	fd        *ast.FuncDecl
	recv      string
	shape     oshape
	aux       []string
	nloop     int
	ntmp      int
	guards    []oguard
	needPnc   bool
	grew      bool // the shape grew during this pass: run again
	moves     []string
	tlocal    map[string]oType // type parameters of a generic function
	record    []map[string]bool
	rootIdx   map[string]int // Lean name of a root -> position in shape.mut
	appendTo  string
	dead      *[]string
	namedRes  []string
	valueRecv bool
	// parameters of dropped interface types: their argument-less methods are env constants
	droppedParams map[string]string
	funcParams    map[string]string // dropped function-typed parameters (callbacks) -> their Go type
	droppedLocals map[string]string // `var x *T` of a dropped type (the target of errors.As)
	usesDepth     bool              // the body mentions `depth_` (a dispatcher with a Rec implementation is called)
}

var (
	oShapes = map[string]oshape{}
	oEnvFns []envFn
	oEnvIdx = map[string]int{}
)

func (x *otrans) tmp(prefix string) string {
	x.ntmp++
	return fmt.Sprintf("%s%d_", prefix, x.ntmp)
}

func (x *otrans) ti(t string) oType {
	if strings.HasPrefix(t, "payload:") {
		v := x.u.ti(t[8:])
		return oType{Kind: "opaque", Lean: v.Payload, Prefix: v.Prefix}
	}
	if x.tlocal != nil {
		if v, ok := x.tlocal[strings.TrimSpace(t)]; ok {
			return v
		}
		if strings.HasPrefix(t, "[]") {
			if _, ok := x.tlocal[strings.TrimSpace(t[2:])]; ok {
				ei := x.ti(t[2:])
				return oType{Kind: "list", Lean: "List " + paren(ei.Lean), Zero: "[]", Elem: t[2:]}
			}
		}
	}
	return x.u.ti(t)
}

func (x *otrans) envFn(name, typ, doc string) {
	if i, ok := oEnvIdx[name]; ok {
		if oEnvFns[i].typ != typ {
			fail("env function %s is used at two types: %s and %s", name, oEnvFns[i].typ, typ)
		}
		return
	}
	oEnvIdx[name] = len(oEnvFns)
	oEnvFns = append(oEnvFns, envFn{name, typ, doc})
}

func (x *otrans) tupleOf(goTypes []string, extra []string) string {
	var parts []string
	for _, t := range goTypes {
		parts = append(parts, x.ti(t).Lean)
	}
	parts = append(parts, extra...)
	switch len(parts) {
	case 0:
		return "Unit"
	case 1:
		return parts[0]
	}
	return "(" + strings.Join(parts, " × ") + ")"
}

// ---------------------------------------------------------------------------------------------
// paths

func (x *otrans) readPath(base string, steps []ostep) string {
	s := base
	for _, st := range steps {
		switch st.kind {
		case "field":
			s = paren(s) + "." + st.name
		case "accessor":
			s = "(" + st.idx + "." + st.name + "_ " + paren(s) + ")"
		default:
			fail("internal: read through a %s step", st.kind)
		}
	}
	return s
}

// update: the value of `base` with the object at `steps` replaced by val
func (x *otrans) update(base string, steps []ostep, val string) string {
	if len(steps) == 0 {
		return val
	}
	st, rest := steps[0], steps[1:]
	switch st.kind {
	case "field":
		return "{ " + base + " with " + st.name + " := " + x.update(paren(base)+"."+st.name, rest, val) + " }"
	case "variant":
		if len(rest) != 0 {
			fail("internal: path continues below a type assertion")
		}
		return "(." + st.name + " " + paren(val) + ")"
	case "accessor":
		// the pointer field `name` of whichever implementation of the closed interface `idx`
		return "(" + st.idx + ".with_" + st.name + "_ " + paren(base) + " " + paren(x.update("("+st.idx+"."+st.name+"_ "+paren(base)+")", rest, val)) + ")"
	case "some":
		// the payload of a non-nil pointer of an opaque struct type (the nil check is a guard of the statement)
		if len(rest) != 0 {
			fail("internal: path continues below a pointer payload")
		}
		return "(some " + paren(val) + ")"
	case "index":
		if len(rest) != 0 {
			fail("internal: path continues below an index")
		}
		return "(" + paren(base) + ".set " + paren(st.idx) + ".toNat " + paren(val) + ")"
	}
	fail("internal: step kind %s", st.kind)
	return ""
}

func samePath(a, b olval) bool {
	if a.base != b.base || len(a.steps) != len(b.steps) {
		return false
	}
	for i := range a.steps {
		if a.steps[i] != b.steps[i] {
			return false
		}
	}
	return true
}

func prefixPath(a, b olval) bool { // a is a prefix of b (or equal)
	if a.base != b.base || len(a.steps) > len(b.steps) {
		return false
	}
	for i := range a.steps {
		if a.steps[i] != b.steps[i] {
			return false
		}
	}
	return true
}

// absolute path of a variable (through its alias chain) - for overlap checks
func (x *otrans) absPath(en oenv, lv olval) olval {
	for {
		v := en.lookupLean(lv.base)
		if v == nil || v.role != oAlias {
			return lv
		}
		lv = olval{v.parent, append(append([]ostep{}, v.steps...), lv.steps...)}
	}
}

func (x *otrans) noteAssigned(v *ovar) {
	for _, r := range x.record {
		r[v.lean] = true
	}
}

// rebind: `let v := val` for an existing variable, written through to what it stands for
func (x *otrans) rebind(en oenv, v *ovar, val string) string {
	if v.frozen {
		fail("write to %s, a read-only copy of an object that may live elsewhere (aliasing)", v.goName)
	}
	if v.dead {
		return "" // a nil pointer: the statement is behind a `never` guard (nil dereference = panic)
	}
	if v.moved {
		fail("use of %s after it was stored elsewhere (aliasing)", v.goName)
	}
	out := "let " + v.lean + " : " + x.ti(v.typ).Lean + " := " + val + "\n"
	x.noteAssigned(v)
	cur := v
	for cur.role == oAlias {
		p := en.lookupLean(cur.parent)
		if p == nil {
			fail("internal: alias %s has no parent %s", cur.goName, cur.parent)
		}
		if p.frozen || p.moved || p.dead {
			fail("write through %s to %s, which is read-only / moved (aliasing)", cur.goName, p.goName)
		}
		out += "let " + p.lean + " : " + x.ti(p.typ).Lean + " := " + x.update(p.lean, cur.steps, cur.lean) + "\n"
		x.noteAssigned(p)
		cur = p
	}
	if cur.role == oRoot {
		if i, ok := x.rootIdx[cur.lean]; ok && !x.shape.mut[i] {
			x.shape.mut[i] = true
			x.grew = true
		}
	}
	return out
}

// store: write val at the path lv
func (x *otrans) store(en oenv, lv olval, val string) string {
	b := en.lookupLean(lv.base)
	if b == nil {
		fail("internal: no variable %s", lv.base)
	}
	abs := x.absPath(en, lv)
	for _, f := range en.frozen {
		if prefixPath(f, abs) || prefixPath(abs, f) {
			fail("write to %s, of which a read-only copy is live (aliasing)", b.goName)
		}
	}
	return x.rebind(en, b, x.update(b.lean, lv.steps, val))
}

// ---------------------------------------------------------------------------------------------
// expressions

func (x *otrans) coerce(v oval, want string) oval {
	if want == "" {
		return v
	}
	wi := x.ti(want)
	switch v.typ {
	case "nil":
		switch wi.Kind {
		case "err", "optopaque":
			return oval{lean: "none", typ: want}
		case "sum":
			return oval{lean: "." + "nil", typ: want, fresh: true}
		case "list":
			return oval{lean: "[]", typ: want}
		case "opaque":
			if n, ok := x.u.NilOf[strings.TrimSpace(want)]; ok {
				// the nil value of an open interface whose values are otherwise taken to be non-nil: an env constant
				x.envFn(n, wi.Lean, "the nil `"+strings.TrimSpace(want)+"` (returned next to an error)")
				return oval{lean: "env." + n, typ: want}
			}
		}
		fail("nil used as %s", want)
	case "untyped":
		lit := v.lean != "" && strings.Trim(v.lean, "0123456789") == ""
		switch wi.Kind {
		case "uint":
			if lit {
				return oval{lean: "(" + v.lean + " : " + wi.Lean + ")", typ: want}
			}
			return oval{lean: "(" + wi.Lean + ".ofNat " + paren(v.lean) + ")", typ: want}
		case "int":
			if lit {
				return oval{lean: "(" + v.lean + " : Int)", typ: want}
			}
			return oval{lean: "(Int.ofNat " + paren(v.lean) + ")", typ: want}
		}
		fail("constant %s used as %s", v.lean, want)
	}
	if v.typ == want {
		return v
	}
	vi := x.ti(v.typ)
	// an object where a closed interface is wanted: wrap in its constructor
	if vi.Kind == "obj" && wi.Kind == "sum" {
		for _, im := range x.u.Sums[wi.Sum].Impls {
			if im.Go == v.typ {
				return oval{lean: "(." + im.Ctor + " " + paren(v.lean) + ")", typ: want, fresh: v.fresh, lv: v.lv, aliasLv: v.aliasLv}
			}
		}
		fail("%s does not implement %s (not listed)", v.typ, want)
	}
	if vi.Lean == wi.Lean && vi.Kind == wi.Kind && vi.Kind != "nat" {
		v.typ = want
		return v
	}
	if fn, ok := x.u.Inject[strings.TrimSpace(v.typ)+"->"+strings.TrimSpace(want)]; ok && vi.Kind == "obj" {
		// an object seen through an open interface from now on: the injection is a parameter
		switch wi.Kind {
		case "optopaque":
			x.envFn(fn, vi.Lean+" → "+wi.Payload, fmt.Sprintf("a `%s` as a value of the interface `%s` (injection)", v.typ, want))
			return oval{lean: "(some (env." + fn + " " + paren(v.lean) + "))", typ: want, fresh: true}
		case "opaque":
			x.envFn(fn, vi.Lean+" → "+wi.Lean, fmt.Sprintf("a `%s` as a value of the interface `%s` (injection)", v.typ, want))
			return oval{lean: "(env." + fn + " " + paren(v.lean) + ")", typ: want, fresh: true}
		}
	}
	fail("type mismatch: %s has type %s, want %s", v.lean, v.typ, want)
	return v
}

func (x *otrans) useVar(v *ovar) {
	if v.moved {
		fail("use of %s after it was stored elsewhere (aliasing)", v.goName)
	}
}

func (x *otrans) expr(e ast.Expr, en oenv, want string) oval {
	switch e := e.(type) {
	case *ast.ParenExpr:
		return x.expr(e.X, en, want)
	case *ast.BasicLit:
		if e.Kind == token.INT {
			return oval{lean: e.Value, typ: "untyped"}
		}
		if e.Kind == token.STRING {
			return oval{lean: "", typ: "string"}
		}
		fail("unsupported literal %s", e.Value)
	case *ast.Ident:
		switch e.Name {
		case "true", "false":
			return oval{lean: e.Name, typ: "bool"}
		case "nil":
			return oval{lean: "none", typ: "nil"}
		}
		if v := en.lookup(e.Name); v != nil {
			x.useVar(v)
			if v.dead {
				// nil pointer: every use is a nil dereference
				x.guards = append(x.guards, oguard{kind: "never"})
				return oval{lean: v.lean, typ: v.typ, lv: &olval{base: v.lean}}
			}
			return oval{lean: v.lean, typ: v.typ, lv: &olval{base: v.lean}}
		}
		if t, ok := constType[e.Name]; ok {
			v := oval{lean: "Gen." + e.Name, typ: "untyped"}
			if t != "" {
				return x.coerce(v, t)
			}
			return v
		}
		if t, ok := x.u.PkgVars[e.Name]; ok {
			x.envFn(e.Name, x.ti(t).Lean, "package variable `"+e.Name+"`")
			return oval{lean: "env." + e.Name, typ: t}
		}
		if pv, ok := x.u.PkgConsts[e.Name]; ok {
			if varInits[e.Name] != pv.Init {
				fail("package variable %s is initialised with `%s`, the view expects `%s`", e.Name, varInits[e.Name], pv.Init)
			}
			return oval{lean: pv.Lean, typ: pv.Type}
		}
		fail("identifier %s is not bound", e.Name)
	case *ast.UnaryExpr:
		if e.Op == token.NOT {
			v := x.coerce(x.expr(e.X, en, "bool"), "bool")
			return oval{lean: "(!" + paren(v.lean) + ")", typ: "bool"}
		}
		if e.Op == token.SUB {
			if bl, ok := e.X.(*ast.BasicLit); ok && bl.Kind == token.INT {
				return oval{lean: "(-" + bl.Value + " : Int)", typ: "int"}
			}
		}
		if e.Op == token.AND {
			if cl, ok := e.X.(*ast.CompositeLit); ok {
				v := x.composite(cl, en)
				v.typ = "*" + v.typ
				return v
			}
		}
		fail("unsupported unary operator %s", e.Op)
	case *ast.CompositeLit:
		return x.composite(e, en)
	case *ast.SelectorExpr:
		b := x.expr(e.X, en, "")
		bi := x.ti(b.typ)
		switch bi.Kind {
		case "obj", "struct":
			ft, ok := x.u.fieldType(bi.Struct, e.Sel.Name)
			if !ok {
				// promoted field through an embedded struct is not needed; dropped field?
				fail("%s has no (kept) field %s", bi.Struct, e.Sel.Name)
			}
			out := oval{lean: paren(b.lean) + "." + e.Sel.Name, typ: ft}
			if b.lv != nil {
				out.lv = &olval{b.lv.base, append(append([]ostep{}, b.lv.steps...), ostep{kind: "field", name: e.Sel.Name})}
			}
			return out
		}
		if fv, ok := x.u.Fields[b.typ+"."+e.Sel.Name]; ok {
			return oval{lean: paren(b.lean) + "." + fv.Lean, typ: fv.Type}
		}
		if ft, ok := x.u.EnvFields[strings.TrimSpace(b.typ)+"."+e.Sel.Name]; ok && bi.Kind == "optopaque" {
			// field of an OPAQUE struct behind a pointer: read through an env function; a nil pointer is a panic
			name := strings.TrimPrefix(strings.TrimSpace(b.typ), "*") + "_" + e.Sel.Name
			x.envFn(name, bi.Payload+" → "+x.ti(ft).Lean, fmt.Sprintf("field `%s` of `%s` (read)", e.Sel.Name, strings.TrimSpace(b.typ)))
			bind := x.tmp("p")
			x.guards = append(x.guards, oguard{kind: "opt", e: b.lean, bind: bind})
			return oval{lean: "(env." + name + " " + bind + ")", typ: ft}
		}
		fail("no field %s of %s", e.Sel.Name, b.typ)
	case *ast.IndexExpr:
		l := x.expr(e.X, en, "")
		li := x.ti(l.typ)
		if li.Kind != "list" {
			fail("index expression on %s", l.typ)
		}
		i := x.intExpr(e.Index, en)
		bind := x.tmp("t")
		x.guards = append(x.guards, oguard{kind: "opt", e: "goIdx " + paren(l.lean) + " " + paren(i), bind: bind})
		out := oval{lean: bind, typ: li.Elem}
		if l.lv != nil {
			out.lv = &olval{l.lv.base, append(append([]ostep{}, l.lv.steps...), ostep{kind: "index", idx: i})}
		}
		return out
	case *ast.SliceExpr:
		if e.Slice3 {
			fail("3-index slice")
		}
		l := x.expr(e.X, en, "")
		if x.ti(l.typ).Kind != "list" {
			fail("slice expression on %s", l.typ)
		}
		lo, hi := "none", "none"
		if e.Low != nil {
			lo = "(some " + paren(x.intExpr(e.Low, en)) + ")"
		}
		if e.High != nil {
			hi = "(some " + paren(x.intExpr(e.High, en)) + ")"
		}
		bind := x.tmp("t")
		x.guards = append(x.guards, oguard{kind: "opt", e: "goSlice " + paren(l.lean) + " " + lo + " " + hi, bind: bind})
		return oval{lean: bind, typ: l.typ, view: true}
	case *ast.BinaryExpr:
		return x.binary(e, en)
	case *ast.TypeAssertExpr:
		b := x.expr(e.X, en, "")
		to := goTypeOf(e.Type)
		bi, ti := x.ti(b.typ), x.ti(to)
		if bi.Kind == "sum" && ti.Kind == "sum" && bi.Sum == ti.Sum {
			// I.(J) for the same closed world: fails on nil only
			x.guards = append(x.guards, oguard{kind: "cond", e: "(!" + paren(b.lean) + ".isNil)"})
			b.typ = to
			return b
		}
		fail("type assertion %s outside `x := p.(*T)` / `x, ok := p.(*T)`", norm(src(e)))
	case *ast.CallExpr:
		v, eff := x.call(e, en)
		if eff != nil {
			fail("call %s changes an object and is not the whole right-hand side of a statement", norm(src(e)))
		}
		return v
	}
	fail("unsupported expression %s (%T)", norm(src(e)), e)
	return oval{}
}

func (x *otrans) intExpr(e ast.Expr, en oenv) string {
	v := x.expr(e, en, "int")
	if v.typ == "untyped" {
		return "(" + v.lean + " : Int)"
	}
	if x.ti(v.typ).Kind != "int" {
		fail("%s is not an int", norm(src(e)))
	}
	return v.lean
}

func (x *otrans) composite(e *ast.CompositeLit, en oenv) oval {
	t := goTypeOf(e.Type)
	if strings.HasPrefix(t, "[]") {
		li := x.ti(t)
		var parts []string
		for _, el := range e.Elts {
			v := x.coerce(x.expr(el, en, li.Elem), li.Elem)
			x.moveIfObject(v, en)
			parts = append(parts, v.lean)
		}
		return oval{lean: "[" + strings.Join(parts, ", ") + "]", typ: t, fresh: true}
	}
	key := t
	if _, ok := x.u.Types[t]; !ok {
		key = "*" + t
	}
	ti := x.ti(key)
	if ti.Kind != "struct" && ti.Kind != "obj" {
		fail("composite literal of %s", t)
	}
	var parts []string
	for _, el := range e.Elts {
		kv, ok := el.(*ast.KeyValueExpr)
		if !ok {
			fail("composite literal %s without field names", t)
		}
		fn := idName(kv.Key)
		ft, ok := x.u.fieldType(ti.Struct, fn)
		if !ok {
			// dropped field: the value must be free of effects
			x.dropArg(kv.Value, en)
			continue
		}
		v := x.coerce(x.expr(kv.Value, en, ft), ft)
		if v.view {
			fail("the re-slice %s is stored in a composite literal (it shares a backing array)", norm(src(kv.Value)))
		}
		x.moveIfObject(v, en)
		parts = append(parts, fn+" := "+v.lean)
	}
	return oval{lean: "({ " + strings.Join(parts, ", ") + " } : " + ti.Lean + ")", typ: t, fresh: true}
}

// moveIfObject: an object value stored into a new place
func (x *otrans) moveIfObject(v oval, en oenv) {
	if v.typ == "nil" || v.typ == "untyped" || strings.HasPrefix(v.typ, "tuple:") {
		return
	}
	if !x.u.isObjKind(x.ti(v.typ).Kind) {
		return
	}
	if v.lv == nil {
		return // a fresh value (literal / call result)
	}
	b := en.lookupLean(v.lv.base)
	if b != nil && b.role == oValue && len(v.lv.steps) == 0 && !b.frozen {
		x.moves = append(x.moves, b.lean)
		return
	}
	fail("object %s would be reachable under a second path (aliasing)", v.lean)
}

// dropArg: an argument of a dropped type must be free of effects
func (x *otrans) dropArg(a ast.Expr, en oenv) {
	covSkip(covNS(x.u.Namespace)+"."+x.t.Lean, a, "dropped argument")
	ok := true
	ast.Inspect(a, func(n ast.Node) bool {
		switch n := n.(type) {
		case *ast.CallExpr:
			if isSel(n.Fun, "fmt", "Sprintf") || isSel(n.Fun, "fmt", "Errorf") {
				return true
			}
			if id, isId := n.Fun.(*ast.Ident); isId && (strings.HasPrefix(id.Name, "New") && strings.Contains(id.Name, "Error")) {
				return true
			}
			if sel, isSel := n.Fun.(*ast.SelectorExpr); isSel {
				// pure accessors
				switch sel.Sel.Name {
				case "SlabID", "Address", "Levels", "Header", "ByteSize", "Size", "Count":
					return true
				}
			}
			ok = false
		case *ast.FuncLit, *ast.UnaryExpr:
			if u, isU := n.(*ast.UnaryExpr); isU && u.Op != token.ARROW {
				return true
			}
			ok = false
		}
		return true
	})
	if !ok {
		fail("argument %s of a dropped type is not free of effects", norm(src(a)))
	}
}

func (x *otrans) binary(e *ast.BinaryExpr, en oenv) oval {
	switch e.Op {
	case token.LAND, token.LOR:
		a := x.coerce(x.expr(e.X, en, "bool"), "bool")
		ng := len(x.guards)
		b := x.coerce(x.expr(e.Y, en, "bool"), "bool")
		if len(x.guards) != ng {
			fail("an operation that can panic in the right operand of %s", e.Op)
		}
		op := map[token.Token]string{token.LAND: "&&", token.LOR: "||"}[e.Op]
		return oval{lean: "(" + paren(a.lean) + " " + op + " " + paren(b.lean) + ")", typ: "bool"}
	}
	a := x.expr(e.X, en, "")
	b := x.expr(e.Y, en, "")
	if (e.Op == token.EQL || e.Op == token.NEQ) && (a.typ == "nil" || b.typ == "nil") {
		v := a
		if a.typ == "nil" {
			v = b
		}
		if v.typ == "nil" {
			fail("nil == nil")
		}
		isNil := ""
		switch x.ti(v.typ).Kind {
		case "err", "optopaque":
			isNil = paren(v.lean) + ".isNone"
		case "sum":
			isNil = paren(v.lean) + ".isNil"
		default:
			fail("comparison of %s with nil", v.typ)
		}
		if e.Op == token.EQL {
			return oval{lean: isNil, typ: "bool"}
		}
		return oval{lean: "(!" + isNil + ")", typ: "bool"}
	}
	switch {
	case a.typ == "untyped" && b.typ != "untyped":
		a = x.coerce(a, b.typ)
	case b.typ == "untyped" && a.typ != "untyped":
		if e.Op == token.SHR || e.Op == token.SHL {
			break
		}
		b = x.coerce(b, a.typ)
	case a.typ == "untyped":
		switch e.Op {
		case token.ADD:
			return oval{lean: "(" + a.lean + " + " + b.lean + ")", typ: "untyped"}
		case token.MUL:
			return oval{lean: "(" + a.lean + " * " + b.lean + ")", typ: "untyped"}
		}
		fail("constant expression %s", norm(src(e)))
	}
	ai := x.ti(a.typ)
	if e.Op == token.SHR || e.Op == token.SHL {
		n, ok := shiftCount(e.Y)
		if !ok || ai.Kind != "uint" || n >= ai.Width {
			fail("shift %s: only unsigned operands and literal counts below the width", norm(src(e)))
		}
		op := ">>>"
		if e.Op == token.SHL {
			op = "<<<"
		}
		return oval{lean: fmt.Sprintf("(%s %s %d)", paren(a.lean), op, n), typ: a.typ}
	}
	bi := x.ti(b.typ)
	if ai.Lean != bi.Lean || ai.Kind != bi.Kind {
		fail("operands of %s have different types %s and %s", norm(src(e)), a.typ, b.typ)
	}
	cmp := map[token.Token]string{token.LSS: "<", token.LEQ: "≤", token.GTR: ">", token.GEQ: "≥", token.EQL: "=", token.NEQ: "≠"}
	if op, ok := cmp[e.Op]; ok {
		eq := e.Op == token.EQL || e.Op == token.NEQ
		switch ai.Kind {
		case "uint", "int", "nat":
		case "eq", "bool":
			if !eq {
				fail("ordering on %s", a.typ)
			}
		default:
			fail("comparison on %s", a.typ)
		}
		return oval{lean: "(decide (" + paren(a.lean) + " " + op + " " + paren(b.lean) + "))", typ: "bool"}
	}
	if ai.Kind != "uint" && ai.Kind != "int" {
		fail("arithmetic on %s", a.typ)
	}
	switch e.Op {
	case token.ADD, token.SUB, token.MUL:
		op := map[token.Token]string{token.ADD: "+", token.SUB: "-", token.MUL: "*"}[e.Op]
		return oval{lean: "(" + paren(a.lean) + " " + op + " " + paren(b.lean) + ")", typ: a.typ}
	case token.QUO:
		if ai.Kind == "int" {
			return oval{lean: "(Int.tdiv " + paren(a.lean) + " " + paren(b.lean) + ")", typ: a.typ}
		}
	}
	fail("unsupported operator %s in %s", e.Op, norm(src(e)))
	return oval{}
}

// ---------------------------------------------------------------------------------------------
// calls

// oeffect: a call that changes objects
type oeffect struct {
	call    string   // Lean text; value: tuple of results then new states
	results []string // Go result types
	muts    []olval  // where the new states go, in the order of the tuple
	mutT    []string // Go types of the mutated arguments as the CALLEE sees them
	panics  bool
	aliasLv []*olval // per result: the path it may be a second reference to
}

func oParamTypes(ft *ast.FuncType) []string {
	ts, _ := paramTypes(ft)
	return ts
}

func (x *otrans) isDropped(t string) bool {
	t = strings.TrimSpace(t)
	if x.tlocal != nil {
		if _, ok := x.tlocal[t]; ok {
			return false
		}
	}
	if v, ok := x.u.Types[t]; ok {
		return v.Kind == "drop"
	}
	return false
}

// objArg: an argument of object kind: its current value and where it lives
type oarg struct {
	lean string
	lv   *olval
	typ  string
}

// callEnv: a call served by `env`: first = receiver-like first argument (may be nil)
func (x *otrans) callEnv(name string, spec oEnvSpec, recv *oval, args []ast.Expr, ptypes, rtypes []string, en oenv, doc string) (oval, *oeffect) {
	if spec.DropAll {
		for _, a := range args {
			x.dropArg(a, en)
		}
		args, ptypes = nil, nil
	}
	if len(args) != len(ptypes) {
		fail("%s: %d arguments for %d parameters", name, len(args), len(ptypes))
	}
	typ := ""
	callArgs := ""
	var muts []olval
	var mutLean []string
	isMut := func(pos int, ki oType) bool {
		if ki.Kind == "state" {
			return true
		}
		for _, m := range spec.Mut {
			if m == pos {
				return true
			}
		}
		return false
	}
	add := func(pos int, v oval, t string) {
		ki := x.ti(t)
		typ += ki.Lean + " → "
		callArgs += " " + paren(v.lean)
		if (x.u.isObjKind(ki.Kind) || (ki.Kind == "opaque" && len(spec.Mut) > 0)) && isMut(pos, ki) {
			if v.lv == nil {
				fail("%s: argument %s is changed by the call and is not a variable / field", name, v.lean)
			}
			muts = append(muts, *v.lv)
			mutLean = append(mutLean, ki.Lean)
		}
	}
	if recv != nil {
		add(0, *recv, recv.typ)
	}
	for i, a := range args {
		if spec.DropAll || x.isDropped(ptypes[i]) {
			x.dropArg(a, en)
			continue
		}
		if ts := typeSpecs[ptypes[i]]; ts != nil {
			if _, isF := ts.Type.(*ast.FuncType); isF {
				// a callback handed on: both sides call it through env under the name of its type
				if _, ok := x.funcParams[idName(a)]; !ok {
					fail("%s: the callback argument %s is not a callback parameter of the caller", name, norm(src(a)))
				}
				continue
			}
		}
		v := x.coerce(x.expr(a, en, ptypes[i]), ptypes[i])
		if v.view {
			fail("%s: the re-slice %s is passed on (it shares a backing array with the caller's slice)", name, norm(src(a)))
		}
		add(i+1, v, ptypes[i])
	}
	var kept []string
	for _, r := range rtypes {
		if x.isDropped(r) {
			fail("%s returns a value of the dropped type %s", name, r)
		}
		kept = append(kept, r)
	}
	typ += x.tupleOf(kept, mutLean)
	x.envFn(name, typ, doc)
	call := "(env." + name + callArgs + ")"
	if len(muts) == 0 {
		return oval{lean: call, typ: tupleTyp(kept), fresh: true}, nil
	}
	return oval{typ: tupleTyp(kept)}, &oeffect{call: call, results: kept, muts: muts}
}

// callShape: a call of a translated function / dispatcher
func (x *otrans) callShape(key string, sh oshape, recv *oval, args []ast.Expr, en oenv, targets []ast.Expr) (oval, *oeffect) {
	if len(args) != len(sh.params) {
		fail("%s: %d arguments for %d parameters", key, len(args), len(sh.params))
	}
	callArgs := ""
	if !sh.noEnv {
		callArgs = " env"
	}
	if sh.rec {
		fail("%s is a Rec target: it is reached through its dispatcher only", key)
	}
	if sh.fuel {
		if !x.t.Fuel {
			fail("%s passes a depth on: the caller must be listed with Fuel", key)
		}
		callArgs += " depth_"
		x.usesDepth = true
	}
	if sh.recDisp != "" {
		// the dispatcher reaches the recursive implementation through a function parameter
		switch {
		case x.t.Rec && x.t.Lean == sh.recDisp:
			callArgs += " rec_"
		case x.t.Fuel:
			callArgs += " (" + sh.recDisp + " env depth_)"
		default:
			fail("%s has the recursive implementation %s: the caller must be that implementation or be listed with Fuel", key, sh.recDisp)
		}
		x.usesDepth = true
	}
	var muts []olval
	var mutT []string
	argLv := make([]*olval, len(sh.params)+1)
	argTyps := make([]string, len(sh.params))
	if sh.recv != "" {
		if recv == nil {
			fail("%s needs a receiver", key)
		}
		rv := x.coerce(*recv, sh.recv)
		callArgs += " " + paren(rv.lean)
		argLv[0] = recv.lv
		if sh.mut[0] {
			if recv.lv == nil || rv.lean != recv.lean {
				fail("%s changes its receiver %s, which is not a variable / field", key, recv.lean)
			}
			muts = append(muts, *recv.lv)
			mutT = append(mutT, sh.recv)
		}
	}
	for i, a := range args {
		pt := sh.params[i]
		if sh.tparams == nil && x.isDropped(pt) {
			x.dropArg(a, en)
			continue
		}
		if ts := typeSpecs[pt]; ts != nil && sh.tparams == nil {
			if _, isF := ts.Type.(*ast.FuncType); isF {
				// a callback handed on: both sides call it through env under the name of its type
				if _, ok := x.funcParams[idName(a)]; !ok {
					fail("%s: the callback argument %s is not a callback parameter of the caller", key, norm(src(a)))
				}
				continue
			}
		}
		want := pt
		if sh.tparams != nil {
			want = "" // generic: the argument decides
		}
		v := x.expr(a, en, want)
		if want != "" {
			v0 := v
			v = x.coerce(v, want)
			if sh.mut[i+1] && v.lean != v0.lean {
				fail("%s changes its argument %s, which is passed through a conversion", key, v0.lean)
			}
		} else if v.typ == "untyped" {
			v = x.coerce(v, "int")
		}
		if v.view {
			fail("%s: the re-slice %s is passed on (it shares a backing array with the caller's slice)", key, norm(src(a)))
		}
		callArgs += " " + paren(v.lean)
		argLv[i+1] = v.lv
		argTyps[i] = v.typ
		ki := x.ti(v.typ)
		if sh.mut[i+1] {
			if v.lv == nil {
				fail("%s changes its argument %s, which is not a variable / field", key, v.lean)
			}
			muts = append(muts, *v.lv)
			mutT = append(mutT, pt)
		}
		if sh.consumes && ki.Kind == "list" {
			// the callee re-uses / clears the backing array: the caller must overwrite this slice with a result
			ok := false
			for _, t := range targets {
				if norm(src(t)) == norm(src(a)) {
					ok = true
				}
			}
			if !ok {
				if x.dead == nil {
					fail("%s consumes the slice %s, which the call does not overwrite", key, norm(src(a)))
				}
				site := x.t.Func + ": " + norm(src(a)) + " after " + strings.SplitN(key, "[", 2)[0]
				found := false
				for _, d := range *x.dead {
					found = found || d == site
				}
				if !found {
					*x.dead = append(*x.dead, site)
				}
			}
		}
	}
	// result types: generic ones are instantiated from the first list argument
	res := sh.res
	if sh.tparams != nil {
		res = nil
		inst := ""
		for i := range args {
			if tp, ok := sh.tparams[sh.params[i]]; ok && tp.Kind == "list" && inst == "" {
				inst = argTyps[i]
			}
		}
		for _, r := range sh.res {
			if tp, ok := sh.tparams[r]; ok && tp.Kind == "list" {
				if inst == "" {
					fail("%s: cannot instantiate the result type %s", key, r)
				}
				res = append(res, inst)
			} else {
				res = append(res, r)
			}
		}
	}
	var aliasLv []*olval
	for i := range res {
		var a *olval
		if i < len(sh.aliasRes) && sh.aliasRes[i] >= 0 && sh.aliasRes[i] < len(argLv) {
			a = argLv[sh.aliasRes[i]]
		}
		aliasLv = append(aliasLv, a)
	}
	call := "(" + sh.lean + callArgs + ")"
	if len(muts) == 0 {
		out := oval{typ: tupleTyp(res), fresh: true, aliasLv: aliasLv}
		if sh.panics {
			bind := x.tmp("p")
			x.guards = append(x.guards, oguard{kind: "opt", e: call, bind: bind})
			out.lean = bind
		} else {
			out.lean = call
		}
		return out, nil
	}
	return oval{typ: tupleTyp(res)}, &oeffect{call: call, results: res, muts: muts, mutT: mutT, panics: sh.panics, aliasLv: aliasLv}
}

func (x *otrans) call(e *ast.CallExpr, en oenv) (oval, *oeffect) {
	return x.callT(e, en, nil)
}

// callT: targets = the left-hand sides of the assignment the call is the right-hand side of
func (x *otrans) callT(e *ast.CallExpr, en oenv, targets []ast.Expr) (oval, *oeffect) {
	if spec, ok := x.u.EnvConsts[norm(src(e))]; ok {
		covPat(covNS(x.u.Namespace), "EnvConsts: "+norm(src(e)))
		covSkip(covNS(x.u.Namespace)+"."+x.t.Lean, e, "EnvConsts (call replaced by a constant)")
		// a call whose value does not depend on the state (checked by the reader of the table): an env constant
		parts := strings.SplitN(spec, ":", 2)
		x.envFn(parts[0], x.ti(parts[1]).Lean, "`"+norm(src(e))+"`, a constant")
		return oval{lean: "env." + parts[0], typ: parts[1]}, nil
	}
	if isSel(e.Fun, "errors", "As") && len(e.Args) == 2 {
		// errors.As(err, &v) with `var v *T`: does the chain of err hold a *T?  A parameter per T; false for a nil error.
		u, isU := e.Args[1].(*ast.UnaryExpr)
		if !isU || u.Op != token.AND {
			fail("unsupported errors.As form %s", norm(src(e)))
		}
		t, ok := x.droppedLocals[idName(u.X)]
		if !ok || !strings.HasPrefix(t, "*") {
			fail("errors.As into %s, which is not a `var _ *T` of a dropped error type", norm(src(u.X)))
		}
		ev := x.expr(e.Args[0], en, "error")
		if x.ti(ev.typ).Kind != "err" {
			fail("errors.As on %s", ev.typ)
		}
		name := "errors_As_" + t[1:]
		x.envFn(name, "ε → Bool", fmt.Sprintf("`errors.As(err, &v)` for `var v %s` and a non-nil err", t))
		return oval{lean: "(match " + ev.lean + " with | none => false | some e_ => env." + name + " e_)", typ: "bool"}, nil
	}
	if id, ok := e.Fun.(*ast.Ident); ok && en.lookup(id.Name) == nil && len(e.Args) == 1 && funcs[id.Name] == nil {
		if ti, ok := x.u.Types[id.Name]; ok && (ti.Kind == "optopaque" || ti.Kind == "opaque" || ti.Kind == "sum") {
			// conversion to an interface type
			return x.coerce(x.expr(e.Args[0], en, id.Name), id.Name), nil
		}
	}
	if id, ok := e.Fun.(*ast.Ident); ok && en.lookup(id.Name) == nil {
		if ft, ok := x.funcParams[id.Name]; ok {
			// a function-typed parameter (callback): an env function named after its TYPE
			fty := typeSpecs[ft].Type.(*ast.FuncType)
			return x.callEnv(ft, x.u.EnvFuncs[ft], nil, e.Args, oParamTypes(fty), fieldTypes(fty.Results), en,
				fmt.Sprintf("the callback of type `%s`", ft))
		}
		switch id.Name {
		case "len":
			v := x.expr(e.Args[0], en, "")
			if x.ti(v.typ).Kind != "list" {
				fail("len of %s", v.typ)
			}
			return oval{lean: "(Int.ofNat " + paren(v.lean) + ".length)", typ: "int"}, nil
		case "append":
			if len(e.Args) != 2 {
				fail("unsupported append form %s", norm(src(e)))
			}
			if idName(e.Args[0]) == "" && !isLvalueExpr(e.Args[0]) {
				fail("append to %s", norm(src(e.Args[0])))
			}
			if norm(src(e.Args[0])) != x.appendTo {
				fail("append is supported as `l = append(l, ..)` only (%s): the old slice shares the backing array", norm(src(e)))
			}
			l := x.expr(e.Args[0], en, "")
			li := x.ti(l.typ)
			if li.Kind != "list" {
				fail("append to %s", l.typ)
			}
			if l.view {
				fail("append to the re-slice %s", norm(src(e.Args[0])))
			}
			if e.Ellipsis.IsValid() {
				r := x.coerce(x.expr(e.Args[1], en, l.typ), l.typ)
				return oval{lean: "(" + paren(l.lean) + " ++ " + paren(r.lean) + ")", typ: l.typ, fresh: true}, nil
			}
			v := x.coerce(x.expr(e.Args[1], en, li.Elem), li.Elem)
			x.moveIfObject(v, en)
			return oval{lean: "(" + paren(l.lean) + " ++ [" + v.lean + "])", typ: l.typ, fresh: true}, nil
		}
		if ti, ok := x.u.Types[id.Name]; ok && len(e.Args) == 1 && (ti.Kind == "uint" || ti.Kind == "int") {
			// int(math.Ceil(float64(n) / c))
			b := map[string]ast.Expr{}
			if match(mustExpr("math.Ceil(float64(X_x) / X_c)"), e.Args[0], b) {
				c := x.expr(b["X_c"], en, "")
				xv := x.expr(b["X_x"], en, "")
				if c.typ != "untyped" || xv.typ == "untyped" || x.ti(xv.typ).Kind != "int" || ti.Kind != "int" {
					fail("math.Ceil rule: only int(math.Ceil(float64(<int>) / <constant>))")
				}
				return oval{lean: "(goCeilDivInt " + paren(xv.lean) + " " + paren(c.lean) + ")", typ: id.Name}, nil
			}
			v := x.expr(e.Args[0], en, id.Name)
			if v.typ == "untyped" {
				return x.coerce(v, id.Name), nil
			}
			fi := x.ti(v.typ)
			switch {
			case fi.Lean == ti.Lean && fi.Kind == ti.Kind:
				return oval{lean: v.lean, typ: id.Name}, nil
			case fi.Kind == "uint" && ti.Kind == "uint":
				return oval{lean: "(" + paren(v.lean) + ".to" + ti.Lean + ")", typ: id.Name}, nil
			case fi.Kind == "int" && ti.Kind == "uint":
				return oval{lean: "(" + ti.Lean + ".ofInt " + paren(v.lean) + ")", typ: id.Name}, nil
			case fi.Kind == "uint" && ti.Kind == "int":
				return oval{lean: "(Int.ofNat " + paren(v.lean) + ".toNat)", typ: id.Name}, nil
			}
			fail("unsupported conversion %s -> %s", v.typ, id.Name)
		}
		if sh, ok := oShapes[id.Name]; ok && sh.ok {
			return x.callShape(id.Name, sh, nil, e.Args, en, targets)
		}
		if fd := funcs[id.Name]; fd != nil && fd.Recv == nil {
			spec, listed := x.u.EnvFuncs[id.Name]
			if !listed && strings.HasPrefix(id.Name, "New") && strings.Contains(id.Name, "Error") {
				spec, listed = oEnvSpec{DropAll: true}, true
			}
			if !listed {
				fail("call of the package function %s, which is neither translated before this target nor listed as an env function", id.Name)
			}
			return x.callEnv(id.Name, spec, nil, e.Args, oParamTypes(fd.Type), fieldTypes(fd.Type.Results), en,
				fmt.Sprintf("`%s` (%s), a parameter", id.Name, funcFile[id.Name]))
		}
		fail("unsupported call %s", norm(src(e)))
	}
	sel, ok := e.Fun.(*ast.SelectorExpr)
	if !ok {
		fail("unsupported call %s", norm(src(e)))
	}
	if id, ok := sel.X.(*ast.Ident); ok && en.lookup(id.Name) == nil {
		if dt, ok := x.droppedParams[id.Name]; ok && len(e.Args) == 0 {
			mt := ifaceMethod(oIfaceOf(dt), sel.Sel.Name)
			if mt == nil {
				fail("interface %s has no method %s", dt, sel.Sel.Name)
			}
			rts := fieldTypes(mt.Results)
			name := dt + "_" + sel.Sel.Name
			x.envFn(name, x.tupleOf(rts, nil), fmt.Sprintf("`%s.%s()` of the `%s` argument of the call (a constant of that argument)", dt, sel.Sel.Name, dt))
			return oval{lean: "env." + name, typ: tupleTyp(rts)}, nil
		}
	}
	if pk, ok := sel.X.(*ast.Ident); ok && en.lookup(pk.Name) == nil {
		switch pk.Name + "." + sel.Sel.Name {
		case "slices.Clone":
			v := x.expr(e.Args[0], en, "")
			return oval{lean: v.lean, typ: v.typ, fresh: true}, nil
		case "slices.Delete":
			l := x.expr(e.Args[0], en, "")
			if x.ti(l.typ).Kind != "list" {
				fail("slices.Delete on %s", l.typ)
			}
			if l.view {
				fail("slices.Delete of the re-slice %s (shares a backing array)", norm(src(e.Args[0])))
			}
			x.consumed(e.Args[0], targets)
			bind := x.tmp("t")
			x.guards = append(x.guards, oguard{kind: "opt", e: "goSlicesDelete " + paren(l.lean) + " " + paren(x.intExpr(e.Args[1], en)) + " " + paren(x.intExpr(e.Args[2], en)), bind: bind})
			return oval{lean: bind, typ: l.typ, fresh: true}, nil
		case "slices.Insert":
			l := x.expr(e.Args[0], en, "")
			li := x.ti(l.typ)
			if li.Kind != "list" || len(e.Args) != 3 {
				fail("unsupported slices.Insert form %s", norm(src(e)))
			}
			if l.view {
				// `right = slices.Insert(right[:0], 0, right[count:]...)`: the re-slice of the TARGET itself is overwritten
				se, _ := e.Args[0].(*ast.SliceExpr)
				ok := false
				for _, t := range targets {
					if se != nil && norm(src(t)) == norm(src(se.X)) {
						ok = true
					}
				}
				if !ok {
					fail("slices.Insert into the re-slice %s, which the result does not overwrite (shares a backing array)", norm(src(e.Args[0])))
				}
			} else {
				x.consumed(e.Args[0], targets)
			}
			var ins string
			if e.Ellipsis.IsValid() {
				ins = x.coerce(x.expr(e.Args[2], en, l.typ), l.typ).lean
			} else {
				v := x.coerce(x.expr(e.Args[2], en, li.Elem), li.Elem)
				x.moveIfObject(v, en)
				ins = "[" + v.lean + "]"
			}
			bind := x.tmp("t")
			x.guards = append(x.guards, oguard{kind: "opt", e: "goSlicesInsert " + paren(l.lean) + " " + paren(x.intExpr(e.Args[1], en)) + " " + paren(ins), bind: bind})
			return oval{lean: bind, typ: l.typ, fresh: true}, nil
		}
		fail("unsupported call %s", norm(src(e)))
	}
	// method call
	b := x.expr(sel.X, en, "")
	if b.typ == "nil" || b.typ == "untyped" {
		fail("method call on a constant")
	}
	return x.method(b, sel.Sel.Name, e, en, targets)
}

func isLvalueExpr(e ast.Expr) bool {
	switch t := e.(type) {
	case *ast.Ident:
		return true
	case *ast.SelectorExpr:
		return isLvalueExpr(t.X)
	case *ast.ParenExpr:
		return isLvalueExpr(t.X)
	}
	return false
}

// consumed: `y = slices.Delete(x, ..)` re-uses the backing array of x: x must be the target or a parameter that is not read again
func (x *otrans) consumed(arg ast.Expr, targets []ast.Expr) {
	for _, t := range targets {
		if norm(src(t)) == norm(src(arg)) {
			return
		}
	}
	// inside the generic helpers the argument is a parameter (or a re-slice of one) whose callers are checked
	if x.t.Consumes {
		return
	}
	fail("%s is re-used by a slices function and not overwritten by its result (aliasing)", norm(src(arg)))
}

func (x *otrans) method(b oval, name string, e *ast.CallExpr, en oenv, targets []ast.Expr) (oval, *oeffect) {
	bi := x.ti(b.typ)
	switch bi.Kind {
	case "obj":
		key := bi.Struct + "." + name
		if sh, ok := oShapes[key]; ok && sh.ok {
			return x.callShape(key, sh, &b, e.Args, en, targets)
		}
		if spec, ok := x.u.EnvMethods[key]; ok {
			fd := funcs[key]
			if fd == nil {
				fail("method %s not found", key)
			}
			return x.callEnv(strings.ReplaceAll(key, ".", "_"), spec, &b, e.Args, oParamTypes(fd.Type), fieldTypes(fd.Type.Results), en,
				fmt.Sprintf("`%s` (%s), a parameter", key, funcFile[key]))
		}
		if funcs[key] == nil {
			// promoted through an embedded field
			for _, emb := range x.u.embedded(bi.Struct) {
				ft, ok := x.u.fieldType(bi.Struct, emb)
				if !ok {
					continue
				}
				fb := oval{lean: paren(b.lean) + "." + emb, typ: ft}
				if b.lv != nil {
					fb.lv = &olval{b.lv.base, append(append([]ostep{}, b.lv.steps...), ostep{kind: "field", name: emb})}
				}
				return x.method(fb, name, e, en, targets)
			}
		}
		fail("call of %s, which is neither a target translated before this one nor an env method", key)
	case "sum":
		key := bi.Sum + "." + name
		if f, ok := x.u.Accessors[key]; ok && len(e.Args) == 0 {
			// `I.M()` returns the pointer field f of every implementation (checked by `oCheckAccessor`): an ALIAS of that field
			ft := oCheckAccessor(x.u, key, f)
			sumLean := x.u.Sums[bi.Sum].Lean
			out := oval{lean: "(" + sumLean + "." + f + "_ " + paren(b.lean) + ")", typ: ft}
			if b.lv != nil {
				out.lv = &olval{b.lv.base, append(append([]ostep{}, b.lv.steps...), ostep{kind: "accessor", name: f, idx: sumLean})}
			}
			return out, nil
		}
		if sh, ok := oShapes[key]; ok && sh.ok {
			return x.callShape(key, sh, &b, e.Args, en, targets)
		}
		if spec, ok := x.u.EnvMethods[key]; ok {
			mt := ifaceMethod(bi.Sum, name)
			if mt == nil {
				fail("interface %s has no method %s", bi.Sum, name)
			}
			return x.callEnv(bi.Sum+"_"+name, spec, &b, e.Args, oParamTypes(mt), fieldTypes(mt.Results), en,
				fmt.Sprintf("`%s.%s`, a parameter (total: it also decides what a nil receiver does)", bi.Sum, name))
		}
		fail("call of %s, which is neither a dispatcher generated before this target nor an env method", key)
	case "optopaque":
		if bi.Prefix == "" {
			break
		}
		goT := strings.TrimSpace(b.typ)
		if fd := funcs[strings.TrimPrefix(goT, "*")+"."+name]; fd != nil {
			// a method of an OPAQUE struct type (`*MapExtraData`): an env function on the payload; the pointer must not be nil
			key := strings.TrimPrefix(goT, "*") + "." + name
			spec, ok := x.u.EnvMethods[key]
			if !ok {
				fail("call of %s, which is not listed as an env method", key)
			}
			bind := x.tmp("p")
			x.guards = append(x.guards, oguard{kind: "opt", e: b.lean, bind: bind})
			pv := oval{lean: bind, typ: "payload:" + goT}
			if b.lv != nil {
				pv.lv = &olval{b.lv.base, append(append([]ostep{}, b.lv.steps...), ostep{kind: "some"})}
			}
			return x.callEnv(strings.ReplaceAll(key, ".", "_"), spec, &pv, e.Args, oParamTypes(fd.Type), fieldTypes(fd.Type.Results), en,
				fmt.Sprintf("`%s` (%s) on a non-nil pointer, a parameter", key, funcFile[key]))
		}
		mt := ifaceMethod(oIfaceOf(goT), name)
		if mt == nil {
			fail("interface %s has no method %s", goT, name)
		}
		bind := x.tmp("p")
		x.guards = append(x.guards, oguard{kind: "opt", e: b.lean, bind: bind})
		pv := oval{lean: bind, typ: "payload:" + goT}
		return x.callEnv(bi.Prefix+"_"+name, x.u.EnvMethods[goT+"."+name], &pv, e.Args, oParamTypes(mt), fieldTypes(mt.Results), en,
			fmt.Sprintf("`%s.%s` on a non-nil value", goT, name))
	case "opaque", "state":
		goT := strings.TrimSpace(b.typ)
		mt := ifaceMethod(oIfaceOf(goT), name)
		if mt == nil {
			fail("interface %s has no method %s", goT, name)
		}
		return x.callEnv(bi.Prefix+"_"+name, x.u.EnvMethods[goT+"."+name], &b, e.Args, oParamTypes(mt), fieldTypes(mt.Results), en,
			fmt.Sprintf("`%s.%s`", goT, name))
	}
	fail("method call %s on a value of type %s", name, b.typ)
	return oval{}, nil
}

// oCheckAccessor: every implementation of `I.M` is literally `return recv.f`; the Go type of f
func oCheckAccessor(u *oUnit, key, f string) string {
	parts := strings.SplitN(key, ".", 2)
	ft := ""
	for _, im := range u.Sums[parts[0]].Impls {
		st := strings.TrimPrefix(im.Go, "*")
		fd := funcs[st+"."+parts[1]]
		if fd == nil || fd.Recv == nil || len(fd.Recv.List[0].Names) != 1 || fd.Body == nil {
			fail("accessor %s: %s.%s not found", key, st, parts[1])
		}
		if got, want := norm(src(fd.Body)), "{ return "+fd.Recv.List[0].Names[0].Name+"."+f+" }"; got != want {
			fail("accessor %s: the body of %s.%s is `%s`, expected `%s`", key, st, parts[1], got, want)
		}
		t, ok := u.fieldType(st, f)
		if !ok || (ft != "" && t != ft) {
			fail("accessor %s: field %s of %s", key, f, st)
		}
		ft = t
	}
	return ft
}

// withGuards wraps text in the pending guards (innermost last) and clears them
func (x *otrans) withGuards(from int, fc *ofctx, text string) string {
	gs := x.guards[from:]
	x.guards = x.guards[:from]
	for i := len(gs) - 1; i >= 0; i-- {
		x.needPnc = true
		switch gs[i].kind {
		case "opt":
			text = "match " + gs[i].e + " with\n| none => " + fc.pnc() + "\n| some " + gs[i].bind + " =>\n  " + indent(text, 2)
		case "cond":
			text = "if " + gs[i].e + " then\n  " + indent(text, 2) + "\nelse\n  " + fc.pnc()
		case "never":
			text = fc.pnc()
		}
	}
	return text
}

// oIfaceOf: follow `type A B` to the interface declaration
func oIfaceOf(t string) string {
	for i := 0; i < 8; i++ {
		ts := typeSpecs[t]
		if ts == nil {
			return t
		}
		if id, ok := ts.Type.(*ast.Ident); ok {
			t = id.Name
			continue
		}
		return t
	}
	return t
}

func oSortedKeys[V any](m map[string]V) []string {
	ks := make([]string, 0, len(m))
	for k := range m {
		ks = append(ks, k)
	}
	sort.Strings(ks)
	return ks
}
