package main

// Tables of the stateful engine (stateful.go): one group per receiver type.

import (
	"fmt"
	"os"
	"path/filepath"
	"strings"
)

var uintTypes = map[string]sTypeInfo{
	"bool":   {Lean: "Bool", Zero: "false", Kind: "bool"},
	"uint":   {Lean: "UInt64", Zero: "0", Kind: "uint", Width: 64},
	"uint64": {Lean: "UInt64", Zero: "0", Kind: "uint", Width: 64},
	"uint32": {Lean: "UInt32", Zero: "0", Kind: "uint", Width: 32},
	"int":    {Lean: "Int", Zero: "0", Kind: "int"},
	"byte":   {Lean: "UInt8", Zero: "0", Kind: "uint", Width: 8},
	"string": {Kind: "drop"},
}

func withBase(m map[string]sTypeInfo) map[string]sTypeInfo {
	for k, v := range uintTypes {
		if _, ok := m[k]; !ok {
			m[k] = v
		}
	}
	return m
}

// SlabID / Address / SlabIndex seen as the model's `SlabID` (two big-endian numbers)
var slabIDFields = map[string]sView{
	"SlabID.address": {Lean: "addr", Type: "Address"},
	"SlabID.index":   {Lean: "idx", Type: "SlabIndex"},
}
var slabIDMethods = map[string]sView{
	"SlabID.AddressAsUint64": {Lean: "addr", Type: "Address"}, // binary.BigEndian.Uint64(id.address[:])
	"SlabID.IndexAsUint64":   {Lean: "idx", Type: "SlabIndex"},
}
var slabIDVars = map[string]sPkgVar{
	"SlabIDUndefined":    {Lean: "SlabID.undef", Type: "SlabID", Init: "SlabID{}"},
	"AddressUndefined":   {Lean: "(0 : Nat)", Type: "Address", Init: "Address{}"},
	"SlabIndexUndefined": {Lean: "(0 : Nat)", Type: "SlabIndex", Init: "SlabIndex{}"},
}

var pssGroup = sGroup{
	Recv:     "PersistentSlabStorage",
	TypeVars: []string{"σ", "β", "B", "ε"},
	Types: withBase(map[string]sTypeInfo{
		"SlabID":          {Lean: "SlabID", Zero: "SlabID.undef", Kind: "eq"},
		"Address":         {Lean: "Nat", Zero: "(0 : Nat)", Kind: "nat"},
		"SlabIndex":       {Lean: "Nat", Zero: "(0 : Nat)", Kind: "nat"},
		"Slab":            {Lean: "Option σ", Zero: "none", Kind: "opt", Payload: "σ", Prefix: "Slab"},
		"error":           {Lean: "Option ε", Zero: "none", Kind: "opt", Payload: "ε", Prefix: "error"},
		"[]byte":          {Lean: "β", Kind: "opaque"},
		"BaseStorage":     {Lean: "B", Kind: "iface", Prefix: "BaseStorage"},
		"cbor.EncMode":    {Kind: "drop"},
		"cbor.DecMode":    {Kind: "drop"},
		"StorableDecoder": {Kind: "drop"},
		"TypeInfoDecoder": {Kind: "drop"},
	}),
	Fields:  slabIDFields,
	Methods: slabIDMethods,
	PkgVars: slabIDVars,
	FuncViews: map[string]sView{
		"NewSlabID": {Lean: "(SlabID.mk {0} {1})", Type: "SlabID"}, // func NewSlabID(address, index) SlabID { return SlabID{address, index} }
	},
	StmtViews: []sStmtView{
		// the 8-byte array `idx` IS the big-endian number written into it
		{Pat: "binary.BigEndian.PutUint64(X_a[:], X_v)", Assign: "X_a", Value: "{X_v}.toNat", Metas: map[string]string{"X_v": "uint64"}, Type: "SlabIndex"},
	},
	Targets: []sTarget{
		{Func: "PersistentSlabStorage.Store", Lean: "PersistentSlabStorage_Store"},
		{Func: "PersistentSlabStorage.Remove", Lean: "PersistentSlabStorage_Remove"},
		{Func: "PersistentSlabStorage.RetrieveIgnoringDeltas", Lean: "PersistentSlabStorage_RetrieveIgnoringDeltas"},
		{Func: "PersistentSlabStorage.Retrieve", Lean: "PersistentSlabStorage_Retrieve"},
		{Func: "PersistentSlabStorage.RetrieveIfLoaded", Lean: "PersistentSlabStorage_RetrieveIfLoaded"},
		{Func: "PersistentSlabStorage.DropDeltas", Lean: "PersistentSlabStorage_DropDeltas"},
		{Func: "PersistentSlabStorage.DropCache", Lean: "PersistentSlabStorage_DropCache"},
		{Func: "PersistentSlabStorage.GenerateSlabID", Lean: "PersistentSlabStorage_GenerateSlabID"},
		{Func: "PersistentSlabStorage.Deltas", Lean: "PersistentSlabStorage_Deltas"},
		{Func: "PersistentSlabStorage.DeltasWithoutTempAddresses", Lean: "PersistentSlabStorage_DeltasWithoutTempAddresses"},
		{Func: "PersistentSlabStorage.DeltasSizeWithoutTempAddresses", Lean: "PersistentSlabStorage_DeltasSizeWithoutTempAddresses"},
		{Func: "PersistentSlabStorage.HasUnsavedChanges", Lean: "PersistentSlabStorage_HasUnsavedChanges"},
		{Func: "PersistentSlabStorage.sortedOwnedDeltaKeys", Lean: "PersistentSlabStorage_sortedOwnedDeltaKeys"},
		{Func: "PersistentSlabStorage.commit", Lean: "PersistentSlabStorage_commit"},
	},
}

// BasicSlabStorage: identifiers at BYTE level (AtreeModel/SlabIdBytes.lean), as in its hand-written model
// AtreeModel/SlabIdStorages.lean (`SlabIdB.Basic`)
var basicGroup = sGroup{
	Recv:     "BasicSlabStorage",
	TypeVars: []string{"σ", "ε"},
	Types: withBase(map[string]sTypeInfo{
		"SlabID":          {Lean: "SlabIdB.SlabIDB", Zero: "SlabIdB.SlabIDUndefined", Kind: "eq"},
		"Address":         {Lean: "SlabIdB.Address", Zero: "SlabIdB.AddressUndefined", Kind: "eq"},
		"SlabIndex":       {Lean: "SlabIdB.SlabIndex", Zero: "SlabIdB.SlabIndexUndefined", Kind: "eq"},
		"Slab":            {Lean: "Option σ", Zero: "none", Kind: "opt", Payload: "σ", Prefix: "Slab"},
		"error":           {Lean: "Option ε", Zero: "none", Kind: "opt", Payload: "ε", Prefix: "error"},
		"cbor.EncMode":    {Kind: "drop"},
		"cbor.DecMode":    {Kind: "drop"},
		"StorableDecoder": {Kind: "drop"},
		"TypeInfoDecoder": {Kind: "drop"},
	}),
	Methods: map[string]sView{
		"SlabIndex.Next": {Lean: "SlabIdB.SlabIndex.next {X}", Type: "SlabIndex"}, // translated by the integer engine too: Trans.SlabIndex_Next
	},
	FuncViews: map[string]sView{
		"NewSlabID": {Lean: "(SlabIdB.newSlabID {0} {1})", Type: "SlabID"},
	},
	Targets: []sTarget{
		{Func: "BasicSlabStorage.GenerateSlabID", Lean: "BasicSlabStorage_GenerateSlabID"},
		{Func: "BasicSlabStorage.RetrieveIfLoaded", Lean: "BasicSlabStorage_RetrieveIfLoaded"},
		{Func: "BasicSlabStorage.Retrieve", Lean: "BasicSlabStorage_Retrieve"},
		{Func: "BasicSlabStorage.Store", Lean: "BasicSlabStorage_Store"},
		{Func: "BasicSlabStorage.Remove", Lean: "BasicSlabStorage_Remove"},
		{Func: "BasicSlabStorage.Count", Lean: "BasicSlabStorage_Count"},
	},
}

// LedgerBaseStorage: byte-level identifiers; `[]byte` is `List UInt8`; the `Ledger` is an opaque state `Λ` with its
// interface methods as parameters; the `int` byte counters are `Int` (no overflow modelled: 2^63 bytes)
var ledgerGroup = sGroup{
	Recv:     "LedgerBaseStorage",
	TypeVars: []string{"Λ", "ε"},
	Types: withBase(map[string]sTypeInfo{
		"SlabID":    {Lean: "SlabIdB.SlabIDB", Zero: "SlabIdB.SlabIDUndefined", Kind: "eq"},
		"Address":   {Lean: "SlabIdB.Address", Zero: "SlabIdB.AddressUndefined", Kind: "eq"},
		"SlabIndex": {Lean: "SlabIdB.SlabIndex", Zero: "SlabIdB.SlabIndexUndefined", Kind: "eq"},
		"error":     {Lean: "Option ε", Zero: "none", Kind: "opt", Payload: "ε", Prefix: "error"},
		"Ledger":    {Lean: "Λ", Kind: "iface", Prefix: "Ledger"},
	}),
	Fields: map[string]sView{
		"SlabID.address": {Lean: "address", Type: "Address"},
		"SlabID.index":   {Lean: "index", Type: "SlabIndex"},
	},
	Slices: map[string]sView{
		"Address": {Lean: "{X}.val", Type: "[]byte"}, // the 8 bytes of the array
	},
	FuncViews: map[string]sView{
		"NewSlabID":            {Lean: "(SlabIdB.newSlabID {0} {1})", Type: "SlabID"},
		"SlabIndexToLedgerKey": {Lean: "(SlabIdB.slabIndexToLedgerKey {0})", Type: "[]byte"}, // []byte("$" + string(ind[:]))
	},
	Targets: []sTarget{
		{Func: "LedgerBaseStorage.Retrieve", Lean: "LedgerBaseStorage_Retrieve"},
		{Func: "LedgerBaseStorage.Store", Lean: "LedgerBaseStorage_Store"},
		{Func: "LedgerBaseStorage.Remove", Lean: "LedgerBaseStorage_Remove"},
		{Func: "LedgerBaseStorage.GenerateSlabID", Lean: "LedgerBaseStorage_GenerateSlabID"},
		{Func: "LedgerBaseStorage.BytesRetrieved", Lean: "LedgerBaseStorage_BytesRetrieved"},
		{Func: "LedgerBaseStorage.BytesStored", Lean: "LedgerBaseStorage_BytesStored"},
		{Func: "LedgerBaseStorage.SegmentCounts", Lean: "LedgerBaseStorage_SegmentCounts"},
		{Func: "LedgerBaseStorage.Size", Lean: "LedgerBaseStorage_Size"},
		{Func: "LedgerBaseStorage.SegmentsReturned", Lean: "LedgerBaseStorage_SegmentsReturned"},
		{Func: "LedgerBaseStorage.SegmentsUpdated", Lean: "LedgerBaseStorage_SegmentsUpdated"},
		{Func: "LedgerBaseStorage.SegmentsTouched", Lean: "LedgerBaseStorage_SegmentsTouched"},
		{Func: "LedgerBaseStorage.ResetReporter", Lean: "LedgerBaseStorage_ResetReporter"},
	},
}

var sGroups = []*sGroup{&pssGroup, &basicGroup, &ledgerGroup}

const sPrelude = `-- GENERATED by harness/cmd/gotrans (stateful engine) from storage.go on every check run. Do not edit.
-- Go -> Lean translation of the SEQUENTIAL part of the storage state machine: the receiver is a record threaded
-- through, Go maps are association lists with Go semantics, nil interface values are ` + "`none`" + `, interface methods and
-- untranslated package functions are parameters (` + "`env`" + `).  Subset, conventions and tables: harness/cmd/gotrans/stateful.go,
-- stateful_targets.go.  Equivalence with the hand-written model: AtreeProofs/Props/TransStorage.lean.
import AtreeModel.Basic
import AtreeModel.SlabIdBytes
set_option linter.unusedVariables false
namespace Atree.Gen.TransSt
open Atree

/-- result of a translated loop whose body contains ` + "`return`" + ` -/
inductive Loop (ρ γ : Type) where
  | ret (r : ρ)
  | done (c : γ)

/-- a whitelisted function that gotrans could not translate (see ` + "`untranslatedFunctions`" + `) -/
structure Untranslatable where
  reason : String

/-- Go's ` + "`map[K]V`" + `: an association list; Go's ` + "`len`" + ` / ` + "`range`" + ` are the list's when the keys are distinct, which
    ` + "`set`" + ` and ` + "`delete`" + ` preserve -/
abbrev GoMap (κ α : Type) := AList κ α

namespace GoMap
variable {κ α : Type} [DecidableEq κ]
/-- ` + "`make(map[K]V)`" + ` (and the nil map, for reading) -/
abbrev empty : GoMap κ α := []
/-- ` + "`m[k] = v`" + ` -/
abbrev set (m : GoMap κ α) (k : κ) (v : α) : GoMap κ α := AList.insert m k v
/-- ` + "`delete(m, k)`" + ` -/
abbrev delete (m : GoMap κ α) (k : κ) : GoMap κ α := AList.erase m k
/-- ` + "`v, ok := m[k]`" + `: the zero value of V and false when absent -/
def get2 (m : GoMap κ α) (k : κ) (zero : α) : α × Bool :=
  match AList.find? m k with
  | some v => (v, true)
  | none => (zero, false)
/-- ` + "`m[k]`" + ` -/
def get (m : GoMap κ α) (k : κ) (zero : α) : α := (get2 m k zero).1
/-- ` + "`len(m)`" + ` -/
def len (m : GoMap κ α) : Int := Int.ofNat m.length
end GoMap

/-- insertion of ` + "`k`" + ` before the first element it is less than -/
def goInsertBy {α : Type} (less : α → α → Bool) (k : α) : List α → List α
  | [] => [k]
  | x :: xs => if less k x then k :: x :: xs else x :: goInsertBy less k xs

/-- ` + "`sort.Slice(l, less)`" + ` BY ITS SPECIFICATION (trusted step): the sorted permutation of ` + "`l`" + `.  For a ` + "`less`" + ` that is a
    strict total order on pairwise distinct elements that permutation is unique and is what insertion sort computes. -/
def goSortSlice {α : Type} (less : α → α → Bool) (l : List α) : List α := l.foldr (goInsertBy less) []

`

func writeStateful(out string) (nfailed int) {
	loadDecls()
	var b strings.Builder
	b.WriteString(sPrelude)
	var failed, all []string
	for _, g := range sGroups {
		b.WriteString(emitGroup(g, &failed, &all))
	}
	q := func(l []string) string {
		for i := range l {
			l[i] = fmt.Sprintf("%q", l[i])
		}
		return "[" + strings.Join(l, ", ") + "]"
	}
	b.WriteString("/-- whitelisted functions that could not be translated (an obligation says this list is empty) -/\n")
	b.WriteString("def untranslatedFunctions : List String := " + q(failed) + "\n\n")
	b.WriteString("/-- every whitelisted function, by the name of its generated definition -/\n")
	b.WriteString("def translatedTargets : List String := " + q(all) + "\n\nend Atree.Gen.TransSt\n")
	path := filepath.Join(out, "TransStorage.lean")
	content := b.String()
	if old, err := os.ReadFile(path); err == nil && string(old) == content {
		return len(failed)
	}
	tmp := fmt.Sprintf("%s.%d.tmp", path, os.Getpid())
	if err := os.WriteFile(tmp, []byte(content), 0o644); err != nil {
		fmt.Fprintln(os.Stderr, "gotrans:", err)
		os.Exit(2)
	}
	if err := os.Rename(tmp, path); err != nil {
		fmt.Fprintln(os.Stderr, "gotrans:", err)
		os.Exit(2)
	}
	return len(failed)
}
