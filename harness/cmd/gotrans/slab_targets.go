package main

// Tables of the slab engine (slab.go): the array slabs.

import (
	"fmt"
	"os"
	"path/filepath"
	"strings"
)

func qWithBase(m map[string]qTypeInfo) map[string]qTypeInfo {
	base := map[string]qTypeInfo{
		"bool":   {Lean: "Bool", Zero: "false", Kind: "bool"},
		"uint":   {Lean: "UInt64", Zero: "0", Kind: "uint", Width: 64},
		"uint64": {Lean: "UInt64", Zero: "0", Kind: "uint", Width: 64},
		"uint32": {Lean: "UInt32", Zero: "0", Kind: "uint", Width: 32},
		"int":    {Lean: "Int", Zero: "0", Kind: "int"},
		"string": {Kind: "drop"},
		"...any": {Kind: "drop"},
	}
	for k, v := range base {
		if _, ok := m[k]; !ok {
			m[k] = v
		}
	}
	return m
}

var arrayUnit = qUnit{
	// σ Storable payload, υ Value payload, ξ extra data, ε error payload, S the SlabStorage, Φ the world behind a callback
	TypeVars: []string{"σ", "υ", "ξ", "ε", "S", "Φ"},
	Types: qWithBase(map[string]qTypeInfo{
		"SlabID":    {Lean: "SlabID", Zero: "SlabID.undef", Kind: "eq"},
		"Address":   {Lean: "Nat", Zero: "(0 : Nat)", Kind: "nat"},
		"SlabIndex": {Lean: "Nat", Zero: "(0 : Nat)", Kind: "nat"},
		// records generated from the Go declarations
		"ArraySlabHeader":    {Kind: "struct", Struct: "ArraySlabHeader"},
		"*ArrayDataSlab":     {Kind: "obj", Struct: "ArrayDataSlab", Sum: "ArraySlabV", Ctor: "dataSlab"},
		"*ArrayMetaDataSlab": {Kind: "obj", Struct: "ArrayMetaDataSlab", Sum: "ArraySlabV", Ctor: "metaSlab"},
		"ArrayMetaDataSlab":  {Kind: "obj", Struct: "ArrayMetaDataSlab", Sum: "ArraySlabV", Ctor: "metaSlab"}, // value receivers of IsFull / IsUnderflow
		"*Array":             {Kind: "obj", Struct: "Array"},
		// closed interfaces: nil or one of the two array slab records
		"ArraySlab": {Lean: "Option (ArraySlabV σ ξ)", Zero: "none", Kind: "sum", Sum: "ArraySlabV"},
		"Slab":      {Lean: "Option (ArraySlabV σ ξ)", Zero: "none", Kind: "sum", Sum: "ArraySlabV"},
		// open interfaces
		"Storable":        {Lean: "Option σ", Zero: "none", Kind: "opt", Payload: "σ", Prefix: "Storable"},
		"Value":           {Lean: "Option υ", Zero: "none", Kind: "opt", Payload: "υ", Prefix: "Value"},
		"error":           {Lean: "Option ε", Zero: "none", Kind: "opt", Payload: "ε", Prefix: "error"},
		"*ArrayExtraData": {Lean: "Option ξ", Zero: "none", Kind: "opt", Payload: "ξ", Prefix: "ArrayExtraData"},
		"SlabStorage":     {Lean: "S", Kind: "state", Prefix: "SlabStorage"},
		// `type ArrayPopIterationFunc func(Storable)`: a callback; Φ is the state of whatever it writes to
		"ArrayPopIterationFunc": {Lean: "Φ", Kind: "state", Prefix: "ArrayPopIterationFunc", Call: true},
		// fields of Array the translated functions do not touch
		"parentUpdater":      {Kind: "drop"},
		"map[ValueID]uint64": {Kind: "drop"},
	}),
	Structs:  []string{"ArraySlabHeader", "ArrayDataSlab", "ArrayMetaDataSlab", "Array"},
	Sums:     []qSum{{Lean: "ArraySlabV", Variants: []qVariant{{"dataSlab", "ArrayDataSlab"}, {"metaSlab", "ArrayMetaDataSlab"}}}},
	SumAfter: "ArrayMetaDataSlab",
	Fields: map[string]qView{
		"SlabID.address": {Lean: "addr", Type: "Address"},
		"SlabID.index":   {Lean: "idx", Type: "SlabIndex"},
	},
	PkgVars: map[string]qPkgVar{
		"SlabIDUndefined": {Lean: "SlabID.undef", Type: "SlabID", Init: "SlabID{}"},
	},
	EnvVars: map[string]string{
		"minThreshold":              "uint32",
		"maxThreshold":              "uint32",
		"maxInlineArrayElementSize": "uint32",
	},
	ExprViews: []qExprView{
		// exactness of the float computation: harness/cmd/gotrans/main.go ("Floats")
		{Pat: "int(math.Ceil(float64(X_n) / 2))", Lean: "(goCeilDivInt {X_n} 2)", Type: "int", Metas: map[string]string{"X_n": "int"}},
		{Pat: "uint32(math.Ceil(float64(X_n) / arraySlabHeaderSize))", Lean: "(goCeilDivU32 {X_n} Gen.arraySlabHeaderSize)", Type: "uint32", Metas: map[string]string{"X_n": "uint32"}},
	},
	Targets: []qTarget{
		// slice_utils.go
		{Func: "split", Lean: "split"},
		{Func: "merge", Lean: "merge"},
		{Func: "lendToRight", Lean: "lendToRight"},
		{Func: "borrowFromRight", Lean: "borrowFromRight"},
		// storage.go: storeSlab dispatches SlabID() dynamically
		{Func: "ArrayDataSlab.SlabID", Lean: "ArrayDataSlab_SlabID"},
		{Func: "ArrayMetaDataSlab.SlabID", Lean: "ArrayMetaDataSlab_SlabID"},
		{Func: "storeSlab", Lean: "storeSlab"},
		// array_data_slab.go
		{Func: "ArrayDataSlab.getPrefixSize", Lean: "ArrayDataSlab_getPrefixSize"},
		{Func: "ArrayDataSlab.Get", Lean: "ArrayDataSlab_Get"},
		{Func: "ArrayDataSlab.Set", Lean: "ArrayDataSlab_Set"},
		{Func: "ArrayDataSlab.Insert", Lean: "ArrayDataSlab_Insert"},
		{Func: "ArrayDataSlab.Remove", Lean: "ArrayDataSlab_Remove"},
		{Func: "ArrayDataSlab.PopIterate", Lean: "ArrayDataSlab_PopIterate"},
		{Func: "ArrayDataSlab.Split", Lean: "ArrayDataSlab_Split"},
		{Func: "ArrayDataSlab.Merge", Lean: "ArrayDataSlab_Merge"},
		{Func: "ArrayDataSlab.LendToRight", Lean: "ArrayDataSlab_LendToRight"},
		{Func: "ArrayDataSlab.BorrowFromRight", Lean: "ArrayDataSlab_BorrowFromRight"},
		{Func: "ArrayDataSlab.IsFull", Lean: "ArrayDataSlab_IsFull"},
		{Func: "ArrayDataSlab.IsUnderflow", Lean: "ArrayDataSlab_IsUnderflow"},
		{Func: "ArrayDataSlab.CanLendToLeft", Lean: "ArrayDataSlab_CanLendToLeft"},
		{Func: "ArrayDataSlab.CanLendToRight", Lean: "ArrayDataSlab_CanLendToRight"},
		{Func: "ArrayDataSlab.SetSlabID", Lean: "ArrayDataSlab_SetSlabID"},
		{Func: "ArrayDataSlab.Header", Lean: "ArrayDataSlab_Header"},
		{Func: "ArrayDataSlab.IsData", Lean: "ArrayDataSlab_IsData"},
		{Func: "ArrayDataSlab.ByteSize", Lean: "ArrayDataSlab_ByteSize"},
		{Func: "ArrayDataSlab.RemoveExtraData", Lean: "ArrayDataSlab_RemoveExtraData"},
		{Func: "ArrayDataSlab.SetExtraData", Lean: "ArrayDataSlab_SetExtraData"},
		// array_metadata_slab.go
		{Func: "ArrayMetaDataSlab.Split", Lean: "ArrayMetaDataSlab_Split"},
		{Func: "ArrayMetaDataSlab.Merge", Lean: "ArrayMetaDataSlab_Merge"},
		{Func: "ArrayMetaDataSlab.LendToRight", Lean: "ArrayMetaDataSlab_LendToRight"},
		{Func: "ArrayMetaDataSlab.BorrowFromRight", Lean: "ArrayMetaDataSlab_BorrowFromRight"},
		{Func: "ArrayMetaDataSlab.updateChildrenHeadersAfterMerge", Lean: "ArrayMetaDataSlab_updateChildrenHeadersAfterMerge"},
		{Func: "ArrayMetaDataSlab.IsFull", Lean: "ArrayMetaDataSlab_IsFull"},
		{Func: "ArrayMetaDataSlab.IsUnderflow", Lean: "ArrayMetaDataSlab_IsUnderflow"},
		{Func: "ArrayMetaDataSlab.CanLendToLeft", Lean: "ArrayMetaDataSlab_CanLendToLeft"},
		{Func: "ArrayMetaDataSlab.CanLendToRight", Lean: "ArrayMetaDataSlab_CanLendToRight"},
		{Func: "ArrayMetaDataSlab.SetSlabID", Lean: "ArrayMetaDataSlab_SetSlabID"},
		{Func: "ArrayMetaDataSlab.Header", Lean: "ArrayMetaDataSlab_Header"},
		{Func: "ArrayMetaDataSlab.IsData", Lean: "ArrayMetaDataSlab_IsData"},
		{Func: "ArrayMetaDataSlab.ByteSize", Lean: "ArrayMetaDataSlab_ByteSize"},
		{Func: "ArrayMetaDataSlab.RemoveExtraData", Lean: "ArrayMetaDataSlab_RemoveExtraData"},
		{Func: "ArrayMetaDataSlab.SetExtraData", Lean: "ArrayMetaDataSlab_SetExtraData"},
		// the restructuring of an index slab: dynamic dispatch on the child slabs
		{Func: "ArrayMetaDataSlab.SplitChildSlab", Lean: "ArrayMetaDataSlab_SplitChildSlab"},
		{Func: "ArrayMetaDataSlab.rebalanceChildren", Lean: "ArrayMetaDataSlab_rebalanceChildren"},
		{Func: "ArrayMetaDataSlab.mergeChildren", Lean: "ArrayMetaDataSlab_mergeChildren"},
		{Func: "ArrayMetaDataSlab.MergeOrRebalanceChildSlab", Lean: "ArrayMetaDataSlab_MergeOrRebalanceChildSlab"},
		// array.go
		{Func: "Array.Address", Lean: "Array_Address"},
		{Func: "Array.splitRoot", Lean: "Array_splitRoot"},
		{Func: "Array.promoteChildAsNewRoot", Lean: "Array_promoteChildAsNewRoot"},
		// the DESCENT: an index slab reads its child from the storage and calls the same operation on it (dynamic
		// dispatch); recursion on a depth argument (`none` at depth 0: the tree is deeper than the argument)
		{Func: "ArrayMetaDataSlab.Get", Lean: "ArrayMetaDataSlab_Get", Rec: true},
		{Func: "ArrayMetaDataSlab.Set", Lean: "ArrayMetaDataSlab_Set", Rec: true},
		{Func: "ArrayMetaDataSlab.Insert", Lean: "ArrayMetaDataSlab_Insert", Rec: true},
		{Func: "ArrayMetaDataSlab.Remove", Lean: "ArrayMetaDataSlab_Remove", Rec: true},
		{Func: "ArrayMetaDataSlab.PopIterate", Lean: "ArrayMetaDataSlab_PopIterate", Rec: true},
		// array.go: the top-level operations (the nesting machinery is a parameter: EnvMethods)
		{Func: "Array.Count", Lean: "Array_Count"},
		{Func: "Array.Get", Lean: "Array_Get", Fuel: true},
		{Func: "Array.set", Lean: "Array_set", Fuel: true},
		{Func: "Array.Insert", Lean: "Array_Insert", Fuel: true},
		{Func: "Array.Append", Lean: "Array_Append", Fuel: true},
		{Func: "Array.remove", Lean: "Array_remove", Fuel: true},
		{Func: "ArrayDataSlab.ExtraData", Lean: "ArrayDataSlab_ExtraData"},
		{Func: "ArrayMetaDataSlab.ExtraData", Lean: "ArrayMetaDataSlab_ExtraData"},
		{Func: "ArrayDataSlab.Inlined", Lean: "ArrayDataSlab_Inlined"},
		{Func: "ArrayMetaDataSlab.Inlined", Lean: "ArrayMetaDataSlab_Inlined"},
		{Func: "Array.Inlined", Lean: "Array_Inlined"},
		{Func: "Array.PopIterate", Lean: "Array_PopIterate", Fuel: true},
	},
	EnvMethods: map[string]qEnvMethod{
		// translated by the stateless engine (Gen/Trans.lean, TransEq.ArrayMetaDataSlab_childSlabIndexInfo_eq_model)
		"ArrayMetaDataSlab.childSlabIndexInfo": {},
		// the nesting machinery (parent callbacks, mutableElementIndex): out of scope, the array is threaded through
		"Array.setCallbackWithChild": {RecvMut: true},
		"Array.notifyParentIfNeeded": {RecvMut: true},
		"Array.incrementIndexFrom":   {RecvMut: true},
		"Array.decrementIndexFrom":   {RecvMut: true},
	},
}

const qPrelude = `-- GENERATED by harness/cmd/gotrans (slab engine) from the atree sources on every check run. Do not edit.
-- Go -> Lean translation of the functions that MOVE data in the array slabs: the slice_utils generics, the leaf
-- operations and the split / merge / lend / borrow of ArrayDataSlab and ArrayMetaDataSlab in full (elements, headers,
-- next links, allocated ids), the restructuring of an index slab with dynamic dispatch on its children, the root
-- changes of Array.  Objects are records threaded through (a function returns its Go results and then the final
-- value of the receiver and of every reference parameter it can mutate), slices are lists (aliasing is checked, see
-- harness/cmd/gotrans/slab.go), nil interfaces are ` + "`none`" + `, ` + "`Option`" + ` results: ` + "`none`" + ` = Go panics or leaves the modelled
-- fragment.  Subset, conventions: slab.go; tables: slab_targets.go.  Equivalence with the hand-written model:
-- AtreeProofs/Props/TransSlabs.lean.
import AtreeModel.Basic
import AtreeModel.Gen.Consts
set_option linter.unusedVariables false
namespace Atree.Gen.TransSl
open Atree

/-- result of a translated loop whose body contains ` + "`return`" + ` -/
inductive Loop (ρ γ : Type) where
  | ret (r : ρ)
  | done (c : γ)

/-- a whitelisted function that gotrans could not translate (see ` + "`untranslatedFunctions`" + `) -/
structure Untranslatable where
  reason : String

/-- ` + "`s[i]`" + ` (read): ` + "`none`" + ` = index out of range (Go panics) -/
def goIdx {α : Type} (s : List α) (i : Int) : Option α :=
  if i < 0 then none else s[i.toNat]?

/-- ` + "`s[i] = v`" + `: ` + "`none`" + ` = index out of range (Go panics) -/
def goSet {α : Type} (s : List α) (i : Int) (v : α) : Option (List α) :=
  if 0 ≤ i ∧ i.toNat < s.length then some (s.set i.toNat v) else none

/-- ` + "`s[lo:hi]`" + ` as a value: ` + "`none`" + ` = Go panics, or ` + "`hi`" + ` is beyond ` + "`len(s)`" + ` (legal in Go up to ` + "`cap(s)`" + `, but it
    would expose elements of the backing array that a list does not have) -/
def goSlice {α : Type} (s : List α) (lo hi : Int) : Option (List α) :=
  if 0 ≤ lo ∧ lo ≤ hi ∧ hi ≤ s.length then some ((s.drop lo.toNat).take (hi - lo).toNat) else none

/-- ` + "`slices.Insert(s, i, v...)`" + ` BY ITS SPECIFICATION (trusted step): ` + "`s[:i] + v + s[i:]`" + `; panics if ` + "`i`" + ` is out of range -/
def goInsert {α : Type} (s : List α) (i : Int) (v : List α) : Option (List α) :=
  if 0 ≤ i ∧ i ≤ s.length then some (s.take i.toNat ++ v ++ s.drop i.toNat) else none

/-- ` + "`slices.Delete(s, i, j)`" + ` BY ITS SPECIFICATION (trusted step): ` + "`s[:i] + s[j:]`" + `; panics if ` + "`s[i:j]`" + ` is not a valid slice -/
def goDelete {α : Type} (s : List α) (i j : Int) : Option (List α) :=
  if 0 ≤ i ∧ i ≤ j ∧ j ≤ s.length then some (s.take i.toNat ++ s.drop j.toNat) else none

/-- ` + "`uint32(math.Ceil(float64(x) / c))`" + ` for a 32-bit x and a constant 1 ≤ c < 2^20 (exact, see main.go) -/
def goCeilDivU32 (x : UInt32) (c : Nat) : UInt32 := UInt32.ofNat ((x.toNat + c - 1) / c)

/-- ` + "`int(math.Ceil(float64(x) / c))`" + ` for a slice length x -/
def goCeilDivInt (x : Int) (c : Nat) : Int := Int.ofNat ((x.toNat + c - 1) / c)

`

var qUnits = []*qUnit{&arrayUnit}

func writeSlabs(out string) (nfailed int) {
	loadDecls()
	var b strings.Builder
	b.WriteString(qPrelude)
	var failed, all []string
	for _, u := range qUnits {
		b.WriteString(emitUnit(u, &failed, &all))
	}
	q := func(l []string) string {
		o := make([]string, len(l))
		for i := range l {
			o[i] = fmt.Sprintf("%q", l[i])
		}
		return "[" + strings.Join(o, ", ") + "]"
	}
	b.WriteString("/-- whitelisted functions that could not be translated (an obligation says this list is empty) -/\n")
	b.WriteString("def untranslatedFunctions : List String := " + q(failed) + "\n\n")
	b.WriteString("/-- every whitelisted function, by the name of its generated definition -/\n")
	b.WriteString("def translatedTargets : List String := " + q(all) + "\n\nend Atree.Gen.TransSl\n")
	path := filepath.Join(out, "TransSlabs.lean")
	content := b.String()
	if old, err := os.ReadFile(path); err == nil && string(old) == content {
		return len(failed)
	}
	tmp := fmt.Sprintf("%s.%d.tmp", path, os.Getpid())
	if err := os.WriteFile(tmp, []byte(content), 0o644); err != nil {
		fmt.Fprintln(os.Stderr, "gotrans:", err)
		os.Exit(2)
	}
	if err := os.Rename(tmp, path); err != nil {
		fmt.Fprintln(os.Stderr, "gotrans:", err)
		os.Exit(2)
	}
	return len(failed)
}
