package main

// Third translation engine of gotrans ("slab engine"): the functions that MOVE data inside the array slabs - the
// slice surgery and header updates of split / merge / lend / borrow, the leaf-level get / set / insert / remove, the
// index-slab restructuring (SplitChildSlab, MergeOrRebalanceChildSlab, ..) and the root changes of `Array` ->
// lean/AtreeModel/Gen/TransSlabs.lean, namespace Atree.Gen.TransSl.  The equivalence with the hand-written model
// (AtreeModel/Array/Slab.lean, Tree.lean) is proved in lean/AtreeProofs/Props/TransSlabs.lean.
//
// Like the two other engines it uses go/ast only; types of expressions come from the DECLARATIONS in the source.
// All Go identifiers of this engine start with `q`.  Tables: slab_targets.go.
//
// # Objects
//
// A Go struct that is used through a pointer (`*ArrayDataSlab`, `*ArrayMetaDataSlab`, `*Array`) is a Lean RECORD
// generated from the Go declaration; a variable of such a type HOLDS the current value of the object and every
// mutation (`a.header.size = e`, `a.elements[i] = v`, `a.header.count++`, a call of a mutating method) rebinds the
// variable.  A translated function returns, after its Go results, the final value ("out-state") of the receiver and
// of every parameter of a reference type that it can mutate:
//
//	func (a *T) M(p *U, n int) (R, error)   ->   def T_M (env) (a : T) (p : U) (n : Int) : Option ((R × error) × T × U)
//
// (`Option`, `none` = the function can leave the modelled fragment: a Go run-time panic - nil interface method call,
// index / slice bound out of range, failed type assertion - or a re-slice beyond `len`.)  So the state a failing
// call leaves behind is part of the result, as Go mutates before it returns the error.
//
// Interfaces with a CLOSED set of implementations (`ArraySlab`, `Slab` = one of the two array slab records, or nil)
// are a generated inductive type under `Option`; a method call on such a value is DYNAMIC DISPATCH: a generated
// dispatcher `ArraySlab_M` matches on the variant and calls the translated method of that record.  A type assertion
// `x.(*T)` is a match on the variant (`none` = the assertion fails).  Interfaces whose implementations are outside
// (`Storable`, `Value`, `error`) are `Option payload` with their methods as parameters `env.I_M` (pure), and
// `SlabStorage` / callbacks are an opaque STATE with methods `env.I_M state args = (results, new state)`.
// Package functions that are not translated (`getArraySlab`, error constructors, ..) are parameters too; an argument
// of a state type is threaded through (`(results, new state)`).  Package variables set by `setThreshold`
// (`minThreshold`, ..) are fields of `env`.
//
// # Aliasing (the trusted step of value semantics, and what is checked)
//
// Two names for one object are sound under value semantics only if the copies never diverge.  The translator keeps
// them in sync or rejects the function:
//
//   - `y := x`, `y = x`, `y := x.(T)`, `y := a.f.(T)` for objects / interface values make `y` a LINK to its source:
//     every mutation of `y` is written back to the source at once (so reads through either name agree, as in Go); a
//     mutation THROUGH the source while the link is alive is rejected, a plain assignment to the source cuts the link
//     (Go: the source now names another object); two links to one source are rejected.
//   - `a.f = y` / a composite-literal field `f: y` MOVES the object or slice `y`: a later mention of `y` is rejected.
//   - slices are lists of their visible elements.  `x := s`, `x := s[i:j]` (shared backing array) are rejected;
//     `s[i:j]` is allowed where it is only READ at once (operand of slices.Clone / append / slices.Insert, `_ = s[i:]`)
//     and as the self-reslice `p = p[:n]`.  `slices.Insert / Delete / Clone`, `append`, `clear` are translated BY THEIR
//     SPECIFICATION.  An in-place operation CONSUMES its first operand: the result must be assigned to the same
//     variable / field, or the operand must never be mentioned again.
//   - the slice_utils generics: a slice parameter that is consumed has no out-state, and every call site must
//     overwrite that argument with a result of the same call (checked); a parameter that is only cleared
//     (`merge`'s `right`) is returned as an out-state and written back to the argument.  So "no one reads the old
//     backing array afterwards" is not an assumption but a checked property of the translated call sites.
//   - TRUSTED: distinct reference parameters of a function denote distinct objects, and objects returned by `env`
//     functions (`getArraySlab`) are distinct from the objects in scope (sibling slabs have distinct ids).
//
// # Statements
//
// As in the stateful engine (`let` rebinding, `if` copies its continuation into the branches that fall through,
// `return` yields results and out-states of that moment), plus `for` loops:
//
//	for [i,] e := range s   -> structural recursion over the list (the body must not assign s)
//	for i := range s|n      -> recursion over a fuel argument = the length / n at entry
//	for i := a; i < E; i++  -> fuel (E - a) at entry, the condition is still checked; E must not be assigned in the body
//	for i := a; i >= 0; i-- -> fuel a + 1
//
// Which outer variables a loop carries, which parameters a function mutates and whether it can abort are found by
// translating once and looking at what was rebound (no separate analysis that could disagree with the translation).
//
// JOIN POINTS: when two branches of an `if` of the function's top level fall through to a continuation of at least
// qJoinLines lines, and their environments agree (same variables, links, moved / consumed marks), the continuation is
// emitted ONCE as a definition `<f>.kN` of the variables it mentions and both branches call it (otherwise it is
// copied).  `clear(s[len(s):cap(s)])` zeroes the array beyond the visible elements: no effect on a list.
//
// # Recursion over the slab tree (the DESCENT; WP12)
//
// `ArrayMetaDataSlab.Get / Set / Insert / Remove / PopIterate` read a child slab from the storage and call the same
// method on it through the `ArraySlab` interface: recursion through dynamic dispatch over a heap.  A target marked
// `Rec` is translated as STRUCTURAL recursion on an extra argument `depth_ : Nat` placed after `env`:
//
//	def T_M (env) (depth_ : Nat) (a : T) .. := match depth_ with | 0 => none | depth_ + 1 => let rec_ := T_M env depth_; <body>
//
// (`none` at depth 0: the tree is deeper than the argument - the function leaves the modelled fragment; the theorems
// quantify over every depth argument that covers the tree.)  The dispatcher `<Sum>_M` of such a method takes the
// recursive implementation as a parameter `rec_` (the caller passes `rec_`, or `T_M env depth_` from a target marked
// `Fuel`, which only has the depth argument and hands it on); loops and join points of a `Rec` target receive `rec_` /
// `depth_` as parameters like any other variable they mention.  Implementations of one method may differ in which
// parameters they ignore (`_ SlabStorage`): the dispatcher keeps a parameter that any of them keeps.
//
// `EnvMethods` of the unit: methods of an object type that this engine does NOT translate and calls as parameters
// `env.<Struct>_<method> receiver args` - `childSlabIndexInfo` (translated by the stateless engine; the proofs
// instantiate the parameter with that translation) and the nesting machinery of `Array` (`setCallbackWithChild`,
// `notifyParentIfNeeded`, `incrementIndexFrom`, `decrementIndexFrom`; the receiver is threaded through because a parent
// callback can change the array).
//
// Two relaxations that the descent needs: (1) an alias whose variable is NEVER MENTIONED AGAIN (textually, after the
// statement being translated; inside a loop: never relaxed) ends when its source is written, instead of rejecting the
// function (`root := a.root.(*ArrayMetaDataSlab); .. a.promoteChildAsNewRoot(root.childrenHeaders[0].slabID)`); the
// variable is marked consumed.  (2) the bound `len(s)` of a counted loop may be a slice whose ELEMENTS the body
// assigns (`s[i]++` keeps the length); any other assignment to `s` is still rejected.
//
// TRUSTED for the descent: a slab handed to `Store` is stored BY VALUE and `getArraySlab` returns what was stored last;
// a slab that is changed after it was stored and not stored again is not seen by later reads (Go: the storage keeps
// the pointer, so it would be seen).  The heap theorems therefore say what the PERSISTED slabs are.
//
// Anything outside the subset makes the function "untranslatable": `def f : Untranslatable := ⟨reason⟩`, listed in
// `untranslatedFunctions`; its theorems stop compiling.

import (
	"fmt"
	"go/ast"
	"go/token"
	"sort"
	"strings"
)

// ---------------------------------------------------------------------------------------------
// tables

type qTypeInfo struct {
	Lean    string
	Zero    string
	Kind    string // bool | uint | int | nat | eq | struct | obj | sum | opt | state | list | tparam | drop
	Payload string // opt: Lean type of the payload
	Prefix  string // opt / state: prefix of the env functions
	Width   int
	Elem    string // list: Go element type
	Struct  string // obj / struct: Go struct name
	Sum     string // sum: Lean name of the inductive; obj: the inductive it is a variant of ("" = none)
	Ctor    string // obj: its constructor in Sum
	Call    bool   // state: the value is a function (callback); `f(x)` is env.<Prefix>_call
}

type qVariant struct{ Ctor, Struct string }

type qSum struct {
	Lean     string
	Variants []qVariant
}

type qView struct{ Lean, Type string }

type qPkgVar struct{ Lean, Type, Init string }

type qExprView struct {
	Pat   string
	Lean  string // template with {X_..}
	Type  string
	Metas map[string]string
}

type qTarget struct {
	Func string // "Recv.Method" or "function"
	Lean string
	Doc  string
	Rec  bool // recursive through dynamic dispatch on slabs read from the storage: structural recursion on a depth argument
	Fuel bool // takes the depth argument and hands it to the recursive functions it calls
}

// qEnvMethod: a method of an object type that is NOT translated by this engine but a parameter `env.<Struct>_<method>`
// (the nesting machinery of Array; childSlabIndexInfo, which the stateless engine translates)
type qEnvMethod struct {
	RecvMut bool // the receiver is threaded through (the method can mutate it)
}

type qUnit struct {
	TypeVars   []string
	Types      map[string]qTypeInfo
	Structs    []string // Go struct types to generate, in dependency order
	Sums       []qSum
	SumAfter   string                // emit the inductive(s) after this struct
	Fields     map[string]qView      // "SlabID.address" -> view
	Methods    map[string]qView      // "SlabID.AddressAsUint64" -> view
	PkgVars    map[string]qPkgVar    // package variables with a checked initialiser
	EnvVars    map[string]string     // package variables that are fields of env -> Go type
	EnvMethods map[string]qEnvMethod // "Array.notifyParentIfNeeded" -> a parameter, not a target
	ExprViews  []qExprView
	Targets    []qTarget
}

// ---------------------------------------------------------------------------------------------
// types

func (u *qUnit) typeInfo(t string, tparams map[string]qTypeInfo) qTypeInfo {
	if tparams != nil {
		if ti, ok := tparams[t]; ok {
			return ti
		}
	}
	if ti, ok := u.Types[t]; ok {
		if (ti.Kind == "obj" || ti.Kind == "struct") && ti.Lean == "" {
			ti.Lean = u.structLean(ti.Struct)
		}
		if ti.Kind == "struct" && ti.Zero == "" {
			ti.Zero = ti.Struct + ".zero"
		}
		return ti
	}
	if strings.HasPrefix(t, "[]") {
		ei := u.typeInfo(t[2:], tparams)
		return qTypeInfo{Lean: "List " + paren(ei.Lean), Zero: "[]", Kind: "list", Elem: t[2:]}
	}
	fail("Go type %s is not in the type table of the slab engine", t)
	return qTypeInfo{}
}

// structFields: the kept fields of a Go struct declaration
func (u *qUnit) structFields(name string) (names, goTypes []string) {
	ts := typeSpecs[name]
	if ts == nil {
		fail("type %s not found", name)
	}
	stt, ok := ts.Type.(*ast.StructType)
	if !ok {
		fail("type %s is not a struct", name)
	}
	for _, f := range stt.Fields.List {
		t := goTypeOf(f.Type)
		if len(f.Names) == 0 {
			fail("embedded field %s in %s", t, name)
		}
		if u.typeInfo(t, nil).Kind == "drop" {
			continue
		}
		for _, n := range f.Names {
			names = append(names, n.Name)
			goTypes = append(goTypes, t)
		}
	}
	return
}

// fieldType of a struct field (dropped fields included, for the error message of their use)
func (u *qUnit) fieldType(strct, field string) (string, bool) {
	ts := typeSpecs[strct]
	if ts == nil {
		return "", false
	}
	stt, ok := ts.Type.(*ast.StructType)
	if !ok {
		return "", false
	}
	for _, f := range stt.Fields.List {
		for _, n := range f.Names {
			if n.Name == field {
				return goTypeOf(f.Type), true
			}
		}
	}
	return "", false
}

var qStructLeanMemo = map[string]string{}

// structLean: Lean type of a generated record = its name applied to the type variables its fields mention
func (u *qUnit) structLean(name string) string {
	if s, ok := qStructLeanMemo[name]; ok {
		return s
	}
	qStructLeanMemo[name] = name // recursion guard
	s := strings.TrimSpace(name + " " + strings.Join(u.structVars(name), " "))
	qStructLeanMemo[name] = s
	return s
}

func (u *qUnit) structVars(name string) []string {
	_, gts := u.structFields(name)
	var out []string
	for _, v := range u.TypeVars {
		for _, gt := range gts {
			if containsTok(u.typeInfo(gt, nil).Lean, v) {
				out = append(out, v)
				break
			}
		}
	}
	return out
}

func (u *qUnit) sumLean(s *qSum) string {
	var vars []string
	for _, v := range u.TypeVars {
		for _, va := range s.Variants {
			if containsTok(u.structLean(va.Struct), v) {
				vars = append(vars, v)
				break
			}
		}
	}
	return strings.TrimSpace(s.Lean + " " + strings.Join(vars, " "))
}

func (u *qUnit) sumByName(n string) *qSum {
	for i := range u.Sums {
		if u.Sums[i].Lean == n {
			return &u.Sums[i]
		}
	}
	fail("sum type %s not found", n)
	return nil
}

func (u *qUnit) envType() string { return strings.TrimSpace("Env " + strings.Join(u.TypeVars, " ")) }

// ---------------------------------------------------------------------------------------------
// variables, links

type qlink struct {
	root   string   // Lean name of the source root variable
	fields []string // field path under it
	inj    string   // template with {X}: the alias value as a value of the source's type
}

type qvar struct {
	goName, lean, typ string
	depth             int
	param             bool
	link              *qlink
	consumed          string // non-empty: why the variable must not be mentioned any more
}

type qenv struct {
	vars  []qvar
	depth int
}

func (e qenv) lookup(n string) *qvar {
	for i := len(e.vars) - 1; i >= 0; i-- {
		if e.vars[i].goName == n {
			return &e.vars[i]
		}
	}
	return nil
}

func (e qenv) byLean(n string) *qvar {
	for i := len(e.vars) - 1; i >= 0; i-- {
		if e.vars[i].lean == n {
			return &e.vars[i]
		}
	}
	return nil
}

func (e qenv) push() qenv { return qenv{e.vars[:len(e.vars):len(e.vars)], e.depth + 1} }

func (e qenv) popTo(outer qenv) qenv {
	return qenv{e.vars[:len(outer.vars):len(outer.vars)], outer.depth}
}

func (e qenv) declare(goName, typ string) (qenv, string) {
	if strings.HasSuffix(goName, "_") {
		fail("Go identifier %s ends with an underscore (reserved for generated names)", goName)
	}
	lean := goName
	if leanReserved[lean] || qReserved[lean] {
		lean += "_v"
	}
	base := lean
	for k := 1; ; k++ {
		clash := false
		for _, v := range e.vars {
			if v.lean == lean {
				clash = true
			}
		}
		if !clash {
			break
		}
		lean = fmt.Sprintf("%s_%d", base, k)
	}
	n := make([]qvar, len(e.vars), len(e.vars)+1)
	copy(n, e.vars)
	return qenv{append(n, qvar{goName: goName, lean: lean, typ: typ, depth: e.depth}), e.depth}, lean
}

// update returns a copy of the environment in which the variable with that Lean name is changed by f
func (e qenv) update(lean string, f func(*qvar)) qenv {
	n := make([]qvar, len(e.vars))
	copy(n, e.vars)
	for i := len(n) - 1; i >= 0; i-- {
		if n[i].lean == lean {
			f(&n[i])
			break
		}
	}
	return qenv{n, e.depth}
}

var qReserved = map[string]bool{"env": true, "Loop": true, "Env": true, "SlabID": true, "Nat": true, "Int": true, "Bool": true,
	"List": true, "Option": true, "E": true, "default": true, "meta": true, "data": true}

// ---------------------------------------------------------------------------------------------
// translator state

type qv struct {
	lean string
	typ  string // Go type; "nil", "untyped", "tuple:..", or a table type
}

type qfctx struct {
	ret   func(en qenv, results []ast.Expr) string
	pnc   func() string
	brk   func(en qenv) string
	cont  func(en qenv) string
	final func(string) string
	top   bool // the function's own context (not inside a loop): join points are allowed
}

type qparam struct {
	name, typ string
	kept      bool // has a Lean parameter
	mut       bool // its out-state is returned
	consumed  bool // slice parameter whose backing array is reused: callers must overwrite the argument
}

type qshape struct {
	ok      bool
	lean    string
	recv    string // Go struct name of the receiver ("" = function)
	recvMut bool
	params  []qparam
	res     []string
	aborts  bool
	generic bool
	tparams map[string]string // generic: type parameter -> "E" (element) / "[]E" (slice of it)
	fuel    bool              // takes the depth argument `depth_` after env
	recKey  string            // dispatcher: key of the implementation it reaches through its parameter `rec_` ("" = none)
}

type qEnvFn struct{ name, typ, doc string }

type qtrans struct {
	u         *qUnit
	t         *qTarget
	fd        *ast.FuncDecl
	recv      string // Go name of the receiver
	shape     qshape
	tparams   map[string]qTypeInfo
	aux       []string
	nloop     int
	ntmp      int
	njoin     int     // join tokens handed out
	nk        int     // join points emitted
	pre       []qitem // pending `let` lines and abort guards of the current statement, in evaluation order
	needPnc   bool
	rebound   map[string]bool // Lean paths ("a.header") rebound so far
	mutParam  map[string]bool // Lean names of parameters / receiver that were rebound
	consume   []string        // Lean names to mark consumed after the current statement
	consumeP  map[string]bool // parameters consumed (slice parameters of generics)
	lhsText   []string        // source text of the targets of the current assignment
	recvLean  string          // Lean name / type of the receiver
	recvType  string
	paramLean []string // Lean names of the parameters ("" = not kept)
	// the loop just translated (loopBody -> afterLoop)
	loopCall, loopTuple, loopTupleT string
	loopCarried                     []qvar
	loopHasRet                      bool
	recType                         string    // Rec target: Lean type of `rec_` (= this function at the smaller depth)
	curEnd                          token.Pos // end of the simple statement being translated (liveness of aliases)
	inLoop                          int
	viaSet                          bool            // the rebinding in progress is an element assignment `s[i] = v`
	nonSet                          map[string]bool // Lean paths rebound by something other than an element assignment
}

// per unit
var (
	qShapes = map[string]qshape{}
	qEnvFns []qEnvFn
	qEnvIdx = map[string]int{}
	qDisp   = map[string]bool{} // dispatchers emitted
	qDefs   []string            // generated definitions in order
)

func (x *qtrans) tmp(prefix string) string {
	x.ntmp++
	return fmt.Sprintf("%s%d_", prefix, x.ntmp)
}

func (x *qtrans) ti(t string) qTypeInfo {
	switch t {
	case "#depth":
		return qTypeInfo{Lean: "Nat", Kind: "nat"}
	case "#rec":
		return qTypeInfo{Lean: x.recType, Kind: "fn"}
	}
	return x.u.typeInfo(t, x.tparams)
}

// aliveAfter: is the Go variable mentioned after the statement being translated? (inside a loop: conservatively yes)
func (x *qtrans) aliveAfter(goName string) bool {
	if x.inLoop > 0 || x.fd == nil || x.curEnd == token.NoPos {
		return true
	}
	alive := false
	ast.Inspect(x.fd.Body, func(n ast.Node) bool {
		if id, ok := n.(*ast.Ident); ok && id.Name == goName && id.Pos() >= x.curEnd {
			alive = true
		}
		return !alive
	})
	return alive
}

func (x *qtrans) leanTypeOf(t string) string { return x.ti(t).Lean }

// ---------------------------------------------------------------------------------------------
// env functions

func (x *qtrans) tupleOf(goTypes []string) string {
	var parts []string
	for _, t := range goTypes {
		parts = append(parts, x.ti(t).Lean)
	}
	switch len(parts) {
	case 0:
		return "Unit"
	case 1:
		return parts[0]
	}
	return "(" + strings.Join(parts, " × ") + ")"
}

// envFn registers a parameter function: first (payload / state of the receiver, "" = none), the kept parameters,
// results followed by the new states of the state-typed arguments
func (x *qtrans) envFn(name, first string, params, results []string, states []string, doc string) {
	if _, ok := qEnvIdx[name]; ok {
		return
	}
	typ := ""
	if first != "" {
		typ = first + " → "
	}
	for _, p := range params {
		ti := x.ti(p)
		if ti.Kind == "drop" {
			continue
		}
		typ += paren(ti.Lean) + " → "
	}
	var parts []string
	for _, r := range results {
		parts = append(parts, x.ti(r).Lean)
	}
	parts = append(parts, states...)
	switch len(parts) {
	case 0:
		typ += "Unit"
	case 1:
		typ += parts[0]
	default:
		typ += "(" + strings.Join(parts, " × ") + ")"
	}
	qEnvIdx[name] = len(qEnvFns)
	qEnvFns = append(qEnvFns, qEnvFn{name, typ, doc})
}

// ---------------------------------------------------------------------------------------------
// lvalues

type qlval struct {
	root   *qvar
	fields []string
	index  string // Lean Int expression ("" = none)
	typ    string // Go type of the whole lvalue
	ctyp   string // Go type of the container (the list) when index != ""
}

func (lv qlval) pathKey() string {
	return strings.Join(append([]string{lv.root.lean}, lv.fields...), ".")
}

func (lv qlval) leanNoIndex() string {
	return strings.Join(append([]string{lv.root.lean}, lv.fields...), ".")
}

// lvalue parses `v`, `v.f.g`, `v.f[i]`
func (x *qtrans) lvalue(e ast.Expr, en qenv) (qlval, bool) {
	switch e := e.(type) {
	case *ast.ParenExpr:
		return x.lvalue(e.X, en)
	case *ast.Ident:
		v := en.lookup(e.Name)
		if v == nil {
			return qlval{}, false
		}
		return qlval{root: v, typ: v.typ}, true
	case *ast.SelectorExpr:
		b, ok := x.lvalue(e.X, en)
		if !ok || b.index != "" {
			return qlval{}, false
		}
		bi := x.ti(b.typ)
		if bi.Kind != "obj" && bi.Kind != "struct" {
			return qlval{}, false
		}
		ft, ok := x.u.fieldType(bi.Struct, e.Sel.Name)
		if !ok {
			return qlval{}, false
		}
		if x.ti(ft).Kind == "drop" {
			fail("field %s.%s has a dropped type", bi.Struct, e.Sel.Name)
		}
		return qlval{root: b.root, fields: append(append([]string{}, b.fields...), e.Sel.Name), typ: ft}, true
	case *ast.IndexExpr:
		b, ok := x.lvalue(e.X, en)
		if !ok || b.index != "" {
			return qlval{}, false
		}
		bi := x.ti(b.typ)
		if bi.Kind != "list" {
			return qlval{}, false
		}
		ix := x.intIndex(e.Index, en)
		return qlval{root: b.root, fields: b.fields, index: ix, typ: bi.Elem, ctyp: b.typ}, true
	}
	return qlval{}, false
}

// intIndex: an index expression as a Lean Int
func (x *qtrans) intIndex(e ast.Expr, en qenv) string {
	v := x.expr(e, en, "int")
	switch {
	case v.typ == "untyped":
		return "(" + v.lean + " : Int)"
	case x.ti(v.typ).Kind == "int":
		return v.lean
	case x.ti(v.typ).Kind == "uint":
		return "(Int.ofNat " + paren(v.lean) + ".toNat)"
	}
	fail("index %s of type %s", norm(src(e)), v.typ)
	return ""
}

// withPath builds the new value of the root when the field path receives val
func withPath(root string, fields []string, val string) string {
	if len(fields) == 0 {
		return val
	}
	inner := withPath(root+"."+fields[0], fields[1:], val)
	return "{ " + root + " with " + fields[0] + " := " + inner + " }"
}

func pathConflict(a, b string) bool {
	return a == b || strings.HasPrefix(a, b+".") || strings.HasPrefix(b, a+".")
}

// checkWritable: a write to this path must not go through the source of a live link (except as the write-back)
func (x *qtrans) checkWritable(path string, en qenv, exact bool) qenv {
	for _, v := range en.vars {
		if v.link == nil {
			continue
		}
		src := strings.Join(append([]string{v.link.root}, v.link.fields...), ".")
		if !pathConflict(src, path) {
			continue
		}
		if exact && src == path {
			// plain assignment to the source: it now names another object; the alias keeps its own
			en = en.update(v.lean, func(w *qvar) { w.link = nil })
			continue
		}
		if !x.aliveAfter(v.goName) {
			// the alias is never mentioned again: the link ends here
			en = en.update(v.lean, func(w *qvar) { w.link = nil; w.consumed = "the object it names was changed through " + path })
			continue
		}
		fail("write to %s while %s is an alias of %s (the copies would diverge)", path, v.goName, src)
	}
	return en
}

// rebind: `let root := newVal`, recorded, and written back through the link of the root
func (x *qtrans) rebind(root *qvar, fields []string, newVal string, en qenv, viaLink bool) qenv {
	path := strings.Join(append([]string{root.lean}, fields...), ".")
	if !viaLink {
		en = x.checkWritable(path, en, false)
	}
	if root.consumed != "" {
		fail("%s is written after %s", root.goName, root.consumed)
	}
	x.rebound[path] = true
	if !x.viaSet {
		x.nonSet[path] = true
	}
	if root.param {
		x.mutParam[root.lean] = true
	}
	x.emit("let " + root.lean + " : " + x.leanTypeOf(root.typ) + " := " + withPath(root.lean, fields, newVal) + "\n")
	cur := en.byLean(root.lean)
	if cur != nil && cur.link != nil {
		src := en.byLean(cur.link.root)
		if src == nil {
			fail("internal: source %s of the alias %s is out of scope", cur.link.root, root.goName)
		}
		en = x.rebind(src, cur.link.fields, strings.ReplaceAll(cur.link.inj, "{X}", root.lean), en, true)
	}
	return en
}

// store: lv := val (val already of the right type); plain = a whole-value assignment `lv = e`
func (x *qtrans) store(lv qlval, val string, en qenv, plain bool) qenv {
	if lv.index != "" {
		t := x.tmp("l")
		x.guard("goSet "+paren(lv.leanNoIndex())+" "+paren(lv.index)+" "+paren(val), t)
		x.viaSet = true // an element assignment keeps the length of the slice
		en = x.rebind(lv.root, lv.fields, t, en, false)
		x.viaSet = false
		return en
	}
	if plain {
		en = x.checkWritable(lv.pathKey(), en, true)
		// the target itself stops being an alias
		if len(lv.fields) == 0 {
			en = en.update(lv.root.lean, func(w *qvar) { w.link = nil })
			if v := en.byLean(lv.root.lean); v != nil {
				lv.root = v
			}
		}
	}
	return x.rebind(lv.root, lv.fields, val, en, false)
}

// link makes the variable `alias` an alias of the lvalue src
func (x *qtrans) link(en qenv, alias string, src qlval, inj string) qenv {
	if src.index != "" {
		fail("alias of a slice element")
	}
	sp := src.pathKey()
	for _, v := range en.vars {
		if v.link == nil || v.lean == alias {
			continue
		}
		if pathConflict(strings.Join(append([]string{v.link.root}, v.link.fields...), "."), sp) {
			fail("%s is already aliased by %s", sp, v.goName)
		}
	}
	if src.root.lean == alias {
		fail("alias of itself")
	}
	return en.update(alias, func(w *qvar) { w.link = &qlink{root: src.root.lean, fields: src.fields, inj: inj} })
}

// isRef: values of this kind are references to mutable objects
func isRefKind(k string) bool { return k == "obj" || k == "sum" || k == "state" }

// sorted keys helper
func qSortedKeys[V any](m map[string]V) []string {
	ks := make([]string, 0, len(m))
	for k := range m {
		ks = append(ks, k)
	}
	sort.Strings(ks)
	return ks
}
