package main

// statements, loops and whole functions of the stateful engine (see stateful.go)

import (
	"fmt"
	"go/ast"
	"go/token"
	"os"
	"sort"
	"strings"
)

type skont func(en senv) string

func (x *strans) leanTypeOf(goType string) string { return x.g.typeInfo(goType).Lean }

// finish builds the value a `return` yields from the tuple of the Go results (already Lean text)
func (x *strans) finish(res string, en senv) string {
	out := res
	if x.shape.mutating {
		rv := en.lookup(x.recv)
		if len(x.shape.res) == 0 {
			out = rv.lean
		} else {
			out = "(" + res + ", " + rv.lean + ")"
		}
	} else if len(x.shape.res) == 0 {
		out = "()"
	}
	if x.shape.panics {
		out = "some " + paren(out)
	}
	return out
}

func (x *strans) resultType() string {
	t := x.g.tupleOf(x.shape.res)
	if x.shape.mutating {
		if len(x.shape.res) == 0 {
			t = x.g.recvLean()
		} else {
			t = t + " × " + x.g.recvLean()
		}
	}
	if x.shape.panics {
		t = "Option (" + t + ")"
	}
	return t
}

// applyEffect emits the call, rebinds the receiver, and returns the Lean text of the results tuple
func (x *strans) applyEffect(eff *seffect, en senv) (pre string, res string) {
	if x.noEffect {
		fail("call with effects inside a closure")
	}
	r := x.tmp("r")
	rv := en.lookup(x.recv)
	call := eff.call
	if eff.panics {
		x.guards = append(x.guards, sguard{call, r})
	} else {
		pre = "let " + r + " := " + call + "\n"
	}
	st := r
	res = ""
	if len(eff.results) > 0 {
		st = r + ".2"
		res = r + ".1"
	}
	if eff.field != "" {
		pre += "let " + rv.lean + " : " + x.g.recvLean() + " := { " + rv.lean + " with " + eff.field + " := " + st + " }\n"
	} else {
		// callee is a method of the receiver: it returns the new receiver (if it mutates)
		key := ""
		_ = key
		pre += "let " + rv.lean + " : " + x.g.recvLean() + " := " + st + "\n"
	}
	return
}

// assignTo: `lhs = v` / `lhs := v`; mk builds the value given the wanted Go type ("" = none)
func (x *strans) assignTo(lhs ast.Expr, define bool, mk func(want string) sval, en senv) (string, senv) {
	switch l := lhs.(type) {
	case *ast.ParenExpr:
		return x.assignTo(l.X, define, mk, en)
	case *ast.Ident:
		if l.Name == "_" {
			return "", en
		}
		v := en.lookup(l.Name)
		if define && (v == nil || v.depth < en.depth) {
			val := mk("")
			switch val.typ {
			case "untyped":
				val = x.coerce(val, "int")
			case "nil":
				fail("`%s := nil`", l.Name)
			}
			if strings.HasPrefix(val.typ, "tuple:") {
				fail("multi-value in single-value context")
			}
			ti := x.g.typeInfo(val.typ)
			if ti.Kind == "drop" {
				fail("local %s of dropped type %s", l.Name, val.typ)
			}
			if ti.Kind == "map" && val.lean != "GoMap.empty" {
				fail("local %s would alias a map (Go maps are references; the translation copies values)", l.Name)
			}
			if ti.Kind == "recv" {
				fail("local %s would alias the receiver", l.Name)
			}
			if ti.Kind == "list" && identRe.FindString(val.lean) == val.lean {
				fail("local %s would alias the slice %s (shared backing array)", l.Name, val.lean)
			}
			en2, lean := en.declare(l.Name, val.typ)
			return "let " + lean + " : " + ti.Lean + " := " + val.lean + "\n", en2
		}
		if v == nil {
			fail("assignment to unknown variable %s", l.Name)
		}
		if x.noEffect && v.depth < x.closureDepth() {
			fail("closure assigns the outer variable %s", l.Name)
		}
		val := x.coerce(mk(v.typ), v.typ)
		x.noAlias(v.typ, val.lean, v.lean)
		if v.param && x.g.typeInfo(v.typ).Kind == "map" {
			fail("assignment to the caller's map %s", l.Name)
		}
		if ki := x.g.typeInfo(v.typ).Kind; (ki == "list" && identRe.FindString(val.lean) == val.lean && val.lean != v.lean) || ki == "recv" {
			fail("assignment to %s would alias a slice / the receiver", l.Name)
		}
		return "let " + v.lean + " : " + x.leanTypeOf(v.typ) + " := " + val.lean + "\n", en
	case *ast.SelectorExpr:
		if f, ok := x.recvField(l); ok {
			if x.noEffect {
				fail("closure assigns a receiver field")
			}
			ft, ok := x.g.fieldType(f)
			if !ok || x.g.typeInfo(ft).Kind == "drop" {
				fail("assignment to the field %s (unknown or dropped)", f)
			}
			rv := en.lookup(x.recv)
			val := x.coerce(mk(ft), ft)
			x.noAlias(ft, val.lean, rv.lean+"."+f)
			return "let " + rv.lean + " : " + x.g.recvLean() + " := { " + rv.lean + " with " + f + " := " + val.lean + " }\n", en
		}
	case *ast.IndexExpr:
		m := x.expr(l.X, en, "")
		mi := x.g.typeInfo(m.typ)
		if mi.Kind != "map" {
			fail("assignment to an element of %s (only maps)", m.typ)
		}
		k := x.coerce(x.expr(l.Index, en, mi.Key), mi.Key)
		val := x.coerce(mk(mi.Elem), mi.Elem)
		return x.assignTo(l.X, false, func(string) sval {
			return sval{"GoMap.set " + paren(m.lean) + " " + paren(k.lean) + " " + paren(val.lean), m.typ}
		}, en)
	}
	fail("unsupported assignment target %s", norm(src(lhs)))
	return "", en
}

func (x *strans) closureDepth() int { return x.clDepth }

// noAlias: Go maps are references; the translation treats them as values, which is sound only if a map is never
// reachable under two names.  A map-typed target may receive `make(..)` / nil or an update of ITSELF only.
func (x *strans) noAlias(goType, val, self string) {
	if x.g.typeInfo(goType).Kind != "map" {
		return
	}
	if val == "GoMap.empty" || strings.HasPrefix(val, "GoMap.set "+paren(self)+" ") || strings.HasPrefix(val, "GoMap.delete "+paren(self)+" ") {
		return
	}
	fail("assignment would alias a map (Go maps are references; the translation copies values)")
}

// bindMany assigns the components of one multi-valued Lean expression to the targets
func (x *strans) bindMany(lhs []ast.Expr, define bool, tupleExpr string, types []string, en senv) (string, senv) {
	if len(lhs) != len(types) {
		fail("assignment mismatch: %d targets, %d values", len(lhs), len(types))
	}
	out := ""
	for i := range lhs {
		i := i
		t, e2 := x.assignTo(lhs[i], define, func(string) sval { return sval{proj(tupleExpr, i, len(types)), types[i]} }, en)
		out += t
		en = e2
	}
	return out, en
}

func (x *strans) assign(s *ast.AssignStmt, en senv, fc *sfctx, next skont) string {
	g0 := len(x.guards)
	define := s.Tok == token.DEFINE
	if s.Tok != token.DEFINE && s.Tok != token.ASSIGN {
		// op-assign
		ops := map[token.Token]token.Token{token.ADD_ASSIGN: token.ADD, token.SUB_ASSIGN: token.SUB, token.MUL_ASSIGN: token.MUL}
		op, ok := ops[s.Tok]
		if !ok || len(s.Lhs) != 1 || len(s.Rhs) != 1 {
			fail("unsupported assignment %s", norm(src(s)))
		}
		text, en2 := x.assignTo(s.Lhs[0], false, func(string) sval {
			return x.binary(&ast.BinaryExpr{X: s.Lhs[0], Op: op, Y: s.Rhs[0]}, en)
		}, en)
		return x.withGuards(g0, fc, text+next(en2))
	}
	if len(s.Rhs) == 1 {
		rhs := s.Rhs[0]
		// comma-ok map read
		if ix, ok := rhs.(*ast.IndexExpr); ok && len(s.Lhs) == 2 {
			m := x.expr(ix.X, en, "")
			mi := x.g.typeInfo(m.typ)
			if mi.Kind != "map" {
				fail("comma-ok on %s", m.typ)
			}
			k := x.coerce(x.expr(ix.Index, en, mi.Key), mi.Key)
			z := x.g.typeInfo(mi.Elem).Zero
			if z == "" {
				fail("no zero value for %s", mi.Elem)
			}
			r := x.tmp("r")
			pre := "let " + r + " := GoMap.get2 " + paren(m.lean) + " " + paren(k.lean) + " " + paren(z) + "\n"
			text, en2 := x.bindMany(s.Lhs, define, r, []string{mi.Elem, "bool"}, en)
			return x.withGuards(g0, fc, pre+text+next(en2))
		}
		if c, ok := rhs.(*ast.CallExpr); ok {
			if len(s.Lhs) == 1 && !define {
				x.appendTo = idName(s.Lhs[0])
			}
			v, eff := x.call(c, en)
			x.appendTo = ""
			if eff != nil {
				pre, res := x.applyEffect(eff, en)
				text, en2 := x.bindMany(s.Lhs, define, res, eff.results, en)
				return x.withGuards(g0, fc, pre+text+next(en2))
			}
			if parts := tupleParts(v.typ); len(parts) != 1 {
				r := x.tmp("r")
				pre := "let " + r + " := " + v.lean + "\n"
				text, en2 := x.bindMany(s.Lhs, define, r, parts, en)
				return x.withGuards(g0, fc, pre+text+next(en2))
			}
			if len(s.Lhs) != 1 {
				fail("assignment mismatch in %s", norm(src(s)))
			}
			text, en2 := x.assignTo(s.Lhs[0], define, func(want string) sval { return v }, en)
			return x.withGuards(g0, fc, text+next(en2))
		}
		if len(s.Lhs) != 1 {
			fail("assignment mismatch in %s", norm(src(s)))
		}
		text, en2 := x.assignTo(s.Lhs[0], define, func(want string) sval { return x.expr(rhs, en, want) }, en)
		return x.withGuards(g0, fc, text+next(en2))
	}
	if len(s.Lhs) != len(s.Rhs) {
		fail("assignment mismatch in %s", norm(src(s)))
	}
	// parallel assignment: all right-hand sides first (in the old environment), through temporaries
	pre := ""
	tmps := make([]sval, len(s.Rhs))
	for i, r := range s.Rhs {
		want := ""
		if id, ok := s.Lhs[i].(*ast.Ident); ok && !define {
			if v := en.lookup(id.Name); v != nil {
				want = v.typ
			}
		}
		v := x.expr(r, en, want)
		if want != "" {
			v = x.coerce(v, want)
		}
		if v.typ == "untyped" {
			v = x.coerce(v, "int")
		}
		if v.typ == "nil" {
			fail("nil in a parallel assignment")
		}
		t := x.tmp("t")
		pre += "let " + t + " : " + x.leanTypeOf(v.typ) + " := " + v.lean + "\n"
		tmps[i] = sval{t, v.typ}
	}
	cur := en
	for i := range s.Lhs {
		i := i
		t, e2 := x.assignTo(s.Lhs[i], define, func(string) sval { return tmps[i] }, cur)
		pre += t
		cur = e2
	}
	return x.withGuards(g0, fc, pre+next(cur))
}

func (x *strans) stmts(list []ast.Stmt, en senv, fc *sfctx, k skont) string {
	if len(list) == 0 {
		return k(en)
	}
	s, rest := list[0], list[1:]
	next := func(en senv) string { return x.stmts(rest, en, fc, k) }
	g0 := len(x.guards)
	switch s := s.(type) {
	case *ast.EmptyStmt:
		return next(en)
	case *ast.BlockStmt:
		return x.stmts(s.List, en.push(), fc, func(en2 senv) string { return next(en2.popTo(en)) })
	case *ast.ReturnStmt:
		return fc.ret(en, s.Results)
	case *ast.BranchStmt:
		if s.Label != nil {
			fail("labelled %s", s.Tok)
		}
		switch {
		case s.Tok == token.BREAK && fc.brk != nil:
			return fc.brk(en)
		case s.Tok == token.CONTINUE && fc.cont != nil:
			return fc.cont(en)
		}
		fail("unsupported %s", s.Tok)
	case *ast.DeclStmt:
		gd, ok := s.Decl.(*ast.GenDecl)
		if !ok || gd.Tok != token.VAR {
			fail("unsupported declaration %s", norm(src(s)))
		}
		out := ""
		cur := en
		for _, sp := range gd.Specs {
			vs := sp.(*ast.ValueSpec)
			if len(vs.Values) != 0 || vs.Type == nil {
				fail("unsupported declaration %s", norm(src(s)))
			}
			t := goTypeOf(vs.Type)
			ti := x.g.typeInfo(t)
			if ti.Zero == "" {
				fail("`var _ %s`: no zero value known", t)
			}
			for _, n := range vs.Names {
				var lean string
				cur, lean = cur.declare(n.Name, t)
				out += "let " + lean + " : " + ti.Lean + " := " + ti.Zero + "\n"
			}
		}
		return out + next(cur)
	case *ast.IncDecStmt:
		op := token.ADD
		if s.Tok == token.DEC {
			op = token.SUB
		}
		text, en2 := x.assignTo(s.X, false, func(string) sval {
			return x.binary(&ast.BinaryExpr{X: s.X, Op: op, Y: &ast.BasicLit{Kind: token.INT, Value: "1"}}, en)
		}, en)
		return x.withGuards(g0, fc, text+next(en2))
	case *ast.AssignStmt:
		return x.assign(s, en, fc, next)
	case *ast.ExprStmt:
		c, ok := s.X.(*ast.CallExpr)
		if !ok {
			fail("unsupported statement %s", norm(src(s)))
		}
		if isIdent(c.Fun, "panic") {
			x.needPnc = true
			return fc.pnc()
		}
		if isIdent(c.Fun, "delete") && len(c.Args) == 2 {
			m := x.expr(c.Args[0], en, "")
			mi := x.g.typeInfo(m.typ)
			if mi.Kind != "map" {
				fail("delete on %s", m.typ)
			}
			kv := x.coerce(x.expr(c.Args[1], en, mi.Key), mi.Key)
			text, en2 := x.assignTo(c.Args[0], false, func(string) sval {
				return sval{"GoMap.delete " + paren(m.lean) + " " + paren(kv.lean), m.typ}
			}, en)
			return x.withGuards(g0, fc, text+next(en2))
		}
		if isSel(c.Fun, "sort", "Slice") {
			return x.sortSlice(c, en, fc, next)
		}
		for _, sv := range x.g.StmtViews {
			b := map[string]ast.Expr{}
			if match(mustExpr(sv.Pat), c, b) {
				val := sv.Value
				for _, mk := range sortedKeys(sv.Metas) {
					if mk == sv.Assign {
						continue
					}
					mv := x.coerce(x.expr(b[mk], en, sv.Metas[mk]), sv.Metas[mk])
					val = strings.ReplaceAll(val, "{"+mk+"}", paren(mv.lean))
				}
				tv := x.expr(b[sv.Assign], en, "")
				if tv.typ != sv.Type {
					fail("statement view %s: %s has type %s, want %s", sv.Pat, norm(src(b[sv.Assign])), tv.typ, sv.Type)
				}
				text, en2 := x.assignTo(b[sv.Assign], false, func(string) sval { return sval{val, sv.Type} }, en)
				return x.withGuards(g0, fc, text+next(en2))
			}
		}
		v, eff := x.call(c, en)
		_ = v
		if eff != nil {
			pre, _ := x.applyEffect(eff, en)
			return x.withGuards(g0, fc, pre+next(en))
		}
		fail("call statement without effect %s", norm(src(s)))
	case *ast.IfStmt:
		return x.ifStmt(s, en, fc, next)
	case *ast.RangeStmt:
		return x.rangeStmt(s, rest, en, fc, next)
	}
	fail("unsupported statement %s", norm(src(s)))
	return ""
}

func (x *strans) ifStmt(s *ast.IfStmt, en senv, fc *sfctx, next skont) string {
	after := func(en2 senv) string { return next(en2.popTo(en)) }
	body := func(inner senv) string {
		g0 := len(x.guards)
		c := x.coerce(x.expr(s.Cond, inner, "bool"), "bool")
		thenT := x.stmts(s.Body.List, inner.push(), fc, after)
		var elseT string
		switch e := s.Else.(type) {
		case nil:
			elseT = after(inner)
		case *ast.BlockStmt:
			elseT = x.stmts(e.List, inner.push(), fc, after)
		case *ast.IfStmt:
			elseT = x.ifStmt(e, inner.push(), fc, after)
		default:
			fail("unsupported else part")
		}
		return x.withGuards(g0, fc, "if "+c.lean+" then\n  "+indent(thenT, 2)+"\nelse\n  "+indent(elseT, 2))
	}
	if s.Init != nil {
		return x.stmts([]ast.Stmt{s.Init}, en.push(), fc, body)
	}
	return body(en)
}

// ---------------------------------------------------------------------------------------------
// which outer variables does a statement list assign?

func (x *strans) assignedOuter(list []ast.Stmt, en senv) []svar {
	found := map[string]bool{}
	base := func(e ast.Expr) string {
		for {
			switch t := e.(type) {
			case *ast.ParenExpr:
				e = t.X
			case *ast.IndexExpr:
				e = t.X
			case *ast.SelectorExpr:
				e = t.X
			case *ast.SliceExpr:
				e = t.X
			case *ast.Ident:
				return t.Name
			default:
				return ""
			}
		}
	}
	mark := func(name string, inner map[string]bool) {
		if name == "" || name == "_" || inner[name] {
			return
		}
		if en.lookup(name) != nil {
			found[name] = true
		}
	}
	calls := func(n ast.Node, inner map[string]bool) {
		ast.Inspect(n, func(n ast.Node) bool {
			switch c := n.(type) {
			case *ast.FuncLit:
				return false
			case *ast.CallExpr:
				if isIdent(c.Fun, "delete") && len(c.Args) == 2 {
					mark(base(c.Args[0]), inner)
				}
				if isSel(c.Fun, "sort", "Slice") && len(c.Args) == 2 {
					mark(base(c.Args[0]), inner)
				}
				for _, sv := range x.g.StmtViews {
					b := map[string]ast.Expr{}
					if match(mustExpr(sv.Pat), c, b) {
						mark(base(b[sv.Assign]), inner)
					}
				}
				if sel, ok := c.Fun.(*ast.SelectorExpr); ok && x.recv != "" {
					if isIdent(sel.X, x.recv) {
						if sh, ok := sShapes[x.g.Recv+"."+sel.Sel.Name]; !ok || sh.mutating {
							mark(x.recv, inner)
						}
					} else if f, ok := x.recvField(sel.X); ok {
						if ft, ok := x.g.fieldType(f); ok && x.g.Types[ft].Kind == "iface" {
							mark(x.recv, inner)
						}
					}
				}
			}
			return true
		})
	}
	var walk func(list []ast.Stmt, inner map[string]bool)
	cp := func(m map[string]bool) map[string]bool {
		n := map[string]bool{}
		for k := range m {
			n[k] = true
		}
		return n
	}
	walk = func(list []ast.Stmt, inner map[string]bool) {
		in := cp(inner)
		for _, s := range list {
			switch s := s.(type) {
			case *ast.AssignStmt:
				calls(s, in)
				for _, l := range s.Lhs {
					if s.Tok == token.DEFINE {
						if id, ok := l.(*ast.Ident); ok {
							in[id.Name] = true
						}
						continue
					}
					mark(base(l), in)
				}
			case *ast.IncDecStmt:
				mark(base(s.X), in)
			case *ast.ExprStmt, *ast.ReturnStmt:
				calls(s, in)
			case *ast.DeclStmt:
				if gd, ok := s.Decl.(*ast.GenDecl); ok {
					for _, sp := range gd.Specs {
						if vs, ok := sp.(*ast.ValueSpec); ok {
							for _, n := range vs.Names {
								in[n.Name] = true
							}
						}
					}
				}
			case *ast.IfStmt:
				in2 := cp(in)
				if s.Init != nil {
					if a, ok := s.Init.(*ast.AssignStmt); ok && a.Tok == token.DEFINE {
						calls(a, in2)
						for _, l := range a.Lhs {
							if id, ok := l.(*ast.Ident); ok {
								in2[id.Name] = true
							}
						}
					} else {
						walk([]ast.Stmt{s.Init}, in2)
					}
				}
				calls(s.Cond, in2)
				walk(s.Body.List, in2)
				if s.Else != nil {
					walk([]ast.Stmt{s.Else}, in2)
				}
			case *ast.BlockStmt:
				walk(s.List, in)
			case *ast.RangeStmt:
				in2 := cp(in)
				if s.Tok == token.DEFINE {
					for _, e := range []ast.Expr{s.Key, s.Value} {
						if id, ok := e.(*ast.Ident); ok {
							in2[id.Name] = true
						}
					}
				}
				walk(s.Body.List, in2)
			case *ast.ForStmt:
				in2 := cp(in)
				if s.Init != nil {
					walk([]ast.Stmt{s.Init}, in2)
					if a, ok := s.Init.(*ast.AssignStmt); ok && a.Tok == token.DEFINE {
						for _, l := range a.Lhs {
							if id, ok := l.(*ast.Ident); ok {
								in2[id.Name] = true
							}
						}
					}
				}
				if s.Post != nil {
					walk([]ast.Stmt{s.Post}, in2)
				}
				walk(s.Body.List, in2)
			}
		}
	}
	walk(list, map[string]bool{})
	var out []svar
	seen := map[string]bool{}
	for _, v := range en.vars {
		if found[v.goName] && en.lookup(v.goName).lean == v.lean && !seen[v.lean] {
			seen[v.lean] = true
			out = append(out, v)
		}
	}
	return out
}

// ---------------------------------------------------------------------------------------------
// loops

func (x *strans) rangeStmt(s *ast.RangeStmt, rest []ast.Stmt, en senv, fc *sfctx, next skont) string {
	if s.Tok != token.DEFINE && (s.Key != nil || s.Value != nil) {
		fail("range with assignment to existing variables")
	}
	coll := x.expr(s.X, en, "")
	ci := x.g.typeInfo(coll.typ)
	if ci.Kind != "map" && ci.Kind != "list" {
		fail("range over %s", coll.typ)
	}
	if ci.Kind == "map" {
		x.orderInsensitive(s, rest, en)
	}
	x.nloop++
	n := x.nloop
	name := fmt.Sprintf("%s.loop%d", x.t.Lean, n)
	carried := x.assignedOuter(s.Body.List, en)
	hasRet := hasReturn(s.Body.List) || x.shape.panics
	idName2 := func(e ast.Expr) string {
		if e == nil {
			return "_"
		}
		return idName(e)
	}
	body := en.push()
	var pat, elemT string
	if ci.Kind == "map" {
		kl, vl := "_", "_"
		if kn := idName2(s.Key); kn != "_" {
			body, kl = body.declare(kn, ci.Key)
		}
		if vn := idName2(s.Value); vn != "_" {
			body, vl = body.declare(vn, ci.Elem)
		}
		pat = "(" + kl + ", " + vl + ")"
		elemT = "(" + x.leanTypeOf(ci.Key) + " × " + x.leanTypeOf(ci.Elem) + ")"
	} else {
		if kn := idName2(s.Key); kn != "_" {
			fail("range over a slice with an index variable")
		}
		vl := "_"
		if vn := idName2(s.Value); vn != "_" {
			body, vl = body.declare(vn, ci.Elem)
		}
		pat = vl
		elemT = x.leanTypeOf(ci.Elem)
	}
	cnames := make([]string, len(carried))
	ctypes := make([]string, len(carried))
	for i, v := range carried {
		cnames[i] = v.lean
		ctypes[i] = x.leanTypeOf(v.typ)
	}
	ctuple := "()"
	ctupleT := "Unit"
	if len(carried) == 1 {
		ctuple, ctupleT = cnames[0], ctypes[0]
	} else if len(carried) > 1 {
		ctuple, ctupleT = "("+strings.Join(cnames, ", ")+")", "("+strings.Join(ctypes, " × ")+")"
	}
	resT := ctupleT
	done := ctuple
	if hasRet {
		resT = "Loop (" + x.resultType() + ") " + paren(ctupleT)
		done = ".done " + ctuple
	}
	recur := fmt.Sprintf("RECUR_%d_", n)
	lf := &sfctx{
		ret: func(en2 senv, rs []ast.Expr) string {
			return x.retCore(en2, rs, fc, func(v string) string { return ".ret " + paren(fc.final(v)) }, true)
		},
		brk:  func(senv) string { return done },
		cont: func(senv) string { return recur },
		loop: true,
	}
	lf.final = func(v string) string { return ".ret " + paren(fc.final(v)) }
	lf.pnc = func() string { return ".ret " + paren(fc.pnc()) }
	bodyText := x.stmts(s.Body.List, body, lf, func(senv) string { return recur })
	// free variables: outer variables the body mentions and does not carry
	toks := map[string]bool{}
	for _, t := range identRe.FindAllString(bodyText, -1) {
		toks[t] = true
	}
	var frees []svar
	seen := map[string]bool{}
	for i := len(en.vars) - 1; i >= 0; i-- {
		v := en.vars[i]
		if seen[v.lean] {
			continue
		}
		seen[v.lean] = true
		isC := false
		for _, c := range carried {
			isC = isC || c.lean == v.lean
		}
		if !isC && toks[v.lean] {
			frees = append([]svar{v}, frees...)
		}
	}
	fdecl, fargs := "", ""
	for _, v := range frees {
		fdecl += " (" + v.lean + " : " + x.leanTypeOf(v.typ) + ")"
		fargs += " " + v.lean
	}
	cargs := ""
	for _, c := range cnames {
		cargs += " " + c
	}
	callHead := name + " env" + fargs
	bodyText = strings.ReplaceAll(bodyText, recur, callHead+" rest_"+cargs)
	sig := "List " + elemT
	for _, t := range ctypes {
		sig += " → " + t
	}
	pats := ""
	for _, c := range cnames {
		pats += ", " + c
	}
	def := fmt.Sprintf("/-- loop %d of `%s`: `for %s` (%s, in list order) -/\ndef %s (env : %s)%s :\n    %s → %s\n", n, x.t.Func,
		norm(rangeHeader(s)), map[string]string{"map": "range over a map", "list": "range over a slice"}[ci.Kind], name, x.g.envType(), fdecl, sig, resT)
	def += "  | []" + pats + " => " + done + "\n"
	def += "  | " + pat + " :: rest_" + pats + " =>\n    " + indent(bodyText, 4) + "\n"
	x.aux = append(x.aux, def)
	call := callHead + " " + paren(coll.lean) + cargs
	if hasRet {
		return "match " + call + " with\n| .ret r_ => " + fc.final("r_") + "\n| .done " + ctuple + " =>\n  " + indent(next(en), 2)
	}
	if len(carried) == 0 {
		return next(en)
	}
	if len(carried) == 1 {
		return "let " + ctuple + " : " + ctupleT + " := " + call + "\n" + next(en)
	}
	return "match " + call + " with\n| " + ctuple + " =>\n  " + indent(next(en), 2)
}

// orderInsensitive: the body of a range over a map must be of one of the listed shapes (see stateful.go)
func (x *strans) orderInsensitive(s *ast.RangeStmt, rest []ast.Stmt, en senv) {
	acc := map[string]bool{}
	for _, v := range x.assignedOuter(s.Body.List, en) {
		acc[v.goName] = true
	}
	pure := func(e ast.Expr) {
		ast.Inspect(e, func(n ast.Node) bool {
			if id, ok := n.(*ast.Ident); ok && acc[id.Name] {
				fail("range over a map: `%s` reads the accumulator %s (order-sensitive)", norm(src(e)), id.Name)
			}
			return true
		})
	}
	retText := ""
	var simple func(st ast.Stmt, guarded bool)
	simple = func(st ast.Stmt, guarded bool) {
		switch t := st.(type) {
		case *ast.IncDecStmt:
			if t.Tok == token.INC && idName(t.X) != "" {
				return
			}
		case *ast.AssignStmt:
			if (t.Tok == token.ADD_ASSIGN) && len(t.Lhs) == 1 && idName(t.Lhs[0]) != "" {
				pure(t.Rhs[0])
				return
			}
			if t.Tok == token.ASSIGN && len(t.Lhs) == 1 && len(t.Rhs) == 1 {
				if c, ok := t.Rhs[0].(*ast.CallExpr); ok && isIdent(c.Fun, "append") && len(c.Args) == 2 &&
					idName(t.Lhs[0]) != "" && isIdent(c.Args[0], idName(t.Lhs[0])) {
					pure(c.Args[1])
					ok2 := false
					if len(rest) > 0 {
						if es, ok := rest[0].(*ast.ExprStmt); ok {
							if sc, ok := es.X.(*ast.CallExpr); ok && isSel(sc.Fun, "sort", "Slice") && len(sc.Args) == 2 &&
								isIdent(sc.Args[0], idName(t.Lhs[0])) {
								ok2 = true
							}
						}
					}
					if !ok2 {
						fail("range over a map collects into %s, which is not sorted by the next statement (order-sensitive)", idName(t.Lhs[0]))
					}
					return
				}
			}
		case *ast.BranchStmt:
			if t.Tok == token.CONTINUE && t.Label == nil && guarded {
				return
			}
		case *ast.ReturnStmt:
			if guarded {
				for _, r := range t.Results {
					switch r := r.(type) {
					case *ast.BasicLit:
					case *ast.Ident:
						if r.Name != "true" && r.Name != "false" && r.Name != "nil" {
							fail("range over a map: `%s` returns a non-constant (order-sensitive)", norm(src(t)))
						}
					default:
						fail("range over a map: `%s` returns a non-constant (order-sensitive)", norm(src(t)))
					}
				}
				if retText != "" && retText != norm(src(t)) {
					fail("range over a map: different `return`s in the body (order-sensitive)")
				}
				retText = norm(src(t))
				return
			}
		}
		fail("range over a map: statement `%s` is not of an order-insensitive shape (count, sum, exists, filter-then-sort)", norm(src(st)))
	}
	for _, st := range s.Body.List {
		if ifs, ok := st.(*ast.IfStmt); ok {
			if ifs.Init != nil || ifs.Else != nil || len(ifs.Body.List) != 1 {
				fail("range over a map: `if` with init / else / several statements in the body")
			}
			pure(ifs.Cond)
			simple(ifs.Body.List[0], true)
			continue
		}
		simple(st, false)
	}
}

// sort.Slice(l, func(i, j int) bool { ... })  ->  let l := goSortSlice (fun a_ b_ => ..) l
func (x *strans) sortSlice(c *ast.CallExpr, en senv, fc *sfctx, next skont) string {
	if len(c.Args) != 2 {
		fail("sort.Slice with %d arguments", len(c.Args))
	}
	lname := idName(c.Args[0])
	lv := en.lookup(lname)
	if lv == nil || x.g.typeInfo(lv.typ).Kind != "list" {
		fail("sort.Slice of %s: not a local slice", norm(src(c.Args[0])))
	}
	fl, ok := c.Args[1].(*ast.FuncLit)
	if !ok {
		fail("sort.Slice: the less function is not a function literal")
	}
	pn, pt := fieldNames(fl.Type.Params)
	_, rt := fieldNames(fl.Type.Results)
	if len(pn) != 2 || pt[0] != "int" || pt[1] != "int" || len(rt) != 1 || rt[0] != "bool" {
		fail("sort.Slice: less function is not func(i, j int) bool")
	}
	if x.sortElem != nil || x.noEffect {
		fail("nested closures")
	}
	elem := x.g.typeInfo(lv.typ).Elem
	x.sortElem = map[string]string{lname + "[" + pn[0] + "]": "a_", lname + "[" + pn[1] + "]": "b_", "#type": elem}
	x.noEffect = true
	x.clDepth = en.depth + 1
	g0 := len(x.guards)
	cf := &sfctx{
		ret: func(en2 senv, rs []ast.Expr) string {
			if len(rs) != 1 {
				fail("less function returns %d values", len(rs))
			}
			return x.coerce(x.expr(rs[0], en2, "bool"), "bool").lean
		},
		pnc: func() string { fail("panic inside a less function"); return "" },
	}
	cf.final = func(v string) string { return v }
	body := x.stmts(fl.Body.List, en.push(), cf, func(senv) string { fail("less function can end without return"); return "" })
	if len(x.guards) != g0 {
		fail("a call that can panic inside a less function")
	}
	x.sortElem, x.noEffect = nil, false
	et := x.leanTypeOf(elem)
	text := "let " + lv.lean + " : " + x.leanTypeOf(lv.typ) + " := goSortSlice (fun (a_ b_ : " + et + ") =>\n    " + indent(body, 4) + ") " + lv.lean + "\n"
	return text + next(en)
}

// ---------------------------------------------------------------------------------------------
// return

// retCore: `return e1, .., en`; wrap turns the function's final value into what this context yields
func (x *strans) retCore(en senv, rs []ast.Expr, fc *sfctx, wrap func(string) string, _ bool) string {
	g0 := len(x.guards)
	res := x.shape.res
	if len(rs) == 0 && len(res) > 0 {
		fail("bare return with results")
	}
	// `return f()` with a multi-valued or effectful call
	if len(rs) == 1 {
		if c, ok := rs[0].(*ast.CallExpr); ok {
			v, eff := x.call(c, en)
			if eff != nil {
				if tupleTyp(eff.results) != tupleTyp(res) {
					fail("return of a call with results %v, function returns %v", eff.results, res)
				}
				pre, r := x.applyEffect(eff, en)
				return x.withGuards(g0, fc, pre+wrap(x.finish(r, en)))
			}
			if len(res) > 1 {
				if v.typ != tupleTyp(res) {
					fail("return of a call of type %s, function returns %v", v.typ, res)
				}
				return x.withGuards(g0, fc, wrap(x.finish(v.lean, en)))
			}
		}
	}
	if len(rs) != len(res) {
		fail("return with %d values, function has %d results", len(rs), len(res))
	}
	var parts []string
	for i, r := range rs {
		v := x.coerce(x.expr(r, en, res[i]), res[i])
		parts = append(parts, v.lean)
	}
	t := ""
	switch len(parts) {
	case 0:
	case 1:
		t = parts[0]
	default:
		t = "(" + strings.Join(parts, ", ") + ")"
	}
	return x.withGuards(g0, fc, wrap(x.finish(t, en)))
}

// ---------------------------------------------------------------------------------------------
// one target

func (g *sGroup) envType() string {
	return strings.TrimSpace(g.Recv + "_Env " + strings.Join(g.TypeVars, " "))
}

func translateS(g *sGroup, t *sTarget) (text string, reason string) {
	key := t.Func
	var x *strans
	run := func(panics bool) (out string) {
		x = &strans{g: g, t: t}
		fd := funcs[t.Func]
		if fd == nil {
			fail("function %s not found in the package", t.Func)
		}
		if fd.Body == nil {
			fail("function %s has no body", t.Func)
		}
		x.fd = fd
		en := senv{}
		if fd.Recv != nil {
			rt := goTypeOf(fd.Recv.List[0].Type)
			if rt != "*"+g.Recv {
				fail("receiver type %s, group is for *%s", rt, g.Recv)
			}
			if len(fd.Recv.List[0].Names) == 1 {
				x.recv = fd.Recv.List[0].Names[0].Name
				en, _ = en.declare(x.recv, rt)
			}
		}
		pn, pt := fieldNames(fd.Type.Params)
		params := ""
		if fd.Recv != nil {
			params = " (" + en.lookup(x.recv).lean + " : " + g.recvLean() + ")"
		}
		for i := range pn {
			ti := g.typeInfo(pt[i])
			if ti.Kind == "drop" {
				continue
			}
			if pn[i] == "" || pn[i] == "_" {
				pn[i] = fmt.Sprintf("arg%d", i)
			}
			var lean string
			en, lean = en.declare(pn[i], pt[i])
			en.vars[len(en.vars)-1].param = true
			params += " (" + lean + " : " + ti.Lean + ")"
		}
		rn, rt := fieldNames(fd.Type.Results)
		for _, n := range rn {
			if n != "" && n != "_" {
				fail("named results")
			}
		}
		x.shape = sshape{res: rt, params: pt, lean: t.Lean, panics: panics}
		for _, v := range x.assignedOuter(fd.Body.List, en) {
			if v.goName == x.recv {
				x.shape.mutating = true
			}
		}
		fc := &sfctx{}
		fc.final = func(v string) string { return v }
		fc.pnc = func() string {
			x.needPnc = true
			return "none"
		}
		fc.ret = func(en2 senv, rs []ast.Expr) string { return x.retCore(en2, rs, fc, fc.final, false) }
		body := x.stmts(fd.Body.List, en.push(), fc, func(en2 senv) string {
			if len(rt) != 0 {
				fail("function body can end without return")
			}
			return x.finish("", en2)
		})
		doc := fmt.Sprintf("/-- `%s` (%s)", t.Func, funcFile[t.Func])
		if t.Doc != "" {
			doc += ": " + t.Doc
		}
		doc += " -/\n"
		out = strings.Join(x.aux, "\n")
		if out != "" {
			out += "\n"
		}
		return out + doc + "def " + t.Lean + " (env : " + g.envType() + ")" + params + " :\n    " + x.resultType() + " :=\n  " + indent(body, 2) + "\n"
	}
	defer func() {
		if r := recover(); r != nil {
			te, ok := r.(transErr)
			if !ok {
				// an internal error of the translator on unforeseen input is a verdict about the function
				// ("not translated"), never a crash of the check
				te = transErr{fmt.Sprintf("internal error of the translator: %v", r)}
			}
			reason = te.msg
			sShapes[key] = sshape{}
			text = fmt.Sprintf("/-- `%s`: NOT TRANSLATED (%s) -/\ndef %s : Untranslatable :=\n  ⟨%q⟩\n", t.Func, oneLine(te.msg), t.Lean, oneLine(te.msg))
		}
	}()
	text = run(false)
	if x.needPnc {
		text = run(true)
	}
	sh := x.shape
	sh.ok = true
	sShapes[key] = sh
	return text, ""
}

func containsStr(l []string, s string) bool {
	for _, x := range l {
		if x == s {
			return true
		}
	}
	return false
}

// emitGroup: record, env, targets
func emitGroup(g *sGroup, failed *[]string, all *[]string) (out string) {
	sEnvFns, sEnvIdx = nil, map[string]int{}
	defer func() {
		// the receiver record itself cannot be built (type missing, embedded field, ...): every target of the group
		// is untranslatable
		if r := recover(); r != nil {
			msg := fmt.Sprint(r)
			if te, ok := r.(transErr); ok {
				msg = te.msg
			}
			fmt.Fprintf(os.Stderr, "gotrans: group %s not translated: %s\n", g.Recv, msg)
			out = ""
			for i := range g.Targets {
				t := &g.Targets[i]
				if !containsStr(*all, t.Lean) {
					*all = append(*all, t.Lean)
				}
				if !containsStr(*failed, t.Lean) {
					*failed = append(*failed, t.Lean)
				}
				out += fmt.Sprintf("/-- `%s`: NOT TRANSLATED (%s) -/\ndef %s : Untranslatable :=\n  ⟨%q⟩\n\n", t.Func, oneLine(msg), t.Lean, oneLine(msg))
			}
		}
	}()
	var b strings.Builder
	var bodies []string
	for i := range g.Targets {
		t := &g.Targets[i]
		text, reason := translateS(g, t)
		if reason != "" {
			*failed = append(*failed, t.Lean)
			fmt.Fprintf(os.Stderr, "gotrans: %s not translated: %s\n", t.Func, reason)
		}
		*all = append(*all, t.Lean)
		bodies = append(bodies, text)
	}
	names, gts, lts := g.recordFields()
	fmt.Fprintf(&b, "/-- `%s` (storage.go): the fields the translated methods use, from the Go declaration", g.Recv)
	fmt.Fprintf(&b, " (fields of dropped types are left out) -/\nstructure %s", g.Recv)
	for _, v := range g.recordVars() {
		b.WriteString(" (" + v + " : Type)")
	}
	b.WriteString(" where\n")
	for i := range names {
		fmt.Fprintf(&b, "  /-- `%s %s` -/\n  %s : %s\n", names[i], gts[i], names[i], lts[i])
	}
	b.WriteString("\n")
	fmt.Fprintf(&b, "/-- what the methods of `%s` call and gotrans does not translate: interface methods, package functions -/\n", g.Recv)
	fmt.Fprintf(&b, "structure %s_Env", g.Recv)
	for _, v := range g.TypeVars {
		b.WriteString(" (" + v + " : Type)")
	}
	b.WriteString(" where\n")
	fns := append([]envFn{}, sEnvFns...)
	sort.Slice(fns, func(i, j int) bool { return fns[i].name < fns[j].name })
	for _, f := range fns {
		fmt.Fprintf(&b, "  /-- %s -/\n  %s : %s\n", f.doc, f.name, f.typ)
	}
	if len(fns) == 0 {
		b.WriteString("  unit : Unit := ()\n")
	}
	b.WriteString("\nsection\nvariable")
	for _, v := range g.TypeVars {
		b.WriteString(" {" + v + "}")
	}
	b.WriteString(" : Type}\n\n")
	s := b.String()
	// `variable {σ} {β} : Type}` is not Lean: write it properly
	s = strings.Replace(s, "variable"+func() string {
		o := ""
		for _, v := range g.TypeVars {
			o += " {" + v + "}"
		}
		return o
	}()+" : Type}", "variable {"+strings.Join(g.TypeVars, " ")+" : Type}", 1)
	return s + strings.Join(bodies, "\n") + "\nend\n\n"
}
